package main

// C13 — keep-alive detects a silent peer and only a silent peer.
//
// Families
//   out  : mqtt.KeepAlive with a scripted Client, scripts over the five outcomes the property names
//   env  : the same with arbitrary Ping behaviours / cancellation points / degenerate settings
//   base : mqtt.KeepAlive with a real BaseClient over memConn and a scripted broker
//   sys  : the real ReconnectClient over an in-memory Dialer and a scripted broker
// Scheduling is done with gates only (the scripted Ping / the broker's onWrite run on the
// library's goroutine); time is compared as lower bounds only.

import (
	"context"
	"errors"
	"fmt"
	"math/rand"
	"sort"
	"strings"
	"sync"
	"sync/atomic"
	"time"

	mqtt "github.com/at-wat/mqtt-go"
)

func init() { register("C13", runC13) }

const (
	c13Stuck  = 10 * time.Second // nothing happened: recorded as the observation "stuck"
	c13LongTO = 30 * time.Second // per-ping timeout where no timeout must occur
	c13SysTO  = 20 * time.Second // waits in system scenarios
)

// ---------------------------------------------------------------- contexts

// c13Ctx is a context the scenario ends at a gate with a chosen error.
type c13Ctx struct {
	mu   sync.Mutex
	done chan struct{}
	err  error
}

func newC13Ctx() *c13Ctx                            { return &c13Ctx{done: make(chan struct{})} }
func (c *c13Ctx) Deadline() (time.Time, bool)       { return time.Time{}, false }
func (c *c13Ctx) Done() <-chan struct{}             { return c.done }
func (c *c13Ctx) Value(key interface{}) interface{} { return nil }
func (c *c13Ctx) Err() error                        { c.mu.Lock(); defer c.mu.Unlock(); return c.err }
func (c *c13Ctx) end(err error) {
	c.mu.Lock()
	if c.err == nil {
		c.err = err
		close(c.done)
	}
	c.mu.Unlock()
}

type c13Parent struct {
	ctx context.Context
	end func(kind int) // 1 = context.Canceled, 2 = context.DeadlineExceeded
}

func c13NewParent(custom bool) *c13Parent {
	if custom {
		c := newC13Ctx()
		return &c13Parent{ctx: c, end: func(kind int) {
			if kind == 2 {
				c.end(context.DeadlineExceeded)
			} else {
				c.end(context.Canceled)
			}
		}}
	}
	ctx, cancel := context.WithCancel(context.Background())
	return &c13Parent{ctx: ctx, end: func(int) { cancel() }}
}

// ---------------------------------------------------------------- scripted ping errors

var c13Own = map[int]error{
	1: errors.New("c13: boom"),
	2: fmt.Errorf("c13: lost: %w", mqtt.ErrClosedTransport),
	3: fmt.Errorf("c13: some other context: %w", context.DeadlineExceeded),
	4: fmt.Errorf("c13: some other context: %w", context.Canceled),
	6: errCut,
	7: errClosedConn,
}

// c13Class maps KeepAlive's return value to the Coq constructor and a readable form.
func c13Class(err error) (string, string) {
	if err == nil {
		return "INil", "nil"
	}
	to := errors.Is(err, mqtt.ErrPingTimeout)
	ca := errors.Is(err, context.Canceled)
	dl := errors.Is(err, context.DeadlineExceeded)
	own := 0
	var tags []int
	for t := range c13Own {
		tags = append(tags, t)
	}
	sort.Ints(tags)
	for _, t := range tags {
		if errors.Is(err, c13Own[t]) {
			own = t
			break
		}
	}
	var d []string
	if to {
		d = append(d, "ErrPingTimeout")
	}
	if ca {
		d = append(d, "context.Canceled")
	}
	if dl {
		d = append(d, "context.DeadlineExceeded")
	}
	if own != 0 {
		d = append(d, fmt.Sprintf("ping-error#%d", own))
	}
	if len(d) == 0 {
		d = append(d, "other:"+err.Error())
	}
	return fmt.Sprintf("IErr %s %s %s %s", cBool(to), cBool(ca), cBool(dl), cOpt(own != 0, cN(uint64(own)))), strings.Join(d, "+")
}

// ---------------------------------------------------------------- scripts

// c13Step is one loop iteration's environment (ping_env in KeepAlive.v).
type c13Step struct {
	Before int // parent ends before this ping starts: 0 no, 1 Canceled, 2 DeadlineExceeded
	Beh    int // 0: return after D (Ret = 0 nil, else error tag); 1: block until the context is done, then return tag Ret (0: ctx.Err())
	D      int // microseconds
	Ret    int
	During int  // parent ends while this ping is in flight
	Async  bool // (Beh 1, During 0 only) Before is issued from another goroutine at a random moment of the tick wait
}

func (s c13Step) code() string {
	return fmt.Sprintf("(%d,%d,%d,%d,%d)", s.Before, s.Beh, s.D, s.Ret, s.During)
}

func c13Kind(k int) string {
	if k == 1 {
		return "Canceled"
	}
	return "DeadlineExceeded"
}

func (s c13Step) desc() string {
	var p []string
	if s.Before != 0 {
		a := ""
		if s.Async {
			a = "(async)"
		}
		p = append(p, "parent-"+c13Kind(s.Before)+"-before"+a)
	}
	switch {
	case s.Beh == 0 && s.Ret == 0:
		p = append(p, fmt.Sprintf("answered(%dus)", s.D))
	case s.Beh == 0:
		p = append(p, fmt.Sprintf("fails(#%d,%dus)", s.Ret, s.D))
	case s.Ret == 0:
		p = append(p, "never-answered")
	default:
		p = append(p, fmt.Sprintf("never-answered(returns #%d)", s.Ret))
	}
	if s.During != 0 {
		p = append(p, "parent-"+c13Kind(s.During)+"-during")
	}
	return strings.Join(p, ",")
}

// c13Out is one of the five outcomes (ping_outcome in KeepAlive.v).
type c13Out struct {
	Kind int // 0 Answered(Arg us) 1 Never 2 FailsNow(Arg) 3 ParentCancelledBefore(Arg) 4 ParentCancelledDuring(Arg)
	Arg  int
}

func (o c13Out) code() string { return fmt.Sprintf("(%d,%d)", o.Kind, o.Arg) }

func (o c13Out) desc() string {
	switch o.Kind {
	case 0:
		return fmt.Sprintf("Answered(%dus)", o.Arg)
	case 1:
		return "Never"
	case 2:
		return fmt.Sprintf("FailsNow(#%d)", o.Arg)
	case 3:
		return "ParentCancelledBefore(" + c13Kind(o.Arg) + ")"
	}
	return "ParentCancelledDuring(" + c13Kind(o.Arg) + ")"
}

// step: the Go mirror of env_of.
func (o c13Out) step() c13Step {
	switch o.Kind {
	case 0:
		return c13Step{D: o.Arg}
	case 1:
		return c13Step{Beh: 1}
	case 2:
		return c13Step{Ret: o.Arg}
	case 3:
		return c13Step{Before: o.Arg, Beh: 1}
	}
	return c13Step{Beh: 1, During: o.Arg}
}

// c13EndsInTimeout: does the script end with a ping that is never answered while the parent
// context is alive?  Only used to choose the timeout setting (short where the timeout has to
// expire, very long where it must not), never to judge.
func c13EndsInTimeout(script []c13Step) bool {
	cancelled := false
	for _, s := range script {
		if s.Before != 0 || s.During != 0 {
			cancelled = true
		}
		if s.Beh == 1 {
			return !cancelled
		}
		if s.Ret != 0 {
			return false
		}
	}
	return false
}

func c13NeedsCustom(script []c13Step) bool {
	for _, s := range script {
		if s.Before == 2 || s.During == 2 {
			return true
		}
	}
	return false
}

// ---------------------------------------------------------------- observation

type c13Obs struct {
	Res     string  `json:"-"`
	ResDesc string  `json:"result"`
	Starts  []int64 `json:"ping_start_us"`
	Elapsed int64   `json:"elapsed_us"`
}

func (o c13Obs) coq() string {
	var st []string
	for _, s := range o.Starts {
		st = append(st, fmt.Sprint(s))
	}
	return fmt.Sprintf("(mk_iobs (%s) %s %d)", o.Res, cListInline(st), o.Elapsed)
}

// ---------------------------------------------------------------- scripted Client

type c13Fake struct {
	mqtt.Client // nil: KeepAlive only calls Ping
	script      []c13Step
	par         *c13Parent
	interval    time.Duration
	rnd         *rand.Rand
	t0          time.Time
	abort       chan struct{}
	wg          sync.WaitGroup

	mu      sync.Mutex
	starts  []int64
	extra   bool
	extraAt int64
}

func (f *c13Fake) issueBefore(i int) {
	if i >= len(f.script) || f.script[i].Before == 0 {
		return
	}
	kind := f.script[i].Before
	if f.script[i].Async && f.script[i].Beh == 1 {
		d := time.Duration(f.rnd.Int63n(int64(f.interval)*3/2 + 1))
		f.wg.Add(1)
		go func() {
			defer f.wg.Done()
			time.Sleep(d)
			f.par.end(kind)
		}()
		return
	}
	f.par.end(kind)
}

func (f *c13Fake) Ping(ctx context.Context) error {
	now := time.Since(f.t0).Microseconds()
	f.mu.Lock()
	i := len(f.starts)
	if i >= len(f.script) {
		if !f.extra {
			f.extra = true
			f.extraAt = now
		}
		f.mu.Unlock()
		f.par.end(1) // script over: the loop was still running; stop it
		return errors.New("c13: end of script")
	}
	f.starts = append(f.starts, now)
	f.mu.Unlock()
	st := f.script[i]
	if st.Beh == 0 {
		if st.D > 0 {
			time.Sleep(time.Duration(st.D) * time.Microsecond)
		}
		if st.During != 0 {
			f.par.end(st.During)
		}
		if st.Ret == 0 {
			f.issueBefore(i + 1) // on the loop's goroutine, strictly before the next tick wait
			return nil
		}
		return c13Own[st.Ret]
	}
	if st.During != 0 {
		f.par.end(st.During)
	}
	select {
	case <-ctx.Done():
	case <-f.abort:
		return errors.New("c13: aborted")
	}
	if st.Ret == 0 {
		return ctx.Err()
	}
	return c13Own[st.Ret]
}

// c13RunFake runs mqtt.KeepAlive against the script. interval/timeout may be <= 0.
func c13RunFake(interval, timeout time.Duration, script []c13Step, custom bool, seed int64) c13Obs {
	par := c13NewParent(custom || c13NeedsCustom(script))
	f := &c13Fake{script: script, par: par, interval: interval, rnd: rand.New(rand.NewSource(seed)), abort: make(chan struct{})}
	if f.interval <= 0 {
		f.interval = time.Millisecond
	}
	type ret struct {
		err      error
		panicked bool
		at       int64
	}
	ch := make(chan ret, 1)
	f.t0 = time.Now()
	f.issueBefore(0)
	go func() {
		var r ret
		defer func() {
			if p := recover(); p != nil {
				r.panicked = true
			}
			r.at = time.Since(f.t0).Microseconds()
			ch <- r
		}()
		r.err = mqtt.KeepAlive(par.ctx, f, interval, timeout)
	}()
	var r ret
	stuck := false
	select {
	case r = <-ch:
	case <-time.After(c13Stuck + time.Duration(len(script))*50*time.Millisecond):
		stuck = true
		close(f.abort)
		par.end(1)
		select {
		case <-ch:
		case <-time.After(2 * time.Second):
		}
	}
	par.end(1)
	f.wg.Wait()
	f.mu.Lock()
	defer f.mu.Unlock()
	o := c13Obs{Starts: append([]int64{}, f.starts...), Elapsed: r.at}
	switch {
	case stuck:
		o.Res, o.ResDesc, o.Elapsed = "IStuck", "stuck", c13Stuck.Microseconds()
	case r.panicked:
		o.Res, o.ResDesc = "IPanic", "panic"
	case f.extra:
		o.Res, o.ResDesc, o.Elapsed = "IRunning", "still-running", f.extraAt
	default:
		o.Res, o.ResDesc = c13Class(r.err)
	}
	return o
}

// ---------------------------------------------------------------- real BaseClient, scripted broker

func c13RunBase(interval, timeout time.Duration, script []c13Out, custom bool) (c13Obs, error) {
	needCustom := custom
	for _, o := range script {
		if o.Kind >= 3 && o.Arg == 2 {
			needCustom = true
		}
	}
	par := c13NewParent(needCustom)
	var mu sync.Mutex
	var starts []int64
	extra := false
	var extraAt int64
	var t0 time.Time
	started := false
	conn := newMemConn(1, func(c *memConn, pkt []byte) error {
		switch pkt[0] & 0xF0 {
		case 0x10:
			c.send(connackOK)
			return nil
		case 0xC0:
			mu.Lock()
			if !started {
				mu.Unlock()
				return nil
			}
			now := time.Since(t0).Microseconds()
			i := len(starts)
			if i >= len(script) {
				if !extra {
					extra, extraAt = true, now
				}
				mu.Unlock()
				par.end(1)
				return nil
			}
			starts = append(starts, now)
			mu.Unlock()
			o := script[i]
			switch o.Kind {
			case 0:
				if o.Arg > 0 {
					time.Sleep(time.Duration(o.Arg) * time.Microsecond)
				}
				c.send([]byte{0xD0, 0})
			case 1, 3:
				// silent
			case 2:
				if o.Arg == 6 {
					c.Close()
					return errCut
				}
			case 4:
				par.end(o.Arg)
			}
		}
		return nil
	})
	cli := &mqtt.BaseClient{Transport: conn}
	ctxC, cancelC := ctxTimeout(10 * time.Second)
	defer cancelC()
	if _, err := cli.Connect(ctxC, "c13"); err != nil {
		return c13Obs{}, fmt.Errorf("c13 base: connect: %v", err)
	}
	if len(script) > 0 && script[0].Kind == 3 {
		par.end(script[0].Arg)
	}
	if len(script) > 0 && script[0].Kind == 2 && script[0].Arg == 7 {
		conn.Close() // the peer has dropped the connection before the first ping
		select {
		case <-cli.Done():
		case <-time.After(c13Stuck):
			return c13Obs{}, fmt.Errorf("c13 base: reader did not end after close")
		}
	}
	type ret struct {
		err      error
		panicked bool
		at       int64
	}
	ch := make(chan ret, 1)
	mu.Lock()
	t0 = time.Now()
	started = true
	mu.Unlock()
	go func() {
		var r ret
		defer func() {
			if p := recover(); p != nil {
				r.panicked = true
			}
			r.at = time.Since(t0).Microseconds()
			ch <- r
		}()
		r.err = mqtt.KeepAlive(par.ctx, cli, interval, timeout)
	}()
	var r ret
	stuck := false
	select {
	case r = <-ch:
	case <-time.After(c13Stuck):
		stuck = true
		par.end(1)
		cli.Close()
		select {
		case <-ch:
		case <-time.After(2 * time.Second):
		}
	}
	par.end(1)
	cli.Close()
	mu.Lock()
	defer mu.Unlock()
	o := c13Obs{Starts: append([]int64{}, starts...), Elapsed: r.at}
	switch {
	case stuck:
		o.Res, o.ResDesc, o.Elapsed = "IStuck", "stuck", c13Stuck.Microseconds()
	case r.panicked:
		o.Res, o.ResDesc = "IPanic", "panic"
	case extra:
		o.Res, o.ResDesc, o.Elapsed = "IRunning", "still-running", extraAt
	default:
		o.Res, o.ResDesc = c13Class(r.err)
	}
	return o, nil
}

// ---------------------------------------------------------------- real BaseClient, surplus PINGRESPs

// c13WireConn: a memConn whose peer can tell when the reader has consumed and dispatched everything
// it sent (memConn.waitReaderIdle: nothing queued and the reader blocked in Read, decided under the
// transport's own lock, so there is no window in which queued bytes look "already handled").
type c13WireConn struct {
	*memConn
}

func (t *c13WireConn) waitIdle() bool { return t.memConn.waitReaderIdle(c13Stuck) }

// inject sends one PINGRESP while nobody waits for one and returns when the reader has dispatched it.
func (t *c13WireConn) inject() bool {
	if !t.waitIdle() {
		return false
	}
	t.send([]byte{0xD0, 0})
	return t.waitIdle()
}

// c13WireCli is the Client handed to KeepAlive: BaseClient.Ping, and between two pings (after
// one returned, before the loop waits for the next tick) the peer's unsolicited PINGRESPs.
type c13WireCli struct {
	mqtt.Client
	base *mqtt.BaseClient
	conn *c13WireConn
	urs  [][4]int
	n    int
}

func (w *c13WireCli) Ping(ctx context.Context) error {
	err := w.base.Ping(ctx)
	w.n++
	if err == nil {
		w.conn.waitIdle() // duplicates sent with the answer have been dispatched too
		if w.n < len(w.urs) {
			for i := 0; i < w.urs[w.n][0]; i++ {
				w.conn.inject()
			}
		}
	}
	return err
}

// c13OtherPackets: everything a broker may send except PINGRESP: PUBLISH QoS 0/1/2, PUBREL for the
// QoS 2 one, and stray PUBACK / PUBREC / PUBCOMP / SUBACK / UNSUBACK.
func c13OtherPackets() []byte {
	var b []byte
	b = append(b, encPublish(inMsg{Topic: []byte("t"), QoS: 0, Payload: []byte("x")})...)
	b = append(b, encPublish(inMsg{Topic: []byte("t"), QoS: 1, ID: 11, Payload: []byte("y")})...)
	b = append(b, encPublish(inMsg{Topic: []byte("t"), QoS: 2, ID: 12, Payload: []byte("z")})...)
	b = append(b, encID(0x62, 12)...)
	b = append(b, encID(0x40, 900)...)
	b = append(b, encID(0x50, 901)...)
	b = append(b, encID(0x70, 902)...)
	b = append(b, 0x90, 3, 0x03, 0x87, 0x00)
	b = append(b, encID(0xB0, 904)...)
	return b
}

// c13RunWire: per ping j, urs[j] = (unsolicited PINGRESPs before its PINGREQ, PINGRESPs consumed by the
// reader before the write of the PINGREQ returns, PINGRESPs queued after that).
func c13RunWire(interval, timeout time.Duration, urs [][4]int) (c13Obs, error) {
	par := c13NewParent(false)
	var mu sync.Mutex
	var starts []int64
	extra := false
	var extraAt int64
	var t0 time.Time
	wc := &c13WireConn{}
	wc.memConn = newMemConn(1, func(c *memConn, pkt []byte) error {
		switch pkt[0] & 0xF0 {
		case 0x10:
			c.send(connackOK)
		case 0xC0:
			mu.Lock()
			now := time.Since(t0).Microseconds()
			i := len(starts)
			if i >= len(urs) {
				if !extra {
					extra, extraAt = true, now
				}
				mu.Unlock()
				par.end(1)
				return nil
			}
			starts = append(starts, now)
			mu.Unlock()
			others := func() {
				for k := 0; k < urs[i][3]; k++ {
					c.send(c13OtherPackets()) // the peer talks, but this is no PINGRESP
				}
			}
			if urs[i][1] == 0 {
				others()
			}
			var burst []byte
			for k := 0; k < urs[i][1]; k++ {
				burst = append(burst, 0xD0, 0)
			}
			if len(burst) > 0 {
				// zero-delay peer: the reader has consumed and dispatched the answer before
				// Transport.Write of the PINGREQ returns
				c.send(burst)
				c.waitReaderIdle(2 * time.Second)
				// (not before: the reader acknowledges a QoS 1/2 PUBLISH with a write, which has to
				// wait for this Write of the PINGREQ to return)
				others()
			}
			burst = nil
			for k := 0; k < urs[i][2]; k++ {
				burst = append(burst, 0xD0, 0)
			}
			if len(burst) > 0 {
				c.send(burst)
			}
		}
		return nil
	})
	cli := &mqtt.BaseClient{Transport: wc}
	ctxC, cancelC := ctxTimeout(10 * time.Second)
	defer cancelC()
	if _, err := cli.Connect(ctxC, "c13"); err != nil {
		return c13Obs{}, fmt.Errorf("c13 wire: connect: %v", err)
	}
	w := &c13WireCli{base: cli, conn: wc, urs: urs}
	if len(urs) > 0 {
		for i := 0; i < urs[0][0]; i++ {
			wc.inject() // before any ping: there is no channel yet
		}
	}
	type ret struct {
		err      error
		panicked bool
		at       int64
	}
	ch := make(chan ret, 1)
	mu.Lock()
	t0 = time.Now()
	mu.Unlock()
	go func() {
		var r ret
		defer func() {
			if p := recover(); p != nil {
				r.panicked = true
			}
			r.at = time.Since(t0).Microseconds()
			ch <- r
		}()
		r.err = mqtt.KeepAlive(par.ctx, w, interval, timeout)
	}()
	var r ret
	stuck := false
	select {
	case r = <-ch:
	case <-time.After(c13Stuck):
		stuck = true
		par.end(1)
		cli.Close()
		select {
		case <-ch:
		case <-time.After(2 * time.Second):
		}
	}
	par.end(1)
	cli.Close()
	mu.Lock()
	defer mu.Unlock()
	o := c13Obs{Starts: append([]int64{}, starts...), Elapsed: r.at}
	switch {
	case stuck:
		o.Res, o.ResDesc, o.Elapsed = "IStuck", "stuck", c13Stuck.Microseconds()
	case r.panicked:
		o.Res, o.ResDesc = "IPanic", "panic"
	case extra:
		o.Res, o.ResDesc, o.Elapsed = "IRunning", "still-running", extraAt
	default:
		o.Res, o.ResDesc = c13Class(r.err)
	}
	return o, nil
}

// ---------------------------------------------------------------- system level

type c13Conn struct {
	*memConn
	idx  int
	base *mqtt.BaseClient
	brk  *c13Broker

	mu          sync.Mutex
	pings       int // PINGREQs received while the connection was open
	answered    int
	deadPings   int // PINGREQ write attempts after the transport was closed
	connected   bool
	connackAt   time.Time
	pingTimes   []int64 // arrival of each PINGREQ, microseconds since the CONNACK was sent
	lastAnswer  time.Time
	firstClose  time.Time
	clientClose int // Close calls by the client before the peer dropped the connection
	peerDropped bool
	hung        bool          // the peer has stopped taking bytes: writes block until the transport is closed
	others      []byte        // first byte of every packet other than CONNECT/PINGREQ attempted while open
	closedCh    chan struct{} // closed with the transport
	closeOnce   sync.Once
}

// Close is what the library calls; the peer's drop goes to memConn.Close directly.
func (c *c13Conn) Close() error {
	c.mu.Lock()
	first := false
	if !c.peerDropped {
		if c.clientClose == 0 {
			c.firstClose = time.Now()
			first = true
		}
		c.clientClose++
	}
	c.mu.Unlock()
	err := c.memConn.Close()
	c.closeOnce.Do(func() { close(c.closedCh) })
	if first {
		c.brk.emit(c13Ev{"close", c.idx})
	}
	return err
}

func (c *c13Conn) drop() {
	c.mu.Lock()
	c.peerDropped = true
	c.mu.Unlock()
	c.memConn.Close()
	c.closeOnce.Do(func() { close(c.closedCh) })
}

type c13Ev struct {
	kind string
	idx  int
}

type c13Broker struct {
	mu     sync.Mutex
	conns  []*c13Conn
	ev     chan c13Ev
	answer func(c *c13Conn, n int) bool // called with c.mu held; n = number of this PINGREQ on c
	delay  time.Duration                // the answer is sent this much later (0: inside the write)
	// round 9: the scenario itself publishes QoS 0 on the current connection (steady outbound
	// traffic); those PUBLISHes are the scenario's, not the library's reaction: not in "others"
	traffic bool
	pubs    int64 // QoS 0 PUBLISHes of the traffic generator taken by the transport (atomic)
}

// c13TrafficWait bounds the waits of the scenarios with outbound traffic (expected: interval+timeout,
// well below a second); shorter than c13SysTO so that a lost detection is reported quickly.
const c13TrafficWait = 8 * time.Second

// startTraffic publishes QoS 0 every `every` on the BaseClient of the newest connection once its
// CONNECT was seen (BaseClient.Publish waits for Connect to return), from its own goroutine, the
// way an application publishes while mqtt.KeepAlive runs on the same client.  Errors (closed
// connection) are ignored.  stop() ends it and returns the number of PUBLISHes the transports took.
func (b *c13Broker) startTraffic(every time.Duration) (stop func() int64) {
	b.mu.Lock()
	b.traffic = true
	b.mu.Unlock()
	quit, done := make(chan struct{}), make(chan struct{})
	go func() {
		defer close(done)
		tk := time.NewTicker(every)
		defer tk.Stop()
		for {
			select {
			case <-quit:
				return
			case <-tk.C:
			}
			c := b.conn(b.dials())
			if c == nil || c.isClosed() {
				continue
			}
			c.mu.Lock()
			ok := c.connected
			c.mu.Unlock()
			if !ok {
				continue
			}
			ctx, cancel := ctxTimeout(time.Second)
			c.base.Publish(ctx, &mqtt.Message{Topic: "c13/out", QoS: mqtt.QoS0, Payload: []byte{1}})
			cancel()
		}
	}()
	var once sync.Once
	return func() int64 {
		once.Do(func() { close(quit) })
		select {
		case <-done:
		case <-time.After(c13Stuck):
		}
		return atomic.LoadInt64(&b.pubs)
	}
}

func newC13Broker(answer func(c *c13Conn, n int) bool) *c13Broker {
	return &c13Broker{ev: make(chan c13Ev, 1<<16), answer: answer}
}

func (b *c13Broker) emit(e c13Ev) {
	select {
	case b.ev <- e:
	default: // never block a library goroutine
	}
}

func (b *c13Broker) dial(ctx context.Context) (*mqtt.BaseClient, error) {
	b.mu.Lock()
	sc := &c13Conn{idx: len(b.conns) + 1, brk: b, closedCh: make(chan struct{})}
	sc.memConn = newMemConn(sc.idx, func(c *memConn, pkt []byte) error { return b.onWrite(sc, pkt) })
	sc.base = &mqtt.BaseClient{Transport: sc}
	b.conns = append(b.conns, sc)
	b.mu.Unlock()
	b.emit(c13Ev{"dial", sc.idx})
	return sc.base, nil
}

func (b *c13Broker) onWrite(sc *c13Conn, pkt []byte) error {
	if !sc.isClosed() {
		sc.mu.Lock()
		hung := sc.hung
		if b.traffic && pkt[0] == 0x30 {
			atomic.AddInt64(&b.pubs, 1)
		} else if t := pkt[0] & 0xF0; t != 0x10 && t != 0xC0 && t != 0x40 && t != 0x50 && t != 0x70 {
			sc.others = append(sc.others, pkt[0]) // (acks of the peer's own PUBLISHes are not counted)
		}
		sc.mu.Unlock()
		if hung {
			// net.Pipe-like: the bytes are never taken; Write returns when the transport is closed
			// locally (watchdog: the scenario closes it at its end)
			select {
			case <-sc.closedCh:
			case <-time.After(2 * c13SysTO):
			}
			return errClosedConn
		}
	}
	switch pkt[0] & 0xF0 {
	case 0x10:
		sc.mu.Lock()
		sc.connected = true
		sc.lastAnswer = time.Now()
		sc.connackAt = sc.lastAnswer
		sc.mu.Unlock()
		sc.send(connackOK)
		b.emit(c13Ev{"connect", sc.idx})
	case 0xC0:
		if sc.isClosed() {
			sc.mu.Lock()
			sc.deadPings++
			sc.mu.Unlock()
			b.emit(c13Ev{"deadping", sc.idx})
			return nil
		}
		sc.mu.Lock()
		sc.pings++
		sc.pingTimes = append(sc.pingTimes, time.Since(sc.connackAt).Microseconds())
		if b.answer(sc, sc.pings) {
			if b.delay > 0 {
				time.AfterFunc(b.delay, func() { // a slow but living peer
					sc.mu.Lock()
					sc.answered++
					sc.lastAnswer = time.Now()
					sc.mu.Unlock()
					sc.send([]byte{0xD0, 0})
					b.emit(c13Ev{"answer", sc.idx})
				})
			} else {
				sc.answered++
				sc.lastAnswer = time.Now()
				sc.send([]byte{0xD0, 0})
			}
		}
		sc.mu.Unlock()
		b.emit(c13Ev{"ping", sc.idx})
	}
	return nil
}

func (b *c13Broker) conn(idx int) *c13Conn {
	b.mu.Lock()
	defer b.mu.Unlock()
	if idx >= 1 && idx <= len(b.conns) {
		return b.conns[idx-1]
	}
	return nil
}

func (b *c13Broker) dials() int {
	b.mu.Lock()
	defer b.mu.Unlock()
	return len(b.conns)
}

// waitEv consumes events until pred() holds or the deadline passes.
func (b *c13Broker) waitEv(d time.Duration, pred func() bool) bool {
	deadline := time.After(d)
	for {
		if pred() {
			return true
		}
		select {
		case <-b.ev:
		case <-deadline:
			return pred()
		case <-time.After(50 * time.Millisecond): // events may have been dropped; re-evaluate
		}
	}
}

func c13NewReconn(b *c13Broker, interval, timeout time.Duration) (mqtt.ReconnectClient, error) {
	return mqtt.NewReconnectClient(mqtt.DialerFunc(b.dial),
		mqtt.WithPingInterval(interval), mqtt.WithTimeout(timeout),
		mqtt.WithReconnectWait(time.Millisecond, 4*time.Millisecond))
}

func c13ErrOf(base *mqtt.BaseClient) (string, string) { return c13Class(base.Err()) }

type c13SysRes struct {
	Coq  string
	Desc map[string]interface{}
}

// the broker answers k pings of a connection, then stays silent
// cancelAfter >= 0: the caller cancels the context it passed to Connect once that many PINGREQs
// were seen (0: right after Connect returned); -1: it keeps it for the whole scenario.
// hung: after the unanswered PINGREQ the peer does not take any byte either.
// talk: mute to pings only: every unanswered PINGREQ is followed by PUBLISHes, PUBREL and stray acks.
func c13SysSilent(interval, timeout time.Duration, k, cancelAfter int, hung, talk bool) (c13SysRes, error) {
	return c13SysSilentT(interval, timeout, k, cancelAfter, hung, talk, 0)
}

// traffic > 0: the application publishes QoS 0 every `traffic` on the connection meanwhile (the
// peer takes the bytes and says nothing); judged exactly like the idle case.
func c13SysSilentT(interval, timeout time.Duration, k, cancelAfter int, hung, talk bool, traffic time.Duration) (c13SysRes, error) {
	victim := 0
	b := newC13Broker(nil)
	wait := c13SysTO
	stopTraffic := func() int64 { return 0 }
	if traffic > 0 {
		wait = c13TrafficWait
		stopTraffic = b.startTraffic(traffic)
		defer stopTraffic()
	}
	b.answer = func(c *c13Conn, n int) bool {
		if victim != 0 && c.idx != victim {
			return true // later connections are healthy
		}
		if n <= k {
			return true
		}
		if victim == 0 {
			victim = c.idx
		}
		if hung && c.idx == victim {
			c.hung = true // c.mu is held by the caller
		}
		if talk && c.idx == victim {
			c.send(c13OtherPackets())
		}
		return false
	}
	// victim is written under some c.mu and read below under b.mu only after events; guard it
	var vmu sync.Mutex
	inner := b.answer
	b.answer = func(c *c13Conn, n int) bool { vmu.Lock(); defer vmu.Unlock(); return inner(c, n) }
	getVictim := func() int { vmu.Lock(); defer vmu.Unlock(); return victim }

	cli, err := c13NewReconn(b, interval, timeout)
	if err != nil {
		return c13SysRes{}, err
	}
	ctx, cancel := ctxTimeout(c13SysTO)
	defer cancel()
	if _, err := cli.Connect(ctx, "c13"); err != nil {
		return c13SysRes{}, fmt.Errorf("c13 sys: first connect: %v", err)
	}
	if cancelAfter >= 0 {
		if cancelAfter > 0 {
			b.waitEv(c13SysTO, func() bool {
				total := 0
				for i := 1; i <= b.dials(); i++ {
					c := b.conn(i)
					c.mu.Lock()
					total += c.pings
					c.mu.Unlock()
				}
				return total >= cancelAfter
			})
		}
		cancel() // the usual "defer cancel()" of the caller, Connect has returned long ago
	}
	found := b.waitEv(wait, func() bool { return getVictim() != 0 })
	v := getVictim()
	if !found {
		v = 1
	}
	vc := b.conn(v)
	closed := found && b.waitEv(c13SysTO, func() bool { vc.mu.Lock(); defer vc.mu.Unlock(); return vc.clientClose > 0 })
	redialed := closed && b.waitEv(c13SysTO, func() bool { return b.dials() > v })
	connected := redialed && b.waitEv(c13SysTO, func() bool {
		for i := v + 1; i <= b.dials(); i++ {
			c := b.conn(i)
			c.mu.Lock()
			ok := c.connected
			c.mu.Unlock()
			if ok {
				return true
			}
		}
		return false
	})
	if closed {
		select {
		case <-vc.base.Done():
		case <-time.After(c13Stuck):
		}
	}
	vc.mu.Lock()
	pings := vc.pings
	others := append([]byte{}, vc.others...)
	gap := int64(0)
	if closed {
		gap = vc.firstClose.Sub(vc.lastAnswer).Microseconds()
	}
	vc.mu.Unlock()
	errCoq, errDesc := c13ErrOf(vc.base)
	vc.drop() // releases a writer still blocked on a hung peer
	npubs := stopTraffic()
	ctxD, cancelD := ctxTimeout(5 * time.Second)
	cli.Disconnect(ctxD)
	cancelD()
	return c13SysRes{
		Coq: fmt.Sprintf("SysSilent %d %d %s %s %s %s %s %s %s %s %s (%s) %d", interval.Microseconds(), timeout.Microseconds(),
			cNat(k), cOpt(cancelAfter >= 0, cNat(cancelAfter)), cBool(hung), cBool(talk), cNat(len(others)), cNat(pings), cBool(closed), cBool(redialed), cBool(connected), errCoq, gap),
		Desc: map[string]interface{}{"scenario": "broker answers k pings then stays silent", "k": k,
			"caller_cancels_connect_context_after_pings": cancelAfter, "peer_also_stops_reading": hung, "peer_mute_to_pings_but_sends_other_packets": talk,
			"other_packets_attempted_on_it_while_open": fmt.Sprintf("%x", others),
			"interval_us": interval.Microseconds(), "timeout_us": timeout.Microseconds(), "silent_connection": v,
			"pingreqs_on_it": pings, "client_closed_it": closed, "redialed": redialed, "fresh_connect": connected,
			"its_Err": errDesc, "close_minus_last_answer_us": gap,
			"app_publishes_qos0_meanwhile_every_us": traffic.Microseconds(), "app_publishes_taken_by_transport": npubs},
	}, nil
}

// the broker answers every ping; then a graceful Disconnect
func c13SysHealthy(interval, timeout, soak time.Duration) (c13SysRes, error) {
	return c13SysHealthyT(interval, timeout, soak, 0)
}

// traffic > 0: the application publishes QoS 0 every `traffic` meanwhile; judged like the idle case
func c13SysHealthyT(interval, timeout, soak, traffic time.Duration) (c13SysRes, error) {
	b := newC13Broker(func(c *c13Conn, n int) bool { return true })
	wait := c13SysTO
	stopTraffic := func() int64 { return 0 }
	if traffic > 0 {
		wait = c13TrafficWait
		stopTraffic = b.startTraffic(traffic)
		defer stopTraffic()
	}
	cli, err := c13NewReconn(b, interval, timeout)
	if err != nil {
		return c13SysRes{}, err
	}
	ctx, cancel := ctxTimeout(c13SysTO)
	defer cancel()
	t0 := time.Now()
	if _, err := cli.Connect(ctx, "c13"); err != nil {
		return c13SysRes{}, fmt.Errorf("c13 sys: first connect: %v", err)
	}
	c1 := b.conn(1)
	pingsOf := func(c *c13Conn) int { c.mu.Lock(); defer c.mu.Unlock(); return c.pings }
	time.Sleep(soak) // a soak: the property is that nothing happens to the connection meanwhile
	b.waitEv(wait, func() bool { return pingsOf(c1) >= 3 || b.dials() > 1 })
	pings := pingsOf(c1)
	elapsed := time.Since(t0).Microseconds()
	dials := b.dials()
	c1.mu.Lock()
	closes := c1.clientClose
	c1.mu.Unlock()
	errCoq, errDesc := c13ErrOf(c1.base)
	npubs := stopTraffic()
	ctxD, cancelD := ctxTimeout(5 * time.Second)
	cli.Disconnect(ctxD)
	cancelD()
	// the stopped keep-alive wakes up at its next tick and pings the dead connection once
	// (visible as a write attempt); give its reaction a moment, then look at Err() again
	b.waitEv(10*interval+500*time.Millisecond, func() bool { c1.mu.Lock(); defer c1.mu.Unlock(); return c1.deadPings > 0 })
	time.Sleep(30 * time.Millisecond)
	aftCoq, aftDesc := c13ErrOf(c1.base)
	return c13SysRes{
		Coq: fmt.Sprintf("SysHealthy %d %d %s %d %s %s (%s) (%s)", interval.Microseconds(), timeout.Microseconds(),
			cNat(pings), elapsed, cNat(dials), cNat(closes), errCoq, aftCoq),
		Desc: map[string]interface{}{"scenario": "broker answers every ping, soak, graceful Disconnect",
			"interval_us": interval.Microseconds(), "timeout_us": timeout.Microseconds(), "soak_us": soak.Microseconds(),
			"pingreqs": pings, "elapsed_us": elapsed, "dials": dials, "closes_by_client_before_disconnect": closes,
			"Err": errDesc, "Err_after_disconnect": aftDesc,
			"app_publishes_qos0_meanwhile_every_us": traffic.Microseconds(), "app_publishes_taken_by_transport": npubs},
	}, nil
}

// the peer drops connection 1 between two pings; connection 2 is healthy
func c13SysDrop(interval, timeout time.Duration, k int) (c13SysRes, error) {
	b := newC13Broker(func(c *c13Conn, n int) bool { return true })
	cli, err := c13NewReconn(b, interval, timeout)
	if err != nil {
		return c13SysRes{}, err
	}
	ctx, cancel := ctxTimeout(c13SysTO)
	defer cancel()
	if _, err := cli.Connect(ctx, "c13"); err != nil {
		return c13SysRes{}, fmt.Errorf("c13 sys: first connect: %v", err)
	}
	c1 := b.conn(1)
	if k > 0 {
		// wait until the client has completed a ping on connection 1 (its keep-alive is then
		// waiting for the next tick)
		deadline := time.Now().Add(c13SysTO)
		for c1.base.Stats().PingDelayRecent == 0 && time.Now().Before(deadline) {
			time.Sleep(200 * time.Microsecond)
		}
	}
	c1.mu.Lock()
	kAct := c1.answered
	c1.mu.Unlock()
	c1.drop()
	got2 := b.waitEv(c13SysTO, func() bool {
		c := b.conn(2)
		if c == nil {
			return false
		}
		c.mu.Lock()
		defer c.mu.Unlock()
		return c.connected
	})
	closed2 := false
	pings2 := 0
	err2Coq, err2Desc := "IStuck", "no second connection"
	if got2 {
		c2 := b.conn(2)
		t2 := time.Now()
		b.waitEv(c13SysTO, func() bool {
			c2.mu.Lock()
			defer c2.mu.Unlock()
			return c2.clientClose > 0 || (c2.pings >= 3 && time.Since(t2) >= 4*interval)
		})
		if b.dials() > 2 || func() bool { c2.mu.Lock(); defer c2.mu.Unlock(); return c2.clientClose > 0 }() {
			// give the reader a moment so that Err() is what the connection ended with
			select {
			case <-c2.base.Done():
			case <-time.After(2 * time.Second):
			}
		}
		c2.mu.Lock()
		closed2 = c2.clientClose > 0
		pings2 = c2.pings
		c2.mu.Unlock()
		err2Coq, err2Desc = c13ErrOf(c2.base)
	}
	dials := b.dials()
	c1.mu.Lock()
	dead1 := c1.deadPings
	c1.mu.Unlock()
	ctxD, cancelD := ctxTimeout(5 * time.Second)
	cli.Disconnect(ctxD)
	cancelD()
	return c13SysRes{
		Coq: fmt.Sprintf("SysDrop %d %d %s %s %s (%s) %s", interval.Microseconds(), timeout.Microseconds(),
			cNat(kAct), cNat(dials), cBool(closed2), err2Coq, cNat(pings2)),
		Desc: map[string]interface{}{"scenario": "peer drops connection 1 between two pings; connection 2 answers every ping",
			"interval_us": interval.Microseconds(), "timeout_us": timeout.Microseconds(), "answered_on_conn1": kAct,
			"dials": dials, "client_closed_conn2": closed2, "conn2_Err": err2Desc, "pingreqs_on_conn2": pings2,
			"stale_ping_attempts_on_conn1": dead1},
	}, nil
}

// PingInterval and Timeout differ; the broker answers every PINGREQ after [delay] (< timeout).
// The scenario ends when [need] pings were answered, or the client closed / replaced the
// connection, or [limit] passed; a miss is believed only if [tries] serial tries miss.
// rt = RetryClient.ResponseTimeout (0: none); the keep-alive must not depend on it.
func c13SysPeer(interval, timeout, delay, rt time.Duration, need int, limit time.Duration, tries int) (c13SysRes, error) {
	var res c13SysRes
	for try := 1; try <= tries; try++ {
		b := newC13Broker(func(c *c13Conn, n int) bool { return true })
		b.delay = delay
		cli, err := mqtt.NewReconnectClient(mqtt.DialerFunc(b.dial),
			mqtt.WithPingInterval(interval), mqtt.WithTimeout(timeout),
			mqtt.WithReconnectWait(time.Millisecond, 4*time.Millisecond),
			mqtt.WithRetryClient(&mqtt.RetryClient{ResponseTimeout: rt}))
		if err != nil {
			return c13SysRes{}, err
		}
		ctx, cancel := ctxTimeout(c13SysTO)
		if _, err := cli.Connect(ctx, "c13"); err != nil {
			cancel()
			return c13SysRes{}, fmt.Errorf("c13 sys: first connect: %v", err)
		}
		c1 := b.conn(b.dials())
		first := c1.idx
		b.waitEv(limit, func() bool {
			c1.mu.Lock()
			defer c1.mu.Unlock()
			return c1.answered >= need || c1.clientClose > 0 || b.dials() > first
		})
		c1.mu.Lock()
		answered, closes := c1.answered, c1.clientClose
		times := append([]int64{}, c1.pingTimes...)
		c1.mu.Unlock()
		dials := b.dials() - first + 1
		if closes > 0 {
			select {
			case <-c1.base.Done():
			case <-time.After(2 * time.Second):
			}
		}
		errCoq, errDesc := c13ErrOf(c1.base)
		ctxD, cancelD := ctxTimeout(5 * time.Second)
		cli.Disconnect(ctxD)
		cancelD()
		cancel()
		var ts []string
		for _, t := range times {
			ts = append(ts, fmt.Sprint(t))
		}
		res = c13SysRes{
			Coq: fmt.Sprintf("SysPeer %d %d %d %d %s %s %s %s (%s) %s", interval.Microseconds(), timeout.Microseconds(), delay.Microseconds(), rt.Microseconds(),
				cNat(need), cNat(answered), cNat(dials), cNat(closes), errCoq, cListInline(ts)),
			Desc: map[string]interface{}{"scenario": "PingInterval != Timeout; broker answers every PINGREQ after a delay below the timeout",
				"interval_us": interval.Microseconds(), "timeout_us": timeout.Microseconds(), "answer_delay_us": delay.Microseconds(),
				"RetryClient_ResponseTimeout_us": rt.Microseconds(), "answered_pings_needed": need, "within": limit.String(), "try": try, "answered": answered, "dials": dials,
				"closes_by_client": closes, "Err": errDesc, "pingreq_times_since_connack_us": times},
		}
		if answered >= need && dials == 1 && closes == 0 {
			break
		}
	}
	return res, nil
}

// Option-presence sweep: CONNECT keep-alive kaSec (0: option not given), WithPingInterval p,
// WithTimeout t (0: not given).  Healthy broker: ends when [need] pings were answered or the
// connection was closed/replaced.  Silent broker (never answers a PINGREQ): ends at the first
// Close by the client + redial, or when limit = expected detection + slack + 1 s passed.
// expI/expT are only used to size the waits; the judgement is made in Coq from ka/p/t.
func c13SysOpts(kaSec int, p, t time.Duration, silent bool, need int, slack time.Duration, tries int) (c13SysRes, error) {
	expI := p
	if expI == 0 {
		expI = time.Duration(kaSec) * time.Second
	}
	expT := t
	if expT == 0 {
		expT = expI
	}
	var res c13SysRes
	for try := 1; try <= tries; try++ {
		b := newC13Broker(func(c *c13Conn, n int) bool { return !silent || c.idx > 1 })
		ropts := []mqtt.ReconnectOption{mqtt.WithReconnectWait(time.Millisecond, 4*time.Millisecond)}
		if p > 0 {
			ropts = append(ropts, mqtt.WithPingInterval(p))
		}
		if t > 0 {
			ropts = append(ropts, mqtt.WithTimeout(t))
		}
		cli, err := mqtt.NewReconnectClient(mqtt.DialerFunc(b.dial), ropts...)
		if err != nil {
			return c13SysRes{}, err
		}
		var copts []mqtt.ConnectOption
		if kaSec > 0 {
			copts = append(copts, mqtt.WithKeepAlive(uint16(kaSec)))
		}
		ctx, cancel := ctxTimeout(c13SysTO)
		if _, err := cli.Connect(ctx, "c13", copts...); err != nil {
			cancel()
			return c13SysRes{}, fmt.Errorf("c13 sys: first connect: %v", err)
		}
		c1 := b.conn(1)
		var limit time.Duration
		switch {
		case expI == 0:
			limit = 300 * time.Millisecond // no keep-alive at all: nothing must happen
		case silent:
			limit = expI + expT + slack + time.Second
		default:
			limit = c13SysTO
		}
		b.waitEv(limit, func() bool {
			c1.mu.Lock()
			defer c1.mu.Unlock()
			if expI == 0 {
				return c1.pings > 0 || c1.clientClose > 0
			}
			if silent {
				return c1.clientClose > 0 && b.dials() > 1
			}
			return c1.answered >= need || c1.clientClose > 0 || b.dials() > 1
		})
		c1.mu.Lock()
		pings, answered, closes := c1.pings, c1.answered, c1.clientClose
		times := append([]int64{}, c1.pingTimes...)
		detect := int64(0)
		if closes > 0 {
			detect = c1.firstClose.Sub(c1.connackAt).Microseconds()
		}
		c1.mu.Unlock()
		dials := b.dials()
		if closes > 0 {
			select {
			case <-c1.base.Done():
			case <-time.After(2 * time.Second):
			}
		}
		errCoq, errDesc := c13ErrOf(c1.base)
		ctxD, cancelD := ctxTimeout(5 * time.Second)
		cli.Disconnect(ctxD)
		cancelD()
		cancel()
		var ts []string
		for _, x := range times {
			ts = append(ts, fmt.Sprint(x))
		}
		res = c13SysRes{
			Coq: fmt.Sprintf("SysOpts %d %d %d %s %s %d %s %s %s %s (%s) %d %s", int64(kaSec)*1000000, p.Microseconds(), t.Microseconds(),
				cBool(silent), cNat(need), slack.Microseconds(), cNat(pings), cNat(answered), cNat(dials), cNat(closes), errCoq, detect, cListInline(ts)),
			Desc: map[string]interface{}{"scenario": "option-presence sweep (0 = option not given)", "connect_keepalive_s": kaSec,
				"WithPingInterval_us": p.Microseconds(), "WithTimeout_us": t.Microseconds(), "broker_silent": silent,
				"answered_pings_needed": need, "detection_slack_us": slack.Microseconds(), "try": try, "pingreqs": pings, "answered": answered,
				"dials": dials, "closes_by_client": closes, "Err": errDesc, "first_close_since_connack_us": detect,
				"pingreq_times_since_connack_us": times},
		}
		ok := false
		switch {
		case expI == 0:
			ok = pings == 0 && closes == 0 && dials == 1
		case silent:
			ok = closes > 0 && dials > 1 && detect <= (expI+expT+slack).Microseconds()
		default:
			ok = answered >= need && closes == 0 && dials == 1
		}
		if ok {
			break
		}
	}
	return res, nil
}

// the broker answers k pings and withholds the next answer; the user then calls Disconnect
// while that ping is in flight (the ping fails at once with the closed transport, no context
// is done): a graceful end, nothing must be recorded
func c13SysDisc(interval, timeout time.Duration, k int) (c13SysRes, error) {
	inflight := make(chan struct{})
	var once sync.Once
	b := newC13Broker(func(c *c13Conn, n int) bool {
		if c.idx == 1 && n == k+1 {
			once.Do(func() { close(inflight) })
			return false
		}
		return c.idx != 1 || n <= k
	})
	cli, err := c13NewReconn(b, interval, timeout)
	if err != nil {
		return c13SysRes{}, err
	}
	ctx, cancel := ctxTimeout(c13SysTO)
	defer cancel()
	if _, err := cli.Connect(ctx, "c13"); err != nil {
		return c13SysRes{}, fmt.Errorf("c13 sys: first connect: %v", err)
	}
	c1 := b.conn(1)
	reached := true
	select {
	case <-inflight:
	case <-time.After(c13SysTO):
		reached = false
	}
	ctxD, cancelD := ctxTimeout(5 * time.Second)
	errD := cli.Disconnect(ctxD)
	cancelD()
	done := true
	select {
	case <-c1.base.Done():
	case <-time.After(c13Stuck):
		done = false
	}
	time.Sleep(30 * time.Millisecond) // the keep-alive goroutine's reaction follows the failed ping at once
	errCoq, errDesc := c13ErrOf(c1.base)
	c1.mu.Lock()
	pings := c1.pings
	c1.mu.Unlock()
	dials := b.dials()
	return c13SysRes{
		Coq: fmt.Sprintf("SysDisc %d %d %s %s %s %s (%s)", interval.Microseconds(), timeout.Microseconds(),
			cNat(k), cNat(pings), cNat(dials), cBool(reached && done && errD == nil), errCoq),
		Desc: map[string]interface{}{"scenario": "Disconnect while a PINGREQ is unanswered", "k": k,
			"interval_us": interval.Microseconds(), "timeout_us": timeout.Microseconds(), "pingreqs": pings, "dials": dials,
			"ping_in_flight_reached": reached, "connection_done": done, "Disconnect_error": fmt.Sprint(errD), "Err_after_disconnect": errDesc},
	}, nil
}

// c13ProbeBlockedWrite: NOT judged.  The peer stops taking bytes BEFORE a PINGREQ: Ping's own
// Transport.Write has no deadline, so KeepAlive can neither time out nor be cancelled.  Recorded
// in the evidence as an observation about the environment assumption "Write returns".
func c13ProbeBlockedWrite() string {
	release := make(chan struct{})
	var n int32
	conn := newMemConn(1, func(c *memConn, pkt []byte) error {
		switch pkt[0] & 0xF0 {
		case 0x10:
			c.send(connackOK)
		case 0xC0:
			if atomic.AddInt32(&n, 1) == 1 {
				c.send([]byte{0xD0, 0})
				return nil
			}
			<-release
			return errCut
		}
		return nil
	})
	cli := &mqtt.BaseClient{Transport: conn}
	ctx, cancel := ctxTimeout(10 * time.Second)
	defer cancel()
	if _, err := cli.Connect(ctx, "c13"); err != nil {
		return "connect failed: " + err.Error()
	}
	pctx, pcancel := context.WithCancel(context.Background())
	ch := make(chan error, 1)
	go func() { ch <- mqtt.KeepAlive(pctx, cli, 5*time.Millisecond, 50*time.Millisecond) }()
	res := ""
	select {
	case err := <-ch:
		_, d := c13Class(err)
		res = "KeepAlive returned " + d
	case <-time.After(400 * time.Millisecond):
		pcancel()
		select {
		case err := <-ch:
			_, d := c13Class(err)
			res = "blocked 350 ms past its 50 ms timeout; returned " + d + " after its context was cancelled"
		case <-time.After(200 * time.Millisecond):
			res = "blocked in Transport.Write: no ErrPingTimeout 350 ms past the 50 ms timeout, and no return 200 ms after its context was cancelled"
		}
	}
	pcancel()
	close(release)
	cli.Close()
	select {
	case <-ch:
	case <-time.After(2 * time.Second):
	}
	return res
}

// ---------------------------------------------------------------- driver

type c13Job struct {
	fam      string // "out", "env", "base"
	interval time.Duration
	timeout  time.Duration
	outs     []c13Out
	steps    []c13Step
	urs      [][4]int
	custom   bool
	seed     int64
	obs      c13Obs
	err      error
	skipped  bool // not run: six earlier cases were stuck already
}

func c13Us(d time.Duration) uint64 {
	if d <= 0 {
		return 0 // the model's 0 stands for any non-positive duration
	}
	return uint64(d.Microseconds())
}

func (j *c13Job) run() {
	switch j.fam {
	case "base":
		j.obs, j.err = c13RunBase(j.interval, j.timeout, j.outs, j.custom)
	case "wire":
		j.obs, j.err = c13RunWire(j.interval, j.timeout, j.urs)
	default:
		j.obs = c13RunFake(j.interval, j.timeout, j.steps, j.custom, j.seed)
	}
}

func (j *c13Job) coq() string {
	var sc []string
	if j.fam == "wire" {
		for _, ur := range j.urs {
			sc = append(sc, fmt.Sprintf("(%s,%s,%s,%s)", cNat(ur[0]), cNat(ur[1]), cNat(ur[2]), cNat(ur[3])))
		}
	} else if j.fam == "env" {
		for _, s := range j.steps {
			sc = append(sc, s.code())
		}
	} else {
		for _, o := range j.outs {
			sc = append(sc, o.code())
		}
	}
	return fmt.Sprintf("(%d, %d, %s, %s)", c13Us(j.interval), c13Us(j.timeout), cListInline(sc), j.obs.coq())
}

func (j *c13Job) desc() map[string]interface{} {
	var sc []string
	if j.fam == "wire" {
		for _, ur := range j.urs {
			sc = append(sc, fmt.Sprintf("%d unsolicited PINGRESP, PINGREQ, %d PINGRESP consumed before Write returns, %d PINGRESP after, %d batches of other packets (PUBLISH q0/q1/q2, PUBREL, stray acks)", ur[0], ur[1], ur[2], ur[3]))
		}
	} else if j.fam == "env" {
		for _, s := range j.steps {
			sc = append(sc, s.desc())
		}
	} else {
		for _, o := range j.outs {
			sc = append(sc, o.desc())
		}
	}
	return map[string]interface{}{"family": j.fam, "interval": j.interval.String(), "timeout": j.timeout.String(),
		"script": sc, "observed": j.obs}
}

func runC13(cfg *runCfg) error {
	r := rand.New(rand.NewSource(cfg.seed))
	quick := cfg.tier == "quick"
	search := cfg.tier == "search"
	ms := time.Millisecond

	var jobs []*c13Job
	intervals := []time.Duration{1 * ms, 2 * ms, 3 * ms}
	pickI := func() time.Duration { return intervals[r.Intn(len(intervals))] }
	shortTO := func() time.Duration { return time.Duration(3+r.Intn(6)) * ms }

	addOut := func(outs []c13Out) {
		var steps []c13Step
		for _, o := range outs {
			steps = append(steps, o.step())
		}
		j := &c13Job{fam: "out", interval: pickI(), outs: outs, steps: steps, custom: r.Intn(2) == 0, seed: r.Int63()}
		if c13EndsInTimeout(steps) {
			j.timeout = shortTO()
		} else {
			j.timeout = c13LongTO
		}
		// the durations of answered pings are given relative to the interval
		for i := range j.outs {
			if j.outs[i].Kind == 0 && j.outs[i].Arg < 0 {
				j.outs[i].Arg = int(j.interval.Microseconds()) * (-j.outs[i].Arg) / 2
				j.steps[i].D = j.outs[i].Arg
			}
		}
		jobs = append(jobs, j)
	}
	addEnv := func(steps []c13Step, interval, timeout time.Duration) {
		for i := range steps {
			if steps[i].D < 0 {
				iv := interval
				if iv <= 0 {
					iv = ms
				}
				steps[i].D = int(iv.Microseconds()) * (-steps[i].D) / 2
			}
		}
		jobs = append(jobs, &c13Job{fam: "env", interval: interval, timeout: timeout, steps: steps, custom: r.Intn(2) == 0, seed: r.Int63()})
	}
	envTO := func(steps []c13Step) time.Duration {
		switch x := r.Intn(12); {
		case x == 0:
			return 0 // non-positive timeout: the per-ping context is born done
		case x == 1:
			return -5 * ms
		}
		if c13EndsInTimeout(steps) {
			return shortTO()
		}
		return c13LongTO
	}

	// ---- out: every sequence over a 10-symbol alphabet up to length L (Arg<0: duration in half intervals)
	alphabet := []c13Out{{0, 0}, {0, -1}, {1, 0}, {2, 1}, {2, 3}, {2, 4}, {3, 1}, {3, 2}, {4, 1}, {4, 2}}
	L := 3
	if !quick && !search {
		L = 4
	}
	var rec func(prefix []c13Out)
	rec = func(prefix []c13Out) {
		if len(prefix) > 0 {
			addOut(append([]c13Out{}, prefix...))
		}
		if len(prefix) == L {
			return
		}
		for _, a := range alphabet {
			rec(append(append([]c13Out{}, prefix...), a))
		}
	}
	if !search {
		rec(nil)
	}
	// every terminal after n answered pings (n up to 40 / 200), and "still running after n"
	ns := []int{4, 5, 6, 8, 10, 15, 25, 40}
	if !quick {
		ns = append(ns, 80, 200)
	}
	for _, n := range ns {
		for _, term := range []c13Out{{0, 0}, {1, 0}, {2, 1}, {2, 2}, {3, 1}, {3, 2}, {4, 1}, {4, 2}} {
			var outs []c13Out
			for i := 0; i < n; i++ {
				d := 0
				if r.Intn(4) == 0 {
					d = -(1 + r.Intn(3))
				}
				outs = append(outs, c13Out{0, d})
			}
			outs = append(outs, term)
			if r.Intn(2) == 0 {
				outs = append(outs, alphabet[r.Intn(len(alphabet))]) // ignored tail
			}
			addOut(outs)
		}
	}
	// a slow (but answered) ping delays the next one past its tick; the timeout of that next, silent
	// ping counts from the ping, not from the tick: answered after 20 intervals, then never
	for _, iv := range []time.Duration{1 * ms, 2 * ms} {
		for _, n := range []int{0, 1, 3} {
			var outs []c13Out
			for i := 0; i < n; i++ {
				outs = append(outs, c13Out{0, 0})
			}
			outs = append(outs, c13Out{0, int(iv.Microseconds()) * 20}, c13Out{1, 0})
			var steps []c13Step
			for _, o := range outs {
				steps = append(steps, o.step())
			}
			jobs = append(jobs, &c13Job{fam: "out", interval: iv, timeout: iv*20 + 5*ms, outs: outs, steps: steps, seed: r.Int63()})
		}
	}
	nOutEnum := len(jobs)

	// ---- env: every single step (45) after 0..2 answered pings; pairs; random long scripts
	var envAlpha []c13Step
	for _, bf := range []int{0, 1, 2} {
		for _, du := range []int{0, 1, 2} {
			for _, bh := range []c13Step{{Beh: 0}, {Beh: 0, D: -1}, {Beh: 0, Ret: 1}, {Beh: 0, Ret: 3}, {Beh: 1}, {Beh: 1, Ret: 2}} {
				s := bh
				s.Before, s.During = bf, du
				envAlpha = append(envAlpha, s)
			}
		}
	}
	if !search {
		for _, s := range envAlpha {
			for k := 0; k <= 2; k++ {
				var steps []c13Step
				for i := 0; i < k; i++ {
					steps = append(steps, c13Step{})
				}
				steps = append(steps, s)
				addEnv(steps, pickI(), envTO(steps))
			}
		}
	}
	nPairs := 500
	if !quick {
		nPairs = len(envAlpha) * len(envAlpha)
	}
	for i := 0; i < nPairs; i++ {
		var a, b c13Step
		if quick || search {
			a, b = envAlpha[r.Intn(len(envAlpha))], envAlpha[r.Intn(len(envAlpha))]
		} else {
			a, b = envAlpha[i/len(envAlpha)], envAlpha[i%len(envAlpha)]
		}
		steps := []c13Step{a, b}
		to := envTO(steps)
		if to > 0 && b.Before != 0 && b.Beh == 1 && b.During == 0 && r.Intn(2) == 0 {
			steps[1].Async = true // only where the per-ping context is not born done
		}
		addEnv(steps, pickI(), to)
	}
	nRand := 350
	maxLen := 30
	if !quick {
		nRand, maxLen = 4000, 120
	}
	if search {
		nRand = 700
	}
	for i := 0; i < nRand; i++ {
		n := r.Intn(maxLen)
		if r.Intn(3) > 0 {
			n = r.Intn(8)
		}
		var steps []c13Step
		for k := 0; k < n; k++ {
			s := c13Step{}
			if r.Intn(5) == 0 {
				s.D = -(1 + r.Intn(4))
			}
			if r.Intn(25) == 0 {
				s.Before = 1 + r.Intn(2)
			}
			if r.Intn(25) == 0 {
				s.During = 1 + r.Intn(2)
			}
			steps = append(steps, s)
		}
		if r.Intn(6) > 0 {
			t := envAlpha[r.Intn(len(envAlpha))]
			steps = append(steps, t)
			if r.Intn(3) == 0 {
				steps = append(steps, envAlpha[r.Intn(len(envAlpha))])
			}
		}
		iv := pickI()
		if r.Intn(40) == 0 {
			iv = time.Duration(-r.Intn(2)) * ms // 0 or -1ms: NewTicker panics
		}
		to := envTO(steps)
		for k := range steps {
			if to > 0 && steps[k].Before != 0 && steps[k].Beh == 1 && steps[k].During == 0 && r.Intn(2) == 0 {
				steps[k].Async = true
			}
		}
		addEnv(steps, iv, to)
	}
	nEnv := len(jobs) - nOutEnum

	// ---- base: real BaseClient, scripted broker
	baseTerms := []c13Out{{0, 0}, {1, 0}, {2, 6}, {4, 1}, {4, 2}}
	basePre := []int{0, 1, 2, 5}
	if !quick {
		basePre = []int{0, 1, 2, 3, 5, 9, 20}
	}
	addBase := func(outs []c13Out) {
		j := &c13Job{fam: "base", interval: 2 * ms, outs: outs, custom: r.Intn(2) == 0}
		var steps []c13Step
		for _, o := range outs {
			steps = append(steps, o.step())
		}
		if c13EndsInTimeout(steps) {
			j.timeout = 300 * ms // an answered ping must not time out even on a loaded machine
		} else {
			j.timeout = c13LongTO
		}
		jobs = append(jobs, j)
	}
	for _, n := range basePre {
		for _, term := range baseTerms {
			var outs []c13Out
			for i := 0; i < n; i++ {
				d := 0
				if r.Intn(4) == 0 {
					d = 500 + r.Intn(2000)
				}
				outs = append(outs, c13Out{0, d})
			}
			addBase(append(outs, term))
		}
	}
	addBase([]c13Out{{3, 1}})
	addBase([]c13Out{{3, 2}, {0, 0}})
	addBase([]c13Out{{2, 7}})
	nBase := len(jobs) - nOutEnum - nEnv

	// ---- wire: real BaseClient, peer sends surplus PINGRESPs (duplicates with an answer,
	// unsolicited ones between two pings), then stays silent or keeps answering
	addWire := func(urs [][4]int) {
		j := &c13Job{fam: "wire", interval: 2 * ms, urs: urs, timeout: c13LongTO}
		zero := false
		for _, ur := range urs {
			if ur[1] > 0 {
				zero = true
			}
		}
		for _, ur := range urs {
			if ur[1]+ur[2] == 0 {
				j.timeout = 300 * ms
				if zero {
					// with a zero-delay answer the writer may be held in Write while the reader
					// works: keep the timeout far from anything load can produce
					j.timeout = 2 * time.Second
				}
				break
			}
		}
		jobs = append(jobs, j)
	}
	for _, urs := range [][][4]int{
		{{0, 0, 1}, {0, 0, 0}}, {{0, 0, 2}, {0, 0, 0}}, {{0, 0, 1}, {1, 0, 0}}, {{0, 0, 1}, {3, 0, 0}}, {{1, 0, 0}}, {{2, 0, 1}, {0, 0, 0}},
		{{2, 0, 1}, {0, 0, 1}, {1, 0, 0}}, {{0, 0, 3}, {2, 0, 1}, {1, 0, 0}}, {{0, 0, 1}, {1, 0, 1}, {1, 0, 1}, {1, 0, 0}}, {{0, 0, 2}, {1, 0, 1}, {1, 0, 2}},
		{{0, 0, 1}, {0, 0, 1}, {0, 0, 1}, {2, 0, 0}, {0, 0, 1}},
		// every PINGREQ answered with zero delay for n pings, then silence / still running
		{{0, 1, 0}, {0, 0, 0}}, {{0, 1, 0}, {0, 1, 0}, {0, 0, 0}}, {{0, 1, 0}, {0, 1, 0}, {0, 1, 0}, {0, 1, 0}, {0, 0, 0}},
		{{0, 1, 0}, {0, 1, 0}, {0, 1, 0}}, {{0, 1, 0}, {1, 1, 1}, {0, 2, 0}, {0, 0, 0}}, {{1, 1, 0}, {0, 0, 1}, {0, 1, 0}, {1, 0, 0}},
		// mute to pings but otherwise talking
		{{0, 0, 0, 1}}, {{0, 0, 1, 1}, {0, 0, 0, 1}}, {{0, 0, 1, 0}, {0, 0, 1, 0}, {0, 0, 0, 3}}, {{0, 1, 0, 1}, {1, 0, 1, 2}, {0, 0, 0, 2}},
		{{0, 0, 1, 2}, {0, 0, 1, 1}, {0, 0, 1, 1}},
	} {
		addWire(urs)
	}
	nWireRand := 12
	if !quick {
		nWireRand = 150
	}
	for i := 0; i < nWireRand; i++ {
		var urs [][4]int
		n := r.Intn(7)
		for k := 0; k < n; k++ {
			urs = append(urs, [4]int{r.Intn(3) * r.Intn(2), r.Intn(2) * (1 + r.Intn(2)), 0, r.Intn(3) * r.Intn(2)})
		}
		for k := range urs {
			if urs[k][1] == 0 {
				urs[k][2] = 1 + r.Intn(3)*r.Intn(2)
			}
		}
		if r.Intn(4) > 0 {
			urs = append(urs, [4]int{r.Intn(3), 0, 0, r.Intn(3)})
		}
		addWire(urs)
	}
	nWire := len(jobs) - nOutEnum - nEnv - nBase

	// ---- run the unit-level jobs on a pool (they mostly sleep on tickers)
	workers := 48
	var next int64 = -1
	var stuckSeen int64
	var wg sync.WaitGroup
	for w := 0; w < workers; w++ {
		wg.Add(1)
		go func() {
			defer wg.Done()
			for {
				i := int(atomic.AddInt64(&next, 1))
				if i >= len(jobs) {
					return
				}
				if atomic.LoadInt64(&stuckSeen) >= 6 {
					// enough evidence; do not spend 10 s on each of the remaining cases
					jobs[i].skipped = true
					continue
				}
				jobs[i].run()
				if jobs[i].obs.Res == "IStuck" {
					atomic.AddInt64(&stuckSeen, 1)
				}
			}
		}()
	}

	// ---- sys scenarios, concurrently with the pool
	type sysJob struct {
		run func() (c13SysRes, error)
		res c13SysRes
		err error
	}
	var sys []*sysJob
	ks := []int{0, 1, 2, 3, 5, 8}
	soak := 500 * ms
	if !quick && !search {
		ks = []int{0, 1, 2, 3, 4, 5, 6, 8, 13, 21, 34}
		soak = 3 * time.Second
	}
	for _, k := range ks {
		k := k
		iv := time.Duration(2+r.Intn(3)) * ms
		sys = append(sys, &sysJob{run: func() (c13SysRes, error) { return c13SysSilent(iv, 250*ms, k, -1, false, false) }})
	}
	// hung peer: reads the PINGREQ, does not answer, takes no further byte
	hks := []int{0, 2}
	if !quick && !search {
		hks = []int{0, 1, 2, 5, 9}
	}
	for _, k := range hks {
		k := k
		iv := time.Duration(2+r.Intn(3)) * ms
		sys = append(sys, &sysJob{run: func() (c13SysRes, error) { return c13SysSilent(iv, 250*ms, k, -1, true, false) }})
	}
	// mute to pings but otherwise talking
	for _, k := range hks {
		k := k
		iv := time.Duration(2+r.Intn(3)) * ms
		sys = append(sys, &sysJob{run: func() (c13SysRes, error) { return c13SysSilent(iv, 250*ms, k, -1, false, true) }})
	}
	// the caller cancels its Connect context after Connect returned: {k, cancel after m pings}
	ccs := [][2]int{{0, 0}, {3, 0}, {5, 2}, {2, 2}}
	if !quick && !search {
		ccs = append(ccs, [2]int{1, 0}, [2]int{8, 0}, [2]int{8, 4}, [2]int{13, 13}, [2]int{1, 1})
	}
	for _, kc := range ccs {
		kc := kc
		iv := time.Duration(2+r.Intn(3)) * ms
		sys = append(sys, &sysJob{run: func() (c13SysRes, error) { return c13SysSilent(iv, 250*ms, kc[0], kc[1], false, false) }})
	}
	sys = append(sys, &sysJob{run: func() (c13SysRes, error) { return c13SysHealthy(5*ms, 5*time.Second, soak) }})
	sys = append(sys, &sysJob{run: func() (c13SysRes, error) { return c13SysHealthy(2*ms, 5*time.Second, soak) }})
	// round 9: steady outbound traffic (QoS 0 every interval/8) towards a peer that goes silent /
	// stays healthy: writes that succeed locally prove nothing about the peer, the pings must go on
	tks := []int{0, 2}
	if !quick && !search {
		tks = []int{0, 1, 2, 5, 9}
	}
	for _, k := range tks {
		k := k
		sys = append(sys, &sysJob{run: func() (c13SysRes, error) { return c13SysSilentT(40*ms, 250*ms, k, -1, false, false, 5*ms) }})
	}
	sys = append(sys, &sysJob{run: func() (c13SysRes, error) { return c13SysHealthyT(40*ms, 5*time.Second, soak, 5*ms) }})
	for _, k := range []int{0, 1, 1} {
		k := k
		sys = append(sys, &sysJob{run: func() (c13SysRes, error) { return c13SysDrop(40*ms, 5*time.Second, k) }})
	}
	for _, k := range []int{0, 2} {
		k := k
		sys = append(sys, &sysJob{run: func() (c13SysRes, error) { return c13SysDisc(3*ms, 5*time.Second, k) }})
	}
	// option-presence sweep: {keep-alive, WithPingInterval, WithTimeout} given / omitted, healthy and silent broker
	type optCombo struct {
		ka   int
		p, t time.Duration
	}
	for _, oc := range []optCombo{
		{0, 0, 0}, {0, 0, 300 * ms}, // no ping interval, no keep-alive: no keep-alive loop at all
		{1, 0, 0}, {1, 0, 250 * ms}, // interval = keep-alive (1 s)
		{0, 300 * ms, 0}, {5, 300 * ms, 0}, // timeout defaults to the ping interval, not to the keep-alive
		{0, 100 * ms, 400 * ms}, {5, 200 * ms, 300 * ms},
	} {
		oc := oc
		sys = append(sys, &sysJob{run: func() (c13SysRes, error) { return c13SysOpts(oc.ka, oc.p, oc.t, false, 3, 0, 1) }})
		if oc.p > 0 || oc.ka > 0 {
			sys = append(sys, &sysJob{run: func() (c13SysRes, error) { return c13SysOpts(oc.ka, oc.p, oc.t, true, 0, 2*time.Second, 3) }})
		}
	}
	// PingInterval != Timeout, in both directions
	sys = append(sys, &sysJob{run: func() (c13SysRes, error) { return c13SysPeer(600*ms, 250*ms, 0, 0, 1, c13SysTO, 1) }})
	// slow-but-in-time broker x RetryClient.ResponseTimeout: none, below the RTT, between RTT and Timeout, above
	for _, rt := range []time.Duration{0, 50 * ms, time.Second, 10 * time.Second} {
		rt := rt
		sys = append(sys, &sysJob{run: func() (c13SysRes, error) { return c13SysPeer(30*ms, 3*time.Second, 200*ms, rt, 5, c13SysTO, 1) }})
	}
	sys = append(sys, &sysJob{run: func() (c13SysRes, error) { return c13SysPeer(50*ms, 3*time.Second, 0, 0, 5, 1500*ms, 3) }})
	if !quick && !search {
		sys = append(sys, &sysJob{run: func() (c13SysRes, error) { return c13SysPeer(20*ms, 2*time.Second, 150*ms, 40*ms, 12, c13SysTO, 1) }})
		sys = append(sys, &sysJob{run: func() (c13SysRes, error) { return c13SysPeer(900*ms, 300*ms, 0, 100*ms, 2, c13SysTO, 1) }})
		sys = append(sys, &sysJob{run: func() (c13SysRes, error) { return c13SysPeer(10*ms, 4*time.Second, 400*ms, 100*ms, 6, c13SysTO, 1) }})
	}
	var wgs sync.WaitGroup
	for _, s := range sys {
		s := s
		wgs.Add(1)
		go func() { defer wgs.Done(); s.res, s.err = s.run() }()
	}
	probeCh := make(chan string, 1)
	go func() { probeCh <- c13ProbeBlockedWrite() }()
	wg.Wait()
	wgs.Wait()
	probe := <-probeCh

	// ---- pace: upper bounds on time ("a ping every interval": not every second tick, and no
	// drift with the round-trip time).  n pings, each answered after d = 0.3 / 0.8 of a long
	// interval: every ping must start within [slack] of its tick and the mean period
	// (t_n - t_1)/(n-1) must be within 15 % of the interval (a ticker is anchored: scheduling
	// jitter enters only through the first and the last ping and is divided by n-1).  Run after
	// everything else; a miss is believed only if three tries in a row miss.
	paceI, paceN, paceSlack := 200*ms, 6, 500*ms
	type paceRun struct {
		d     time.Duration
		obs   c13Obs
		tries int
	}
	paces := []*paceRun{{d: 60 * ms}, {d: 160 * ms}}
	var wgp sync.WaitGroup
	for _, pr := range paces {
		pr := pr
		wgp.Add(1)
		go func() {
			defer wgp.Done()
			for try := 0; try < 3; try++ {
				pr.tries++
				steps := make([]c13Step, paceN)
				for i := range steps {
					steps[i].D = int(pr.d.Microseconds())
				}
				pr.obs = c13RunFake(paceI, c13LongTO, steps, false, 1)
				ok := len(pr.obs.Starts) == paceN
				for j, st := range pr.obs.Starts {
					if st > (int64(j+1)*paceI.Microseconds() + paceSlack.Microseconds()) {
						ok = false
					}
				}
				if ok {
					span := 100 * (pr.obs.Starts[paceN-1] - pr.obs.Starts[0])
					k := int64(paceN-1) * paceI.Microseconds()
					ok = span >= 85*k && span <= 115*k
				}
				if ok {
					break
				}
			}
		}()
	}
	wgp.Wait()

	// ---- write cases
	cf := newCasesFile("C13", "KeepAlive", "CheckC13")
	m := &meta{Property: "C13", Distribution: map[string]interface{}{}, Families: map[string][]interface{}{}}
	var outCases, envCases, baseCases, wireCases, sysCases []string
	resKinds := map[string]int{}
	distinct := map[string]bool{}
	nontrivial := 0
	maxPings := 0
	skipped := 0
	for _, j := range jobs {
		if j.err != nil {
			return j.err
		}
		if j.skipped {
			skipped++
			continue
		}
		d := j.desc()
		switch j.fam {
		case "out":
			outCases = append(outCases, j.coq())
			m.Families["out"] = append(m.Families["out"], d)
		case "env":
			envCases = append(envCases, j.coq())
			m.Families["env"] = append(m.Families["env"], d)
		case "base":
			baseCases = append(baseCases, j.coq())
			m.Families["base"] = append(m.Families["base"], d)
		case "wire":
			wireCases = append(wireCases, j.coq())
			m.Families["wire"] = append(m.Families["wire"], d)
		}
		resKinds[j.fam+":"+j.obs.ResDesc]++
		if len(j.obs.Starts) > maxPings {
			maxPings = len(j.obs.Starts)
		}
		key := fmt.Sprint(j.fam, d["script"], j.timeout <= 0, j.interval <= 0)
		if !distinct[key] {
			distinct[key] = true
			if len(j.obs.Starts) >= 2 && j.obs.Res != "IRunning" {
				nontrivial++
				if len(m.Samples) < 4 && (nontrivial%97 == 1) {
					m.Samples = append(m.Samples, d)
				}
			}
		}
	}
	for _, s := range sys {
		if s.err != nil {
			return s.err
		}
		sysCases = append(sysCases, s.res.Coq)
		m.Families["sys"] = append(m.Families["sys"], s.res.Desc)
		if len(m.Samples) < 6 {
			m.Samples = append(m.Samples, s.res.Desc)
		}
	}
	cf.def("out_cases", "list c13_out_case", cList(outCases))
	cf.def("env_cases", "list c13_env_case", cList(envCases))
	cf.def("base_cases", "list c13_out_case", cList(baseCases))
	cf.def("wire_cases", "list c13_wire_case", cList(wireCases))
	cf.def("sys_cases", "list sys_case", cList(sysCases))
	var paceCases []string
	for _, pr := range paces {
		var paceStarts []string
		for _, st := range pr.obs.Starts {
			paceStarts = append(paceStarts, fmt.Sprint(st))
		}
		paceCases = append(paceCases, fmt.Sprintf("(%d, %d, %d, %s, (%s), %s)",
			paceI.Microseconds(), paceSlack.Microseconds(), pr.d.Microseconds(), cNat(paceN), pr.obs.Res, cListInline(paceStarts)))
		m.Families["pace"] = append(m.Families["pace"], map[string]interface{}{"family": "pace", "interval": paceI.String(),
			"script": fmt.Sprintf("%d pings, each answered after %s", paceN, pr.d), "slack": paceSlack.String(),
			"mean_period_tolerance": "15%", "tries": pr.tries, "observed": pr.obs})
	}
	cf.def("pace_cases", "list c13_pace_case", cList(paceCases))
	cf.result("V_pace", "c13_pace_violations pace_cases")
	cf.result("M_pace", "c13_pace_mismatches pace_cases")
	cf.result("V_out", "c13_out_violations out_cases")
	cf.result("M_out", "c13_out_mismatches out_cases")
	cf.result("V_env", "c13_env_violations env_cases")
	cf.result("M_env", "c13_env_mismatches env_cases")
	cf.result("V_base", "c13_out_violations base_cases")
	cf.result("M_base", "c13_out_mismatches base_cases")
	cf.result("V_wire", "c13_wire_violations wire_cases")
	cf.result("M_wire", "c13_wire_mismatches wire_cases")
	cf.result("V_sys", "c13_sys_violations sys_cases")
	cf.result("M_sys", "c13_sys_mismatches sys_cases")
	m.Evaluations = len(jobs) - skipped + len(sys) + len(paces)
	m.DistinctNontrivial = nontrivial
	m.Rule = fmt.Sprintf("mqtt.KeepAlive driven by a scripted Client: every script up to length %d over {answered at once, answered after half an interval, never answered, failing at once with 3 different errors (two of them wrapping another context's error), parent context Canceled/DeadlineExceeded before/during the ping}, each terminal outcome after 4..%d answered pings, every one of 54 general steps (cancel before x 6 ping behaviours x cancel during) after 0-2 answered pings, %d pairs of them, %d random scripts of up to %d pings incl. non-positive interval/timeout; %d scripts against a real BaseClient over an in-memory transport with a scripted broker, %d more where the broker sends surplus PINGRESPs (duplicates, unsolicited ones between pings) or answers with zero delay (PINGRESP consumed by the reader before Transport.Write returns) before going silent; %d ReconnectClient scenarios (broker silent after k pings — mute but reading, or hung: no further byte taken —, also after the caller cancelled the context it passed to Connect, responsive broker soaked %s then Disconnect, peer drop followed by a healthy connection, Disconnect while a ping is unanswered, PingInterval != Timeout in both directions with an instant and with a slow-but-living broker); two pace runs (6 pings at 200 ms answered after 60 / 160 ms: each must start within 500 ms of its tick and the mean period must be within 15 %% of the interval, best of up to three tries); the option-presence sweep over {CONNECT keep-alive, WithPingInterval, WithTimeout} with a healthy and a silent broker each. Non-trivial = distinct script on which the loop returned after at least 2 pings",
		L, ns[len(ns)-1], nPairs, nRand, maxLen, nBase, nWire, len(sys), soak)
	m.Distribution["out_scripts"] = nOutEnum
	m.Distribution["env_scripts"] = nEnv
	m.Distribution["base_scripts"] = nBase
	m.Distribution["wire_scripts"] = nWire
	m.Distribution["sys_scenarios"] = len(sys)
	m.Distribution["results"] = resKinds
	m.Distribution["distinct_scripts"] = len(distinct)
	m.Distribution["max_pings_in_one_run"] = maxPings
	m.Distribution["not_judged_peer_stops_reading_before_a_pingreq"] = probe
	m.Distribution["not_run_after_six_stuck_cases"] = skipped
	m.Exhaustive = !search
	if err := cf.write(cfg.outDir); err != nil {
		return err
	}
	return m.write(cfg.outDir)
}
