package main

// Fine-grained schedules of the retry / reconnect system realised through the public API only:
// the task goroutine is pinned inside OnError, the reconnect loop inside a ConnectOption (which
// BaseClient.Connect runs after RetryClient.SetClient/Connect installed the new client and before
// BaseClient.init), and requests are submitted at those points. The driver emits the label list
// (RetrySys.label) it realised; the model is run on exactly that list.

import (
	"context"
	"errors"
	"fmt"
	"io"
	"sort"
	"sync"
	"sync/atomic"
	"time"

	mqtt "github.com/at-wat/mqtt-go"
)

type rsFineVariant struct {
	Held    rsOp   // request whose task is held in OnError on the dead connection (must fail there)
	Before  []rsOp // requests submitted while the task is held, before the loop dials
	Between []rsOp // requests submitted after SetClient of the new client, before its init()
	After   []rsOp // requests submitted after the task goroutine was released, before CONNACK
	MethodB bool
	Note    string
	Kind    int    // 0: held task on a dead client while the loop reconnects; 1: held inside a Retry pass
	Ops     []rsOp // Kind 1: first request (fails), then the requests deferred behind it
	// LateRelease (Kind 0): the held task stays inside OnError until the next connection is established and the
	// After requests were submitted: nothing younger may run before the held request has finished
	LateRelease bool
	Pre         []rsOp // (Kind 0) requests carried out on connection 0 before anything else
	// HeldLive (Kind 0, LateRelease): connection 0 is NOT cut before the held request; the held request's
	// acknowledgement is withheld (fault on connection 0) with a ResponseTimeout configured, its task is pinned in
	// OnError while reporting the timeout, and the PEER then cuts connection 0 (the model's task has closed it)
	HeldLive bool
	// Flap (Kind 0, LateRelease): the connection established while the task is held loses the session (a
	// re-subscription is queued), is cut at once, and the next one keeps the session
	Flap   bool
	Faults []rsFault
}

func (v *rsFineVariant) describe() map[string]interface{} {
	return map[string]interface{}{"held_in_OnError": rsDescOps([]rsOp{v.Held}), "while_held": rsDescOps(v.Before),
		"between_SetClient_and_init": rsDescOps(v.Between), "after_release_before_CONNACK": rsDescOps(v.After), "held_until_next_connection_is_up": v.LateRelease, "carried_out_first_on_connection_0": rsDescOps(v.Pre),
		"network_flaps_while_held": v.Flap, "held_request_timed_out_on_live_connection": v.HeldLive, "note": v.Note}
}

// rsRunFine: connection 0 is accepted and then cut while idle; Held is submitted (its task fails on the
// dead client and is pinned in OnError); Before is submitted; the loop redials, SetClient installs
// client 1 and is pinned before init; Between is submitted; the task goroutine is released (it must
// notice the switch and wait); After is submitted; Connect goes on and is accepted (session present).
func rsRunFine(v *rsFineVariant) (rsObs, string) {
	sc := &rsScenario{MethodB: v.MethodB, Faults: v.Faults}
	var obs rsObs
	if atomic.LoadInt32(&rsStuck) >= 40 {
		obs.Stuck = "not run: 40 scenarios of this run got stuck already"
		return obs, "[]"
	}
	defer func() {
		if obs.Stuck != "" {
			atomic.AddInt32(&rsStuck, 1)
		}
	}()
	b := newRsBroker(sc)
	dialReq := make(chan struct{}, 1)
	dialGo := make(chan struct{}, 1)
	dialer := mqtt.DialerFunc(func(ctx context.Context) (*mqtt.BaseClient, error) {
		select {
		case dialReq <- struct{}{}:
		case <-b.quit:
			return nil, errors.New("over")
		}
		select {
		case <-dialGo:
		case <-b.quit:
			return nil, errors.New("over")
		}
		b.mu.Lock()
		k := len(b.conns)
		c := newMemConn(k, b.onWrite)
		c.localCloseErr = io.ErrClosedPipe
		b.conns = append(b.conns, c)
		b.accepted = append(b.accepted, false)
		b.sent = append(b.sent, 0)
		b.mu.Unlock()
		return &mqtt.BaseClient{Transport: c}, nil
	})
	var mu sync.Mutex
	var errs []string
	holdErr := false
	inErr := make(chan struct{}, 4)
	goErr := make(chan struct{})
	rc := &mqtt.RetryClient{}
	if v.HeldLive {
		rc.ResponseTimeout = 150 * time.Millisecond
	}
	rc.OnError = func(err error) {
		cls := "EConn"
		var rte *mqtt.RequestTimeoutError
		if errors.As(err, &rte) {
			cls = "ETimeout"
		} else if errors.Is(err, mqtt.ErrNotConnected) {
			cls = "ENotConnected"
		}
		mu.Lock()
		errs = append(errs, cls)
		h := holdErr
		holdErr = false
		mu.Unlock()
		if h {
			inErr <- struct{}{}
			select {
			case <-goErr:
			case <-b.quit:
			}
		}
	}
	holdOpt := false
	inOpt := make(chan struct{}, 4)
	goOpt := make(chan struct{})
	opt := mqtt.ConnectOption(func(o *mqtt.ConnectOptions) error {
		mu.Lock()
		h := holdOpt
		holdOpt = false
		mu.Unlock()
		if h {
			inOpt <- struct{}{}
			select {
			case <-goOpt:
			case <-b.quit:
			}
		}
		return nil
	})
	cli, err := mqtt.NewReconnectClient(dialer, mqtt.WithReconnectWait(200*time.Microsecond, time.Millisecond), mqtt.WithRetryClient(rc))
	if err != nil {
		obs.Stuck = err.Error()
		return obs, "[]"
	}
	ctx, cancel := context.WithCancel(context.Background())
	defer cancel()
	go func() { _, _ = cli.Connect(ctx, "cid", opt) }()
	rsWait := rsWaitDur()
	var labels []string
	lab := func(s string) { labels = append(labels, s) }
	wait := func(ch chan struct{}, where string) bool {
		select {
		case <-ch:
			return true
		case <-time.After(rsWait):
			obs.Stuck = where
			return false
		}
	}
	pushed := 0
	submitCall := func(op rsOp) {
		switch op.Kind {
		case 'p':
			m := &mqtt.Message{Topic: op.Topic, QoS: mqtt.QoS(op.QoS), Retain: op.Retain,
				Payload: append([]byte{byte(op.UID >> 8), byte(op.UID)}, op.Payload...)}
			_ = cli.Publish(ctx, m)
		case 's':
			var ss []mqtt.Subscription
			for _, s := range op.Subs {
				ss = append(ss, mqtt.Subscription{Topic: s.Topic, QoS: mqtt.QoS(s.QoS)})
			}
			_, _ = cli.Subscribe(ctx, ss...)
		case 'u':
			_ = cli.Unsubscribe(ctx, op.Topics...)
		}
	}
	submit := func(op rsOp) {
		pushed++
		done := make(chan struct{})
		go func() { submitCall(op); close(done) }()
		select {
		case <-done:
		case <-time.After(rsWait):
			obs.Stuck = "a request call (Publish/Subscribe/Unsubscribe) did not return"
		}
		lab("LSubmit (" + op.coq() + ")")
	}
	barrier := func(where string) bool {
		ch := make(chan struct{})
		pushed++
		if err := rsBarrierPush(rc, ch, rsWait); err != nil {
			obs.Stuck = where + ": " + err.Error()
			return false
		}
		return wait(ch, where+": barrier not reached")
	}
	waitTasks := func(n int, where string) bool {
		deadline := time.Now().Add(rsWait)
		for {
			st, ok := rsStats(cli)
			if !ok {
				obs.Stuck = where + ": Stats() does not return"
				return false
			}
			if st.TotalTasks+st.QueuedTasks >= n {
				return true
			}
			if time.Now().After(deadline) {
				obs.Stuck = where
				return false
			}
			time.Sleep(50 * time.Microsecond)
		}
	}
	connectAccept := func(sp bool, where string) bool {
		select {
		case <-b.connectReached:
		case <-time.After(rsWait):
			obs.Stuck = where + ": CONNECT not written"
			return false
		}
		b.mu.Lock()
		b.connectSP = sp
		b.mu.Unlock()
		b.connectGo <- rsAccept
		return true
	}
	script1 := func() {
		// connection 0: first request fails (ack lost), the others are deferred behind it
		if !wait(dialReq, "first dial") {
			return
		}
		dialGo <- struct{}{}
		lab("LDial true")
		lab("LSetClient")
		lab("LConnBegin")
		if !connectAccept(false, "conn 0") {
			return
		}
		lab("LConnEnd (CoAccept false)")
		lab("LPushResub")
		lab("LPushRetry")
		if !waitTasks(1, "loop did not push Retry on conn 0") || !barrier("conn 0") {
			return
		}
		lab("LObserve 1%nat")
		lab("LTask")
		for i, op := range v.Ops {
			submit(op)
			if !barrier("conn 0 op") {
				return
			}
			if i == 1 {
				lab("LObserve 1%nat") // after the failed first request the goroutine re-observes
			}
			lab("LTask")
		}
		// the loop redials; the Retry pass on connection 1 will be pinned in OnError
		if !wait(dialReq, "no redial") {
			return
		}
		lab("LDetectEnd")
		lab("LBackoff")
		mu.Lock()
		holdErr = true
		mu.Unlock()
		dialGo <- struct{}{}
		lab("LDial true")
		lab("LSetClient")
		lab("LConnBegin")
		if !connectAccept(true, "conn 1") {
			return
		}
		lab("LConnEnd (CoAccept true)")
		lab("LPushResub")
		lab("LPushRetry")
		lab("LTask") // notices the switch
		lab("LObserve 2%nat")
		if !wait(inErr, "Retry pass did not reach OnError") {
			return
		}
		// pinned inside the Retry pass; connection 1 is dead (the write was cut): the loop reconnects
		if !wait(dialReq, "no redial during the pinned pass") {
			return
		}
		dialGo <- struct{}{}
		select {
		case <-b.connectReached:
		case <-time.After(rsWait):
			obs.Stuck = "conn 2: CONNECT not written"
			return
		}
		// the new client is set and initialised, its CONNECT is held: release the pass; what is left of it
		// must still run against the connection the pass belongs to
		nwire := func() int { b.mu.Lock(); defer b.mu.Unlock(); return len(b.wire) }
		before := nwire()
		close(goErr)
		deadline := time.Now().Add(400 * time.Millisecond)
		for nwire() < before+len(v.Ops)-2 && time.Now().Before(deadline) {
			time.Sleep(50 * time.Microsecond)
		}
		time.Sleep(2 * time.Millisecond)
		lab("LTask") // the Retry pass, atomic in the model
		lab("LDetectEnd")
		lab("LBackoff")
		lab("LDial true")
		lab("LSetClient")
		lab("LConnBegin")
		b.mu.Lock()
		b.connectSP = true
		b.mu.Unlock()
		b.connectGo <- rsAccept
		lab("LConnEnd (CoAccept true)")
		lab("LPushResub")
		lab("LPushRetry")
		if !waitTasks(pushed+3, "loop did not push Retry on conn 2") || !barrier("conn 2") {
			return
		}
		lab("LObserve 3%nat")
		lab("LTask")
	}
	func() {
		if v.Kind == 1 {
			script1()
			return
		}
		// connection 0
		if !wait(dialReq, "first dial") {
			return
		}
		dialGo <- struct{}{}
		lab("LDial true")
		lab("LSetClient")
		lab("LConnBegin")
		if !connectAccept(false, "conn 0") {
			return
		}
		lab("LConnEnd (CoAccept false)")
		lab("LPushResub")
		lab("LPushRetry")
		if !waitTasks(1, "loop did not push Retry on conn 0") || !barrier("conn 0") {
			return
		}
		lab("LObserve 1%nat")
		lab("LTask") // Retry on an empty queue
		for _, op := range v.Pre {
			submit(op)
			if !barrier("conn 0 pre") {
				return
			}
			lab("LTask")
		}
		b.mu.Lock()
		c0 := b.conns[0]
		b.mu.Unlock()
		if !v.HeldLive {
			// idle cut
			c0.cut()
			lab("LIdleCut")
		}
		// the held task
		mu.Lock()
		holdErr = true
		mu.Unlock()
		submit(v.Held)
		if !wait(inErr, "held task did not reach OnError") {
			return
		}
		lab("LTask")
		if v.HeldLive {
			c0.cut() // the peer gives the connection up while the client is still reporting the timeout
		}
		for _, op := range v.Before {
			submit(op)
		}
		// the loop redials; pin it between SetClient and init
		if !wait(dialReq, "no redial") {
			return
		}
		lab("LDetectEnd")
		lab("LBackoff")
		if v.LateRelease {
			loopTasks := 2 // Retry on connection 0, Retry on connection 1
			gen := 2
			dialGo <- struct{}{}
			lab("LDial true")
			lab("LSetClient")
			lab("LConnBegin")
			if !connectAccept(!v.Flap, "conn 1") {
				return
			}
			if v.Flap {
				lab("LConnEnd (CoAccept false)")
				loopTasks++ // session lost: Resubscribe is queued ahead of Retry
			} else {
				lab("LConnEnd (CoAccept true)")
			}
			lab("LPushResub")
			lab("LPushRetry")
			if !waitTasks(pushed+loopTasks, "loop did not push its tasks on conn 1") {
				return
			}
			if v.Flap {
				b.mu.Lock()
				cf := b.conns[len(b.conns)-1]
				b.mu.Unlock()
				cf.cut()
				lab("LIdleCut")
				if !wait(dialReq, "no redial after the flap") {
					return
				}
				lab("LDetectEnd")
				lab("LBackoff")
				dialGo <- struct{}{}
				lab("LDial true")
				lab("LSetClient")
				lab("LConnBegin")
				if !connectAccept(true, "conn 2") {
					return
				}
				lab("LConnEnd (CoAccept true)")
				lab("LPushResub")
				lab("LPushRetry")
				loopTasks++
				gen = 3
				if !waitTasks(pushed+loopTasks, "loop did not push Retry on conn 2") {
					return
				}
			}
			for _, op := range v.After {
				submit(op)
			}
			// the task goroutine is still inside OnError of the held task: give younger requests the chance
			// to run ahead of it (they must not)
			for i := 0; i < 300; i++ {
				time.Sleep(50 * time.Microsecond)
			}
			close(goErr)
			if !barrier("conn 1") {
				return
			}
			if v.Held.QoS == 0 {
				lab("LTask") // notices the switch
			}
			lab(fmt.Sprintf("LObserve %d%%nat", gen))
			for i := 0; i < len(v.Before)+len(v.After)+loopTasks-1; i++ {
				lab("LTask")
			}
			// one more connection: whatever is still waiting for retransmission goes out now
			b.mu.Lock()
			c1 := b.conns[len(b.conns)-1]
			b.mu.Unlock()
			c1.cut()
			lab("LIdleCut")
			if !wait(dialReq, "no redial after the idle cut of connection 1") {
				return
			}
			lab("LDetectEnd")
			lab("LBackoff")
			dialGo <- struct{}{}
			lab("LDial true")
			lab("LSetClient")
			lab("LConnBegin")
			if !connectAccept(true, "last conn") {
				return
			}
			lab("LConnEnd (CoAccept true)")
			lab("LPushResub")
			lab("LPushRetry")
			if !waitTasks(pushed+loopTasks+1, "loop did not push Retry on the last connection") || !barrier("last conn") {
				return
			}
			lab("LTask") // notices the switch
			lab(fmt.Sprintf("LObserve %d%%nat", gen+1))
			lab("LTask")
			return
		}
		mu.Lock()
		holdOpt = true
		mu.Unlock()
		dialGo <- struct{}{}
		lab("LDial true")
		if !wait(inOpt, "loop did not reach the connect option") {
			return
		}
		lab("LSetClient")
		for _, op := range v.Between {
			submit(op)
		}
		// release the task goroutine: it must see the switch and wait for the new Connect.
		close(goErr)
		nBefore := 1 + len(v.Before) + len(v.Between)
		// It may run at most the tasks it is entitled to; give it the chance to misbehave: wait until it
		// is back in its loop (the held task has been counted) and a little scheduling happened.
		waitTasks(pushed, "tasks vanished")
		for i := 0; i < 200; i++ {
			time.Sleep(50 * time.Microsecond)
		}
		_ = nBefore
		if v.Held.QoS == 0 {
			lab("LTask") // notices the switch: TWaiting (a held task that queued a retry made it wait already)
		}
		for _, op := range v.After {
			submit(op)
		}
		close(goOpt)
		lab("LConnBegin")
		if !connectAccept(true, "conn 1") {
			return
		}
		lab("LConnEnd (CoAccept true)")
		lab("LPushResub")
		lab("LPushRetry")
		if !waitTasks(pushed+2, "loop did not push Retry on conn 1") || !barrier("conn 1") {
			return
		}
		lab("LObserve 2%nat")
		for i := 0; i < len(v.Before)+len(v.Between)+len(v.After)+1; i++ {
			lab("LTask")
		}
	}()
	if obs.Stuck == "" {
		st, ok := rsStats(cli)
		if !ok {
			obs.Stuck = "Stats() does not return"
		}
		obs.RetryQ = st.QueuedRetries
		obs.TaskQ = st.QueuedTasks
	}
	b.mu.Lock()
	obs.Wire = append([]rsWire{}, b.wire...)
	obs.Delivered = append([]int{}, b.delivered...)
	obs.Acked = append([]int{}, b.acked...)
	for t, q := range b.subs {
		obs.Subs = append(obs.Subs, rsSub{t, q})
	}
	conns := append([]*memConn{}, b.conns...)
	b.mu.Unlock()
	sort.Slice(obs.Subs, func(i, j int) bool { return obs.Subs[i].Topic < obs.Subs[j].Topic })
	mu.Lock()
	obs.Errs = append([]string{}, errs...)
	mu.Unlock()
	for _, c := range conns {
		c.Close()
	}
	close(b.quit)
	dctx, dcancel := context.WithTimeout(context.Background(), 3*time.Second)
	dd := make(chan struct{})
	go func() { _ = cli.Disconnect(dctx); close(dd) }()
	select {
	case <-dd:
	case <-time.After(5 * time.Second): // Disconnect stuck behind a lock: leave it behind
	}
	dcancel()
	return obs, cListInline(labels)
}

func rsFineVariants() []*rsFineVariant {
	var out []*rsFineVariant
	reqs := []rsOp{rsP(2, 1), rsP(2, 2), rsS(2, rsSub{"a", 1}), rsU(2, "a")}
	for _, rq := range reqs {
		// F7: a QoS0 publish fails on the dead client (no retry queued, the goroutine stays "connected")
		out = append(out, &rsFineVariant{Held: rsP(1, 0), Between: []rsOp{rq}, Note: "F7: request submitted between SetClient and init while the task goroutine is busy"})
		out = append(out, &rsFineVariant{Held: rsP(1, 0), Before: []rsOp{rq}, Note: "request queued before the redial while the task goroutine is busy"})
		out = append(out, &rsFineVariant{Held: rsP(1, 0), After: []rsOp{rq}, MethodB: true, Note: "request submitted after the task goroutine noticed the switch"})
		// the held task itself queues a retry (QoS1 publish fails): the goroutine closes the old client and waits
		rq3 := rq
		rq3.UID = 3
		if rq3.Kind == 'p' {
			rq3.Payload = []byte{3}
		} else if rq3.Kind == 's' {
			rq3.Subs = append([]rsSub{{"#3", 0}}, rq3.Subs[1:]...)
		} else {
			rq3.Topics = append([]string{"#3"}, rq3.Topics[1:]...)
		}
		out = append(out, &rsFineVariant{Held: rsP(1, 1), Between: []rsOp{rsP(2, 0), rq3}, Note: "held task queued a retry; QoS0 and another request between SetClient and init"})
	}
	// several requests waiting while the task goroutine is busy and the client is replaced: they run in
	// submission order on the new connection
	p3 := func(u int, q byte) rsOp { o := rsP(u, q); o.Payload = []byte{byte(u)}; return o }
	out = append(out, &rsFineVariant{Held: rsP(1, 0), Before: []rsOp{p3(2, 1), p3(3, 1), p3(4, 1)}, Note: "three requests queued before the redial while the task goroutine is busy"})
	out = append(out, &rsFineVariant{Held: rsP(1, 0), Between: []rsOp{p3(2, 1), p3(3, 2), p3(4, 1)}, MethodB: true, Note: "three requests between SetClient and init while the task goroutine is busy"})
	out = append(out, &rsFineVariant{Held: rsP(1, 0), Before: []rsOp{p3(2, 2)}, Between: []rsOp{p3(3, 1)}, After: []rsOp{p3(4, 1), p3(5, 0)}, Note: "requests queued before the redial, between SetClient and init, and after the switch was noticed"})
	out = append(out, &rsFineVariant{Held: rsP(1, 1), Before: []rsOp{p3(2, 1), p3(3, 1)}, Between: []rsOp{p3(4, 1)}, Note: "held task queued a retry; three requests behind it"})
	// the held task stays in OnError (slow callback) until the next connection is up and younger requests wait
	out = append(out, &rsFineVariant{Held: rsP(1, 1), Before: []rsOp{p3(2, 1), p3(3, 1)}, After: []rsOp{p3(4, 1)}, LateRelease: true, Note: "slow OnError of a failed request while the client reconnects; younger requests wait behind it"})
	out = append(out, &rsFineVariant{Held: rsP(1, 2), Before: []rsOp{p3(2, 1)}, After: []rsOp{p3(3, 2), p3(4, 0)}, LateRelease: true, MethodB: true, Note: "slow OnError of a failed QoS 2 request while the client reconnects"})
	out = append(out, &rsFineVariant{Held: rsP(1, 0), Before: []rsOp{p3(2, 1), p3(3, 1)}, After: []rsOp{p3(4, 1)}, LateRelease: true, Note: "slow OnError of a failed QoS 0 request while the client reconnects"})
	// the same while the network flaps: the connection made meanwhile loses the session (re-subscription queued) and
	// is cut at once; the next keeps the session: the queued re-subscription is still carried out
	sA := func(u int, f string, q byte) rsOp { return rsS(u, rsSub{f, q}) }
	out = append(out, &rsFineVariant{Pre: []rsOp{sA(1, "a", 1), sA(2, "b", 2)}, Held: rsP(3, 1), Before: []rsOp{sA(4, "x", 0)}, LateRelease: true, Flap: true,
		Note: "slow OnError while the network flaps: session lost on the connection in between, kept on the next"})
	out = append(out, &rsFineVariant{Pre: []rsOp{sA(1, "a", 2)}, Held: rsP(2, 0), After: []rsOp{p3(3, 1)}, LateRelease: true, Flap: true, MethodB: true,
		Note: "slow OnError (QoS 0 request) while the network flaps"})
	// a request abandoned by the response timeout whose OnError is slow while the peer cuts and the client reconnects:
	// the connection closed afterwards is the one the request ran on, not the new one
	for _, q := range []byte{1, 2} {
		out = append(out, &rsFineVariant{Held: rsP(1, q), Before: []rsOp{p3(2, 1)}, After: []rsOp{p3(3, 1)}, LateRelease: true, HeldLive: true,
			Faults: []rsFault{{0, 0, fSilentAck}}, MethodB: q == 2,
			Note: "response timeout reported by a slow OnError while the peer cuts and the client reconnects"})
	}
	// pinned inside a Retry pass (OnError of a deferred request whose write was cut) while the loop has already
	// installed and initialised the next client: the rest of the pass still belongs to the old connection
	for _, q := range []byte{1, 2} {
		out = append(out, &rsFineVariant{Kind: 1, Ops: []rsOp{rsP(1, 1), rsP(2, q), rsP(3, 1)},
			Faults: []rsFault{{0, 0, fAckLost}, {1, 1, fWriteFail}},
			Note:   "Retry pass pinned in OnError while the next client is already set and initialised"})
		out = append(out, &rsFineVariant{Kind: 1, MethodB: true, Ops: []rsOp{rsP(1, 2), rsP(2, q), rsP(3, 2), rsS(4, rsSub{"a", 1})},
			Faults: []rsFault{{0, 0, fAckLost}, {1, 1, fWriteFail}},
			Note:   "Retry pass pinned in OnError while the next client is already set and initialised"})
	}
	return out
}

func rsFineFamily(cf *casesFile, m *meta) int { return rsFineFamilyPred(cf, m, "lc01_ok") }

func rsFineFamilyC03(cf *casesFile, m *meta) int { return rsFineFamilyPred(cf, m, "lc03_ok") }

func rsFineFamilyC08(cf *casesFile, m *meta) int { return rsFineFamilyPred(cf, m, "lc08_ok") }

func rsFineFamilyPred(cf *casesFile, m *meta, pred string) int {
	vs := rsFineVariants()
	var items []string
	for _, v := range vs {
		obs, labels := rsRunFine(v)
		var fs []string
		for _, f := range v.Faults {
			fs = append(fs, fmt.Sprintf("(%d%%nat,%d%%nat,%s)", f.Conn, f.Idx, rsFaultName[f.Kind]))
		}
		sc := fmt.Sprintf("{| ls_cfg := {| c_method_b := %s; c_always_resub := false; c_timeout := %s |}; ls_faults := %s; ls_labels := %s |}", cBool(v.MethodB), cBool(v.HeldLive), cListInline(fs), labels)
		items = append(items, cTuple(sc, obs.coq()))
		m.Families["fine"] = append(m.Families["fine"], map[string]interface{}{"schedule": v.describe(), "observed": obs.describe()})
	}
	cf.def("cases_fine", "list (lscenario * obs)", cList(items))
	cf.result("V_fine", "lfailing "+pred+" cases_fine")
	cf.result("M_fine", "lfailing lmodel_ok cases_fine")
	return len(vs)
}
