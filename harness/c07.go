package main

// C07 — a request completes only on the acknowledgement that belongs to it.
//
// One script = one real BaseClient over a memConn. 1..8 goroutines issue blocking calls
// (Publish QoS1/QoS2 with caller-chosen identifiers, Subscribe with 1-4 filters, Unsubscribe);
// the scripted peer sees the requests as they are written (that order is an input of the model),
// withholds every acknowledgement and then sends a generated sequence of acknowledgements:
// genuine ones in a random order, and hostile ones (wrong kind with an identifier that is in
// use, unused identifier, duplicate, unsolicited, SUBACK with a wrong number of codes). After
// EACH acknowledgement an inbound QoS 0 marker PUBLISH is sent; its hand-over to the handler
// proves that the reader has processed the acknowledgement (the serve loop is sequential).
// When the acknowledgement is the PUBREC a QoS 2 caller waits for, the peer waits for that
// caller's PUBREL before it goes on. Every caller records, when its call returns, how many
// events had been issued (its stamp). Nothing sleeps; every wait has a 5 s timeout whose expiry
// is recorded as an observation, not as a harness failure.

import (
	"context"
	"errors"
	"fmt"
	"math/rand"
	"sort"
	"strings"
	"sync"
	"time"

	mqtt "github.com/at-wat/mqtt-go"
)

func init() { register("C07", runC07) }

const c07Wait = 5 * time.Second

var c07AckNames = []string{"PUBACK", "PUBREC", "PUBCOMP", "SUBACK", "UNSUBACK"}
var c07AckCoq = []string{"KPubAck", "KPubRec", "KPubComp", "KSubAck", "KUnsubAck"}
var c07AckHdr = []byte{0x40, 0x50, 0x70, 0x90, 0xB0}

const (
	c07Pub1 = iota
	c07Pub2
	c07Sub
	c07Unsub
)

type c07Ack struct {
	kind  int
	id    uint16
	codes []byte
}

func (a c07Ack) bytes() []byte {
	if a.kind == 3 {
		return encFrame(0x90, append([]byte{byte(a.id >> 8), byte(a.id)}, a.codes...))
	}
	return encID(c07AckHdr[a.kind], a.id)
}

type c07Event struct {
	typ string // "start", "recv", "resume"
	h   int
	ack c07Ack
	why string // generator class of a recv
}

type c07Caller struct {
	idx     int
	kind    int
	id      uint16
	filters []string
	reqQoS  []byte
	// mirror of the one-request automaton (used by the generator and to know when a PUBREL is due)
	started bool
	phase   int // 0 not started, 1 waiting first ack, 2 got PUBREC, 3 waiting PUBCOMP, 4 finished, 5 gave up
	// giving up: the script cancels the context (cancel) or gives it a short deadline
	deadline time.Duration
	cancel   context.CancelFunc
	doomed   bool // the script has ended / will end this caller's context
	// outcome, written by the caller goroutine under run.mu
	done     chan struct{}
	returned bool
	status   string // "succ", "inv", "closed", "ctx", "other:<text>"
	granted  []mqtt.Subscription
	stamp    int
}

func (c *c07Caller) awaited() int {
	switch c.phase {
	case 1:
		return []int{0, 1, 3, 4}[c.kind]
	case 3:
		return 2
	}
	return -1
}

type c07Note struct {
	typ string // "start" or "resume"
	h   int
}

type c07Run struct {
	s        *session
	mu       sync.Mutex
	events   []c07Event
	callers  []*c07Caller
	byFilter map[string]*c07Caller
	notes    chan c07Note
	marker   chan int
	impl     []string // observations only the Go side can judge (hangs)
	sent     []c07Ack
	stale    map[[2]int]bool // (ack kind, id) of waiter entries left behind by callers that gave up
	zero     bool            // zero-delay peer: every request packet is answered inside Transport.Write
	zeroPre  bool            // ... preceded by an acknowledgement of the same kind with an unused identifier
	zrng     *rand.Rand
}

func c07Varint(b []byte) (int, int) {
	n, shift := 0, uint(0)
	for i := 0; i < len(b) && i < 4; i++ {
		n |= int(b[i]&0x7F) << shift
		if b[i]&0x80 == 0 {
			return n, i + 1
		}
		shift += 7
	}
	return n, len(b)
}

// onPkt runs on the goroutine that writes (inside BaseClient.write): it appends the Start /
// Resume event in wire order and tells the script.
func (r *c07Run) onPkt(pkt []byte) {
	if len(pkt) < 2 {
		return
	}
	_, n := c07Varint(pkt[1:])
	body := pkt[1+n:]
	var c *c07Caller
	typ := ""
	switch pkt[0] & 0xF0 {
	case 0x30:
		qos := int(pkt[0]>>1) & 3
		if qos == 0 || len(body) < 2 {
			return
		}
		tl := int(body[0])<<8 | int(body[1])
		if len(body) < 2+tl+2 {
			return
		}
		id := uint16(body[2+tl])<<8 | uint16(body[3+tl])
		typ = "start"
		r.mu.Lock()
		for _, x := range r.callers {
			if x.kind == qos-1 && x.id == id && !x.started {
				c = x
			}
		}
		r.mu.Unlock()
	case 0x80, 0xA0:
		if len(body) < 4 {
			return
		}
		id := uint16(body[0])<<8 | uint16(body[1])
		fl := int(body[2])<<8 | int(body[3])
		if len(body) < 4+fl {
			return
		}
		typ = "start"
		r.mu.Lock()
		c = r.byFilter[string(body[4:4+fl])]
		if c != nil {
			c.id = id
		}
		r.mu.Unlock()
	case 0x60:
		if len(body) < 2 {
			return
		}
		id := uint16(body[0])<<8 | uint16(body[1])
		typ = "resume"
		r.mu.Lock()
		for _, x := range r.callers {
			if x.kind == c07Pub2 && x.id == id && x.started && x.phase != 4 && x.phase != 5 {
				c = x
			}
		}
		r.mu.Unlock()
	default:
		return
	}
	h := 99 // a packet nobody in the script can have written
	if c != nil {
		h = c.idx
	}
	r.mu.Lock()
	r.events = append(r.events, c07Event{typ: typ, h: h})
	if c != nil && typ == "start" {
		c.started = true
		c.phase = 1
	}
	r.mu.Unlock()
	if r.zero && c != nil {
		r.answerNow(c, typ)
	}
	select {
	case r.notes <- c07Note{typ, h}:
	default:
	}
}

// answerNow: the zero-delay broker. Called on the writer's goroutine inside Transport.Write: the
// acknowledgement of the packet just written is queued and the call returns only when the
// client's reader has consumed it (and is blocked in Read again) — i.e. the acknowledgement is
// dispatched BEFORE the library's write returns to the caller.
func (r *c07Run) answerNow(c *c07Caller, typ string) {
	var a c07Ack
	switch {
	case typ == "start":
		a = c07Ack{kind: c.awaited(), id: c.id}
		if a.kind == 3 {
			a.codes = c07Codes(r.zrng, len(c.filters))
		}
	case typ == "resume":
		a = c07Ack{kind: 2, id: c.id}
	default:
		return
	}
	var seq []c07Ack
	if r.zeroPre {
		f := c07Ack{kind: a.kind, id: c.id + 1000}
		if f.id == 0 {
			f.id = 7
		}
		if f.kind == 3 {
			f.codes = c07Codes(r.zrng, r.zrng.Intn(4))
		}
		seq = append(seq, f)
	}
	seq = append(seq, a)
	for i, x := range seq {
		why := "zero-delay"
		if i < len(seq)-1 {
			why = "zero-delay-foreign"
		}
		r.mu.Lock()
		r.events = append(r.events, c07Event{typ: "recv", ack: x, why: why})
		r.mu.Unlock()
		r.s.conn.send(x.bytes())
		if !r.s.conn.waitReaderIdle(c07Wait) {
			r.mu.Lock()
			r.impl = append(r.impl, fmt.Sprintf("stuck: the reader did not consume %s(%d) within 5 s", c07AckNames[x.kind], x.id))
			r.mu.Unlock()
		}
	}
	// mirror
	switch {
	case typ == "start" && c.kind == c07Pub2:
		c.phase = 3 // the PUBREL that follows is answered in the same way
	default:
		c.phase = 4
	}
}

func (r *c07Run) launch(c *c07Caller) {
	c.done = make(chan struct{})
	ready := make(chan struct{})
	defer func() { <-ready }()
	go func() {
		defer close(c.done)
		status := ""
		var granted []mqtt.Subscription
		func() {
			defer func() {
				if p := recover(); p != nil {
					status = fmt.Sprintf("other:panic %v", p)
				}
			}()
			// the outer context is only a safety net against a leaked goroutine; no script lasts that long
			ctx0, cancel0 := context.WithTimeout(context.Background(), 120*time.Second)
			defer cancel0()
			ctx, cancel := context.WithCancel(ctx0)
			if c.deadline > 0 {
				ctx, cancel = context.WithTimeout(ctx0, c.deadline)
			}
			defer cancel()
			r.mu.Lock()
			c.cancel = cancel
			r.mu.Unlock()
			close(ready)
			var err error
			switch c.kind {
			case c07Pub1, c07Pub2:
				err = r.s.cli.Publish(ctx, &mqtt.Message{Topic: "t", QoS: mqtt.QoS(c.kind + 1), ID: c.id, Payload: []byte{byte(c.idx)}})
			case c07Sub:
				subs := make([]mqtt.Subscription, len(c.filters))
				for i, f := range c.filters {
					subs[i] = mqtt.Subscription{Topic: f, QoS: mqtt.QoS(c.reqQoS[i])}
				}
				var out []mqtt.Subscription
				out, err = r.s.cli.Subscribe(ctx, subs...)
				granted = append([]mqtt.Subscription{}, out...)
			case c07Unsub:
				err = r.s.cli.Unsubscribe(ctx, c.filters...)
			}
			switch {
			case err == nil:
				status = "succ"
			case errors.Is(err, mqtt.ErrInvalidSubAck):
				status = "inv"
			case errors.Is(err, context.Canceled) || errors.Is(err, context.DeadlineExceeded):
				status = "ctx"
			case errors.Is(err, mqtt.ErrClosedTransport) || errors.Is(err, errClosedConn):
				status = "closed"
			default:
				status = "other:" + errClass(err)
			}
		}()
		r.mu.Lock()
		if status == "ctx" {
			if c.doomed {
				// the caller gave up: this is the Cancel event of the history
				r.events = append(r.events, c07Event{typ: "cancel", h: c.idx})
			} else {
				status = "other:context error although the script did not end the context"
			}
		}
		c.stamp = len(r.events)
		c.status = status
		c.granted = granted
		c.returned = true
		r.mu.Unlock()
	}()
}

func (r *c07Run) waitNote(typ string, h int) bool {
	deadline := time.After(c07Wait)
	for {
		select {
		case n := <-r.notes:
			if n.typ == typ && (h < 0 || n.h == h) {
				return true
			}
		case <-deadline:
			return false
		}
	}
}

// c07WaitAll waits for all the given callers under ONE 5 s deadline.
func c07WaitAll(cs []*c07Caller) bool {
	deadline := time.After(c07Wait)
	all := true
	for _, c := range cs {
		if c.done == nil {
			continue
		}
		select {
		case <-c.done:
			continue
		default:
		}
		if !all {
			continue // the deadline has passed already
		}
		select {
		case <-c.done:
		case <-deadline:
			all = false
		}
	}
	return all
}

func (r *c07Run) finished() []*c07Caller {
	var out []*c07Caller
	for _, c := range r.callers {
		if c.phase == 4 {
			out = append(out, c)
		}
	}
	return out
}

// mirror: which caller is waiting for (kind, id)
func (r *c07Run) waiting(kind int, id uint16) *c07Caller {
	for _, c := range r.callers {
		if c.started && c.id == id && c.awaited() == kind {
			return c
		}
	}
	return nil
}

func (r *c07Run) idInUse(class int, id uint16) bool {
	if class == c07Pub1 && r.stale[[2]int{0, int(id)}] {
		return true
	}
	if class == c07Pub2 && (r.stale[[2]int{1, int(id)}] || r.stale[[2]int{2, int(id)}]) {
		return true
	}
	for _, c := range r.callers {
		if c.started && c.phase != 4 && c.kind == class && c.id == id {
			return true
		}
	}
	return false
}

func (r *c07Run) outstanding() []*c07Caller {
	var out []*c07Caller
	for _, c := range r.callers {
		if c.started && (c.phase == 1 || c.phase == 3) {
			out = append(out, c)
		}
	}
	return out
}

// gaveUp: mirror bookkeeping for a caller that has returned its context's error: its waiter
// entry stays in the library's map until an acknowledgement with that identifier arrives.
func (r *c07Run) gaveUp(c *c07Caller) {
	if k := c.awaited(); k >= 0 {
		r.stale[[2]int{k, int(c.id)}] = true
	}
	c.phase = 5
}

// cancelSome cancels the contexts of up to k callers that are blocked waiting and waits until
// they have returned.
func (r *c07Run) cancelSome(rng *rand.Rand, k int) {
	out := r.outstanding()
	rng.Shuffle(len(out), func(i, j int) { out[i], out[j] = out[j], out[i] })
	if k > len(out) {
		k = len(out)
	}
	for _, c := range out[:k] {
		r.mu.Lock()
		c.doomed = true
		cancel := c.cancel
		r.mu.Unlock()
		cancel()
	}
	if !c07WaitAll(out[:k]) {
		r.impl = append(r.impl, "stuck: a caller did not return within 5 s after its context was cancelled")
	}
	for _, c := range out[:k] {
		r.gaveUp(c)
	}
}

// startWave launches the callers: subscribes/unsubscribes first (their identifiers are chosen
// by the library and become known when they are written), then the publishes, whose identifiers
// are chosen here — often equal to an identifier another kind of request is using.
func (r *c07Run) startWave(rng *rand.Rand, wave []*c07Caller) bool {
	var pubs, others []*c07Caller
	for _, c := range wave {
		if c.kind == c07Pub1 || c.kind == c07Pub2 {
			pubs = append(pubs, c)
		} else {
			others = append(others, c)
		}
	}
	for _, c := range others {
		r.launch(c)
	}
	for range others {
		if !r.waitNote("start", -1) {
			r.impl = append(r.impl, "stuck: a Subscribe/Unsubscribe request was not written within 5 s")
			return false
		}
	}
	for _, c := range pubs {
		var known []uint16
		r.mu.Lock()
		for _, x := range r.callers {
			if x.started || (x.id != 0 && x != c) {
				known = append(known, x.id)
			}
		}
		r.mu.Unlock()
		for tries := 0; ; tries++ {
			var id uint16
			if len(known) > 0 && rng.Intn(100) < 60 && tries < 20 {
				id = known[rng.Intn(len(known))]
			} else {
				id = uint16(1 + rng.Intn(65535))
			}
			clash := r.idInUse(c.kind, id)
			for _, x := range pubs {
				if x != c && x.kind == c.kind && x.id == id {
					clash = true
				}
			}
			if !clash && id != 0 {
				c.id = id
				break
			}
		}
	}
	for _, c := range pubs {
		r.launch(c)
	}
	for range pubs {
		if !r.waitNote("start", -1) {
			r.impl = append(r.impl, "stuck: a Publish request was not written within 5 s")
			return false
		}
	}
	// callers started with a short deadline give up on their own; nothing is sent before
	var doomed []*c07Caller
	for _, c := range wave {
		if c.deadline > 0 {
			doomed = append(doomed, c)
		}
	}
	if !c07WaitAll(doomed) {
		r.impl = append(r.impl, "stuck: a caller did not return within 5 s after its context's deadline")
	}
	for _, c := range doomed {
		r.gaveUp(c)
	}
	return true
}

func c07Codes(rng *rand.Rand, n int) []byte {
	out := make([]byte, n)
	for i := range out {
		out[i] = []byte{0, 1, 2, 0x80}[rng.Intn(4)]
	}
	return out
}

func (r *c07Run) freeID(rng *rand.Rand) uint16 {
	for {
		id := uint16(1 + rng.Intn(65535))
		used := false
		for _, c := range r.callers {
			if c.id == id {
				used = true
			}
		}
		if !used {
			return id
		}
	}
}

// nextAck generates one acknowledgement from the hostile distribution.
func (r *c07Run) nextAck(rng *rand.Rand, wide bool) (c07Ack, string) {
	out := r.outstanding()
	if len(r.stale) > 0 && rng.Intn(100) < 35 {
		// late acknowledgement for a caller that gave up (map iteration order made deterministic)
		var keys [][2]int
		for k := range r.stale {
			keys = append(keys, k)
		}
		sort.Slice(keys, func(i, j int) bool { return keys[i][0] < keys[j][0] || (keys[i][0] == keys[j][0] && keys[i][1] < keys[j][1]) })
		k := keys[rng.Intn(len(keys))]
		a := c07Ack{kind: k[0], id: uint16(k[1])}
		if a.kind == 3 {
			a.codes = c07Codes(rng, rng.Intn(5))
		}
		return a, "late"
	}
	x := rng.Intn(100)
	mis := 6
	if wide {
		mis = 12
	}
	switch {
	case len(out) > 0 && x < 52:
		c := out[rng.Intn(len(out))]
		a := c07Ack{kind: c.awaited(), id: c.id}
		why := "genuine"
		if a.kind == 3 {
			n := len(c.filters)
			if rng.Intn(100) < mis {
				m := []int{n - 1, n + 1, 0, n + 2}[rng.Intn(4)]
				if m < 0 {
					m = n + 1
				}
				if m == n {
					m = n + 1
				}
				n = m
				why = "genuine-miscounted"
			}
			a.codes = c07Codes(rng, n)
		}
		return a, why
	case len(out) > 0 && x < 70:
		// an identifier that is in use, another kind than its holder waits for
		var started []*c07Caller
		for _, c := range r.callers {
			if c.started && c.phase != 4 {
				started = append(started, c)
			}
		}
		c := started[rng.Intn(len(started))]
		k := rng.Intn(5)
		for k == c.awaited() {
			k = rng.Intn(5)
		}
		a := c07Ack{kind: k, id: c.id}
		if k == 3 {
			a.codes = c07Codes(rng, rng.Intn(5))
		}
		return a, "wrong-kind"
	case x < 80:
		k := rng.Intn(5)
		if len(out) > 0 {
			k = out[rng.Intn(len(out))].awaited()
		}
		a := c07Ack{kind: k, id: r.freeID(rng)}
		if k == 3 {
			a.codes = c07Codes(rng, rng.Intn(5))
		}
		return a, "foreign-id"
	case x < 90 && len(r.sent) > 0:
		return r.sent[rng.Intn(len(r.sent))], "duplicate"
	default:
		k := rng.Intn(5)
		id := r.freeID(rng)
		var fin []*c07Caller
		for _, c := range r.callers {
			if c.phase == 4 {
				fin = append(fin, c)
			}
		}
		if len(fin) > 0 && rng.Intn(2) == 0 {
			id = fin[rng.Intn(len(fin))].id
		}
		a := c07Ack{kind: k, id: id}
		if k == 3 {
			a.codes = c07Codes(rng, rng.Intn(5))
		}
		return a, "unsolicited"
	}
}

type c07Result struct {
	coq      string
	desc     map[string]interface{}
	key      string
	impl     []string
	nCallers int
	hostile  int
	complete int
	closing  bool
	blocked  int
	kinds    map[string]int
	stuck    bool
	cancelMode bool
	late     int
	gaveUp   int
}

// cancelMode: 1-3 callers give up (context cancelled, or started with a short deadline) before
// their acknowledgement is sent; further requests are started afterwards; the acknowledgements
// of the callers that gave up are sent late.
func c07Script(rng *rand.Rand, wide bool, cancelMode bool) (*c07Result, error) {
	r := &c07Run{byFilter: map[string]*c07Caller{}, notes: make(chan c07Note, 256), marker: make(chan int, 16), stale: map[[2]int]bool{}}
	s, err := newSession(false, func(_ *session, pkt []byte) { r.onPkt(pkt) })
	if err != nil {
		return nil, err
	}
	r.s = s
	s.cli.Handle(mqtt.HandlerFunc(func(m *mqtt.Message) {
		if m.Topic == "\x01mark" && len(m.Payload) == 2 {
			r.marker <- int(m.Payload[0])<<8 | int(m.Payload[1])
		}
	}))
	maxN := 8
	n := 1 + rng.Intn(maxN)
	if cancelMode && n < 2 {
		n = 2 + rng.Intn(maxN-1)
	}
	for i := 0; i < n; i++ {
		c := &c07Caller{idx: i}
		x := rng.Intn(10)
		if cancelMode && rng.Intn(3) == 0 {
			x = 0 // more QoS 1 publishes: they follow each other closely in time
		}
		switch {
		case x < 3:
			c.kind = c07Pub1
		case x < 6:
			c.kind = c07Pub2
		case x < 9:
			c.kind = c07Sub
			nf := 1 + rng.Intn(4)
			for j := 0; j < nf; j++ {
				c.filters = append(c.filters, fmt.Sprintf("s%d%c", i, 'a'+j))
				c.reqQoS = append(c.reqQoS, byte(rng.Intn(3)))
			}
		default:
			c.kind = c07Unsub
			c.filters = []string{fmt.Sprintf("u%d", i)}
			if rng.Intn(3) == 0 {
				c.filters = append(c.filters, fmt.Sprintf("u%dx", i))
			}
		}
		if len(c.filters) > 0 {
			r.byFilter[c.filters[0]] = c
		}
		r.callers = append(r.callers, c)
	}
	n1 := n
	if n > 1 && rng.Intn(3) == 0 {
		n1 = 1 + rng.Intn(n-1)
	}
	wave2At := 1 + rng.Intn(2*n)
	explicit := 0
	if cancelMode {
		n1 = 1 + rng.Intn(n-1)
		wave2At = rng.Intn(3)
		nd := 0 // callers of the first wave that start with a short deadline
		if rng.Intn(2) == 0 {
			nd = 1 + rng.Intn(2)
		}
		for i := 0; i < nd && i < n1; i++ {
			c := r.callers[rng.Intn(n1)]
			c.deadline = time.Duration(200+rng.Intn(3000)) * time.Microsecond
			c.doomed = true
		}
		explicit = rng.Intn(3)
		if nd == 0 && explicit == 0 {
			explicit = 1
		}
	}
	res := &c07Result{nCallers: n, kinds: map[string]int{}, cancelMode: cancelMode}
	ok := r.startWave(rng, r.callers[:n1])
	wave2Done := n1 == n
	startWave2 := func() bool {
		wave2Done = true
		if explicit > 0 {
			r.cancelSome(rng, explicit)
		}
		return r.startWave(rng, r.callers[n1:])
	}
	budget := rng.Intn(3*n + 8)
	if rng.Intn(4) == 0 {
		budget = 4*n + 10 // long enough to finish everybody most of the time
	}
	seq := 0
	closing := false
	for acks := 0; ok && acks < budget; acks++ {
		if !wave2Done && acks >= wave2At {
			if ok = startWave2(); !ok {
				break
			}
		}
		if wave2Done && len(r.outstanding()) == 0 && rng.Intn(3) > 0 {
			break
		}
		a, why := r.nextAck(rng, wide)
		w := r.waiting(a.kind, a.id)
		if r.stale[[2]int{a.kind, int(a.id)}] {
			// the late acknowledgement of a caller that gave up: it takes the stale entry out
			delete(r.stale, [2]int{a.kind, int(a.id)})
			res.late++
		}
		if w != nil && a.kind == 3 && len(a.codes) != len(w.filters) {
			// this SUBACK makes the library close the transport: it is the last event of the
			// script; first start whoever has not started yet and let every caller whose
			// acknowledgement has been sent return
			if !wave2Done {
				// (the cancellations that precede the second wave may hit the subscriber
				// itself: generate a new acknowledgement afterwards)
				if ok = startWave2(); !ok {
					break
				}
				continue
			}
			if !c07WaitAll(r.finished()) {
				res.stuck = true
			}
			r.mu.Lock()
			r.events = append(r.events, c07Event{typ: "recv", ack: a, why: why})
			r.mu.Unlock()
			r.sent = append(r.sent, a)
			s.conn.send(a.bytes())
			w.phase = 4
			closing = true
			res.kinds[why]++
			break
		}
		r.mu.Lock()
		r.events = append(r.events, c07Event{typ: "recv", ack: a, why: why})
		r.mu.Unlock()
		r.sent = append(r.sent, a)
		res.kinds[why]++
		if why != "genuine" {
			res.hostile++
		}
		seq++
		s.conn.send(a.bytes())
		s.conn.send(encPublish(inMsg{Topic: []byte("\x01mark"), QoS: 0, Payload: []byte{byte(seq >> 8), byte(seq)}}))
		select {
		case got := <-r.marker:
			if got != seq {
				return nil, fmt.Errorf("marker out of order: %d, want %d", got, seq)
			}
		case <-time.After(c07Wait):
			r.impl = append(r.impl, fmt.Sprintf("stuck: the reader did not process %s(%d) and the marker after it within 5 s", c07AckNames[a.kind], a.id))
			ok = false
		}
		if !ok {
			break
		}
		if w != nil {
			switch {
			case a.kind == 1:
				w.phase = 2
				if !r.waitNote("resume", w.idx) {
					r.impl = append(r.impl, fmt.Sprintf("stuck: caller %d (Publish QoS2) did not write PUBREL within 5 s after its PUBREC", w.idx))
					res.stuck = true
				} else {
					w.phase = 3
				}
			default:
				w.phase = 4
			}
		}
	}
	// end of script
	if ok && !wave2Done {
		startWave2()
	}
	if closing {
		if !c07WaitAll(r.callers) {
			res.stuck = true
		}
	} else if !c07WaitAll(r.finished()) {
		res.stuck = true
	}
	return r.finish(res, closing), nil
}

// finish takes the snapshot of who has returned, releases the rest by closing the transport
// and renders history and outcomes canonically.
func (r *c07Run) finish(res *c07Result, closing bool) *c07Result {
	s := r.s
	// snapshot
	r.mu.Lock()
	events := append([]c07Event{}, r.events...)
	type snap struct {
		returned bool
		status   string
		granted  []mqtt.Subscription
		stamp    int
	}
	snaps := make([]snap, len(r.callers))
	for i, c := range r.callers {
		snaps[i] = snap{c.returned, c.status, c.granted, c.stamp}
	}
	r.mu.Unlock()
	closedObs := s.conn.isClosed()
	// release whoever is still blocked
	s.conn.Close()
	if !c07WaitAll(r.callers) {
		r.impl = append(r.impl, "stuck: a caller did not return within 5 s after the transport was closed")
	}
	if !s.waitDone(c07Wait) {
		r.impl = append(r.impl, "stuck: the reader did not end within 5 s after the transport was closed")
	}

	// ---- canonical rendering: identifiers renamed by first appearance ----
	canon := map[uint16]int{}
	cid := func(id uint16) int {
		if v, ok := canon[id]; ok {
			return v
		}
		canon[id] = len(canon) + 1
		return canon[id]
	}
	var evCoq, evDesc []string
	for _, e := range events {
		switch e.typ {
		case "start":
			if e.h == 99 {
				evCoq = append(evCoq, "Start 99%nat RUnsub 0")
				evDesc = append(evDesc, "start(unknown request)")
				continue
			}
			c := r.callers[e.h]
			id := cid(c.id)
			switch c.kind {
			case c07Pub1:
				evCoq = append(evCoq, fmt.Sprintf("Start %d%%nat RPub1 %d", c.idx, id))
				evDesc = append(evDesc, fmt.Sprintf("c%d:Publish(q1,id%d)", c.idx, id))
			case c07Pub2:
				evCoq = append(evCoq, fmt.Sprintf("Start %d%%nat RPub2 %d", c.idx, id))
				evDesc = append(evDesc, fmt.Sprintf("c%d:Publish(q2,id%d)", c.idx, id))
			case c07Sub:
				var fs, fd []string
				for j, f := range c.filters {
					fs = append(fs, fmt.Sprintf("(%s,%d)", cStr(f), c.reqQoS[j]))
					fd = append(fd, fmt.Sprintf("%s@%d", f, c.reqQoS[j]))
				}
				evCoq = append(evCoq, fmt.Sprintf("Start %d%%nat (RSub %s) %d", c.idx, cListInline(fs), id))
				evDesc = append(evDesc, fmt.Sprintf("c%d:Subscribe(id%d,%s)", c.idx, id, strings.Join(fd, ",")))
			case c07Unsub:
				evCoq = append(evCoq, fmt.Sprintf("Start %d%%nat RUnsub %d", c.idx, id))
				evDesc = append(evDesc, fmt.Sprintf("c%d:Unsubscribe(id%d)", c.idx, id))
			}
		case "recv":
			id := cid(e.ack.id)
			evCoq = append(evCoq, fmt.Sprintf("Recv (mkAck %s %d %s)", c07AckCoq[e.ack.kind], id, cBytes(e.ack.codes)))
			d := fmt.Sprintf("%s(id%d", c07AckNames[e.ack.kind], id)
			if e.ack.kind == 3 {
				d += fmt.Sprintf(",codes%v", e.ack.codes)
			}
			evDesc = append(evDesc, d+")["+e.why+"]")
		case "resume":
			evCoq = append(evCoq, fmt.Sprintf("Resume %d%%nat", e.h))
			evDesc = append(evDesc, fmt.Sprintf("c%d:PUBREL", e.h))
		case "cancel":
			evCoq = append(evCoq, fmt.Sprintf("Cancel %d%%nat", e.h))
			how := "ctx cancelled"
			if r.callers[e.h].deadline > 0 {
				how = "ctx deadline"
			}
			evDesc = append(evDesc, fmt.Sprintf("c%d:gave up (%s)", e.h, how))
		}
	}
	var obCoq, obDesc []string
	for i, sn := range snaps {
		switch {
		case !sn.returned:
			obCoq = append(obCoq, "(OBlocked, 0%nat)")
			obDesc = append(obDesc, fmt.Sprintf("c%d:blocked", i))
			res.blocked++
		case sn.status == "succ":
			var g, gd []string
			for _, x := range sn.granted {
				g = append(g, fmt.Sprintf("(%s,%d)", cStr(x.Topic), byte(x.QoS)))
				gd = append(gd, fmt.Sprintf("%s@%d", x.Topic, byte(x.QoS)))
			}
			obCoq = append(obCoq, fmt.Sprintf("(OSucc %s, %d%%nat)", cListInline(g), sn.stamp))
			obDesc = append(obDesc, fmt.Sprintf("c%d:ok[%s]@%d", i, strings.Join(gd, ","), sn.stamp))
			res.complete++
		case sn.status == "inv":
			obCoq = append(obCoq, fmt.Sprintf("(OInv, %d%%nat)", sn.stamp))
			obDesc = append(obDesc, fmt.Sprintf("c%d:ErrInvalidSubAck@%d", i, sn.stamp))
		case sn.status == "ctx":
			obCoq = append(obCoq, fmt.Sprintf("(OCancelled, %d%%nat)", sn.stamp))
			obDesc = append(obDesc, fmt.Sprintf("c%d:ctx error@%d", i, sn.stamp))
			res.gaveUp++
		case sn.status == "closed":
			obCoq = append(obCoq, fmt.Sprintf("(OClosed, %d%%nat)", sn.stamp))
			obDesc = append(obDesc, fmt.Sprintf("c%d:ErrClosedTransport@%d", i, sn.stamp))
		default:
			obCoq = append(obCoq, fmt.Sprintf("(OOther, %d%%nat)", sn.stamp))
			obDesc = append(obDesc, fmt.Sprintf("c%d:%s@%d", i, sn.status, sn.stamp))
		}
	}
	res.coq = cTuple(cListInline(evCoq), cListInline(obCoq), cBool(closedObs))
	res.desc = map[string]interface{}{"history": evDesc, "callers": obDesc, "transport_closed_by_library": closedObs}
	res.key = strings.Join(evDesc, " ")
	res.impl = r.impl
	res.closing = closing
	return res
}

// c07ZeroScript: zero-delay answers. Optionally one bystander whose acknowledgement is withheld,
// then 1-3 callers started one after another; the peer answers every packet they write (request,
// PUBREL) inside Transport.Write with its own acknowledgement and returns from Write only when
// the reader has consumed it. Every such caller must return success (the waiter is registered
// before the write); one that has not returned after 5 s is recorded as blocked = stuck.
func c07ZeroScript(rng *rand.Rand) (*c07Result, error) {
	r := &c07Run{byFilter: map[string]*c07Caller{}, notes: make(chan c07Note, 256), marker: make(chan int, 16),
		stale: map[[2]int]bool{}, zrng: rng}
	s, err := newSession(false, func(_ *session, pkt []byte) { r.onPkt(pkt) })
	if err != nil {
		return nil, err
	}
	r.s = s
	n := 1 + rng.Intn(3)
	by := 0
	if rng.Intn(3) == 0 {
		by = 1
	}
	for i := 0; i < by+n; i++ {
		c := &c07Caller{idx: i}
		c.kind = rng.Intn(4)
		switch c.kind {
		case c07Pub1, c07Pub2:
			c.id = uint16(1 + rng.Intn(60000))
			for r.idInUse(c.kind, c.id) || c07HasID(r.callers, c.kind, c.id) {
				c.id++
			}
		case c07Sub:
			nf := 1 + rng.Intn(4)
			for j := 0; j < nf; j++ {
				c.filters = append(c.filters, fmt.Sprintf("s%d%c", i, 'a'+j))
				c.reqQoS = append(c.reqQoS, byte(rng.Intn(3)))
			}
		default:
			c.filters = []string{fmt.Sprintf("u%d", i)}
		}
		if len(c.filters) > 0 {
			r.byFilter[c.filters[0]] = c
		}
		r.callers = append(r.callers, c)
	}
	res := &c07Result{nCallers: by + n, kinds: map[string]int{}}
	for i, c := range r.callers {
		r.zero = i >= by
		r.zeroPre = r.zero && rng.Intn(3) == 0
		r.launch(c)
		if !r.zero {
			if !r.waitNote("start", -1) {
				r.impl = append(r.impl, "stuck: a request was not written within 5 s")
				break
			}
			continue
		}
		if !c07WaitAll([]*c07Caller{c}) {
			res.stuck = true
			break // the caller may still hold the write lock or not: do not start anybody else
		}
	}
	r.zero = false
	res.kinds["zero-delay"] = n
	return r.finish(res, false), nil
}

func c07HasID(cs []*c07Caller, kind int, id uint16) bool {
	for _, c := range cs {
		if c.kind == kind && c.id == id {
			return true
		}
	}
	return false
}

// c07SharedScript: outside C07's hypothesis. Two publishes of the same QoS with the same
// caller-chosen identifier, the second started after the first has been written, plus a
// bystander; then the acknowledgement chain for that identifier, twice. The model says the
// second waiter replaces the first: the second call completes, the first never returns.
func c07SharedScript(rng *rand.Rand) (*c07Result, error) {
	r := &c07Run{byFilter: map[string]*c07Caller{}, notes: make(chan c07Note, 256), marker: make(chan int, 16)}
	s, err := newSession(false, func(_ *session, pkt []byte) { r.onPkt(pkt) })
	if err != nil {
		return nil, err
	}
	r.s = s
	s.cli.Handle(mqtt.HandlerFunc(func(m *mqtt.Message) {
		if m.Topic == "\x01mark" && len(m.Payload) == 2 {
			r.marker <- int(m.Payload[0])<<8 | int(m.Payload[1])
		}
	}))
	kind := c07Pub1 + rng.Intn(2)
	id := uint16(1 + rng.Intn(65535))
	a := &c07Caller{idx: 0, kind: kind, id: id}
	b := &c07Caller{idx: 1, kind: kind}
	by := &c07Caller{idx: 2, kind: c07Unsub, filters: []string{"u2"}}
	r.byFilter["u2"] = by
	r.callers = []*c07Caller{a, b, by}
	res := &c07Result{nCallers: 3, kinds: map[string]int{}}
	for _, c := range []*c07Caller{a, by, b} {
		if c == b {
			b.id = id
		}
		r.launch(c)
		if !r.waitNote("start", -1) {
			r.impl = append(r.impl, "stuck: a request was not written within 5 s")
			return r.finish(res, false), nil
		}
	}
	var chain []c07Ack
	if kind == c07Pub1 {
		chain = []c07Ack{{kind: 0, id: id}, {kind: 0, id: id}}
	} else {
		chain = []c07Ack{{kind: 1, id: id}, {kind: 2, id: id}, {kind: 1, id: id}, {kind: 2, id: id}}
		if rng.Intn(2) == 0 {
			chain = []c07Ack{{kind: 1, id: id}, {kind: 1, id: id}, {kind: 2, id: id}, {kind: 2, id: id}}
		}
	}
	if rng.Intn(2) == 0 {
		chain = append(chain, c07Ack{kind: 4, id: by.id})
	}
	seq := 0
	resumed := false
	for _, ack := range chain {
		r.mu.Lock()
		r.events = append(r.events, c07Event{typ: "recv", ack: ack, why: "shared-id"})
		r.mu.Unlock()
		seq++
		s.conn.send(ack.bytes())
		s.conn.send(encPublish(inMsg{Topic: []byte("\x01mark"), QoS: 0, Payload: []byte{byte(seq >> 8), byte(seq)}}))
		select {
		case <-r.marker:
		case <-time.After(c07Wait):
			r.impl = append(r.impl, "stuck: the reader did not process an acknowledgement and its marker within 5 s")
			return r.finish(res, false), nil
		}
		if ack.kind == 1 && !resumed {
			// the first PUBREC goes to the second caller's waiter
			resumed = true
			if !r.waitNote("resume", -1) {
				res.stuck = true
			}
			b.phase = 3
		}
		if ack.kind == 4 {
			by.phase = 4
		}
	}
	b.phase = 4
	if !c07WaitAll(r.finished()) {
		res.stuck = true
	}
	return r.finish(res, false), nil
}

func runC07(cfg *runCfg) error {
	rng := rand.New(rand.NewSource(cfg.seed))
	cf := newCasesFile("C07", "Routing", "CheckC07")
	m := &meta{Property: "C07", Distribution: map[string]interface{}{}, Families: map[string][]interface{}{}}
	nScripts := 800
	switch cfg.tier {
	case "thorough":
		nScripts = 30000
	case "search":
		nScripts = 2000
	}
	wide := cfg.tier != "quick"
	var cases []string
	distinct := map[string]bool{}
	nontrivial, stuckScripts, closings, blocked, completions := 0, 0, 0, 0, 0
	kinds := map[string]int{}
	sizes := map[string]int{}
	evTotal := 0
	cancelScripts, gaveUp, lateAcks := 0, 0, 0
	for i := 0; i < nScripts; i++ {
		res, err := c07Script(rng, wide, i%3 == 2)
		if err != nil {
			return err
		}
		cases = append(cases, res.coq)
		m.Families["scripts"] = append(m.Families["scripts"], res.desc)
		for _, v := range res.impl {
			m.ImplViolations = append(m.ImplViolations, map[string]interface{}{"script": i, "observation": v, "case": res.desc})
		}
		if !distinct[res.key] {
			distinct[res.key] = true
			if res.nCallers >= 2 && res.hostile > 0 && res.complete > 0 {
				nontrivial++
				if len(m.Samples) < 4 {
					m.Samples = append(m.Samples, res.desc)
				}
			}
		}
		for k, v := range res.kinds {
			kinds[k] += v
			evTotal += v
		}
		sizes[fmt.Sprintf("%d_callers", res.nCallers)]++
		if res.closing {
			closings++
		}
		blocked += res.blocked
		completions += res.complete
		if res.cancelMode {
			cancelScripts++
		}
		gaveUp += res.gaveUp
		lateAcks += res.late
		if res.stuck || len(res.impl) > 0 {
			stuckScripts++
			if stuckScripts >= 3 {
				break // every further script would wait for its timeouts too; three are evidence enough
			}
		}
	}
	nShared := 12
	if cfg.tier != "quick" {
		nShared = 60
	}
	var shared []string
	for i := 0; i < nShared && stuckScripts < 3; i++ {
		res, err := c07SharedScript(rng)
		if err != nil {
			return err
		}
		shared = append(shared, res.coq)
		m.Families["shared"] = append(m.Families["shared"], res.desc)
		if res.stuck || len(res.impl) > 0 {
			stuckScripts++
		}
	}
	// large literals overflow coqc's stack: chunks of 2,000 scripts, concatenated inside Coq
	var chunkNames []string
	for k := 0; k*2000 < len(cases) || k == 0; k++ {
		hi := (k + 1) * 2000
		if hi > len(cases) {
			hi = len(cases)
		}
		name := fmt.Sprintf("scripts_%d", k)
		cf.def(name, "list c07_case", cList(cases[k*2000:hi]))
		chunkNames = append(chunkNames, name)
	}
	cf.def("scripts", "list c07_case", strings.Join(chunkNames, " ++ "))
	nZero := 90
	if cfg.tier != "quick" {
		nZero = 900
	}
	var zero []string
	for i := 0; i < nZero && stuckScripts < 3; i++ {
		res, err := c07ZeroScript(rng)
		if err != nil {
			return err
		}
		zero = append(zero, res.coq)
		m.Families["zero"] = append(m.Families["zero"], res.desc)
		for _, v := range res.impl {
			m.ImplViolations = append(m.ImplViolations, map[string]interface{}{"zero_delay_script": i, "observation": v, "case": res.desc})
		}
		if res.stuck || len(res.impl) > 0 {
			stuckScripts++
		}
	}
	// ---- the connection ends while requests are pending: every (stage, way) cell ----
	endRounds := 2
	if cfg.tier != "quick" {
		endRounds = 20
	}
	var ends []string
	for k := 0; k < endRounds && stuckScripts < 3; k++ {
		for st := 0; st < 5 && stuckScripts < 3; st++ {
			for way := 0; way < 4 && stuckScripts < 3; way++ {
				res, err := c07EndScript(rng, st, way)
				if err != nil {
					return err
				}
				ends = append(ends, res.coq)
				m.Families["ends"] = append(m.Families["ends"], res.desc)
				for _, v := range res.impl {
					m.ImplViolations = append(m.ImplViolations, map[string]interface{}{"ends_script": len(ends) - 1, "observation": v, "case": res.desc})
				}
				if res.stuck || len(res.impl) > 0 {
					stuckScripts++
				}
			}
		}
	}
	// ---- one request stays pending while many others come and go ----
	sizes2 := []int{1, 255, 256, 1023, 1024, 1025}
	if cfg.tier != "quick" {
		sizes2 = []int{1, 255, 256, 1023, 1024, 1025, 4096, 65533}
	}
	var longs []string
	longReqs := 0
	for st := 0; st < 5 && stuckScripts < 3; st++ {
		for _, n := range sizes2 {
			if stuckScripts >= 3 {
				break
			}
			if n > 60000 && st != 0 && st != 3 {
				continue // the identifier space once round: QoS 1 and Subscribe only (cost)
			}
			if cfg.tier == "quick" && n > 300 && n != 1024+st%2 && st != 0 {
				continue // quick: every size for QoS 1, one window-sized run for the other stages
			}
			res, err := c07LongScript(rng, st, n, rng.Intn(3) > 0)
			if err != nil {
				return err
			}
			longs = append(longs, res.coq)
			longReqs += res.nB
			m.Families["long"] = append(m.Families["long"], res.desc)
			for _, v := range res.impl {
				m.ImplViolations = append(m.ImplViolations, map[string]interface{}{"long_script": len(longs) - 1, "observation": v, "case": res.desc})
			}
			if res.stuck || len(res.impl) > 0 {
				stuckScripts++
			}
		}
	}
	cf.def("ends", "list c07_case", cList(ends))
	for i, lc := range longs {
		cf.def(fmt.Sprintf("long_%d", i), "c07_long_case", lc)
	}
	ln := make([]string, len(longs))
	for i := range longs {
		ln[i] = fmt.Sprintf("long_%d", i)
	}
	cf.def("longs", "list c07_long_case", cListInline(ln))
	cf.def("zero", "list c07_case", cList(zero))
	cf.def("shared", "list c07_case", cList(shared))
	cf.result("V_scripts", "c07_violations scripts")
	cf.result("M_scripts", "c07_mismatches scripts")
	cf.result("V_ends", "c07_end_violations ends")
	cf.result("M_ends", "c07_end_mismatches ends")
	cf.result("V_long", "c07_long_violations longs")
	cf.result("M_long", "c07_long_mismatches longs")
	cf.result("V_zero", "c07_violations zero")
	cf.result("M_zero", "c07_mismatches zero")
	cf.result("M_shared", "c07_shared_mismatches shared")
	m.Evaluations = len(cases) + len(shared) + len(zero) + len(ends) + len(longs)
	m.DistinctNontrivial = nontrivial
	m.Rule = "one evaluation = one script on a real BaseClient: 1-8 concurrent blocking calls (Publish QoS1/QoS2, Subscribe 1-4 filters, Unsubscribe; publish identifiers often equal to identifiers other kinds of requests hold), possibly started in two waves, answered by a generated acknowledgement sequence (genuine in random order, wrong kind with an identifier in use, unused identifier, duplicate, unsolicited, SUBACK with wrong code count / 0x80), each acknowledgement confirmed as processed by a QoS0 marker; non-trivial = distinct history with >=2 callers, >=1 hostile acknowledgement and >=1 completed call"
	keys := make([]string, 0, len(kinds))
	for k := range kinds {
		keys = append(keys, k)
	}
	sort.Strings(keys)
	m.Distribution["acknowledgement_classes"] = kinds
	m.Distribution["acknowledgements_sent"] = evTotal
	m.Distribution["callers_per_script"] = sizes
	m.Distribution["scripts_ending_with_miscounted_suback"] = closings
	m.Distribution["calls_completed"] = completions
	m.Distribution["calls_left_blocked_on_purpose_or_not"] = blocked
	m.Distribution["distinct_histories"] = len(distinct)
	m.Distribution["scripts_in_which_a_5s_wait_expired"] = stuckScripts
	m.Distribution["scripts_with_callers_giving_up"] = cancelScripts
	m.Distribution["calls_that_gave_up_ctx_cancel_or_deadline"] = gaveUp
	m.Distribution["late_acknowledgements_for_calls_that_gave_up"] = lateAcks
	m.Distribution["shared_identifier_scripts_outside_hypothesis"] = len(shared)
	m.Distribution["zero_delay_scripts"] = len(zero)
	m.Distribution["connection_ends_while_pending_scripts"] = len(ends)
	m.Distribution["long_lived_pending_request_scripts"] = len(longs)
	m.Distribution["long_lived_further_requests_total"] = longReqs
	if err := cf.write(cfg.outDir); err != nil {
		return err
	}
	return m.write(cfg.outDir)
}
