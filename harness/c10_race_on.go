//go:build race

package main

// c10RaceEnabled: the harness was built with the race detector (checks/C10.json "race": true).
const c10RaceEnabled = true
