package main

// C14, round 4: deep topics/filters, re-entrant Serve (a handler dispatching through a ServeMux
// before it returns), overlapping Serve calls from several goroutines.

import (
	"fmt"
	"math/big"
	"math/rand"
	"strings"
	"sync"
	"sync/atomic"
	"time"

	mqtt "github.com/at-wat/mqtt-go"
)

// ---------------------------------------------------------------- deep topics and filters

// same table as CheckC14.deep_level
var c14DeepLevels = []string{"", "a", "b", "$x", "ab", "+", "#", "a+", "#b", "0", " ", "a ", "\t"}

const (
	c14LPlus = 5
	c14LHash = 6
)

func c14DeepStr(codes []int) string {
	ls := make([]string, len(codes))
	for i, c := range codes {
		ls[i] = c14DeepLevels[c]
	}
	return strings.Join(ls, "/")
}

func c14DeepCoq(codes []int) string {
	var sb strings.Builder
	sb.WriteByte('[')
	for i, c := range codes {
		if i > 0 {
			sb.WriteByte(';')
		}
		fmt.Fprintf(&sb, "%d", c)
	}
	sb.WriteByte(']')
	return sb.String()
}

// depths 1..40 with emphasis around powers of two, 15-18 and 31-33
func c14DeepDepth(r *rand.Rand) int {
	hot := []int{1, 2, 3, 4, 5, 7, 8, 9, 15, 16, 16, 17, 17, 17, 18, 18, 19, 24, 31, 32, 33, 34, 40}
	if r.Intn(4) > 0 {
		return hot[r.Intn(len(hot))]
	}
	return 1 + r.Intn(40)
}

func c14DeepTopic(r *rand.Rand, depth int) []int {
	lit := []int{1, 1, 2, 2, 4, 9, 0, 3, 10, 11, 12}
	t := make([]int, depth)
	for i := range t {
		for {
			t[i] = lit[r.Intn(len(lit))]
			if !(i == 0 && t[i] == 3) { // topics starting with '$' are outside the property
				break
			}
		}
	}
	return t
}

func c14Clone(a []int) []int { return append([]int{}, a...) }

// c14DeepFilters derives filters from the (deep) topic: the literal, one level replaced by '+',
// a prefix + '#', short filters equal to the tail of the topic, near misses, invalid ones.
func c14DeepFilters(r *rand.Rand, t []int) [][]int {
	n := len(t)
	var cands [][]int
	cands = append(cands, c14Clone(t)) // the exact literal
	for k := 0; k < 2; k++ {           // one level replaced by '+'
		f := c14Clone(t)
		pos := []int{0, n - 1, r.Intn(n), r.Intn(n)}[r.Intn(4)]
		f[pos] = c14LPlus
		cands = append(cands, f)
	}
	{ // a prefix followed by '#'
		cut := []int{1, n, n - 1, r.Intn(n + 1), r.Intn(n + 1)}[r.Intn(5)]
		if cut < 0 {
			cut = 0
		}
		cands = append(cands, append(c14Clone(t[:cut]), c14LHash))
	}
	cands = append(cands, []int{c14LPlus, c14LHash}) // "+/#"
	for k := 0; k < 2; k++ {                         // the tail of the topic as a short filter
		l := 1 + r.Intn(3)
		if l > n {
			l = n
		}
		f := c14Clone(t[n-l:])
		if r.Intn(3) == 0 {
			f[r.Intn(len(f))] = c14LPlus
		}
		if f[0] == 3 && r.Intn(2) == 0 {
			f[0] = c14LPlus
		}
		cands = append(cands, f)
	}
	{ // all '+'
		f := make([]int, n)
		for i := range f {
			f[i] = c14LPlus
		}
		if r.Intn(2) == 0 {
			f[n-1] = c14LHash
		}
		cands = append(cands, f)
	}
	{ // near misses: one literal changed, one level more, one level less
		f := c14Clone(t)
		pos := r.Intn(n)
		f[pos] = []int{1, 2, 4, 9, 0}[r.Intn(5)]
		cands = append(cands, f)
		cands = append(cands, append(c14Clone(t), []int{1, 0, c14LPlus}[r.Intn(3)]))
		if n > 1 {
			cands = append(cands, c14Clone(t[:n-1]))
		}
	}
	{ // invalid: a wildcard inside a level, '#' not last
		f := c14Clone(t)
		f[r.Intn(n)] = []int{7, 8}[r.Intn(2)]
		cands = append(cands, f)
		if n > 1 {
			g := c14Clone(t)
			g[r.Intn(n-1)] = c14LHash
			cands = append(cands, g)
		}
	}
	cands = append(cands, []int{c14LHash})
	r.Shuffle(len(cands), func(i, j int) { cands[i], cands[j] = cands[j], cands[i] })
	k := 4 + r.Intn(4)
	if k > len(cands) {
		k = len(cands)
	}
	return cands[:k]
}

func c14DeepFamily(cfg *runCfg, r *rand.Rand, cf *casesFile, m *meta) int {
	n := 150
	if cfg.tier != "quick" {
		n = 2000
	}
	var cs []string
	deep17, matched, distinct := 0, 0, map[string]bool{}
	for i := 0; i < n; i++ {
		t := c14DeepTopic(r, c14DeepDepth(r))
		fs := c14DeepFilters(r, t)
		topic := c14DeepStr(t)
		filters := make([]string, len(fs))
		fcoq := make([]string, len(fs))
		for j, f := range fs {
			filters[j] = c14DeepStr(f)
			fcoq[j] = c14DeepCoq(f)
		}
		acc, called := muxProbe(filters, topic)
		var accs, cl []string
		for _, a := range acc {
			accs = append(accs, cBool(a))
		}
		for _, c := range called {
			cl = append(cl, cNat(c))
		}
		if len(t) >= 17 {
			deep17++
		}
		if len(called) > 0 {
			matched++
		}
		distinct[topic+"\x00"+strings.Join(filters, "\x00")] = true
		cs = append(cs, cTuple(c14DeepCoq(t), cListInline(fcoq), cListInline(accs), cListInline(cl)))
		c := map[string]interface{}{"topic": topic, "topic_levels": len(t), "filters": filters, "accepted": acc, "called": called}
		m.Families["deep"] = append(m.Families["deep"], c)
		if i < 1 {
			m.Samples = append(m.Samples, c)
		}
		m.Evaluations += len(fs)
	}
	cf.def("deep_cases", "list (list N * list (list N) * list bool * list nat)", cList(cs))
	cf.result("V_deep", "deep_mismatches deep_cases")
	m.Distribution["deep_cases"] = n
	m.Distribution["deep_topics_with_17_or_more_levels"] = deep17
	m.Distribution["deep_cases_with_a_handler_invoked"] = matched
	return len(distinct)
}

// ---------------------------------------------------------------- re-entrant Serve

type c14Act struct {
	Trig  string `json:"when_given_topic"`
	Inst  int    `json:"serves_on_mux"`
	Topic string `json:"topic"`
}

type c14NEv struct {
	Serve    bool
	Accepted bool
	Trace    [][2]int // (nesting depth, handler)
}

// c14RunNested applies the operations in order. The handler registered by a Handle operation
// records (depth, number); if it has an action, the topic of the message it was given equals the
// action's trigger and the nesting depth is below fuel, it serves the action's topic through the
// action's ServeMux before returning. Then it rewrites the topic of its own message.
func c14RunNested(nInst int, ops []c14Op, acts map[int]*c14Act, fuel int) (evs []c14NEv, stuck bool) {
	done := make(chan []c14NEv, 1)
	go func() { done <- c14RunNestedInline(nInst, ops, acts, fuel) }()
	select {
	case evs = <-done:
		return evs, false
	case <-time.After(10 * time.Second):
		return nil, true // e.g. a Serve that cannot be re-entered: the goroutine is abandoned
	}
}

func c14RunNestedInline(nInst int, ops []c14Op, acts map[int]*c14Act, fuel int) []c14NEv {
	muxes := make([]*mqtt.ServeMux, nInst)
	for i := range muxes {
		muxes[i] = &mqtt.ServeMux{}
	}
	var trace [][2]int
	depth := 0
	evs := make([]c14NEv, 0, len(ops))
	for k, op := range ops {
		if op.Serve {
			trace = [][2]int{}
			depth = 0
			muxes[op.Inst].Serve(&mqtt.Message{Topic: op.Topic, Payload: []byte{1}})
			evs = append(evs, c14NEv{Serve: true, Trace: trace})
			continue
		}
		h := op.H
		fn := func(m *mqtt.Message) {
			trace = append(trace, [2]int{depth, h})
			if a := acts[h]; a != nil && m.Topic == a.Trig && depth < fuel {
				depth++
				muxes[a.Inst].Serve(&mqtt.Message{Topic: a.Topic, Payload: []byte{2}})
				depth--
			}
			if h%2 == 0 {
				m.Topic = "rewritten/by/handler"
			} else {
				m.Topic = ""
			}
		}
		var err error
		if k%2 == 0 {
			err = muxes[op.Inst].Handle(op.Filter, mqtt.HandlerFunc(fn))
		} else {
			err = muxes[op.Inst].HandleFunc(op.Filter, fn)
		}
		evs = append(evs, c14NEv{Accepted: err == nil})
	}
	return evs
}

func c14NestHistory(ops []c14Op, evs []c14NEv, acts map[int]*c14Act) []string {
	var out []string
	for k, op := range ops {
		switch {
		case evs == nil && op.Serve:
			out = append(out, fmt.Sprintf("%d: mux%d.Serve(topic %q)", k, op.Inst, op.Topic))
		case evs == nil:
			s := fmt.Sprintf("%d: mux%d.Handle(%q, handler %d)", k, op.Inst, op.Filter, op.H)
			if a := acts[op.H]; a != nil {
				s += fmt.Sprintf(" [handler: given topic %q it calls mux%d.Serve(topic %q) before returning]", a.Trig, a.Inst, a.Topic)
			}
			out = append(out, s)
		case op.Serve:
			out = append(out, fmt.Sprintf("%d: mux%d.Serve(topic %q) invocations (depth, handler) in order: %v", k, op.Inst, op.Topic, evs[k].Trace))
		default:
			s := fmt.Sprintf("%d: mux%d.Handle(%q, handler %d)", k, op.Inst, op.Filter, op.H)
			if a := acts[op.H]; a != nil {
				s += fmt.Sprintf(" [handler: given topic %q it calls mux%d.Serve(topic %q) before returning]", a.Trig, a.Inst, a.Topic)
			}
			if evs[k].Accepted {
				s += " accepted"
			} else {
				s += " rejected"
			}
			out = append(out, s)
		}
	}
	return out
}

// c14InnerInvoked: some Serve had a nested invocation followed by a further invocation of the outer call
func c14NestInteresting(evs []c14NEv) bool {
	for _, e := range evs {
		seenDeep := false
		for _, inv := range e.Trace {
			if inv[0] > 0 {
				seenDeep = true
			} else if seenDeep {
				return true
			}
		}
	}
	return false
}

func c14NestCoq(ops []c14Op, evs []c14NEv, acts map[int]*c14Act, fuel int) string {
	names := map[string]string{}
	var lets strings.Builder
	name := func(x string) string {
		if n, ok := names[x]; ok {
			return n
		}
		n := fmt.Sprintf("s%d", len(names))
		names[x] = n
		fmt.Fprintf(&lets, "let %s : str := %s in ", n, cStr(x))
		return n
	}
	var os, es, as []string
	for k, op := range ops {
		if op.Serve {
			os = append(os, fmt.Sprintf("OpServe %s %s", cNat(op.Inst), name(op.Topic)))
			var tr []string
			for _, inv := range evs[k].Trace {
				tr = append(tr, cTuple(cNat(inv[0]), cNat(inv[1])))
			}
			es = append(es, "NvServe "+cListInline(tr))
		} else {
			os = append(os, fmt.Sprintf("OpHandle %s %s %s", cNat(op.Inst), name(op.Filter), cNat(op.H)))
			es = append(es, "NvHandle "+cBool(evs[k].Accepted))
			if a := acts[op.H]; a != nil {
				as = append(as, cTuple(cNat(op.H), cTuple(name(a.Trig), cNat(a.Inst), name(a.Topic))))
			}
		}
	}
	return "(" + lets.String() + cTuple(cListInline(as), cNat(fuel), cListInline(os), cListInline(es)) + ")"
}

func c14RandNested(r *rand.Rand) (int, []c14Op, map[int]*c14Act, int) {
	nInst := 1 + r.Intn(2)
	var topics, filters []string
	for i := 2 + r.Intn(2); i > 0; i-- {
		topics = append(topics, c14RandTopic(r, c14RandFilter(r)))
	}
	if r.Intn(2) == 0 {
		// two topics of the same depth that differ in one level: what a scratch buffer shared by
		// overlapping dispatches confuses
		ls := strings.Split(topics[0], "/")
		ls[r.Intn(len(ls))] = []string{"a", "b", "z", "$x"}[r.Intn(4)]
		t := strings.Join(ls, "/")
		if !strings.HasPrefix(t, "$") {
			topics = append(topics, t)
		}
	}
	var srcs []string // the topic a filter was derived from ("" if none)
	for i := 3 + r.Intn(3); i > 0; i-- {
		if r.Intn(5) == 0 {
			filters = append(filters, c14RandFilter(r))
			srcs = append(srcs, "")
		} else {
			t := topics[r.Intn(len(topics))]
			filters = append(filters, c14FilterFor(r, t))
			srcs = append(srcs, t)
		}
	}
	fuel := 1 + r.Intn(2)
	n := 3 + r.Intn(10)
	ops := make([]c14Op, n)
	acts := map[int]*c14Act{}
	for k := range ops {
		inst := 0
		if r.Intn(3) == 0 {
			inst = r.Intn(nInst)
		}
		if (k >= 2 && r.Intn(5) < 2) || k == n-1 {
			ops[k] = c14Op{Serve: true, Inst: inst, Topic: topics[r.Intn(len(topics))]}
			continue
		}
		fi := r.Intn(len(filters))
		ops[k] = c14Op{Inst: inst, Filter: filters[fi], H: k}
		if r.Intn(2) == 0 {
			target := inst
			if r.Intn(4) == 0 {
				target = r.Intn(nInst)
			}
			trig := topics[r.Intn(len(topics))]
			if srcs[fi] != "" && r.Intn(4) > 0 {
				trig = srcs[fi] // the handler is most likely invoked for the topic its filter was made for
			}
			acts[k] = &c14Act{Trig: trig, Inst: target, Topic: topics[r.Intn(len(topics))]}
		}
	}
	return nInst, ops, acts, fuel
}

// same 7 operations as CheckC14.nexh_op / nexh_act
func c14NexhOp(pos int, c byte) (c14Op, *c14Act) {
	switch c {
	case 0:
		return c14Op{Inst: 0, Filter: "a", H: pos}, &c14Act{Trig: "a", Inst: 0, Topic: "b"}
	case 1:
		return c14Op{Inst: 0, Filter: "+", H: pos}, nil
	case 2:
		return c14Op{Inst: 0, Filter: "b", H: pos}, &c14Act{Trig: "b", Inst: 1, Topic: "a"}
	case 3:
		return c14Op{Serve: true, Inst: 0, Topic: "a"}, nil
	case 4:
		return c14Op{Serve: true, Inst: 0, Topic: "b"}, nil
	case 5:
		return c14Op{Inst: 1, Filter: "#", H: pos}, &c14Act{Trig: "a", Inst: 0, Topic: "b"}
	default:
		return c14Op{Serve: true, Inst: 1, Topic: "a"}, nil
	}
}

// same code as CheckC14.nev_code, of the last event
func c14NLastCode(evs []c14NEv) string {
	if len(evs) == 0 {
		return "0"
	}
	e := evs[len(evs)-1]
	switch {
	case !e.Serve && !e.Accepted:
		return "1"
	case !e.Serve:
		return "2"
	}
	d := new(big.Int)
	for j := len(e.Trace) - 1; j >= 0; j-- {
		d.Mul(d, big.NewInt(32))
		d.Add(d, big.NewInt(int64(e.Trace[j][0]*8+e.Trace[j][1]+1)))
	}
	d.Mul(d, big.NewInt(4))
	d.Add(d, big.NewInt(3))
	return d.String()
}

func c14NestFamilies(cfg *runCfg, r *rand.Rand, cf *casesFile, m *meta) int {
	// ---- family nest: random re-entrant histories ----
	n := 120
	if cfg.tier != "quick" {
		n = 3000
	}
	var cs []string
	interesting := map[string]bool{}
	nested := 0
	for i := 0; i < n; {
		nInst, ops, acts, fuel := c14RandNested(r)
		evs, stuck := c14RunNested(nInst, ops, acts, fuel)
		if stuck {
			m.ImplViolations = append(m.ImplViolations, map[string]interface{}{
				"what":    "a history with a handler that dispatches through a ServeMux before returning did not finish within 10 s: the outer Serve never invokes its remaining handlers",
				"history": c14NestHistory(ops, nil, acts), "nesting_bound": fuel})
			break
		}
		tooBig := false
		for _, e := range evs {
			if len(e.Trace) > 60 {
				tooBig = true
			}
			for _, inv := range e.Trace {
				if inv[0] > 0 {
					nested++
					break
				}
			}
		}
		if tooBig {
			continue // keep the cases file small; the generator is re-drawn
		}
		i++
		hist := c14NestHistory(ops, evs, acts)
		if c14NestInteresting(evs) {
			interesting[strings.Join(hist, ";")] = true
		}
		cs = append(cs, c14NestCoq(ops, evs, acts, fuel))
		c := map[string]interface{}{"history": hist, "instances": nInst, "nesting_bound": fuel}
		m.Families["nest"] = append(m.Families["nest"], c)
		if i == 1 {
			m.Samples = append(m.Samples, c)
		}
		m.Evaluations += len(ops)
	}
	cf.def("nest_cases", "list nest_case", cList(cs))
	cf.result("V_nest", "nest_violations nest_cases")
	cf.result("M_nest", "nest_mismatches nest_cases")
	m.Distribution["nest_histories"] = len(cs)
	m.Distribution["nest_serves_with_a_nested_dispatch"] = nested
	m.Distribution["nest_histories_where_the_outer_call_invokes_a_handler_after_a_nested_dispatch"] = len(interesting)

	// ---- family nestx: every re-entrant history up to a length over 7 operations ----
	xl := 4
	if cfg.tier != "quick" {
		xl = 6
	}
	var xc []string
	xInteresting := 0
	for _, code := range stringsUpto([]byte{0, 1, 2, 3, 4, 5, 6}, xl) {
		ops := make([]c14Op, len(code))
		acts := map[int]*c14Act{}
		for pos := range ops {
			var a *c14Act
			ops[pos], a = c14NexhOp(pos, code[pos])
			if a != nil {
				acts[pos] = a
			}
		}
		evs, stuck := c14RunNested(2, ops, acts, 2)
		if stuck {
			m.ImplViolations = append(m.ImplViolations, map[string]interface{}{
				"what":    "a history with a handler that dispatches through a ServeMux before returning did not finish within 10 s: the outer Serve never invokes its remaining handlers",
				"history": c14NestHistory(ops, nil, acts), "nesting_bound": 2})
			break
		}
		if c14NestInteresting(evs) {
			xInteresting++
		}
		xc = append(xc, c14NLastCode(evs))
		m.Families["nestx"] = append(m.Families["nestx"], map[string]interface{}{"history": c14NestHistory(ops, evs, acts), "instances": 2, "nesting_bound": 2})
		m.Evaluations += len(ops)
	}
	c14DefLongList(cf, "nestx_obs", "N", xc)
	cf.result("V_nestx", fmt.Sprintf("nexh_violations %s nestx_obs", cNat(xl)))
	cf.result("M_nestx", fmt.Sprintf("nexh_mismatches %s nestx_obs", cNat(xl)))
	m.Distribution["nestx_histories"] = len(xc)
	m.Distribution["nestx_max_length"] = xl
	m.Distribution["nestx_histories_where_the_outer_call_continues_after_a_nested_dispatch"] = xInteresting
	return len(interesting) + xInteresting
}

// ---------------------------------------------------------------- overlapping Serve calls

// c14Overlap registers the filters, then lets len(topics) goroutines serve one topic each on
// the same ServeMux. Every handler invocation parks until the controller releases it; the
// controller only releases a call when ALL calls are parked inside a handler (or finished), so
// all calls overlap, and picks whom to release at random. Returns, per goroutine, the handlers
// its call invoked. stuck = a wait expired (5 s); everything is released then.
func c14Overlap(r *rand.Rand, filters []string, topics []string) (accepted []bool, called [][]int, stuck bool, parallelBad []interface{}) {
	type ev struct{ g, h int }
	mux := &mqtt.ServeMux{}
	g := len(topics)
	arrive := make(chan ev, 4*g)
	gates := make([]chan struct{}, g)
	for i := range gates {
		gates[i] = make(chan struct{})
	}
	released := make(chan struct{}) // closed when stuck: nobody parks any more
	var hammer atomic.Bool          // second phase: handlers only record, calls run freely in parallel
	perG := make([][]int, g)        // second phase: invocations of the current call of goroutine i (only i touches it)
	for i, f := range filters {
		i := i
		err := mux.Handle(f, mqtt.HandlerFunc(func(m *mqtt.Message) {
			me := int(m.Payload[0])
			if hammer.Load() {
				perG[me] = append(perG[me], i)
				return
			}
			arrive <- ev{me, i}
			select {
			case <-gates[me]:
			case <-released:
			}
			m.Topic = "rewritten/by/handler"
		}))
		accepted = append(accepted, err == nil)
	}
	called = make([][]int, g)
	for i := range called {
		called[i] = []int{}
	}
	for i := 0; i < g; i++ {
		i := i
		go func() {
			mux.Serve(&mqtt.Message{Topic: topics[i], Payload: []byte{byte(i)}})
			arrive <- ev{i, -1}
		}()
	}
	const running, parked, done = 0, 1, 2
	state := make([]int, g)
	nRunning, nDone := g, 0
	timer := time.NewTimer(5 * time.Second)
	defer timer.Stop()
	for nDone < g {
		for nRunning > 0 {
			select {
			case e := <-arrive:
				if e.h < 0 {
					state[e.g] = done
					nDone++
				} else {
					called[e.g] = append(called[e.g], e.h)
					state[e.g] = parked
				}
				nRunning--
			case <-timer.C:
				if !stuck {
					stuck = true
					close(released)
					timer.Reset(5 * time.Second)
					continue
				}
				return // give up; goroutines are abandoned (harness process exits soon)
			}
		}
		var ps []int
		for i, s := range state {
			if s == parked {
				ps = append(ps, i)
			}
		}
		if len(ps) == 0 {
			break
		}
		pick := ps[r.Intn(len(ps))]
		state[pick] = running
		nRunning++
		if !stuck {
			gates[pick] <- struct{}{}
		}
	}
	if stuck {
		return
	}
	// second phase: the same calls, repeated, truly in parallel and without gates. Serve only reads
	// the ServeMux, so every call must again invoke exactly what its gated run invoked (which Coq
	// judges). Not deterministic, but it cannot raise an alarm on a ServeMux that is read-only.
	hammer.Store(true)
	bad := make([]interface{}, g)
	var wg sync.WaitGroup
	for i := 0; i < g; i++ {
		i := i
		wg.Add(1)
		go func() {
			defer wg.Done()
			defer func() {
				if p := recover(); p != nil {
					bad[i] = map[string]interface{}{"what": "panic in parallel Serve calls on one ServeMux", "panic": fmt.Sprint(p), "filters": filters, "topics": topics}
				}
			}()
			for n := 0; n < 200; n++ {
				perG[i] = perG[i][:0]
				mux.Serve(&mqtt.Message{Topic: topics[i], Payload: []byte{byte(i)}})
				if fmt.Sprint(perG[i]) != fmt.Sprint(called[i]) && bad[i] == nil {
					bad[i] = map[string]interface{}{
						"what":    "parallel Serve calls on one ServeMux: a call invoked other handlers than the same call did when run with gates",
						"filters": filters, "topics_of_all_goroutines": topics, "topic": topics[i],
						"called_in_parallel_run": append([]int{}, perG[i]...), "called_in_gated_run": called[i]}
				}
			}
		}()
	}
	wg.Wait()
	for _, b := range bad {
		if b != nil {
			parallelBad = append(parallelBad, b)
		}
	}
	return
}

func c14ConcFamily(cfg *runCfg, r *rand.Rand, cf *casesFile, m *meta) int {
	n := 60
	if cfg.tier != "quick" {
		n = 600
	}
	start := time.Now()
	var cs []string
	stuckN, overlapped, parallelCalls := 0, 0, 0
	for i := 0; i < n; i++ {
		g := 2 + r.Intn(3)
		var topics, filters []string
		base := c14RandTopic(r, c14RandFilter(r))
		for len(topics) < g {
			switch r.Intn(3) {
			case 0:
				topics = append(topics, c14RandTopic(r, c14RandFilter(r)))
			default:
				ls := strings.Split(base, "/")
				ls[r.Intn(len(ls))] = []string{"a", "b", "z", "$x", ""}[r.Intn(5)]
				t := strings.Join(ls, "/")
				if strings.HasPrefix(t, "$") {
					t = "x" + t
				}
				topics = append(topics, t)
			}
		}
		for k := 2 + r.Intn(4); k > 0; k-- {
			if r.Intn(6) == 0 {
				filters = append(filters, c14RandFilter(r))
			} else {
				filters = append(filters, c14FilterFor(r, topics[r.Intn(len(topics))]))
			}
		}
		acc, called, stuck, pbad := c14Overlap(r, filters, topics)
		if len(pbad) > 0 && len(m.ImplViolations) < 5 {
			m.ImplViolations = append(m.ImplViolations, pbad[0])
		}
		parallelCalls += 200 * g
		if stuck {
			// not judged (a ServeMux that serialises its Serve calls still invokes the right handlers;
			// C14 is not a liveness property); the family stops, every further case would wait again
			stuckN++
			break
		}
		var regs, accs []string
		for j, f := range filters {
			regs = append(regs, cTuple(cStr(f), cNat(j)))
			accs = append(accs, cBool(acc[j]))
		}
		busy := 0
		for gi := range topics {
			var cl []string
			for _, c := range called[gi] {
				cl = append(cl, cNat(c))
			}
			if len(called[gi]) > 0 {
				busy++
			}
			cs = append(cs, cTuple(cListInline(regs), cStr(topics[gi]), cListInline(accs), cListInline(cl)))
			m.Families["conc"] = append(m.Families["conc"], map[string]interface{}{
				"what":    fmt.Sprintf("%d goroutines serve one topic each on ONE ServeMux; every handler invocation parks until all calls are inside a handler or finished, then one is released at random; this entry is goroutine %d", g, gi),
				"filters": filters, "accepted": acc, "topics_of_all_goroutines": topics, "topic": topics[gi], "called": called[gi]})
			m.Evaluations++
		}
		if busy >= 2 {
			overlapped++
		}
	}
	cf.def("conc_cases", "list (list (str * nat) * str * list bool * list nat)", cList(cs))
	cf.result("V_conc", "mux_mismatches conc_cases")
	m.Distribution["conc_cases"] = n
	m.Distribution["conc_calls"] = len(cs)
	m.Distribution["conc_cases_with_2plus_calls_inside_handlers_at_once"] = overlapped
	m.Distribution["conc_cases_stuck_not_judged"] = stuckN
	m.Distribution["conc_ungated_parallel_serve_calls"] = parallelCalls
	m.Distribution["conc_wall_ms"] = time.Since(start).Milliseconds()
	return overlapped
}
