(* InboundH.v — the inbound half of BaseClient.serve when the application replaces the handler while the
   connection is up (BaseClient.Handle / RetryClient.Handle; serve.go reads c.handler under the client
   lock at each hand-over).  The broker's stream is cut into segments; before each segment the
   application registers handler number i (Some i) or none (None: Handle(nil) / not yet registered).
   Hand-overs are tagged with the handler that received them. *)
From MQ Require Import Base Codec Inbound.
Open Scope N_scope.

Definition seg := (option nat * list in_pkt)%type.
Definition has_handler (h : option nat) : bool := match h with Some _ => true | None => false end.

(* serve_in that also returns the subBuffer it ends with (the buffer is a local of serve(): it lives as
   long as the connection, not as long as a handler) *)
Fixpoint serve_sb (handler : bool) (sb : subbuf) (ps : list in_pkt) : subbuf * list in_event :=
  match ps with
  | [] => (sb, [])
  | p :: r =>
      let '(sb', ev) := serve_in_step handler sb p in
      let '(sb'', ev') := serve_sb handler sb' r in (sb'', ev ++ ev')
  end.

(* tag: the receiving handler for a hand-over, 0 for a write *)
Definition tag_ev (h : option nat) (e : in_event) : nat * in_event :=
  (match e, h with Hand _, Some i => i | _, _ => 0%nat end, e).

Fixpoint serve_segs (sb : subbuf) (segs : list seg) : list (list (nat * in_event)) :=
  match segs with
  | [] => []
  | (h, ps) :: r =>
      let '(sb', ev) := serve_sb (has_handler h) sb ps in
      map (tag_ev h) ev :: serve_segs sb' r
  end.

Definition tagged_eqb (a b : nat * in_event) : bool := Nat.eqb (fst a) (fst b) && in_event_eqb (snd a) (snd b).

(* the abstract receiver over the same segmented history *)
Fixpoint spec_sb (handler : bool) (o : open_set) (ps : list in_pkt) : open_set * list in_event :=
  match ps with
  | [] => (o, [])
  | p :: r =>
      let '(o', ev) := spec_step handler o p in
      let '(o'', ev') := spec_sb handler o' r in (o'', ev ++ ev')
  end.

Fixpoint spec_segs (o : open_set) (segs : list seg) : list (list (nat * in_event)) :=
  match segs with
  | [] => []
  | (h, ps) :: r =>
      let '(o', ev) := spec_sb (has_handler h) o ps in
      map (tag_ev h) ev :: spec_segs o' r
  end.
