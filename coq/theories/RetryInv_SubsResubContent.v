(* RetryInv_SubsResubContent.v — C08, "the client re-subscribes what is currently subscribed and
   nothing that was unsubscribed", at full strength:

   (1) [C08_resub_content]: one Resubscribe task issues, in the order of subEstablished, exactly one
       single-filter re-subscription (ghost uid 0) per entry of subEstablished: a prefix is run directly
       (one SUBSCRIBE on the wire each), the rest is deferred as [DSubscribe 0 [s]] entries put IN FRONT
       of the old retry queue, which is kept unchanged behind them (fix aef4566).
   (2) [C08_established_is_net_effect_of_executed]: in every reachable, not hung state, for ANY fault
       plan, the Subscribe/Unsubscribe calls submitted so far split in call order into
       executed ++ pending (pending = deferred entries of the retry queue, then the task queue), and
       subEstablished together with the still deferred re-subscriptions is, as a map, the net
       effect of the executed calls.
   Definitions of the two statements are in this file (RetryProps.v is frozen). *)
From MQ Require Import Base RetryCore RetrySys CheckRetry RetryProps RetryInv_SubsMap RetryInv_SubsExec.
Open Scope nat_scope.

(* ================================================================== *)
(* statements *)

Definition resub_pkt (k : nat) (e : nat * pkt * wres) (s : sub) : Prop :=
  exists res, e = (k, PSubscribe 0 [s], res).

Definition C08_resub_content_stmt : Prop :=
  forall cfg fp w k,
    cl_inited (get_client w k) = true ->
    w_hung (task_resubscribe cfg fp w k) = false ->
    exists (direct deferred : list sub) (nw : list (nat * pkt * wres)) (raws : list rentry),
      (* the entries of subEstablished, in order: those run directly, then those deferred *)
      w_subest w = direct ++ deferred /\
      (* the new wire entries are exactly one SUBSCRIBE (uid 0, single filter, on k) per direct entry *)
      w_wire (task_resubscribe cfg fp w k) = w_wire w ++ nw /\
      Forall2 (resub_pkt k) nw direct /\
      (* the new retry queue: at most the retry handle of the last direct one, the deferred ones,
         then the old queue unchanged *)
      w_retryq (task_resubscribe cfg fp w k) =
        raws ++ map (fun s => DSubscribe 0 [s]) deferred ++ w_retryq w /\
      (raws = [] \/ exists d s, direct = d ++ [s] /\ raws = [RSubscribe 0 [s]]) /\
      (raws = [] -> deferred = []) /\
      (* subEstablished is rebuilt from the direct ones *)
      w_subest (task_resubscribe cfg fp w k) = fold_left est_sub direct [].

(* Subscribe / Unsubscribe calls *)
Definition is_subcall (o : uop) : bool := match o with UPub _ => false | _ => true end.
Definition subcalls (l : list uop) : list uop := filter is_subcall l.

(* calls that have not been run yet: deferred entries of the retry queue, then the task queue *)
Definition entry_call (e : rentry) : list uop :=
  match e with
  | DSubscribe 0 _ => []
  | DSubscribe u ss => [USub u ss]
  | DUnsubscribe u ts => [UUnsub u ts]
  | _ => []
  end.
Definition task_call (x : task) : list uop := match x with TOp o => subcalls [o] | _ => [] end.
Definition pending_calls (s : sys) : list uop :=
  flat_map entry_call (w_retryq (s_w s)) ++ flat_map task_call (s_taskq s).

(* filters of the re-subscriptions still deferred in the retry queue, in order *)
Definition resub_deferred (q : list rentry) : list sub :=
  flat_map (fun e => match e with DSubscribe 0 ss => ss | _ => [] end) q.

Definition C08_established_is_net_effect_of_executed_stmt : Prop :=
  forall cfg fp ls s, run cfg fp sys0 ls = Some s -> wf_labels ls -> w_hung (s_w s) = false ->
    exists executed,
      subcalls (s_submitted s) = executed ++ pending_calls s /\
      subs_equiv (est_apply_subs (w_subest (s_w s)) (resub_deferred (w_retryq (s_w s))))
                 (net_effect executed) = true.

(* ================================================================== *)
(* one Write / one attempt, for any fault plan *)
Section Gen.
Variable cfg : config.
Variable fp : fplan.

Lemma send_gen w k p : exists res,
  w_wire (fst (send cfg fp w k p)) = w_wire w ++ [(k, p, res)] /\
  w_retryq (fst (send cfg fp w k p)) = w_retryq w /\
  w_subest (fst (send cfg fp w k p)) = w_subest w /\
  w_hung (fst (send cfg fp w k p)) = w_hung w /\
  cframe w (fst (send cfg fp w k p)).
Proof.
  unfold send. destruct (negb (cl_alive (get_client w k))).
  - eexists. do 4 (split; [reflexivity|]). apply cframe_same; reflexivity.
  - destruct (if cl_accepted (get_client w k) then fp k (cl_sent (get_client w k)) else FLostAfter);
      eexists; (do 4 (split; [reflexivity|])); cbn [fst];
      first [ apply cframe_bump_kill | apply cframe_bump_kill_p
            | eapply cframe_trans; [apply cframe_upd, cmono_bump | apply cframe_same; reflexivity] ].
Qed.

Lemma hung_send_res w k p : snd (send cfg fp w k p) = CHang \/ snd (send cfg fp w k p) <> CHang.
Proof. destruct (snd (send cfg fp w k p)); auto; right; discriminate. Qed.

(* the common shape of subscribe / unsubscribe *)
Lemma attempt_req_gen w k p uid e :
  let wr := attempt_req cfg fp w k p uid e in
  w_subest (fst wr) = w_subest w /\ w_retryq (fst wr) = w_retryq w /\ cframe w (fst wr) /\
  (forall e' cls, snd wr = AFail e' cls -> e' = e) /\
  (snd wr = AHung -> w_hung (fst wr) = true) /\
  (snd wr <> AHung -> w_hung (fst wr) = w_hung w) /\
  (cl_inited (get_client w k) = true ->
     (exists res, w_wire (fst wr) = w_wire w ++ [(k, p, res)]) /\ forall cls, snd wr <> ANoRetry cls).
Proof.
  unfold attempt_req. destruct (cl_inited (get_client w k)); cbn [negb].
  2:{ cbn [fst snd]. repeat split; auto using cframe_refl; intros; discriminate. }
  destruct (send_gen w k p) as (res & E1 & E2 & E3 & E4 & E5).
  destruct (send cfg fp w k p) as [w1 c]. cbn [fst] in *.
  destruct c; cbn [fst snd]; wsimpl;
    (split; [exact E3|]); (split; [exact E2|]);
    (split; [first [exact E5 | eapply cframe_trans; [exact E5 | apply cframe_same; reflexivity]]|]);
    (split; [intros e' cls X; first [discriminate X | injection X as <- _; reflexivity]|]);
    (split; [intros X; first [discriminate X | reflexivity]|]);
    (split; [intros X; first [exact E4 | exfalso; apply X; reflexivity]|]);
    intros _; (split; [exists res; exact E1 | intros cls X; discriminate X]).
Qed.

Lemma attempt_pubrel_gen w k m :
  let wr := attempt_pubrel cfg fp w k m in
  w_subest (fst wr) = w_subest w /\ w_retryq (fst wr) = w_retryq w /\
  (forall e' cls, snd wr = AFail e' cls -> israw e').
Proof.
  unfold attempt_pubrel. destruct (negb (cl_inited (get_client w k))).
  - cbn [fst snd]. repeat split. intros; discriminate.
  - destruct (send_gen w k (PPubRel (p_uid m))) as (res & E1 & E2 & E3 & E4 & E5).
    destruct (send cfg fp w k (PPubRel (p_uid m))) as [w1 c]. cbn [fst] in *.
    destruct c; cbn [fst snd]; wsimpl; (split; [exact E3|]); (split; [exact E2|]);
      intros e' cls X; first [discriminate X | injection X as <- _; exact I].
Qed.

Lemma attempt_publish_gen w k m d :
  let wr := attempt_publish cfg fp w k m d in
  w_subest (fst wr) = w_subest w /\ w_retryq (fst wr) = w_retryq w /\
  (forall e' cls, snd wr = AFail e' cls -> israw e').
Proof.
  unfold attempt_publish. destruct (negb (cl_inited (get_client w k))).
  - cbn [fst snd]. repeat split. intros; discriminate.
  - destruct (send_gen w k (PPublish m d)) as (res & E1 & E2 & E3 & E4 & E5).
    destruct (send cfg fp w k (PPublish m d)) as [w1 c]. cbn [fst] in *.
    destruct (p_qos m =? 0)%N; [|destruct (p_qos m =? 1)%N].
    + destruct c; cbn [fst snd]; (split; [exact E3|]); (split; [exact E2|]); intros; discriminate.
    + destruct c; cbn [fst snd]; wsimpl; (split; [exact E3|]); (split; [exact E2|]);
        intros e' cls X; first [discriminate X | injection X as <- _; exact I].
    + destruct c; try (cbn [fst snd]; wsimpl; (split; [exact E3|]); (split; [exact E2|]);
        intros e' cls X; first [discriminate X | injection X as <- _; exact I]).
      destruct (attempt_pubrel_gen w1 k m) as (A & B & C). cbv zeta. rewrite A, B. auto.
Qed.

(* after settling: the view is the applied one, the queue gets at most one raw entry *)
Lemma settle_gen uid wr q E :
  w_subest (fst wr) = E -> w_retryq (fst wr) = q -> (forall e' cls, snd wr = AFail e' cls -> israw e') ->
  w_subest (settle uid wr) = E /\
  (w_retryq (settle uid wr) = q \/ exists e', israw e' /\ w_retryq (settle uid wr) = q ++ [e']).
Proof.
  destruct wr as [w r]. cbn [fst snd]. intros <- <- H. destruct r; cbn [settle]; wsimpl; split; auto.
  right. exists e. split; [eapply H; reflexivity | reflexivity].
Qed.

End Gen.

(* ================================================================== *)
(* (1) what one Resubscribe task does *)
Section Content.
Variable cfg : config.
Variable fp : fplan.

Lemma do_subscribe_gen w k u ss :
  cl_inited (get_client w k) = true ->
  let w' := do_subscribe cfg fp w k u ss in
  (exists res, w_wire w' = w_wire w ++ [(k, PSubscribe u ss, res)]) /\
  w_subest w' = est_apply_subs (w_subest w) ss /\
  cl_inited (get_client w' k) = true /\
  (w_hung w' = true \/
   (w_hung w' = w_hung w /\ (w_retryq w' = w_retryq w \/ w_retryq w' = w_retryq w ++ [RSubscribe u ss]))).
Proof.
  intros Hi. unfold do_subscribe. rewrite attempt_subscribe_req.
  set (w0 := set_subest w (est_apply_subs (w_subest w) ss)).
  destruct (attempt_req_gen cfg fp w0 k (PSubscribe u ss) u (RSubscribe u ss)) as (A & B & C & D & E & F & G).
  destruct (G Hi) as ((res & Hw) & Hn).
  assert (Hi1 : cl_inited (get_client (fst (attempt_req cfg fp w0 k (PSubscribe u ss) u (RSubscribe u ss))) k) = true).
  { destruct C as (_ & C & _). rewrite C. exact Hi. }
  destruct (attempt_req cfg fp w0 k (PSubscribe u ss) u (RSubscribe u ss)) as [w1 r]. cbn [fst snd] in *.
  destruct r as [|e cls|cls|]; cbn [settle]; cbv zeta.
  - split; [exists res; exact Hw|]. split; [exact A|]. split; [exact Hi1|].
    right. split; [apply F; discriminate | left; exact B].
  - rewrite (D e cls eq_refl). split; [exists res; exact Hw|]. split; [exact A|]. split; [exact Hi1|].
    right. split; [apply F; discriminate|]. right. wsimpl. rewrite B. reflexivity.
  - exfalso. eapply Hn; reflexivity.
  - split; [exists res; exact Hw|]. split; [exact A|]. split; [exact Hi1|]. left. apply E. reflexivity.
Qed.

Definition rfold (k : nat) (old : list sub) (wa : world) : world :=
  fold_left (fun w s => if w_hung w then w else task_subscribe cfg fp w k 0 [s]) old wa.

Lemma rfold_hung k old : forall wa, w_hung wa = true -> rfold k old wa = wa.
Proof.
  induction old as [|s rest IH]; intros wa H; [reflexivity|].
  unfold rfold in *. cbn [fold_left]. rewrite H. apply IH, H.
Qed.

Definition d0 (s : sub) : rentry := DSubscribe 0 [s].

Lemma rfold_cons k s rest wa :
  rfold k (s :: rest) wa = rfold k rest (if w_hung wa then wa else task_subscribe cfg fp wa k 0 [s]).
Proof. reflexivity. Qed.

Lemma rfold_content k old : forall wa,
  cl_inited (get_client wa k) = true -> w_hung (rfold k old wa) = false ->
  exists direct deferred nw raws,
    old = direct ++ deferred /\
    w_wire (rfold k old wa) = w_wire wa ++ nw /\
    Forall2 (resub_pkt k) nw direct /\
    w_retryq (rfold k old wa) = w_retryq wa ++ raws ++ map d0 deferred /\
    (w_retryq wa <> [] -> direct = [] /\ raws = []) /\
    (raws = [] \/ exists d s, direct = d ++ [s] /\ raws = [RSubscribe 0 [s]]) /\
    (raws = [] -> w_retryq wa = [] -> deferred = []) /\
    w_subest (rfold k old wa) = fold_left est_sub direct (w_subest wa).
Proof.
  induction old as [|s rest IH]; intros wa Hi Hh.
  - exists [], [], [], []. cbn. rewrite !app_nil_r. repeat split; auto.
  - assert (Hwa : w_hung wa = false).
    { destruct (w_hung wa) eqn:E; [|reflexivity]. rewrite (rfold_hung k _ wa E) in Hh. congruence. }
    rewrite rfold_cons in Hh |- *. rewrite Hwa in Hh |- *.
    unfold task_subscribe in Hh |- *. destruct (w_retryq wa) as [|r0 q0] eqn:Eq.
    + (* run directly *)
      destruct (do_subscribe_gen wa k 0 [s] Hi) as ((res & Hw) & HE & Hi1 & Hq).
      set (wa1 := do_subscribe cfg fp wa k 0 [s]) in *.
      assert (Hh1 : w_hung wa1 = false).
      { destruct (w_hung wa1) eqn:E; [|reflexivity]. rewrite (rfold_hung k _ wa1 E) in Hh. congruence. }
      destruct Hq as [Hq | [_ Hq]]; [congruence|].
      destruct (IH wa1 Hi1 Hh) as (direct & deferred & nw & raws & H1 & H2 & H3 & H4 & H5 & H6 & H7 & H8).
      rewrite Eq in Hq. destruct Hq as [Hq | Hq].
      * exists (s :: direct), deferred, ((k, PSubscribe 0 [s], res) :: nw), raws.
        split; [cbn; congruence|]. split; [rewrite H2, Hw, <- app_assoc; reflexivity|].
        split; [constructor; [exists res; reflexivity | exact H3]|].
        split; [rewrite H4, Hq; reflexivity|].
        split; [intros X; congruence|].
        split; [destruct H6 as [H6 | (d & s' & H6 & H6')]; [left; exact H6 | right; exists (s :: d), s'; split; [cbn; congruence | exact H6']]|].
        split; [intros X _; apply H7; [exact X | exact Hq]|].
        rewrite H8, HE. reflexivity.
      * assert (Hne : w_retryq wa1 <> []) by (rewrite Hq; discriminate).
        destruct (H5 Hne) as [-> ->]. inversion H3; subst.
        exists [s], deferred, [(k, PSubscribe 0 [s], res)], [RSubscribe 0 [s]].
        split; [reflexivity|]. split; [rewrite H2, Hw, app_nil_r; reflexivity|].
        split; [repeat constructor; exists res; reflexivity|].
        split; [rewrite H4, Hq; reflexivity|].
        split; [intros X; congruence|].
        split; [right; exists [], s; split; reflexivity|].
        split; [intros X; discriminate|].
        rewrite H8, HE. reflexivity.
    + (* deferred *)
      rewrite <- Eq in *.
      set (wa1 := set_retryq wa (w_retryq wa ++ [DSubscribe 0 [s]])) in *.
      destruct (IH wa1 Hi Hh) as (direct & deferred & nw & raws & H1 & H2 & H3 & H4 & H5 & H6 & H7 & H8).
      assert (Hne : w_retryq wa1 <> []).
      { unfold wa1. wsimpl. intros X. apply app_eq_nil in X as [_ X]. discriminate. }
      destruct (H5 Hne) as [-> ->]. inversion H3; subst.
      exists [], (s :: deferred), [], [].
      split; [reflexivity|]. split; [rewrite H2; reflexivity|]. split; [constructor|].
      split; [rewrite H4; unfold wa1; wsimpl; cbn [map d0 Datatypes.app]; rewrite <- app_assoc; reflexivity|].
      split; [auto|]. split; [left; reflexivity|].
      split; [intros _ X; rewrite Eq in X; discriminate|].
      rewrite H8. reflexivity.
Qed.

Lemma C08_resub_content_aux w k :
  cl_inited (get_client w k) = true ->
  w_hung (task_resubscribe cfg fp w k) = false ->
  exists (direct deferred : list sub) (nw : list (nat * pkt * wres)) (raws : list rentry),
    w_subest w = direct ++ deferred /\
    w_wire (task_resubscribe cfg fp w k) = w_wire w ++ nw /\
    Forall2 (resub_pkt k) nw direct /\
    w_retryq (task_resubscribe cfg fp w k) = raws ++ map (fun s => DSubscribe 0 [s]) deferred ++ w_retryq w /\
    (raws = [] \/ exists d s, direct = d ++ [s] /\ raws = [RSubscribe 0 [s]]) /\
    (raws = [] -> deferred = []) /\
    w_subest (task_resubscribe cfg fp w k) = fold_left est_sub direct [].
Proof.
  intros Hi Hh. unfold task_resubscribe in *.
  set (w0 := set_retryq (set_subest w []) []) in *.
  fold (rfold k (w_subest w) w0) in Hh |- *.
  destruct (rfold_content k (w_subest w) w0 Hi Hh) as (direct & deferred & nw & raws & H1 & H2 & H3 & H4 & H5 & H6 & H7 & H8).
  exists direct, deferred, nw, raws. wsimpl.
  split; [exact H1|]. split; [exact H2|]. split; [exact H3|].
  split; [rewrite H4; cbn [w0 w_retryq set_retryq Datatypes.app]; rewrite <- app_assoc; reflexivity|].
  split; [exact H6|]. split; [intros X; apply H7; [exact X | reflexivity]|]. exact H8.
Qed.

End Content.

Lemma C08_resub_content : C08_resub_content_stmt.
Proof. unfold C08_resub_content_stmt. intros. apply C08_resub_content_aux; assumption. Qed.

(* ================================================================== *)
(* (2) the client's view is the net effect of the executed calls *)

Definition meq (a b : list sub) : Prop := forall t, subs_get t a = subs_get t b.

Definition is_d0 (e : rentry) : bool := match e with DSubscribe 0 _ => true | _ => false end.
Definition is_appdef (e : rentry) : bool :=
  match e with DSubscribe (S _) _ => true | DUnsubscribe _ _ => true | _ => false end.
Definition no_d0 (q : list rentry) : Prop := Forall (fun e => is_d0 e = false) q.
(* no deferred re-subscription behind a deferred application call *)
Fixpoint shape (q : list rentry) : Prop :=
  match q with [] => True | e :: r => (is_appdef e = true -> no_d0 r) /\ shape r end.

Definition vstep (E : list sub) (e : rentry) : list sub :=
  match e with DSubscribe 0 ss => est_apply_subs E ss | _ => E end.
Definition viewq (E : list sub) (q : list rentry) : list sub := fold_left vstep q E.
Definition fe (q : list rentry) : list uop := flat_map entry_call q.
Definition ft (q : list task) : list uop := flat_map task_call q.

Definition E_after (E : list sub) (e : rentry) : list sub :=
  match e with
  | DSubscribe _ ss => est_apply_subs E ss
  | DUnsubscribe _ ts => est_apply_unsubs E ts
  | _ => E
  end.

Lemma viewq_app E a b : viewq E (a ++ b) = viewq (viewq E a) b.
Proof. apply fold_left_app. Qed.
Lemma viewq_nod0 q : no_d0 q -> forall E, viewq E q = E.
Proof.
  induction 1 as [|e q He _ IH]; intros E; [reflexivity|]. cbn [viewq fold_left]. fold (viewq (vstep E e) q).
  rewrite IH. destruct e; try reflexivity. destruct uid; [discriminate | reflexivity].
Qed.
Lemma raw_nod0 q : Forall israw q -> no_d0 q.
Proof. apply Forall_impl. intros e; destruct e; cbn; auto; contradiction. Qed.
Lemma raw_noappdef q : Forall israw q -> Forall (fun e => is_appdef e = false) q.
Proof. apply Forall_impl. intros e; destruct e; cbn; auto; contradiction. Qed.
Lemma raw_fe q : Forall israw q -> fe q = [].
Proof.
  induction 1 as [|e q He _ IH]; [reflexivity|]. cbn [fe flat_map]. fold (fe q). rewrite IH.
  destruct e; try contradiction; reflexivity.
Qed.
Lemma fe_app a b : fe (a ++ b) = fe a ++ fe b.
Proof. apply flat_map_app. Qed.
Lemma ft_app a b : ft (a ++ b) = ft a ++ ft b.
Proof. apply flat_map_app. Qed.

Lemma shape_app_l a b : Forall (fun e => is_appdef e = false) a -> shape b -> shape (a ++ b).
Proof.
  induction 1 as [|e a He _ IH]; intros Hb; [exact Hb|]. cbn [Datatypes.app shape].
  split; [intros X; congruence | apply IH, Hb].
Qed.
Lemma shape_snoc q e : shape q -> is_d0 e = false -> shape (q ++ [e]).
Proof.
  intros Hq He. induction q as [|x r IH]; cbn [Datatypes.app shape].
  - split; [intros _; constructor | exact I].
  - destruct Hq as [H1 H2]. split; [|apply IH, H2].
    intros X. apply Forall_app. split; [apply H1, X | repeat constructor; exact He].
Qed.
Lemma shape_raw q : Forall israw q -> shape q.
Proof. intros H. rewrite <- (app_nil_r q). apply shape_app_l; [apply raw_noappdef, H | exact I]. Qed.

Lemma meq_est_apply_subs a b ss : meq a b -> meq (est_apply_subs a ss) (est_apply_subs b ss).
Proof. intros H t. rewrite !get_est_apply_subs, H. reflexivity. Qed.
Lemma meq_viewq q : forall a b, meq a b -> meq (viewq a q) (viewq b q).
Proof.
  induction q as [|e q IH]; intros a b H; [exact H|]. cbn [viewq fold_left]. apply IH.
  destruct e; try exact H. destruct uid; [apply meq_est_apply_subs, H | exact H].
Qed.

Lemma est_apply_subs_app E a b : est_apply_subs E (a ++ b) = est_apply_subs (est_apply_subs E a) b.
Proof. apply fold_left_app. Qed.
Lemma viewq_resub_deferred q : forall E, est_apply_subs E (resub_deferred q) = viewq E q.
Proof.
  induction q as [|e q IH]; intros E; [reflexivity|].
  cbn [resub_deferred flat_map viewq fold_left]. fold (resub_deferred q) (viewq (vstep E e) q).
  rewrite est_apply_subs_app, IH. destruct e; try reflexivity. destruct uid; reflexivity.
Qed.

Lemma meq_net_snoc E ex o :
  meq E (net_effect ex) -> forall E', (forall t, subs_get t E' = ap (uop_kop t o) (subs_get t E)) ->
  meq E' (net_effect (ex ++ [o])).
Proof. intros H E' HE t. rewrite net_effect_app, get_net_step, HE, H. reflexivity. Qed.

(* running the entry at the head of the queue *)
Lemma entry_view E e rest ex :
  coh E -> shape (e :: rest) -> meq (viewq E (e :: rest)) (net_effect ex) ->
  coh (E_after E e) /\ meq (viewq (E_after E e) rest) (net_effect (ex ++ entry_call e)).
Proof.
  intros Hc [Hs _] Hm. cbn [viewq fold_left] in Hm. fold (viewq (vstep E e) rest) in Hm.
  destruct e; cbn [E_after entry_call vstep is_appdef] in *; rewrite ?app_nil_r; try (split; assumption).
  - destruct uid as [|u].
    + rewrite app_nil_r. split; [apply coh_est_apply_subs, Hc | exact Hm].
    + specialize (Hs eq_refl). rewrite viewq_nod0 in * by exact Hs.
      split; [apply coh_est_apply_subs, Hc|]. eapply meq_net_snoc; [exact Hm|].
      intros t. apply get_est_apply_subs.
  - specialize (Hs eq_refl). rewrite viewq_nod0 in * by exact Hs.
    split; [apply coh_est_apply_unsubs, Hc|]. eapply meq_net_snoc; [exact Hm|].
    intros t. apply get_est_apply_unsubs.
Qed.

Definition PV (w : world) (ex : list uop) : Prop :=
  coh (w_subest w) /\ shape (w_retryq w) /\ meq (viewq (w_subest w) (w_retryq w)) (net_effect ex).

Section View.
Variable cfg : config.
Variable fp : fplan.

Lemma run_entry_shape w k e w' r :
  run_entry cfg fp w k e = (w', r) ->
  w_subest w' = E_after (w_subest w) e /\
  (w_retryq w' = w_retryq w \/ exists e', israw e' /\ w_retryq w' = w_retryq w ++ [e']) /\
  (forall e' cls, r = AFail e' cls -> israw e').
Proof.
  destruct e; cbn [run_entry E_after].
  - intros H. destruct (attempt_publish_gen cfg fp w k m true) as (A & B & C). rewrite H in *. cbn [fst snd] in *. auto.
  - intros H. destruct (attempt_pubrel_gen cfg fp w k m) as (A & B & C). rewrite H in *. cbn [fst snd] in *. auto.
  - rewrite attempt_subscribe_req. intros H.
    destruct (attempt_req_gen cfg fp w k (PSubscribe uid ss) uid (RSubscribe uid ss)) as (A & B & _ & D & _).
    rewrite H in *. cbn [fst snd] in *. split; [exact A|]. split; [left; exact B|].
    intros e' cls X. rewrite (D _ _ X). exact I.
  - rewrite attempt_unsubscribe_req. intros H.
    destruct (attempt_req_gen cfg fp w k (PUnsubscribe uid ts) uid (RUnsubscribe uid ts)) as (A & B & _ & D & _).
    rewrite H in *. cbn [fst snd] in *. split; [exact A|]. split; [left; exact B|].
    intros e' cls X. rewrite (D _ _ X). exact I.
  - intros H; injection H as <- <-. unfold do_publish.
    destruct (attempt_publish_gen cfg fp w k m false) as (A & B & C).
    destruct (settle_gen (p_uid m) _ _ _ A B C) as [S1 S2]. split; [exact S1|]. split; [exact S2 | intros; discriminate].
  - intros H; injection H as <- <-. unfold do_subscribe. rewrite attempt_subscribe_req.
    destruct (attempt_req_gen cfg fp (set_subest w (est_apply_subs (w_subest w) ss)) k (PSubscribe uid ss) uid (RSubscribe uid ss))
      as (A & B & _ & D & _).
    destruct (settle_gen uid _ _ _ A B) as [S1 S2].
    { intros e' cls X. rewrite (D _ _ X). exact I. }
    split; [exact S1|]. split; [exact S2 | intros; discriminate].
  - intros H; injection H as <- <-. unfold do_unsubscribe. rewrite attempt_unsubscribe_req.
    destruct (attempt_req_gen cfg fp (set_subest w (est_apply_unsubs (w_subest w) ts)) k (PUnsubscribe uid ts) uid (RUnsubscribe uid ts))
      as (A & B & _ & D & _).
    destruct (settle_gen uid _ _ _ A B) as [S1 S2].
    { intros e' cls X. rewrite (D _ _ X). exact I. }
    split; [exact S1|]. split; [exact S2 | intros; discriminate].
Qed.

Lemma PV_raws w ex : coh (w_subest w) -> Forall israw (w_retryq w) -> meq (w_subest w) (net_effect ex) -> PV w ex.
Proof.
  intros A B C. split; [exact A|]. split; [apply shape_raw, B|]. rewrite viewq_nod0 by (apply raw_nod0, B). exact C.
Qed.

Lemma retry_loop_pv old : forall w k ex,
  coh (w_subest w) -> Forall israw (w_retryq w) -> shape old ->
  meq (viewq (w_subest w) old) (net_effect ex) ->
  let w' := retry_loop cfg fp w k old in
  w_hung w' = true \/ exists ex', ex' ++ fe (w_retryq w') = ex ++ fe old /\ PV w' ex'.
Proof.
  induction old as [|e rest IH]; intros w k ex Hc Hr Hs Hm; cbn [retry_loop]; cbv zeta.
  - right. exists ex. rewrite (raw_fe _ Hr). split; [reflexivity|]. apply PV_raws; assumption.
  - destruct (run_entry cfg fp w k e) as [w1 r] eqn:Er.
    destruct (run_entry_shape _ _ _ _ _ Er) as (A & B & C).
    destruct (entry_view _ _ _ _ Hc Hs Hm) as [Hc1 Hm1]. rewrite <- A in Hc1, Hm1.
    assert (Hr1 : Forall israw (w_retryq w1)).
    { destruct B as [-> | (e' & He' & ->)]; [exact Hr|]. apply Forall_app. split; [exact Hr | repeat constructor; exact He']. }
    destruct (w_hung w1) eqn:Eh; [left; exact Eh|].
    assert (Hcont : forall w2, w_subest w2 = w_subest w1 -> w_retryq w2 = w_retryq w1 ->
              w_hung (retry_loop cfg fp w2 k rest) = true \/
              exists ex', ex' ++ fe (w_retryq (retry_loop cfg fp w2 k rest)) = ex ++ fe (e :: rest) /\
                          PV (retry_loop cfg fp w2 k rest) ex').
    { intros w2 E2 Q2. destruct (IH w2 k (ex ++ entry_call e)) as [H | (ex' & H1 & H2)]; rewrite ?E2, ?Q2; auto.
      - apply Hs.
      - right. exists ex'. split; [|exact H2]. rewrite H1, <- app_assoc. reflexivity. }
    destruct r as [|e' cls|cls|].
    + apply Hcont; reflexivity.
    + right. exists (ex ++ entry_call e). wsimpl.
      assert (Hr2 : Forall israw (w_retryq w1 ++ [e'])).
      { apply Forall_app. split; [exact Hr1 | repeat constructor; eapply C; reflexivity]. }
      split.
      * rewrite fe_app, (raw_fe _ Hr2). cbn [Datatypes.app fe flat_map]. rewrite <- app_assoc. reflexivity.
      * split; [exact Hc1|]. wsimpl. split.
        -- apply shape_app_l; [apply raw_noappdef, Hr2 | apply Hs].
        -- rewrite viewq_app, (viewq_nod0 _ (raw_nod0 _ Hr2)). exact Hm1.
    + apply Hcont; reflexivity.
    + apply Hcont; reflexivity.
Qed.

(* Resubscribe *)
Definition zok (e : rentry) : Prop := entry_call e = [] /\ is_appdef e = false.

Lemma rfold_view k old : forall wa,
  Forall zok (w_retryq wa) -> coh (w_subest wa) ->
  let w' := rfold cfg fp k old wa in
  w_hung w' = true \/
  (Forall zok (w_retryq w') /\ coh (w_subest w') /\
   viewq (w_subest w') (w_retryq w') = est_apply_subs (viewq (w_subest wa) (w_retryq wa)) old).
Proof.
  induction old as [|s rest IH]; intros wa Hz Hc; cbv zeta.
  - right. repeat split; assumption.
  - rewrite rfold_cons. destruct (w_hung wa) eqn:Eh.
    { left. rewrite rfold_hung; exact Eh. }
    unfold task_subscribe. destruct (w_retryq wa) as [|r0 q0] eqn:Eq.
    + (* direct *)
      unfold do_subscribe. rewrite attempt_subscribe_req.
      set (w0 := set_subest wa (est_apply_subs (w_subest wa) [s])).
      destruct (attempt_req_gen cfg fp w0 k (PSubscribe 0 [s]) 0 (RSubscribe 0 [s])) as (A & B & _ & D & _).
      destruct (settle_gen 0 _ _ _ A B) as [S1 S2].
      { intros e' cls X. rewrite (D _ _ X). exact I. }
      set (wa1 := settle 0 (attempt_req cfg fp w0 k (PSubscribe 0 [s]) 0 (RSubscribe 0 [s]))) in *.
      assert (Hz1 : Forall zok (w_retryq wa1) /\ no_d0 (w_retryq wa1)).
      { unfold w0 in S2. wsimpl. rewrite Eq in S2.
        destruct S2 as [-> | (e' & He' & ->)]; [split; constructor|].
        cbn [Datatypes.app]. split; repeat constructor; destruct e'; try contradiction; reflexivity. }
      destruct Hz1 as [Hz1 Hn1].
      assert (Hc1 : coh (w_subest wa1)) by (rewrite S1; unfold w0; wsimpl; apply coh_est_apply_subs, Hc).
      destruct (IH wa1 Hz1 Hc1) as [H | (H1 & H2 & H3)]; [left; exact H|].
      right. split; [exact H1|]. split; [exact H2|]. rewrite H3.
      rewrite (viewq_nod0 _ Hn1), S1. unfold w0. wsimpl. reflexivity.
    + (* deferred *)
      rewrite <- Eq in *.
      set (wa1 := set_retryq wa (w_retryq wa ++ [DSubscribe 0 [s]])).
      assert (Hz1 : Forall zok (w_retryq wa1)).
      { unfold wa1. wsimpl. apply Forall_app. split; [exact Hz | repeat constructor]. }
      destruct (IH wa1 Hz1 Hc) as [H | (H1 & H2 & H3)]; [left; exact H|].
      right. split; [exact H1|]. split; [exact H2|]. rewrite H3.
      unfold wa1. wsimpl. rewrite viewq_app. reflexivity.
Qed.

Lemma tsub_none t l : tsub t l = None -> subs_get t l = None.
Proof.
  induction l as [|[t' q] l IH]; cbn [tsub subs_get fst snd]; [reflexivity|].
  destruct (tsub t l); [discriminate|]. destruct (str_eqb t t'); [discriminate | auto].
Qed.
Lemma tsub_in t l v : tsub t l = Some v -> exists q, v = Some q /\ In (t, q) l.
Proof.
  induction l as [|[t' q] l IH]; cbn [tsub fst snd]; [discriminate|].
  destruct (tsub t l) as [v'|].
  - intros H; injection H as <-. destruct (IH eq_refl) as (q' & -> & Hin). exists q'. split; [reflexivity | right; exact Hin].
  - sdestr t t'; [|discriminate]. subst t'. intros H; injection H as <-. exists q. split; [reflexivity | left; reflexivity].
Qed.
Lemma coh_rebuild l : coh l -> meq (est_apply_subs [] l) l.
Proof.
  intros Hc t. rewrite get_est_apply_subs. cbn [subs_get]. destruct (tsub t l) as [v|] eqn:E; cbn [ap].
  - destruct (tsub_in _ _ _ E) as (q & -> & Hin). symmetry. apply Hc, Hin.
  - symmetry. apply tsub_none, E.
Qed.

Lemma zok_fe q : Forall zok q -> fe q = [].
Proof. induction 1 as [|e q [He _] _ IH]; [reflexivity|]. cbn [fe flat_map]. fold (fe q). rewrite He, IH. reflexivity. Qed.

Lemma task_resub_pv w k ex :
  PV w ex ->
  let w' := task_resubscribe cfg fp w k in
  w_hung w' = true \/ (fe (w_retryq w') = fe (w_retryq w) /\ PV w' ex).
Proof.
  intros (Hc & Hs & Hm). unfold task_resubscribe. cbv zeta.
  set (w0 := set_retryq (set_subest w []) []).
  fold (rfold cfg fp k (w_subest w) w0).
  destruct (rfold_view k (w_subest w) w0) as [H | (H1 & H2 & H3)]; [constructor | apply coh_nil | left; exact H|].
  right. wsimpl. split.
  - rewrite fe_app, (zok_fe _ H1). reflexivity.
  - split; [exact H2|]. wsimpl. split.
    + apply shape_app_l; [|exact Hs]. eapply Forall_impl; [|exact H1]. intros e [_ X]. exact X.
    + rewrite viewq_app, H3. intros t. rewrite <- Hm. apply meq_viewq. apply coh_rebuild, Hc.
Qed.

(* a task: the calls that leave the pending list are appended to the executed ones *)
Definition tok (x : task) : Prop := match x with TOp o => uop_uid o <> 0 | _ => True end.

Lemma exec_task_pv w k x ex :
  PV w ex -> tok x ->
  let w' := exec_task cfg fp w k x in
  w_hung w' = true \/
  exists ex', ex' ++ fe (w_retryq w') = ex ++ fe (w_retryq w) ++ task_call x /\ PV w' ex'.
Proof.
  intros (Hc & Hs & Hm) Hx. destruct x as [[m|u ss|u ts]| |]; cbn [exec_task task_call subcalls filter is_subcall]; cbv zeta.
  - (* publish *)
    right. exists ex. rewrite app_nil_r. unfold task_publish. destruct (w_retryq w) as [|r0 q0] eqn:Eq.
    + unfold do_publish. destruct (attempt_publish_gen cfg fp w k m false) as (A & B & C).
      destruct (settle_gen (p_uid m) _ _ _ A B C) as [S1 S2]. rewrite Eq in S2.
      assert (Hr : Forall israw (w_retryq (settle (p_uid m) (attempt_publish cfg fp w k m false)))).
      { destruct S2 as [-> | (e' & He' & ->)]; repeat constructor. exact He'. }
      split; [rewrite (raw_fe _ Hr); reflexivity|].
      apply PV_raws; [rewrite S1; exact Hc | exact Hr|]. rewrite S1. try rewrite Eq in Hm. exact Hm.
    + rewrite <- Eq in *. destruct (0 <? p_qos m)%N.
      * wsimpl. split; [rewrite fe_app; cbn; rewrite app_nil_r; reflexivity|].
        split; [exact Hc|]. wsimpl. split; [apply shape_snoc; [exact Hs | reflexivity]|].
        rewrite viewq_app. exact Hm.
      * split; [reflexivity|]. split; [exact Hc|]. split; assumption.
  - (* subscribe *)
    cbn [tok uop_uid] in Hx. destruct u as [|u]; [contradiction|].
    right. unfold task_subscribe. destruct (w_retryq w) as [|r0 q0] eqn:Eq.
    + exists (ex ++ [USub (S u) ss]). unfold do_subscribe. rewrite attempt_subscribe_req.
      destruct (attempt_req_gen cfg fp (set_subest w (est_apply_subs (w_subest w) ss)) k (PSubscribe (S u) ss) (S u) (RSubscribe (S u) ss))
        as (A & B & _ & D & _).
      destruct (settle_gen (S u) _ _ _ A B) as [S1 S2].
      { intros e' cls X. rewrite (D _ _ X). exact I. }
      wsimpl. rewrite Eq in S2.
      set (w' := settle (S u) _) in *.
      assert (Hr : Forall israw (w_retryq w')).
      { destruct S2 as [-> | (e' & He' & ->)]; repeat constructor. exact He'. }
      split; [rewrite (raw_fe _ Hr); cbn; rewrite app_nil_r; reflexivity|].
      apply PV_raws; [rewrite S1; apply coh_est_apply_subs, Hc | exact Hr|].
      rewrite S1. eapply meq_net_snoc; [exact Hm|]. intros t. apply get_est_apply_subs.
    + rewrite <- Eq in *. exists ex. wsimpl. split; [rewrite fe_app; reflexivity|].
      split; [exact Hc|]. wsimpl. split; [apply shape_snoc; [exact Hs | reflexivity]|].
      rewrite viewq_app. exact Hm.
  - (* unsubscribe *)
    right. unfold task_unsubscribe. destruct (w_retryq w) as [|r0 q0] eqn:Eq.
    + exists (ex ++ [UUnsub u ts]). unfold do_unsubscribe. rewrite attempt_unsubscribe_req.
      destruct (attempt_req_gen cfg fp (set_subest w (est_apply_unsubs (w_subest w) ts)) k (PUnsubscribe u ts) u (RUnsubscribe u ts))
        as (A & B & _ & D & _).
      destruct (settle_gen u _ _ _ A B) as [S1 S2].
      { intros e' cls X. rewrite (D _ _ X). exact I. }
      wsimpl. rewrite Eq in S2.
      set (w' := settle u _) in *.
      assert (Hr : Forall israw (w_retryq w')).
      { destruct S2 as [-> | (e' & He' & ->)]; repeat constructor. exact He'. }
      split; [rewrite (raw_fe _ Hr); cbn; rewrite app_nil_r; reflexivity|].
      apply PV_raws; [rewrite S1; apply coh_est_apply_unsubs, Hc | exact Hr|].
      rewrite S1. eapply meq_net_snoc; [exact Hm|]. intros t. apply get_est_apply_unsubs.
    + rewrite <- Eq in *. exists ex. wsimpl. split; [rewrite fe_app; reflexivity|].
      split; [exact Hc|]. wsimpl. split; [apply shape_snoc; [exact Hs | reflexivity]|].
      rewrite viewq_app. exact Hm.
  - (* Resubscribe *)
    destruct (task_resub_pv w k ex (conj Hc (conj Hs Hm))) as [H | [H1 H2]]; [left; exact H|].
    right. exists ex. rewrite app_nil_r, H1. split; [reflexivity | exact H2].
  - (* Retry *)
    unfold task_retry. rewrite app_nil_r.
    apply (retry_loop_pv (w_retryq w) (set_retryq w []) k ex); wsimpl; auto.
Qed.

End View.

(* ---------- the system invariant ---------- *)
Definition QInv (s : sys) : Prop :=
  Forall tok (s_taskq s) /\
  (w_hung (s_w s) = true \/
   exists ex, subcalls (s_submitted s) = ex ++ pending_calls s /\ PV (s_w s) ex).

Lemma subcalls_app a b : subcalls (a ++ b) = subcalls a ++ subcalls b.
Proof. apply filter_app. Qed.

Lemma QInv_sys0 : QInv sys0.
Proof.
  split; [constructor|]. right. exists []. split; [reflexivity|].
  split; [apply coh_nil|]. split; [exact I | intros t; reflexivity].
Qed.

Lemma QInv_same s s' :
  QInv s -> w_subest (s_w s') = w_subest (s_w s) -> w_retryq (s_w s') = w_retryq (s_w s) ->
  w_hung (s_w s') = w_hung (s_w s) -> s_submitted s' = s_submitted s ->
  Forall tok (s_taskq s') -> ft (s_taskq s') = ft (s_taskq s) -> QInv s'.
Proof.
  intros [HT HQ] E1 E2 E3 E4 HT' E5. split; [exact HT'|].
  destruct HQ as [H | (ex & H1 & H2)]; [left; congruence|]. right. exists ex.
  unfold pending_calls, PV in *. fold (ft (s_taskq s')) (ft (s_taskq s)) in *. rewrite E1, E2, E4, E5. auto.
Qed.

Lemma step_qinv cfg fp s l s' :
  QInv s -> (forall o, l = LSubmit o -> uop_uid o <> 0) -> step cfg fp s l = Some s' -> QInv s'.
Proof.
  intros HQ Hl. pose proof HQ as [HT HQ']. destruct l; cbn [step].
  - (* LSubmit *)
    intros H; injection H as <-. split.
    + cbn [s_taskq]. apply Forall_app. split; [exact HT | repeat constructor; exact (Hl _ eq_refl)].
    + destruct HQ' as [H | (ex & H1 & H2)]; [left; exact H|]. right. exists ex. split; [|exact H2].
      unfold pending_calls in *. cbn [s_w s_submitted s_taskq]. fold (ft (s_taskq s ++ [TOp o])) (ft (s_taskq s)) in *.
      rewrite subcalls_app, H1, ft_app, <- !app_assoc. cbn [ft flat_map task_call]. rewrite app_nil_r. reflexivity.
  - (* LObserve *)
    destruct (s_tmode s); [|discriminate].
    destruct ((0 <? g) && ((g <? s_gen s) || (g =? s_gen s) && match s_cres s with CrPending => false | _ => true end));
      [|discriminate].
    intros H; injection H as <-. eapply QInv_same; eauto.
  - (* LTask *)
    destruct (w_hung (s_w s)) eqn:Eh; [discriminate|]. destruct (s_tmode s) as [|g]; [discriminate|].
    destruct (negb (g =? s_gen s)); [intros H; injection H as <-; eapply QInv_same; eauto|].
    destruct (s_taskq s) as [|x q] eqn:Eq; [discriminate|]. destruct (s_cur s) as [k|]; [|discriminate].
    inversion HT as [|? ? Hx Hq]; subst.
    destruct HQ' as [H | (ex & H1 & H2)]; [congruence|].
    pose proof (exec_task_pv cfg fp (s_w s) k x ex H2 Hx) as H3. cbv zeta in H3.
    assert (Hres : forall s2, s_taskq s2 = q -> s_submitted s2 = s_submitted s ->
              w_subest (s_w s2) = w_subest (exec_task cfg fp (s_w s) k x) ->
              w_retryq (s_w s2) = w_retryq (exec_task cfg fp (s_w s) k x) ->
              w_hung (s_w s2) = w_hung (exec_task cfg fp (s_w s) k x) -> QInv s2).
    { intros s2 E1 E2 E3 E4 E5. split; [rewrite E1; exact Hq|].
      destruct H3 as [H3 | (ex' & H3 & H4)]; [left; congruence|]. right. exists ex'.
      unfold pending_calls, PV in *. rewrite E1, E2, E3, E4, H1, Eq. split; [|exact H4].
      cbn [flat_map]. fold (fe (w_retryq (s_w s))) (fe (w_retryq (exec_task cfg fp (s_w s) k x))) (ft q) in *.
      rewrite (app_assoc ex' _ (ft q)), H3, <- !app_assoc. reflexivity. }
    destruct (w_nrbe (exec_task cfg fp (s_w s) k x)); intros H; injection H as <-; apply Hres; reflexivity.
  - destruct (s_pc s); try discriminate. destruct ok; intros H; injection H as <-; eapply QInv_same; eauto.
  - destruct (s_pc s); try discriminate. intros H; injection H as <-; eapply QInv_same; eauto.
  - destruct (s_pc s); try discriminate. intros H; injection H as <-; eapply QInv_same; eauto.
  - destruct (s_pc s); try discriminate. destruct o as [sp| | |].
    + destruct (cl_alive (get_client (s_w s) k)); [|discriminate]. intros H; injection H as <-.
      destruct sp; (eapply QInv_same; eauto).
    + intros H; injection H as <-; eapply QInv_same; eauto.
    + intros H; injection H as <-; eapply QInv_same; eauto.
    + intros H; injection H as <-; eapply QInv_same; eauto.
  - destruct (s_pc s); try discriminate.
    destruct (s_initialized s && (negb sp || c_always_resub cfg)); intros H; injection H as <-;
      (eapply QInv_same; eauto); cbn [s_taskq set_taskq set_pc].
    + apply Forall_app. split; [exact HT | repeat constructor].
    + rewrite ft_app. cbn. apply app_nil_r.
  - destruct (s_pc s); try discriminate. intros H; injection H as <-.
    eapply QInv_same; eauto; cbn [s_taskq].
    + apply Forall_app. split; [exact HT | repeat constructor].
    + rewrite ft_app. cbn. apply app_nil_r.
  - destruct (s_pc s); try discriminate. destruct (cl_alive (get_client (s_w s) k)); [discriminate|].
    intros H; injection H as <-; eapply QInv_same; eauto.
  - destruct (s_pc s); try discriminate. intros H; injection H as <-; eapply QInv_same; eauto.
  - destruct (s_pc s); try discriminate. intros H; injection H as <-; eapply QInv_same; eauto.
  - destruct (s_pc s); try discriminate. destruct (cl_alive (get_client (s_w s) k)); [|discriminate].
    intros H; injection H as <-; eapply QInv_same; eauto.
Qed.

Lemma increasing_from_nonzero l : forall lo, increasing_from lo l = true -> Forall (fun u => u <> 0) l.
Proof.
  induction l as [|x r IH]; intros lo H; [constructor|]. cbn [increasing_from] in H.
  apply andb_true_iff in H as [H1 H2]. constructor; [lia | eapply IH; eauto].
Qed.

Lemma run_qinv cfg fp ls : forall s s',
  QInv s -> Forall (fun u => u <> 0) (map uop_uid (submits ls)) -> run cfg fp s ls = Some s' -> QInv s'.
Proof.
  induction ls as [|l ls IH]; intros s s' HI Hu; cbn [run].
  - intros H; injection H as <-. exact HI.
  - destruct (step cfg fp s l) as [s1|] eqn:Es; [|discriminate]. apply IH.
    + eapply step_qinv; [exact HI | | exact Es]. intros o ->. cbn [submits map] in Hu. inversion Hu; assumption.
    + destruct l; cbn [submits map] in Hu; try exact Hu. inversion Hu; assumption.
Qed.

Lemma C08_established_is_net_effect_of_executed : C08_established_is_net_effect_of_executed_stmt.
Proof.
  unfold C08_established_is_net_effect_of_executed_stmt. intros cfg fp ls s Hrun Hwf Hh.
  destruct (run_qinv cfg fp ls sys0 s QInv_sys0 (increasing_from_nonzero _ _ Hwf) Hrun) as [_ [H | (ex & H1 & Hc & _ & Hm)]];
    [congruence|].
  exists ex. split; [exact H1|]. rewrite viewq_resub_deferred.
  apply subs_equiv_of_get; [|apply coh_net_effect | exact Hm].
  rewrite <- viewq_resub_deferred. apply coh_est_apply_subs, Hc.
Qed.
