(* CheckC07.v — executable comparison for C07 (used by the generated cases).

   One case = one script run against a real BaseClient:
     evs     the history as it happened: [Start h rk id] in the order the requests were written,
             [Recv a] for every acknowledgement the scripted broker sent (each one confirmed as
             processed by the reader before the next is sent), [Resume h] where caller h's PUBREL
             was seen on the wire, [Cancel h] where caller h returned its context's error (the
             script cancelled its context or gave it a short deadline, and withheld its
             acknowledgement until it had returned)
     obs     per caller h (position in the list): how its call ended and its stamp = the number
             of events of evs that had been issued when the call returned
     closed  whether the library closed the transport *)
From MQ Require Import Base Routing.
Open Scope N_scope.

Inductive ostatus :=
| OSucc (granted : list sub)   (* returned nil (Subscribe: with these subscriptions) *)
| OInv                         (* returned ErrInvalidSubAck *)
| OClosed                      (* returned ErrClosedTransport *)
| OCancelled                   (* returned its context's error (context.Canceled / DeadlineExceeded) *)
| OOther                       (* any other error, or a panic *)
| OBlocked.                    (* had not returned when the script ended *)

Definition c07_case := (list event * list (ostatus * nat) * bool)%type.

Fixpoint first_done (h : nat) (os : list out) : option result :=
  match os with
  | [] => None
  | Done h' r :: t => if Nat.eqb h' h then Some r else first_done h t
  | _ :: t => first_done h t
  end.

(* ---------- V: the property, judged with the one-request automaton only ---------- *)
(* what request h, seen alone, returns on this history (None: it is still waiting) *)
Fixpoint solo (h : nat) (p : phase) (evs : list event) : option result :=
  match evs with
  | [] => None
  | e :: r =>
      let '(p', o) := react h p e in
      match first_done h o with
      | Some x => Some x
      | None => solo h p' r
      end
  end.

(* the phase request h, seen alone, is in after the history (None once it has returned) *)
Fixpoint solo_phase (h : nat) (p : phase) (evs : list event) : phase :=
  match evs with
  | [] => p
  | e :: r => solo_phase h (fst (react h p e)) r
  end.

Definition is_resum (p : phase) : bool := match p with PResum _ => true | _ => false end.

Definition oresult_eqb (a b : option result) : bool := option_eqb result_eqb a b.

Definition is_none {A} (o : option A) : bool := match o with None => true | _ => false end.

(* caller h behaved as the property demands:
   success / ErrInvalidSubAck  only if its own acknowledgement (chain) lies within the events
                               issued before it returned, with exactly the result that follows
                               from it (granted codes in request order; count mismatch -> error)
   ErrClosedTransport          only if the transport was closed and its own acknowledgement had
                               not been sent
   context error               only if it gave up ([Cancel h] is recorded when the caller returns its
                               context's error) while its own acknowledgement had not been sent
   still blocked               only if its own acknowledgement was never sent and the transport
                               is open (otherwise it is stuck)
   and a QoS 2 caller whose PUBREC has arrived has written its PUBREL (the script waits for it
   before it goes on, so at the end nobody may still be between PUBREC and PUBREL) *)
Definition caller_ok (evs : list event) (cl : bool) (h : nat) (o : ostatus * nat) : bool :=
  let '(st, stamp) := o in
  let full := solo h PNone evs in
  let upto := solo h PNone (firstn stamp evs) in
  negb (is_resum (solo_phase h PNone evs)) &&
  match st with
  | OSucc g => oresult_eqb upto (Some (RSuccess g))
  | OInv => oresult_eqb upto (Some RInvalidSubAck)
  | OClosed => cl && is_none full
  | OCancelled => oresult_eqb upto (Some RCancelled)
  | OOther => false
  | OBlocked => negb cl && is_none full
  end.

Fixpoint callers_ok (evs : list event) (cl : bool) (h : nat) (obs : list (ostatus * nat)) : bool :=
  match obs with
  | [] => true
  | o :: r => caller_ok evs cl h o && callers_ok evs cl (S h) r
  end.

Fixpoint any_invalid (evs : list event) (h n : nat) : bool :=
  match n with
  | O => false
  | S n' => oresult_eqb (solo h PNone evs) (Some RInvalidSubAck) || any_invalid evs (S h) n'
  end.

(* the transport is closed exactly when some Subscribe got a miscounted SUBACK *)
Definition c07_prop_ok (c : c07_case) : bool :=
  let '(evs, obs, cl) := c in
  callers_ok evs cl 0 obs && Bool.eqb cl (any_invalid evs 0 (length obs)).

(* ---------- M: the model ---------- *)
Fixpoint model_result (h : nat) (outs : list (list out)) : option result :=
  match outs with
  | [] => None
  | o :: r => match first_done h o with Some x => Some x | None => model_result h r end
  end.

Definition status_matches (exp : option result) (cl : bool) (st : ostatus) : bool :=
  match st, exp with
  | OSucc g, Some (RSuccess g') => list_eqb sub_eqb g g'
  | OInv, Some RInvalidSubAck => true
  | OClosed, Some RClosed => true
  | OClosed, None => cl
  | OCancelled, Some RCancelled => true
  | OBlocked, None => negb cl
  | _, _ => false
  end.

Fixpoint statuses_match (outs : list (list out)) (cl : bool) (h : nat) (obs : list (ostatus * nat)) : bool :=
  match obs with
  | [] => true
  | (st, _) :: r => status_matches (model_result h outs) cl st && statuses_match outs cl (S h) r
  end.

(* every PUBREL seen on the wire is one the model writes at that point, and vice versa *)
Fixpoint pubrels_match (evs : list event) (outs : list (list out)) : bool :=
  match evs, outs with
  | [], [] => true
  | e :: er, o :: or =>
      let wrote := existsb (fun x => match x with WPubRel _ _ => true | _ => false end) o in
      let seen := match e with Resume _ => true | _ => false end in
      Bool.eqb wrote seen && pubrels_match er or
  | _, _ => false
  end.

Definition c07_model_ok (c : c07_case) : bool :=
  let '(evs, obs, cl) := c in
  let outs := run sig_init evs in
  let s_end := state_after sig_init evs in
  (* every PUBREL the model expects has been seen: unless the transport was closed, no caller
     is left between PUBREC and PUBREL *)
  (closed s_end || match resum s_end with [] => true | _ => false end) &&
  wf evs && statuses_match outs cl 0 obs && pubrels_match evs outs
  && Bool.eqb cl (existsb (fun b => b) (closings outs)).

(* outside the hypothesis: scripts in which two outstanding publishes share kind and identifier
   (started one after the other). The history is not well-formed; the model still has to say
   what the implementation does (the second waiter replaces the first, which never returns). *)
Definition c07_shared_ok (c : c07_case) : bool :=
  let '(evs, obs, cl) := c in
  let outs := run sig_init evs in
  negb (wf evs) && statuses_match outs cl 0 obs && pubrels_match evs outs
  && Bool.eqb cl (existsb (fun b => b) (closings outs)).

(* ---------- family "ends": the connection ends while requests are pending ---------- *)
(* The history stops where the connection is ended (local Disconnect, local Close, peer close,
   cut); cl is whether the transport ended up closed. Judged as above with "transport closed":
   nobody may return success without its own acknowledgement (chain) in the history; everybody
   pending returns ErrClosedTransport; nobody stays blocked. *)
Definition c07_end_ok (c : c07_case) : bool :=
  let '(evs, obs, cl) := c in cl && callers_ok evs true 0 obs.

Definition c07_end_model_ok (c : c07_case) : bool :=
  let '(evs, obs, cl) := c in
  let outs := run sig_init evs in
  cl && wf evs && statuses_match outs true 0 obs && pubrels_match evs outs.

(* ---------- family "long": one request stays pending while many others come and go ---------- *)
(* compact history: LE e is an event as it is (handle 0 = the long-lived request A);
   LBs codes: each code is a whole further request with a fresh handle, acknowledged at once:
   k = 0 Publish QoS1, 1 Publish QoS2 (PUBREC, PUBREL, PUBCOMP), 2 Subscribe with nf filters
   (granted 0 each), 3 Unsubscribe *)
Inductive litem := LBs (codes : list N) | LE (e : event).
(* a further request as one number: k * 524288 + id * 8 + nf *)

Definition lb_events (h : nat) (c : N) : list event :=
  let k := c / 524288 in
  let id := (c / 8) mod 65536 in
  let nf := N.to_nat (c mod 8) in
  match k with
  | 0 => [Start h RPub1 id; Recv (mkAck KPubAck id [])]
  | 1 => [Start h RPub2 id; Recv (mkAck KPubRec id []); Resume h; Recv (mkAck KPubComp id [])]
  | 2 => [Start h (RSub (repeat ([], 0) nf)) id; Recv (mkAck KSubAck id (repeat 0 nf))]
  | _ => [Start h RUnsub id; Recv (mkAck KUnsubAck id [])]
  end.

(* handles of the further requests cycle through 1..16: each of them has returned before the next
   one starts, so a handle is never in use twice at the same time (unary naturals up to 65,534
   would make the evaluation quadratic); the long-lived request keeps handle 0 *)
Definition next_handle (h : nat) : nat := if Nat.eqb h 16 then 1%nat else S h.

Fixpoint lbs_events (h : nat) (cs : list N) (k : nat -> list event) : list event :=
  match cs with
  | [] => k h
  | c :: r => lb_events h c ++ lbs_events (next_handle h) r k
  end.

Fixpoint long_events (h : nat) (items : list litem) : list event :=
  match items with
  | [] => []
  | LE e :: r => e :: long_events h r
  | LBs cs :: r => lbs_events h cs (fun h' => long_events h' r)
  end.

Fixpoint count_lb (items : list litem) : nat :=
  match items with [] => O | LBs cs :: r => length cs + count_lb r | LE _ :: r => count_lb r end.

(* identifiers in use are distinct per kind (the identifier half of [wf]; a handle is never in
   use twice at the same time by construction of [long_events]) *)
Fixpoint ids_fresh (s : sig) (evs : list event) : bool :=
  match evs with
  | [] => true
  | e :: r =>
      (match e with Start _ rk id => fresh s rk id | _ => true end) && ids_fresh (fst (step s e)) r
  end.

Fixpoint count_succ (outs : list (list out)) : nat :=
  match outs with
  | [] => O
  | o :: r => length (filter (fun x => match x with Done _ (RSuccess _) => true | _ => false end) o) + count_succ r
  end.

(* (items, outcome of A, every further request returned success when acknowledged) *)
(* the stamp is an N here (histories of more than 100,000 events) *)
Definition c07_long_case := (list litem * (ostatus * N) * bool)%type.

Definition c07_long_ok (c : c07_long_case) : bool :=
  let '(items, oa, bok) := c in
  bok && caller_ok (long_events 1 items) false 0 (fst oa, N.to_nat (snd oa)).

Definition c07_long_model_ok (c : c07_long_case) : bool :=
  let '(items, oa, bok) := c in
  let evs := long_events 1 items in
  let outs := run sig_init evs in
  ids_fresh sig_init evs && status_matches (model_result 0 outs) false (fst oa)
  && pubrels_match evs outs
  && Nat.eqb (count_succ outs) (count_lb items + match fst oa with OSucc _ => 1 | _ => 0 end)
  && negb (existsb (fun b => b) (closings outs)).

Definition c07_violations (cs : list c07_case) : list nat := indices_where (fun c => negb (c07_prop_ok c)) cs.
Definition c07_mismatches (cs : list c07_case) : list nat := indices_where (fun c => negb (c07_model_ok c)) cs.
Definition c07_shared_mismatches (cs : list c07_case) : list nat := indices_where (fun c => negb (c07_shared_ok c)) cs.
Definition c07_end_violations (cs : list c07_case) : list nat := indices_where (fun c => negb (c07_end_ok c)) cs.
Definition c07_end_mismatches (cs : list c07_case) : list nat := indices_where (fun c => negb (c07_end_model_ok c)) cs.
Definition c07_long_violations (cs : list c07_long_case) : list nat := indices_where (fun c => negb (c07_long_ok c)) cs.
Definition c07_long_mismatches (cs : list c07_long_case) : list nat := indices_where (fun c => negb (c07_long_model_ok c)) cs.
