(* RetryInv_WireU.v — part 3: the C12 part of the wire invariant: for every pending entry the
   per-identifier automaton is in the state that matches the entry. *)
From MQ Require Import Base RetryCore RetrySys CheckRetry RetryProps RetryInv_Wire RetryInv_WireBase.
Open Scope nat_scope.

Definition ulink (W : list (nat * pkt * wres)) (e : rentry) : Prop :=
  match e with
  | RPublish m => ustate (p_uid m) W = UP m
  | RPubRel m => ustate (p_uid m) W = UR m
  | DPublish m => ustate (p_uid m) W = U0
  | _ => True
  end.

Record KU (w : world) (P : list rentry) : Prop := {
  ku_ok : forall u, ustate u (w_wire w) <> UBad;
  ku_link : forall e, In e P -> ulink (w_wire w) e
}.

Definition KQ (P : list rentry) : Prop := forall m, In (RPublish m) P -> p_qos m <> 0%N.

Lemma ulink_none W e : pub_of e = None -> ulink W e.
Proof. destruct e; cbn; intros H; try discriminate; exact I. Qed.

Lemma ulink_same W W' e :
  (forall m, pub_of e = Some m -> ustate (p_uid m) W' = ustate (p_uid m) W) -> ulink W e -> ulink W' e.
Proof. destruct e; cbn; intros H L; auto; rewrite H; auto. Qed.

Lemma KU_rearr w P w' P' :
  KU w P -> w_wire w' = w_wire w -> (forall e, In e P' -> In e P \/ pub_of e = None) -> KU w' P'.
Proof.
  intros [] E Hin. split; rewrite E; auto.
  intros e He. destruct (Hin e He) as [H|H]; [auto|apply ulink_none; exact H].
Qed.

Lemma utrans_nonpub u st k p r : is_pubpkt p = false -> utrans u st (k, p, r) = st.
Proof. destruct p; cbn [is_pubpkt]; intros H; try discriminate; reflexivity. Qed.

Lemma KU_send S w Pd e Pt p e' k w1 res :
  KB S w (Pd ++ e :: Pt) -> KU w (Pd ++ e :: Pt) -> allowed e p e' ->
  w_wire w1 = w_wire w ++ [(k, p, res)] ->
  KU w1 (Pd ++ e' :: Pt).
Proof.
  intros B [] Al EW.
  assert (He : In e (Pd ++ e :: Pt)) by (apply in_mid; left; reflexivity).
  pose proof (ku_link0 _ He) as Le.
  destruct (allowed_uid _ _ _ Al) as [U1 U2].
  (* identifiers other than the one of e are not touched *)
  assert (Oth : forall u0, (is_pubpkt p = false \/ u0 <> entry_uid e) ->
                ustate u0 (w_wire w1) = ustate u0 (w_wire w)).
  { intros u0 H. rewrite EW, ustate_snoc. destruct H as [H|H].
    - apply utrans_nonpub; exact H.
    - apply utrans_other. cbn [fst snd]. congruence. }
  assert (OthE : forall x, In x (Pd ++ Pt) -> ulink (w_wire w1) x).
  { intros x Hx. assert (Hx' : In x (Pd ++ e :: Pt)) by (apply in_mid; right; exact Hx).
    apply (ulink_same (w_wire w)); [|auto].
    intros mx Hmx. apply Oth.
    destruct (is_pubpkt p) eqn:Pp; [right|left; reflexivity].
    destruct (allowed_pubpkt _ _ _ Al Pp) as (m & Hm & _).
    destruct (kb_sub _ _ _ B _ _ He Hm) as [_ Nm].
    destruct (kb_sub _ _ _ B _ _ Hx' Hmx) as [_ Nx].
    rewrite <- (pub_of_uid _ _ Hm) in Nm. rewrite <- (pub_of_uid _ _ Hmx) in Nx |- *.
    destruct (ord_mid _ _ _ (kb_inc _ _ _ B) Nm) as [O1 O2].
    apply in_app_or in Hx as [Hx|Hx]; [specialize (O1 _ Hx Nx)|specialize (O2 _ Hx Nx)]; lia. }
  assert (Step : forall u0, ustate u0 (w_wire w1) = utrans u0 (ustate u0 (w_wire w)) (k, p, res))
    by (intros; rewrite EW; apply ustate_snoc).
  split.
  - intros u0.
    destruct (Nat.eq_dec u0 (entry_uid e)) as [->|N]; [|rewrite Oth; auto].
    rewrite Step.
    inversion Al; subst; cbn [ulink entry_uid] in *;
      rewrite ?utrans_pub, ?utrans_rel, ?utrans_sub, ?utrans_unsub, ?Nat.eqb_refl, ?Le; try discriminate; auto.
    rewrite pubreq_eqb_refl. destruct (p_qos m =? 0)%N eqn:Q; [apply N.eqb_eq in Q; contradiction|].
    cbn. discriminate.
  - intros x Hx. apply in_mid in Hx as [->|Hx]; [|auto].
    inversion Al; subst; cbn [ulink entry_uid] in *; auto;
      rewrite Step, ?utrans_pub, ?utrans_rel, ?Nat.eqb_refl, ?Le; auto.
    rewrite pubreq_eqb_refl. destruct (p_qos m =? 0)%N eqn:Q; [apply N.eqb_eq in Q; contradiction|].
    reflexivity.
Qed.

Lemma KU_submit S w P o :
  KB S w P -> KU w P -> (forall x, In x (uids S) -> x < uop_uid o) -> 0 < uop_uid o ->
  KU w (P ++ [op_entry o]).
Proof.
  intros B [] Hlt Hpos. split; [auto|].
  intros e He. apply in_app_or in He as [He|[<-|[]]]; [auto|].
  destruct o; cbn [op_entry ulink]; auto.
  apply ustate_fresh. intros [[j p] r] Hin. cbn [fst snd]. cbn [uop_uid] in *.
  destruct (kb_wuid _ _ _ B _ _ _ Hin) as [Z|Z]; [lia|]. specialize (Hlt _ Z). lia.
Qed.
