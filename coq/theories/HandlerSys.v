(* HandlerSys.v — the handler-propagation system of RetryClient / ReconnectClient (property C17).

   A small labelled transition system over the goroutines that touch a message handler:
     U  the user                 RetryClient.Handle                       retryclient.go:92-99
     R  the reconnect loop       Dial / SetClient / Connect / wait Done   reconnclient.go:87-160,
                                                                           retryclient.go:276-288, 428-451
     B  the broker + the reader  one inbound message handed over          serve.go:69-141
   State that matters: RetryClient.handler (retryclient.go:37), RetryClient.cli, and per BaseClient
   its handler field (client.go:39, written by BaseClient.Handle client.go:92-97 under c.mu, read by
   the reader under c.mu.RLock once PER MESSAGE: serve.go:77-82 QoS 0, 86-91 QoS 1, 132-137 QoS 2 at
   PUBREL time) and how far its connection has got.

   Concurrency is an explicit schedule: a list of labels; [step] says whether a label is enabled and
   what it does. RetryClient.mu makes Handle, SetClient's assignment and Connect's install section
   atomic with respect to each other, so each is one label; the gaps BETWEEN SetClient and Connect
   and between the install section and BaseClient.Connect are label boundaries (anything may be
   scheduled there). The model is parameterised by an [impl] record so that wrong implementations
   (handler not installed by Connect, not forwarded, not stored, installed late, ...) are values of
   the same model; [faithful] is /repo. *)
From MQ Require Import Base.
Open Scope N_scope.

Definition hid := N.                 (* tag of a handler instance (h1, h2, ...) *)
Definition hval := option hid.       (* a Handler value; None = nil (Handle(nil) is a value too) *)

(* progress of one BaseClient k *)
Inductive phase :=
| Fresh        (* returned by the Dialer, Connect not called on it *)
| Installed    (* RetryClient.Connect has run cli.Handle(c.handler) under c.mu (retryclient.go:429-433),
                  BaseClient.Connect has not started the reader yet *)
| Reading      (* BaseClient.Connect: reader goroutine started, CONNECT written (connect.go:116-148) *)
| Acked        (* the reader has processed the CONNACK (serve.go:57-66) *)
| Ended.       (* the reader has returned / the transport is closed; nothing is read any more *)

(* c_store: which inboundStore object this BaseClient uses (client.go: field inbound, a pointer):
   the QoS 2 messages received and waiting for their PUBREL. It is part of the SESSION state:
   RetryClient.SetClient gives the new client the store OBJECT of the client it replaces
   (retryclient.go:278-281 cli.inheritInbound(c.cli)), so all connections of a RetryClient share one
   store; a client that was never handed to SetClient after another one has its own. *)
Record client := { c_handler : hval; c_phase : phase; c_store : nat }.

Definition sbuf := list (N * hval).   (* stored message id, with c.handler at PUBLISH time: /repo does
                                         not look at the latter (used by a wrong variant) *)

Record sys := {
  rc_handler : hval;          (* RetryClient.handler *)
  cur : option nat;           (* RetryClient.cli: index (dial order) of the current BaseClient *)
  clients : list client;      (* every BaseClient dialled so far, by index *)
  stores : list sbuf          (* every inboundStore object created so far, by index *)
}.

Definition init : sys := {| rc_handler := None; cur := None; clients := []; stores := [] |}.

Inductive label :=
| U_handle (h : hval)          (* RetryClient.Handle(h), at any time *)
| R_dial (h0 : hval)           (* Dialer returns a new BaseClient (index = number dialled before);
                                  h0 = whatever handler the Dialer left on it (nil for DialOptions) *)
| R_set_client (k : nat)       (* RetryClient.SetClient(client k) *)
| R_connect_begin              (* RetryClient.Connect, the section under c.mu: cli := c.cli; cli.Handle(c.handler) *)
| R_connect_start (k : nat)    (* BaseClient.Connect on that cli: init, go serve, write CONNECT *)
| R_connack (k : nat)          (* reader of k processes CONNACK *)
| B_inbound (k : nat) (m : N)  (* reader of k hands over inbound message m: reads k's handler at that
                                  moment (PUBLISH for QoS 0/1, PUBREL for QoS 2) *)
| B_inbound_handle (k : nat) (m : N) (h : hval)
                               (* the same, and the handler that is called, before it returns, itself
                                  calls RetryClient.Handle(h) on the reader goroutine (a handler that
                                  hands over to its successor). Enabled only if a handler is called.
                                  Legal in /repo because the reader takes its snapshot of c.handler and
                                  RELEASES c.mu before the call (serve.go:77-82, 86-91, 132-137) *)
| R_connect_return (k : nat)   (* RetryClient.Connect returns to its caller (after CONNACK) *)
| R_end (k : nat)              (* connection k ends (peer close, Close, error): reader gone *)
| B_q2_publish (k : nat) (m : N) (dup : bool)
                               (* reader of k processes a QoS 2 PUBLISH (first transmission, or the DUP=1
                                  retransmission a broker sends behind the CONNACK of a resumed session):
                                  PUBREC, message kept in k's inbound store; no hand-over yet (serve.go:95-102) *)
| B_q2_release (k : nat) (m : N)
                               (* reader of k processes the PUBREL of a stored message m: reads k's handler
                                  AT THAT MOMENT, takes m out of the store, hands over, writes PUBCOMP
                                  (serve.go:126-143). Enabled only if m is in the store k uses — whichever
                                  connection of the session received the PUBLISH. [B_inbound] with a QoS 2 message is the two in one step *)
| R_connect_start_clean (k : nat)
                               (* [R_connect_start] with the CleanSession option: the client's inbound store
                                  is emptied before the reader starts (connect.go:119-122) *)
| B_pubrel_unknown (k : nat) (m : N).
                               (* reader of k processes a PUBREL whose message is NOT in the store (already
                                  released: a repeated PUBREL; or forgotten by a clean-session connect):
                                  nothing happens, no hand-over, no PUBCOMP. Enabled only if m is not stored *)

(* what the broker / the handlers can observe: message m, which arrived on connection k, was
   given to handler instance h (Some h) or to nobody (None: QoS 0 discarded, QoS 1/2 acknowledged
   without hand-over) *)
Inductive event := Deliver (k : nat) (m : N) (h : hval).

Inductive result :=
| Next (s : sys) (evs : list event)
| Disabled                     (* the label cannot happen in this state (not a schedule of the system) *)
| Deadlocked                   (* the step never finishes: a goroutine waits for a lock it holds itself *)
| Panicked.                    (* Go panic: RetryClient.Connect before any SetClient dereferences a nil *BaseClient *)

(* ---------- implementation variants ---------- *)
Inductive store_mode := StoreAlways | StoreIfNoClient | StoreNever.
Inductive install_mode := InstallAtBegin | InstallAfterReturn | InstallNever | InstallFirstOnly.

Record impl := {
  i_store : store_mode;          (* Handle: c.handler = handler *)
  i_forward : bool;              (* Handle: if c.cli != nil { c.cli.Handle(handler) } *)
  i_install : install_mode;      (* Connect: cli.Handle(c.handler) before cli.Connect *)
  i_setclient_clears : bool;     (* SetClient: (wrongly) c.handler = nil *)
  i_lock_through_callback : bool; (* reader: (wrongly) holds BaseClient.mu.RLock while the handler runs *)
  i_q2_dup_not_stored : bool;     (* reader: (wrongly) does not store a QoS 2 PUBLISH that has DUP=1 *)
  i_q2_store_per_connection : bool; (* (wrongly, /repo before 9cd7f01) SetClient does not pass the inbound
                                       store on: every connection object starts with an empty one *)
  i_q2_handler_at_publish : bool  (* reader: (wrongly) hands a QoS 2 message to the handler read when the
                                     PUBLISH arrived instead of the one registered at PUBREL time *)
}.

Definition faithful : impl :=
  {| i_store := StoreAlways; i_forward := true; i_install := InstallAtBegin; i_setclient_clears := false;
     i_lock_through_callback := false; i_q2_dup_not_stored := false; i_q2_store_per_connection := false; i_q2_handler_at_publish := false |}.

(* the wrong implementations the proofs refute *)
Definition v_base st fw ins cl : impl :=
  {| i_store := st; i_forward := fw; i_install := ins; i_setclient_clears := cl;
     i_lock_through_callback := false; i_q2_dup_not_stored := false; i_q2_store_per_connection := false; i_q2_handler_at_publish := false |}.
Definition v_no_install := v_base StoreAlways true InstallNever false.
Definition v_late_install := v_base StoreAlways true InstallAfterReturn false.
Definition v_first_only := v_base StoreAlways true InstallFirstOnly false.
Definition v_no_forward := v_base StoreAlways false InstallAtBegin false.
Definition v_store_if_no_client := v_base StoreIfNoClient true InstallAtBegin false.
Definition v_no_store := v_base StoreNever true InstallAtBegin false.
Definition v_setclient_clears := v_base StoreAlways true InstallAtBegin true.
Definition v_lock_through_callback : impl :=
  {| i_store := StoreAlways; i_forward := true; i_install := InstallAtBegin; i_setclient_clears := false;
     i_lock_through_callback := true; i_q2_dup_not_stored := false; i_q2_store_per_connection := false; i_q2_handler_at_publish := false |}.
Definition v_q2_dup_not_stored : impl :=
  {| i_store := StoreAlways; i_forward := true; i_install := InstallAtBegin; i_setclient_clears := false;
     i_lock_through_callback := false; i_q2_dup_not_stored := true; i_q2_store_per_connection := false; i_q2_handler_at_publish := false |}.
Definition v_q2_store_per_connection : impl :=
  {| i_store := StoreAlways; i_forward := true; i_install := InstallAtBegin; i_setclient_clears := false;
     i_lock_through_callback := false; i_q2_dup_not_stored := false; i_q2_store_per_connection := true;
     i_q2_handler_at_publish := false |}.
Definition v_q2_handler_at_publish : impl :=
  {| i_store := StoreAlways; i_forward := true; i_install := InstallAtBegin; i_setclient_clears := false;
     i_lock_through_callback := false; i_q2_dup_not_stored := false; i_q2_store_per_connection := false; i_q2_handler_at_publish := true |}.

(* ---------- helpers ---------- *)
Fixpoint upd (k : nat) (f : client -> client) (cs : list client) : list client :=
  match cs, k with
  | [], _ => []
  | c :: r, O => f c :: r
  | c :: r, S k' => c :: upd k' f r
  end.

Definition set_handler (h : hval) (c : client) : client :=
  {| c_handler := h; c_phase := c_phase c; c_store := c_store c |}.
Definition set_phase (p : phase) (c : client) : client :=
  {| c_handler := c_handler c; c_phase := p; c_store := c_store c |}.
Definition set_store (i : nat) (c : client) : client :=
  {| c_handler := c_handler c; c_phase := c_phase c; c_store := i |}.

(* inboundStore.msgs: map[uint16]*Message *)
Fixpoint sb_lookup (m : N) (l : list (N * hval)) : option hval :=
  match l with
  | [] => None
  | (x, h) :: r => if N.eqb x m then Some h else sb_lookup m r
  end.
Fixpoint sb_remove (m : N) (l : list (N * hval)) : list (N * hval) :=
  match l with
  | [] => []
  | (x, h) :: r => if N.eqb x m then sb_remove m r else (x, h) :: sb_remove m r
  end.
Fixpoint upd_st (i : nat) (f : sbuf -> sbuf) (l : list sbuf) : list sbuf :=
  match l, i with
  | [], _ => []
  | x :: r, O => f x :: r
  | x :: r, S i' => x :: upd_st i' f r
  end.

Definition is_fresh (p : phase) : bool := match p with Fresh => true | _ => false end.
Definition is_installed (p : phase) : bool := match p with Installed => true | _ => false end.
Definition is_reading (p : phase) : bool := match p with Reading => true | _ => false end.
Definition is_acked (p : phase) : bool := match p with Acked => true | _ => false end.
Definition is_ended (p : phase) : bool := match p with Ended => true | _ => false end.
Definition reader_runs (p : phase) : bool := match p with Reading | Acked => true | _ => false end.

Definition with_clients (s : sys) (cs : list client) : sys :=
  {| rc_handler := rc_handler s; cur := cur s; clients := cs; stores := stores s |}.
Definition with_stores (s : sys) (st : list sbuf) : sys :=
  {| rc_handler := rc_handler s; cur := cur s; clients := clients s; stores := st |}.
(* the content of the store a client uses *)
Definition store_of (s : sys) (c : client) : sbuf := nth (c_store c) (stores s) [].

(* guarded update of client k: enabled iff k exists and its phase satisfies [en] *)
Definition on_client (s : sys) (k : nat) (en : phase -> bool) (f : client -> client)
           (evs : client -> list event) : result :=
  match nth_error (clients s) k with
  | Some c => if en (c_phase c) then Next (with_clients s (upd k f (clients s))) (evs c) else Disabled
  | None => Disabled
  end.

Definition no_events (c : client) : list event := [].

(* "this is the first client that gets connected": every client is still Fresh *)
Definition all_fresh (cs : list client) : bool := forallb (fun c => is_fresh (c_phase c)) cs.

(* RetryClient.Handle, retryclient.go:92-99, one critical section of c.mu *)
Definition do_handle (v : impl) (s : sys) (h : hval) : sys :=
  let rc' := match i_store v, cur s with
             | StoreAlways, _ => h
             | StoreIfNoClient, None => h
             | _, _ => rc_handler s
             end in
  let cs' := match cur s with
             | Some k => if i_forward v then upd k (set_handler h) (clients s) else clients s
             | None => clients s
             end in
  {| rc_handler := rc'; cur := cur s; clients := cs'; stores := stores s |}.

Definition is_cur (s : sys) (k : nat) : bool :=
  match cur s with Some k' => Nat.eqb k k' | None => false end.

(* ---------- the transition function ---------- *)
Definition step_gen (v : impl) (s : sys) (l : label) : result :=
  match l with
  | U_handle h => Next (do_handle v s h) []
  | R_dial h0 =>
      (* a new BaseClient; its own (empty) inbound store is created on first use (client.go inboundMessages) *)
      Next {| rc_handler := rc_handler s; cur := cur s;
              clients := clients s ++ [{| c_handler := h0; c_phase := Fresh; c_store := length (stores s) |}];
              stores := stores s ++ [[]] |} []
  | R_set_client k =>
      (* retryclient.go:276-284; contract (retryclient.go:60): the BaseClient must be unconnected *)
      match nth_error (clients s) k with
      | Some c => if is_fresh (c_phase c)
                  then
                    (* retryclient.go:278-281: the new client continues the inbound QoS 2 exchanges of the
                       one it replaces: it gets that client's store OBJECT *)
                    let st := match cur s with
                              | Some j => if Nat.eqb j k || i_q2_store_per_connection v then c_store c
                                          else match nth_error (clients s) j with
                                               | Some cj => c_store cj
                                               | None => c_store c
                                               end
                              | None => c_store c
                              end in
                    Next {| rc_handler := if i_setclient_clears v then None else rc_handler s;
                            cur := Some k; clients := upd k (set_store st) (clients s);
                            stores := stores s |} []
                  else Disabled
      | None => Disabled
      end
  | R_connect_begin =>
      (* retryclient.go:429-433: c.mu.Lock(); cli := c.cli; cli.Handle(c.handler); ...; c.mu.Unlock() *)
      match cur s with
      | None => Panicked
      | Some k =>
          let h' (c : client) :=
              match i_install v with
              | InstallAtBegin => rc_handler s
              | InstallFirstOnly => if all_fresh (clients s) then rc_handler s else c_handler c
              | InstallAfterReturn | InstallNever => c_handler c
              end in
          on_client s k is_fresh (fun c => {| c_handler := h' c; c_phase := Installed; c_store := c_store c |}) no_events
      end
  | R_connect_start k => on_client s k is_installed (set_phase Reading) no_events
  | R_connack k => on_client s k is_reading (set_phase Acked) no_events
  | B_inbound k m =>
      (* serve.go:77-82 / 86-91 / 132-137: handler := c.handler under RLock; if handler != nil { Serve } *)
      on_client s k reader_runs (fun c => c) (fun c => [Deliver k m (c_handler c)])
  | B_inbound_handle k m h =>
      (* the handler called for m calls RetryClient.Handle(h): c.mu of the RetryClient, then
         BaseClient.Handle of the CURRENT client (client.go:93-97, c.mu.Lock of that client). If the
         reader still held its own client's RLock (it does not), and that client is the current one,
         the write lock would wait for the reader, i.e. for itself *)
      match nth_error (clients s) k with
      | Some c =>
          if reader_runs (c_phase c) then
            match c_handler c with
            | None => Disabled
            | Some hh =>
                if i_lock_through_callback v && is_cur s k then Deadlocked
                else Next (do_handle v s h) [Deliver k m (Some hh)]
            end
          else Disabled
      | None => Disabled
      end
  | R_connect_return k =>
      on_client s k is_acked
                (fun c => match i_install v with
                          | InstallAfterReturn => set_handler (rc_handler s) c
                          | _ => c
                          end) no_events
  | R_end k => on_client s k (fun p => negb (is_ended p)) (set_phase Ended) no_events
  | R_connect_start_clean k =>
      match nth_error (clients s) k with
      | Some c => if is_installed (c_phase c)
                  then Next {| rc_handler := rc_handler s; cur := cur s;
                               clients := upd k (set_phase Reading) (clients s);
                               stores := upd_st (c_store c) (fun _ => []) (stores s) |} []
                  else Disabled
      | None => Disabled
      end
  | B_q2_publish k m dup =>
      match nth_error (clients s) k with
      | Some c =>
          if reader_runs (c_phase c)
          then Next (with_stores s (upd_st (c_store c)
                                           (fun l => if i_q2_dup_not_stored v && dup then l
                                                     else (m, c_handler c) :: sb_remove m l) (stores s))) []
          else Disabled
      | None => Disabled
      end
  | B_pubrel_unknown k m =>
      match nth_error (clients s) k with
      | Some c =>
          if reader_runs (c_phase c)
          then match sb_lookup m (store_of s c) with
               | None => Next s []
               | Some _ => Disabled
               end
          else Disabled
      | None => Disabled
      end
  | B_q2_release k m =>
      match nth_error (clients s) k with
      | Some c =>
          if reader_runs (c_phase c)
          then match sb_lookup m (store_of s c) with
               | None => Disabled
               | Some hp =>
                   Next (with_stores s (upd_st (c_store c) (sb_remove m) (stores s)))
                        [Deliver k m (if i_q2_handler_at_publish v then hp else c_handler c)]
               end
          else Disabled
      | None => Disabled
      end
  end.

Definition step : sys -> label -> result := step_gen faithful.

(* a run: the labels in schedule order; events accumulate in order *)
Fixpoint run_from (v : impl) (s : sys) (evs : list event) (ls : list label) : result :=
  match ls with
  | [] => Next s evs
  | l :: r =>
      match step_gen v s l with
      | Next s' e => run_from v s' (evs ++ e) r
      | Disabled => Disabled
      | Deadlocked => Deadlocked
      | Panicked => Panicked
      end
  end.

Definition run_gen (v : impl) (ls : list label) : result := run_from v init [] ls.
Definition run (ls : list label) : result := run_gen faithful ls.

(* ---------- the reconnect loop's discipline ---------- *)
(* reconnclient.go:87-160: the loop calls SetClient only after the previous BaseClient is Done
   (its reader has returned), or when there was none. [quiet]: no client has a live or pending
   connection. [run_loop] = [run] restricted to schedules in which SetClient respects that. *)
Definition quiet (s : sys) : bool :=
  forallb (fun c => match c_phase c with Fresh | Ended => true | _ => false end) (clients s).

Definition step_loop (s : sys) (l : label) : result :=
  match l with
  | R_set_client _ => if quiet s then step s l else Disabled
  | _ => step s l
  end.

Fixpoint run_loop_from (s : sys) (evs : list event) (ls : list label) : result :=
  match ls with
  | [] => Next s evs
  | l :: r =>
      match step_loop s l with
      | Next s' e => run_loop_from s' (evs ++ e) r
      | Disabled => Disabled
      | Deadlocked => Deadlocked
      | Panicked => Panicked
      end
  end.

Definition run_loop (ls : list label) : result := run_loop_from init [] ls.

(* ---------- specification, over the history (labels) and the observable events only ---------- *)

(* the handler registered by the latest Handle call of the history (nil before the first call);
   a Handle call made from inside a handler callback counts like any other *)
Fixpoint last_handle_from (h : hval) (ls : list label) : hval :=
  match ls with
  | [] => h
  | U_handle h' :: r => last_handle_from h' r
  | B_inbound_handle _ _ h' :: r => last_handle_from h' r
  | _ :: r => last_handle_from h r
  end.
Definition last_handle (ls : list label) : hval := last_handle_from None ls.

(* the client given to the latest SetClient call of the history *)
Fixpoint current_from (c : option nat) (ls : list label) : option nat :=
  match ls with
  | [] => c
  | R_set_client k :: r => current_from (Some k) r
  | _ :: r => current_from c r
  end.
Definition current_of (ls : list label) : option nat := current_from None ls.

(* number of inbound messages processed in the history = position of the next event *)
Fixpoint count_inbound (ls : list label) : nat :=
  match ls with
  | [] => O
  | B_inbound _ _ :: r => S (count_inbound r)
  | B_inbound_handle _ _ _ :: r => S (count_inbound r)
  | B_q2_release _ _ :: r => S (count_inbound r)
  | _ :: r => count_inbound r
  end.

(* (a hand-over is [B_inbound], [B_inbound_handle] or, for a QoS 2 message whose PUBLISH and PUBREL are
   separate steps, [B_q2_release]: the spec speaks about the moment of the hand-over — for QoS 2 the
   PUBREL — and ignores [B_q2_publish]) *)
(* the delivery log a user is entitled to: every inbound message, whatever connection it arrives
   on and however many reconnects happened, goes to the handler registered by the latest Handle
   call before it. All R_* labels are ignored: reconnects are transparent. *)
Fixpoint spec_from (h : hval) (ls : list label) : list event :=
  match ls with
  | [] => []
  | U_handle h' :: r => spec_from h' r
  | B_inbound k m :: r => Deliver k m h :: spec_from h r
  | B_q2_release k m :: r => Deliver k m h :: spec_from h r
  | B_inbound_handle k m h' :: r => Deliver k m h :: spec_from h' r
  | _ :: r => spec_from h r
  end.
Definition spec_events (ls : list label) : list event := spec_from None ls.

(* the same, but only for messages arriving on the connection that is current at that moment;
   None = no claim (message on a connection that SetClient has already replaced) *)
Fixpoint spec_current_from (h : hval) (c : option nat) (ls : list label) : list (option event) :=
  match ls with
  | [] => []
  | U_handle h' :: r => spec_current_from h' c r
  | R_set_client k :: r => spec_current_from h (Some k) r
  | B_inbound k m :: r =>
      (match c with
       | Some k' => if Nat.eqb k k' then Some (Deliver k m h) else None
       | None => None
       end) :: spec_current_from h c r
  | B_q2_release k m :: r =>
      (match c with
       | Some k' => if Nat.eqb k k' then Some (Deliver k m h) else None
       | None => None
       end) :: spec_current_from h c r
  | B_inbound_handle k m h' :: r =>
      (match c with
       | Some k' => if Nat.eqb k k' then Some (Deliver k m h) else None
       | None => None
       end) :: spec_current_from h' c r
  | _ :: r => spec_current_from h c r
  end.
Definition spec_current (ls : list label) : list (option event) := spec_current_from None None ls.

(* ---------- every connection, also a replaced one that is still open ---------- *)
(* With a bare RetryClient the application may call SetClient while the previous connection is still
   open (make-before-break). What the history says about each client object: the handler last PUT on
   it — by the Dialer, by Connect's install section (the registered handler of that moment), or by a
   Handle call made while it was the current client. A replaced client is never touched again, so it
   keeps the handler it had when it was replaced: its late messages still reach that handler, they
   are not dropped. [hist] is that account; no connection phases, no enabledness. *)
Record hist := {
  h_reg : hval;             (* handler of the latest Handle call *)
  h_cur : option nat;       (* client of the latest SetClient *)
  h_inst : list hval        (* per client (dial order): the handler last put on it *)
}.

Fixpoint set_nth (k : nat) (h : hval) (l : list hval) : list hval :=
  match l, k with
  | [], _ => []
  | _ :: r, O => h :: r
  | x :: r, S k' => x :: set_nth k' h r
  end.

Definition installed (t : hist) (k : nat) : hval :=
  match nth_error (h_inst t) k with Some x => x | None => None end.

Definition hist_handle (t : hist) (h : hval) : hist :=
  {| h_reg := h; h_cur := h_cur t;
     h_inst := match h_cur t with Some k => set_nth k h (h_inst t) | None => h_inst t end |}.

(* the handler a message on connection k is entitled to: the registered one if k is the current
   connection, otherwise the one k was left with *)
Definition entitled (t : hist) (k : nat) : hval :=
  match h_cur t with
  | Some k' => if Nat.eqb k k' then h_reg t else installed t k
  | None => installed t k
  end.

Definition hist_step (t : hist) (l : label) : hist * list event :=
  match l with
  | U_handle h => (hist_handle t h, [])
  | R_dial h0 => ({| h_reg := h_reg t; h_cur := h_cur t; h_inst := h_inst t ++ [h0] |}, [])
  | R_set_client k => ({| h_reg := h_reg t; h_cur := Some k; h_inst := h_inst t |}, [])
  | R_connect_begin =>
      (match h_cur t with
       | Some k => {| h_reg := h_reg t; h_cur := h_cur t; h_inst := set_nth k (h_reg t) (h_inst t) |}
       | None => t
       end, [])
  | B_inbound k m => (t, [Deliver k m (entitled t k)])
  | B_q2_release k m => (t, [Deliver k m (entitled t k)])
  | B_inbound_handle k m h => (hist_handle t h, [Deliver k m (entitled t k)])
  | _ => (t, [])
  end.

Fixpoint hist_from (t : hist) (evs : list event) (ls : list label) : hist * list event :=
  match ls with
  | [] => (t, evs)
  | l :: r => let '(t', e) := hist_step t l in hist_from t' (evs ++ e) r
  end.

Definition hist_init : hist := {| h_reg := None; h_cur := None; h_inst := [] |}.
Definition hist_of (ls : list label) : hist := fst (hist_from hist_init [] ls).
(* the delivery log the history entitles the user to, for EVERY message on EVERY connection *)
Definition spec_every (ls : list label) : list event := snd (hist_from hist_init [] ls).
Definition installed_of (ls : list label) (k : nat) : hval := installed (hist_of ls) k.

(* ---------- decidable equality of observables ---------- *)
Definition hval_eqb (a b : hval) : bool := option_eqb N.eqb a b.

Definition event_eqb (a b : event) : bool :=
  match a, b with
  | Deliver k m h, Deliver k' m' h' => Nat.eqb k k' && N.eqb m m' && hval_eqb h h'
  end.

(* observed log satisfies the claims of [spec_current] *)
Fixpoint meets (claims : list (option event)) (evs : list event) : bool :=
  match claims, evs with
  | [], [] => true
  | None :: cr, _ :: er => meets cr er
  | Some c :: cr, e :: er => event_eqb c e && meets cr er
  | _, _ => false
  end.
