(* Calls.v — every blocking call of the base client as an automaton over program points (C11).

   What is modelled (at-wat/mqtt-go):
     connect.go:116-170      Connect: muConnecting.Lock, go serve-exit goroutine, write CONNECT, select
     connect.go:120-131      the serve-exit goroutine: serve returns -> Transport.Close -> SetErrorOnce
                             (unless Disconnected) -> connStateUpdate(StateClosed) -> close(connClosed)
     publish.go:132-228      publishImpl: RLock, write PUBLISH, select (QoS1) / select, write PUBREL, select (QoS2)
     subscribe.go:68-110     RLock, write, select          unsubscribe.go:44-78   RLock, write, select
     pingreq.go:23-53        RLock, write, select          disconnect.go:22-33    RLock, state, write, Transport.Close
     retryclient.go:257-264  RetryClient.Ping under requestContext (retryclient.go:367-381), error.go:45-58
     serve.go:66-196         serve: read a packet; deliver an acknowledgement to its waiter; return on a
                             read error or on a malformed packet
     reconnclient.go:63-203  reconnecting client: loop goroutine, Connect waits first connection, Disconnect
                             waits loop exit; retryclient.go:238-254 (nil chTask guard)

   Concurrency is an explicit schedule: a list of labels (reader step / step of call i taking select arm a).
   A Go select with several ready arms may take any of them: the arm is part of the label.
   The peer is an explicit script (how many requests of a call it answers, which packets are queued).
   Nothing here is proved; see Calls_proofs.v. *)
From MQ Require Import Base.

(* ===================================================================================== *)
(** * 1. Error values: chains, errors.Is *)

Inductive sentinel := SCanceled | SDeadline | SClosedTransport | SWriteErr.

Definition sentinel_eqb (a b : sentinel) : bool :=
  match a, b with
  | SCanceled, SCanceled | SDeadline, SDeadline | SClosedTransport, SClosedTransport | SWriteErr, SWriteErr => true
  | _, _ => false
  end.

(* the wrapping error types of error.go: *Error (wrapError), *errorWithRetry (wrapErrorWithRetry, embeds
   the *Error so Unwrap/Is are promoted), *RequestTimeoutError (requestContext.Err) *)
Inductive wrapper := WError | WRetry | WReqTimeout.

Inductive errv := Leaf (s : sentinel) | Wrap (w : wrapper) (e : errv).

(* which wrappers can be looked through by errors.Is: error.go:80 (Error.Unwrap), :62 (errorInterface),
   :56 RequestTimeoutError.Unwrap — added by fix ec227d2 *)
Definition unwraps_fixed (w : wrapper) : bool := true.
(* the code before ec227d2: RequestTimeoutError had no Unwrap and its field is not named Err, so neither
   errors.Is nor Error.Is (error.go:86-121, reflect on field "Err") gets past it *)
Definition unwraps_pre_ec227d2 (w : wrapper) : bool :=
  match w with WReqTimeout => false | _ => true end.

(* errors.Is(e, target) for a sentinel target *)
Fixpoint chain_contains (uw : wrapper -> bool) (t : sentinel) (e : errv) : bool :=
  match e with
  | Leaf s => sentinel_eqb s t
  | Wrap w e' => uw w && chain_contains uw t e'
  end.

Inductive wrapk := WkNone | WkErr | WkRetry.

Definition wrap (k : wrapk) (e : errv) : errv :=
  match k with WkNone => e | WkErr => Wrap WError e | WkRetry => Wrap WRetry e end.

(* ===================================================================================== *)
(** * 2. Contexts *)

Inductive ctxst := CtxLive | CtxCanceled | CtxExpired.

Definition ctx_sentinel (c : ctxst) : sentinel :=
  match c with CtxCanceled => SCanceled | _ => SDeadline end.

(* ctx.Err() as the base client sees it; [rt]: the context is RetryClient's requestContext
   (ResponseTimeout set), whose Err() is &RequestTimeoutError{inner.Err()} (retryclient.go:379-381) *)
Definition ctx_err (rt : bool) (c : ctxst) : errv :=
  if rt then Wrap WReqTimeout (Leaf (ctx_sentinel c)) else Leaf (ctx_sentinel c).

(* ===================================================================================== *)
(** * 3. Calls as instruction lists *)

Inductive instr :=
| IRLock                          (* c.muConnecting.RLock(); defer RUnlock — not interruptible *)
| IWLock                          (* c.muConnecting.Lock(); defer Unlock (Connect) *)
| ISpawnServe                     (* go func() { err := c.serve(); ... close(c.connClosed) }() *)
| IWrite (k : wrapk)              (* if err := c.write(pkt); err != nil { return wrap k err } *)
| ISelect (kclosed kctx : wrapk)  (* select { <-connClosed: return wrap ErrClosedTransport;
                                              <-ctx.Done(): return wrap ctx.Err(); <-ack: go on } *)
| ISetDisconnected                (* c.connStateUpdate(StateDisconnected) *)
| ICloseTransport                 (* c.Transport.Close() *)
| IWriteStalled (k : wrapk)       (* scenario: the same c.write, but the peer has stopped reading: Transport.Write
                                     blocks; only Transport.Close() (anybody's) makes it return, with an error *)
| IWriteFailing (k : wrapk).      (* scenario: the same c.write, the transport reports an error for this write and
                                     stays open *)

Inductive call :=
| CConnect | CPub0 | CPub1 | CPub2 | CSub | CUnsub | CPing | CDisconnect
| CRetryPing    (* RetryClient.Ping with ResponseTimeout set *)
(* ErrorWithRetry.Retry(ctx2, cli2): the retry handle of an interrupted request run on a new connection with a
   context of its own. The "x" variants: the context of the first attempt is already cancelled. *)
| CRPub1 | CRPub1x       (* QoS1: publishImpl again, DUP set            publish.go:167-169 *)
| CRPub2 | CRPub2x       (* QoS2 interrupted before PUBREC: publishImpl again *)
| CRRel | CRRelx         (* QoS2 interrupted after PUBREC: retryPublish2 — PUBREL, wait PUBCOMP; takes no lock
                            publish.go:196-222 *)
| CRSub | CRSubx         (* subscribe.go:84-87 *)
| CRUnsub | CRUnsubx.    (* unsubscribe.go:60-62 *)

Definition program (c : call) : list instr :=
  match c with
  | CConnect => [IWLock; ISpawnServe; IWrite WkErr; ISelect WkNone WkErr]      (* connect.go:117,120,146,149-153 *)
  | CPub0 => [IRLock; IWrite WkErr]                                             (* publish.go:133,172-176 *)
  | CPub1 => [IRLock; IWrite WkRetry; ISelect WkRetry WkRetry]                  (* publish.go:133,172,180-185 *)
  | CPub2 => [IRLock; IWrite WkRetry; ISelect WkRetry WkRetry;                  (* publish.go:188-193 *)
              IWrite WkRetry; ISelect WkRetry WkRetry]                          (* publish.go:211-220 *)
  | CSub => [IRLock; IWrite WkRetry; ISelect WkRetry WkRetry]                   (* subscribe.go:69,92,95-99 *)
  | CUnsub => [IRLock; IWrite WkRetry; ISelect WkRetry WkRetry]                 (* unsubscribe.go:45,67,70-74 *)
  | CPing => [IRLock; IWrite WkErr; ISelect WkErr WkErr]                        (* pingreq.go:24,39,42-47 *)
  | CRetryPing => [IRLock; IWrite WkErr; ISelect WkErr WkErr]                   (* same code, other context *)
  | CDisconnect => [IRLock; ISetDisconnected; IWrite WkErr; ICloseTransport]    (* disconnect.go:23-32 *)
  | CRPub1 | CRPub1x => [IRLock; IWrite WkRetry; ISelect WkRetry WkRetry]
  | CRPub2 | CRPub2x => [IRLock; IWrite WkRetry; ISelect WkRetry WkRetry; IWrite WkRetry; ISelect WkRetry WkRetry]
  | CRRel | CRRelx => [IWrite WkRetry; ISelect WkRetry WkRetry]                 (* publish.go:210-220 *)
  | CRSub | CRSubx => [IRLock; IWrite WkRetry; ISelect WkRetry WkRetry]
  | CRUnsub | CRUnsubx => [IRLock; IWrite WkRetry; ISelect WkRetry WkRetry]
  end.

Inductive hold := HNone | HR | HW.
Inductive result := Running | RetNil | RetErr (e : errv).

(* one call in flight *)
Record cst := mkC {
  rest : list instr;      (* what is left to execute *)
  cx : ctxst;             (* state of the context the caller passed *)
  rtc : bool;             (* the base client sees it through a requestContext *)
  outer : bool;           (* the result is wrapped once more (retryclient.go:263 wrapError) *)
  ackready : bool;        (* the acknowledgement the call is (or will be) waiting for is in its channel *)
  answers : nat;          (* peer script: how many further requests of this call the peer answers *)
  held : hold;            (* what it holds of muConnecting *)
  res : result;
  ocx : ctxst             (* retry handles only: state of the context of the FIRST attempt (the one the interrupted
                             call was given). The handle's closure has a context parameter of its own
                             (publish.go retryPublish/retryPublish2, subscribe.go, unsubscribe.go): nothing below
                             ever reads this field — that is the statement *)
}.

Definition set_rest c r := mkC r (cx c) (rtc c) (outer c) (ackready c) (answers c) (held c) (res c) (ocx c).
Definition set_cx c x := mkC (rest c) x (rtc c) (outer c) (ackready c) (answers c) (held c) (res c) (ocx c).
Definition set_ack c a := mkC (rest c) (cx c) (rtc c) (outer c) a (answers c) (held c) (res c) (ocx c).
Definition set_answers c n := mkC (rest c) (cx c) (rtc c) (outer c) (ackready c) n (held c) (res c) (ocx c).
Definition set_held c h := mkC (rest c) (cx c) (rtc c) (outer c) (ackready c) (answers c) h (res c) (ocx c).
Definition set_res c r := mkC (rest c) (cx c) (rtc c) (outer c) (ackready c) (answers c) (held c) r (ocx c).
Definition set_ocx c x := mkC (rest c) (cx c) (rtc c) (outer c) (ackready c) (answers c) (held c) (res c) x.

(* return err: the deferred unlock is implied, a returned call holds nothing (see [active]) *)
Definition finish (c : cst) (e : errv) : cst :=
  set_res c (RetErr (if outer c then Wrap WError e else e)).

(* still executing: not returned and something left to do (an empty rest = "return nil") *)
Definition active (c : cst) : bool :=
  match res c, rest c with Running, _ :: _ => true | _, _ => false end.

Definition hold_eqb (a b : hold) : bool :=
  match a, b with HNone, HNone | HR, HR | HW, HW => true | _, _ => false end.

(* state of muConnecting, derived from who is inside *)
Definition wlocked (cs : list cst) : bool := existsb (fun c => active c && hold_eqb (held c) HW) cs.
Definition rlocked (cs : list cst) : bool := existsb (fun c => active c && hold_eqb (held c) HR) cs.

Inductive arm := AClosed | ACtx | AAck.
(* instructions other than select are taken under the canonical arm AClosed *)

Inductive effect := ENone | ESpawn | ECloseT | ESetDisc | ESendAck.

(* one step of a call. tcl: transport closed; ccl: connClosed closed; wl/rl: muConnecting. None = blocked. *)
Definition cstep (tcl ccl wl rl : bool) (a : arm) (c : cst) : option (cst * effect) :=
  if negb (active c) then None else
  match rest c with
  | [] => None
  | ins :: tl =>
    let adv := set_rest c tl in
    match ins, a with
    | IRLock, AClosed => if wl then None else Some (set_held adv HR, ENone)
    | IWLock, AClosed => if wl || rl then None else Some (set_held adv HW, ENone)
    | ISpawnServe, AClosed => Some (adv, ESpawn)
    | IWrite k, AClosed =>
        if tcl then Some (finish c (wrap k (Leaf SWriteErr)), ENone)          (* Transport.Write fails *)
        else match answers c with
             | O => Some (adv, ENone)                                          (* accepted, answer withheld *)
             | S n => Some (set_answers adv n, ESendAck)                       (* accepted, the peer answers *)
             end
    | ISelect kc kx, AClosed =>
        if ccl then Some (finish c (wrap kc (Leaf SClosedTransport)), ENone) else None
    | ISelect kc kx, ACtx =>
        match cx c with
        | CtxLive => None
        | x => Some (finish c (wrap kx (ctx_err (rtc c) x)), ENone)
        end
    | ISelect kc kx, AAck => if ackready c then Some (set_ack adv false, ENone) else None
    | ISetDisconnected, AClosed => Some (adv, ESetDisc)
    | ICloseTransport, AClosed => Some (adv, ECloseT)
    | IWriteStalled k, AClosed => if tcl then Some (finish c (wrap k (Leaf SWriteErr)), ENone) else None
    | IWriteFailing k, AClosed => Some (finish c (wrap k (Leaf SWriteErr)), ENone)
    | _, _ => None
    end
  end.

(* ===================================================================================== *)
(** * 4. One connection: transport, reader goroutine, calls *)

Inductive inpkt :=
| PAck (i : nat)    (* the acknowledgement call i waits for *)
| PData             (* any other well-formed packet *)
| PBad.             (* a malformed packet (e.g. PUBLISH with QoS 3): its Parse fails *)

Inductive rstate :=
| RNotStarted       (* Connect not called yet *)
| RServing          (* in c.serve() *)
| RExit0            (* serve returned; next: c.Close()                connect.go:122 *)
| RExit1            (* next: SetErrorOnce unless Disconnected         connect.go:125-127 *)
| RExit2            (* next: connStateUpdate(StateClosed)             connect.go:129 *)
| RExit3            (* next: close(c.connClosed)                      connect.go:130 *)
| RFinished.        (* goroutine gone *)

Record sys := mkS {
  tclosed : bool;          (* Transport closed on our side: Write fails, Read fails *)
  eof : bool;              (* the peer closed: Read returns EOF once the queue is drained *)
  inbox : list inpkt;      (* bytes on their way to the reader *)
  rd : rstate;
  cclosed : bool;          (* connClosed closed = Done() closed *)
  disc : bool;             (* connState = Disconnected *)
  errset : bool;           (* Err() non-nil *)
  calls : list cst
}.

Definition set_tclosed s v := mkS v (eof s) (inbox s) (rd s) (cclosed s) (disc s) (errset s) (calls s).
Definition set_eof s v := mkS (tclosed s) v (inbox s) (rd s) (cclosed s) (disc s) (errset s) (calls s).
Definition set_inbox s v := mkS (tclosed s) (eof s) v (rd s) (cclosed s) (disc s) (errset s) (calls s).
Definition set_rd s v := mkS (tclosed s) (eof s) (inbox s) v (cclosed s) (disc s) (errset s) (calls s).
Definition set_cclosed s v := mkS (tclosed s) (eof s) (inbox s) (rd s) v (disc s) (errset s) (calls s).
Definition set_disc s v := mkS (tclosed s) (eof s) (inbox s) (rd s) (cclosed s) v (errset s) (calls s).
Definition set_errset s v := mkS (tclosed s) (eof s) (inbox s) (rd s) (cclosed s) (disc s) v (calls s).
Definition set_calls s v := mkS (tclosed s) (eof s) (inbox s) (rd s) (cclosed s) (disc s) (errset s) v.

Fixpoint upd {A} (i : nat) (x : A) (l : list A) : list A :=
  match l, i with
  | [], _ => []
  | _ :: t, O => x :: t
  | h :: t, S j => h :: upd j x t
  end.

(* serve.go:81-84,118-123,...,185-188: every hand-off is a NON-BLOCKING send into the waiter's channel of
   capacity 1, "select { case ch <- ack: default: }". [ackready] is that one-slot buffer: filling a full
   buffer drops the packet, an acknowledgement for an identifier nobody waits for (index out of range here)
   is ignored, an acknowledgement for a call that has already returned lands in a channel nobody reads.
   In no case does the reader wait for anybody. *)
Definition deliver (i : nat) (s : sys) : sys :=
  match nth_error (calls s) i with
  | Some c => set_calls s (upd i (set_ack c true) (calls s))
  | None => s
  end.

(* one step of the reader goroutine (serve loop, then the serve-exit sequence). None = blocked in Read. *)
Definition rstep (s : sys) : option sys :=
  match rd s with
  | RNotStarted | RFinished => None
  | RServing =>
      match inbox s with
      | PAck i :: q => Some (deliver i (set_inbox s q))
      | PData :: q => Some (set_inbox s q)
      | PBad :: q => Some (set_rd (set_inbox s q) RExit0)              (* Parse error: serve returns it *)
      | [] => if tclosed s || eof s then Some (set_rd s RExit0) else None   (* readPacket fails *)
      end
  | RExit0 => Some (set_rd (set_tclosed s true) RExit1)
  | RExit1 => Some (set_rd (if disc s then s else set_errset s true) RExit2)
  | RExit2 => Some (set_rd s RExit3)
  | RExit3 => Some (set_rd (set_cclosed s true) RFinished)
  end.

Definition apply_effect (i : nat) (e : effect) (s : sys) : sys :=
  match e with
  | ENone => s
  | ESpawn => match rd s with RNotStarted => set_rd s RServing | _ => s end
  | ECloseT => set_tclosed s true
  | ESetDisc => set_disc s true
  | ESendAck => if eof s then s else set_inbox s (inbox s ++ [PAck i])   (* a peer that has closed answers nothing *)
  end.

Inductive label := LReader | LCall (i : nat) (a : arm).

Definition step (l : label) (s : sys) : option sys :=
  match l with
  | LReader => rstep s
  | LCall i a =>
      match nth_error (calls s) i with
      | None => None
      | Some c =>
          match cstep (tclosed s) (cclosed s) (wlocked (calls s)) (rlocked (calls s)) a c with
          | None => None
          | Some (c', e) => Some (apply_effect i e (set_calls s (upd i c' (calls s))))
          end
      end
  end.

(* a schedule is any list of labels; a label that is not enabled is skipped *)
Definition exec (s : sys) (l : label) : sys := match step l s with Some s' => s' | None => s end.
Definition run (sched : list label) (s : sys) : sys := fold_left exec sched s.

(* nothing can move: every goroutine of the model is blocked or gone *)
Definition Quiescent (s : sys) : Prop := forall l, step l s = None.

Definition all_labels (n : nat) : list label :=
  LReader :: flat_map (fun i => [LCall i AClosed; LCall i ACtx; LCall i AAck]) (seq 0 n).

Definition successors (s : sys) : list sys :=
  flat_map (fun l => match step l s with Some s' => [s'] | None => [] end) (all_labels (length (calls s))).

Definition quiescentb (s : sys) : bool := match successors s with [] => true | _ => false end.

(* deterministic scheduler: always the first enabled label *)
Fixpoint greedy (fuel : nat) (s : sys) : sys :=
  match fuel with
  | O => s
  | S f => match successors s with [] => s | s' :: _ => greedy f s' end
  end.

(* every maximal execution: the quiescent states reachable under all schedules (None = out of fuel) *)
Fixpoint explore (fuel : nat) (s : sys) : list (option sys) :=
  match fuel with
  | O => [None]
  | S f => match successors s with [] => [Some s] | nx => flat_map (explore f) nx end
  end.

(* termination measure: every step decreases it *)
Definition rrank (r : rstate) : nat :=
  match r with RNotStarted => 6 | RServing => 5 | RExit0 => 4 | RExit1 => 3 | RExit2 => 2 | RExit3 => 1 | RFinished => 0 end.
Definition cw (c : cst) : nat := if active c then 2 * length (rest c) else 0.
Definition msr (s : sys) : nat := length (inbox s) + rrank (rd s) + list_sum (map cw (calls s)).

(* ===================================================================================== *)
(** * 5. The matrix: call × program point × cause *)

Inductive point :=
| PEntry      (* waiting for muConnecting while a Connect that waits for CONNACK holds it *)
| PBefore     (* the cause strikes before the call writes its (first) packet *)
| PWait1      (* parked in the first select: CONNACK / PUBACK / PUBREC / SUBACK / UNSUBACK / PINGRESP withheld *)
| PWait2      (* QoS 2 only: PUBREC received, PUBREL written, PUBCOMP withheld *)
| PInWrite.   (* parked INSIDE Transport.Write of its first packet: the peer has stopped reading *)

Inductive cause :=
| CtxCancel | CtxDeadline
| LocalClose          (* cli.Close() *)
| LocalDisconnect     (* cli.Disconnect() from another goroutine: a local close through the API *)
| PeerClose           (* the peer closes the connection *)
| Malformed           (* the peer sends a malformed packet *)
| ReadFails.          (* Transport.Read fails with an error value although neither side closed the stream (a
                         timeout, a lost link, any error whatever it says about itself — Temporary(), Timeout() —):
                         readPacket returns it and serve returns it (serve.go:70-73) *)

Definition is_ctx (z : cause) : bool := match z with CtxCancel | CtxDeadline => true | _ => false end.

Definition call_code (c : call) : nat :=
  match c with
  | CConnect => 0 | CPub0 => 1 | CPub1 => 2 | CPub2 => 3 | CSub => 4 | CUnsub => 5 | CPing => 6 | CDisconnect => 7
  | CRetryPing => 8 | CRPub1 => 9 | CRPub1x => 10 | CRPub2 => 11 | CRPub2x => 12 | CRRel => 13 | CRRelx => 14
  | CRSub => 15 | CRSubx => 16 | CRUnsub => 17 | CRUnsubx => 18
  end.

Definition call_eqb (a b : call) : bool := Nat.eqb (call_code a) (call_code b).

Definition orig_cancelled (c : call) : bool :=
  match c with CRPub1x | CRPub2x | CRRelx | CRSubx | CRUnsubx => true | _ => false end.

Definition takes_lock (c : call) : bool :=
  match program c with IRLock :: _ | IWLock :: _ => true | _ => false end.

Definition is_retry_ping (c : call) : bool := call_eqb c CRetryPing.

Definition fresh (c : call) (ans : nat) : cst :=
  mkC (program c) CtxLive (is_retry_ping c) (is_retry_ping c) false ans HNone Running
      (if orig_cancelled c then CtxCanceled else CtxLive).

(* a finished call, used as a place holder for "not issued yet" *)
Definition dormant : cst := mkC [] CtxLive false false false 0 HNone RetNil CtxLive.

Definition conn0 (started : bool) (cs : list cst) : sys :=
  mkS false false [] (if started then RServing else RNotStarted) false false false cs.

Definition nwaits (c : call) : nat :=
  match c with CPub0 | CDisconnect => 0 | CPub2 | CRPub2 | CRPub2x => 2 | _ => 1 end.

(* which cells exist *)
Definition valid (c : call) (p : point) (z : cause) : bool :=
  match p with
  | PEntry => negb (call_eqb c CConnect) && takes_lock c && match z with LocalDisconnect => false | _ => true end
  | PBefore => true
  | PWait1 => Nat.leb 1 (nwaits c) && negb (call_eqb c CConnect && match z with LocalDisconnect => true | _ => false end)
  | PWait2 => Nat.leb 2 (nwaits c)
  | PInWrite => match z with LocalClose | PeerClose | ReadFails => true | _ => false end
      (* a context is not looked at inside Transport.Write (that is the transport, not the client): see
         [seq_outcomes] for "cancel, then Close" *)
  end.

(* finding F14: at PEntry the call's own context is not looked at *)
Definition is_f14 (p : point) (z : cause) : bool :=
  match p with PEntry => is_ctx z | _ => false end.

Definition FUEL : nat := 40.

Definition set_call0 (s : sys) (c : cst) : sys := set_calls s (upd 0 c (calls s)).

(* the first write of a program replaced by f *)
Fixpoint subst_first_write (f : wrapk -> instr) (l : list instr) : list instr :=
  match l with
  | [] => []
  | IWrite k :: r => f k :: r
  | i :: r => i :: subst_first_write f r
  end.

Definition fresh_with (f : wrapk -> instr) (c : call) : cst := set_rest (fresh c 0) (subst_first_write f (program c)).

(* bring call c (index 0) to point p; the scripted peer withholds exactly the answer that parks it there *)
Definition stage_a (c : call) (p : point) : sys :=
  let started := negb (call_eqb c CConnect) in
  match p with
  | PBefore => conn0 started [fresh c 0]
  | PWait1 => greedy FUEL (conn0 started [fresh c 0])
  | PWait2 => greedy FUEL (conn0 started [fresh c 1])
  | PInWrite => greedy FUEL (conn0 started [fresh_with IWriteStalled c])
  | PEntry =>
      let s1 := greedy FUEL (conn0 false [dormant; fresh CConnect 0]) in   (* Connect parked, holds the lock *)
      greedy FUEL (set_call0 s1 (fresh c 0))
  end.

Definition call0 (s : sys) : cst := nth 0 (calls s) dormant.

Definition apply_cause (p : point) (z : cause) (s : sys) : sys :=
  match z with
  | CtxCancel => set_call0 s (set_cx (call0 s) CtxCanceled)
  | CtxDeadline => set_call0 s (set_cx (call0 s) CtxExpired)
  | LocalClose => set_tclosed s true
  | PeerClose => set_eof s true
  | Malformed => set_inbox s (inbox s ++ [PBad])
  | ReadFails => set_eof s true     (* for the reader the same as the end of the stream: the read fails *)
  | LocalDisconnect =>
      match p with
      | PBefore =>
          (* the Disconnect runs to completion before call 0 is issued *)
          let x := call0 s in
          let s1 := greedy FUEL (set_calls (set_call0 s dormant) (calls (set_call0 s dormant) ++ [fresh CDisconnect 0])) in
          set_call0 s1 x
      | _ => set_calls s (calls s ++ [fresh CDisconnect 0])
      end
  end.

(* what the harness observes of call 0 and of the connection *)
Inductive rclass := KBlocked | KNil | KCtx | KClosed | KWrite | KOther.

Definition rclass_eqb (a b : rclass) : bool :=
  match a, b with
  | KBlocked, KBlocked | KNil, KNil | KCtx, KCtx | KClosed, KClosed | KWrite, KWrite | KOther, KOther => true
  | _, _ => false
  end.

Definition cause_sentinel (z : cause) : option sentinel :=
  match z with CtxCancel => Some SCanceled | CtxDeadline => Some SDeadline | _ => None end.

Definition classify (uw : wrapper -> bool) (ctxs : option sentinel) (c : cst) : rclass :=
  match res c with
  | Running => match rest c with [] => KNil | _ => KBlocked end
  | RetNil => KNil
  | RetErr e =>
      if match ctxs with Some t => chain_contains uw t e | None => false end then KCtx
      else if chain_contains uw SClosedTransport e then KClosed
      else if chain_contains uw SWriteErr e then KWrite
      else KOther
  end.

(* err.(ErrorWithRetry) succeeds: the outermost value is an *errorWithRetry *)
Definition retryable (c : cst) : bool :=
  match res c with RetErr (Wrap WRetry _) => true | _ => false end.

Record outcome := mkO { o_res : rclass; o_retry : bool; o_done : bool; o_rexit : bool }.

Definition outcome_eqb (a b : outcome) : bool :=
  rclass_eqb (o_res a) (o_res b) && Bool.eqb (o_retry a) (o_retry b) &&
  Bool.eqb (o_done a) (o_done b) && Bool.eqb (o_rexit a) (o_rexit b).

Definition rfinished (r : rstate) : bool := match r with RFinished => true | _ => false end.

Definition observe (z : cause) (s : sys) : outcome :=
  mkO (classify unwraps_fixed (cause_sentinel z) (call0 s)) (retryable (call0 s)) (cclosed s) (rfinished (rd s)).

Fixpoint dedup {A} (eqb : A -> A -> bool) (l : list A) : list A :=
  match l with
  | [] => []
  | x :: r => if existsb (eqb x) r then dedup eqb r else x :: dedup eqb r
  end.

Definition cell := (call * point * cause)%type.

Definition cell_start (k : cell) : sys :=
  let '(c, p, z) := k in apply_cause p z (stage_a c p).

(* all outcomes of the cell over all schedules (None: fuel exhausted, never happens — proved) *)
Definition raw_outcomes (k : cell) : list (option outcome) :=
  let '(c, p, z) := k in map (option_map (observe z)) (explore FUEL (cell_start k)).

(* the same without repetitions (for display) *)
Definition outcomes (k : cell) : list (option outcome) := dedup (option_eqb outcome_eqb) (raw_outcomes k).

Definition nowait (c : call) : bool := Nat.eqb (nwaits c) 0.

(* the property on one observation *)
Definition ok_outcome (c : call) (z : cause) (o : outcome) : bool :=
  if is_ctx z then
    (* returned, and the error is the context's — or the call completed without ever waiting *)
    rclass_eqb (o_res o) KCtx || (nowait c && rclass_eqb (o_res o) KNil)
  else
    (* returned with an error saying the connection is gone (a call that never waits may have completed),
       Done() closed, reader goroutine gone *)
    (rclass_eqb (o_res o) KClosed || rclass_eqb (o_res o) KWrite || (nowait c && rclass_eqb (o_res o) KNil))
    && o_done o && o_rexit o.

Definition cell_ok (k : cell) : bool :=
  let '(c, p, z) := k in
  forallb (fun r => match r with Some o => ok_outcome c z o | None => false end) (raw_outcomes k).

Definition all_calls := [CConnect; CPub0; CPub1; CPub2; CSub; CUnsub; CPing; CDisconnect; CRetryPing;
                         CRPub1; CRPub1x; CRPub2; CRPub2x; CRRel; CRRelx; CRSub; CRSubx; CRUnsub; CRUnsubx].
Definition all_points := [PEntry; PBefore; PWait1; PWait2; PInWrite].
Definition all_causes := [CtxCancel; CtxDeadline; LocalClose; LocalDisconnect; PeerClose; Malformed; ReadFails].

Definition all_cells : list cell :=
  flat_map (fun c => flat_map (fun p => map (fun z => (c, p, z)) all_causes) all_points) all_calls.

(* the matrix the theorem is about, and the cells of finding F14 *)
Definition matrix : list cell :=
  filter (fun k => let '(c, p, z) := k in valid c p z && negb (is_f14 p z)) all_cells.
Definition f14_cells : list cell :=
  filter (fun k => let '(c, p, z) := k in valid c p z && is_f14 p z) all_cells.

(* F14, second half: the call comes back once the Connect that holds the lock ends (here: its context
   is cancelled) *)
Definition f14_release (k : cell) : list (option outcome) :=
  let '(c, p, z) := k in
  let s := cell_start k in
  let s' := set_calls s (upd 1 (set_cx (nth 1 (calls s) dormant) CtxCanceled) (calls s)) in
  map (option_map (observe z)) (explore FUEL s').

(* ---------- causes in sequence; Disconnect whose write is stalled or fails ---------- *)

(* the call brought to its point, then several causes one after the other; observed as for the last one *)
Definition seq_start (c : call) (p : point) (zs : list cause) : sys :=
  fold_left (fun s z => apply_cause p z s) zs (stage_a c p).

Definition seq_outcomes (c : call) (p : point) (zs : list cause) (zlast : cause) : list (option outcome) :=
  map (option_map (observe zlast)) (explore FUEL (seq_start c p zs)).

(* "cancel, then Close()" for a call parked inside Transport.Write: the cancellation alone leaves it blocked
   (the transport does not know the context), Close must end it *)
Definition inwrite_cancel_then_close_ok (c : call) : bool :=
  rclass_eqb (o_res (observe CtxCancel (greedy FUEL (seq_start c PInWrite [CtxCancel])))) KBlocked &&
  forallb (fun r => match r with
                    | Some o => rclass_eqb (o_res o) KWrite && o_done o && o_rexit o
                    | None => false
                    end) (seq_outcomes c PInWrite [CtxCancel; LocalClose] LocalClose).

(* Disconnect followed by Close():  0 = Disconnect's write fails (disconnect.go:28-30 returns without closing the
   transport), 1 = Disconnect succeeds (Close is then a harmless second close) *)
Definition dseq_start (n : nat) : sys :=
  let d := match n with O => fresh_with IWriteFailing CDisconnect | _ => fresh CDisconnect 0 end in
  set_tclosed (greedy FUEL (conn0 true [d])) true.

Definition dseq_mid (n : nat) : sys :=   (* after the Disconnect, before the Close *)
  let d := match n with O => fresh_with IWriteFailing CDisconnect | _ => fresh CDisconnect 0 end in
  greedy FUEL (conn0 true [d]).

Definition dseq_outcomes (n : nat) : list (option outcome) :=
  map (option_map (observe LocalClose)) (explore FUEL (dseq_start n)).

Definition dseq_ok (n : nat) (o : outcome) : bool :=
  rclass_eqb (o_res o) (match n with O => KWrite | _ => KNil end) && o_done o && o_rexit o.

(* ---------- stray acknowledgements before the cause ---------- *)

(* the cell of (c, p, z), or no blocked call at all (c = None), but before the cause strikes the peer sends
   [k] acknowledgements for a request that has completed earlier (duplicates; also a late or repeated PINGRESP:
   the finished Ping's channel is still installed) and [k] for identifiers nobody ever used, then an
   ordinary packet; the reader consumes what it can *)
Definition stray_start (c : option call) (p : point) (z : cause) (k : nat) : sys :=
  let s := match c with Some c => stage_a c p | None => conn0 true [dormant] end in
  let old := length (calls s) in
  let s1 := set_calls s (calls s ++ [dormant]) in
  let s2 := set_inbox s1 (inbox s1 ++ repeat (PAck old) k ++ repeat (PAck 99) k ++ [PData]) in
  apply_cause p z (greedy FUEL s2).

Definition stray_outcomes (c : option call) (p : point) (z : cause) (k : nat) : list (option outcome) :=
  map (option_map (observe z)) (explore FUEL (stray_start c p z k)).

Definition stray_ok (c : option call) (z : cause) (r : option outcome) : bool :=
  match r, c with
  | Some o, Some c => ok_outcome c z o
  | Some o, None => is_ctx z || (o_done o && o_rexit o)   (* nobody blocked: Done() closed, reader gone *)
  | None, _ => false
  end.

Definition stray_cell_ok (k : nat) (x : cell) : bool :=
  let '(c, p, z) := x in
  forallb (stray_ok (Some c) z) (stray_outcomes (Some c) p z k) &&
  forallb (stray_ok None z) (stray_outcomes None p z k).

(* ===================================================================================== *)
(** * 5b. Several calls blocked at once on one connection *)

Definition FUELM : nat := 200.

(* every call parked at its point (PWait1 / PWait2), all on one established connection *)
Definition multi_start (cps : list (call * point)) : sys :=
  greedy FUELM (conn0 true (map (fun cp => fresh (fst cp) (match snd cp with PWait2 => 1 | _ => 0 end)) cps)).

(* the contexts of some of them are cancelled first *)
Definition cancel_calls (idx : list nat) (s : sys) : sys :=
  fold_left (fun s i => match nth_error (calls s) i with
                        | Some c => set_calls s (upd i (set_cx c CtxCanceled) (calls s))
                        | None => s
                        end) idx s.

(* some cancellations, then one connection-ending cause, each time run until nothing moves *)
Definition multi_run (cps : list (call * point)) (cancelled : list nat) (z : cause) : sys :=
  greedy FUELM (apply_cause PWait1 z (greedy FUELM (cancel_calls cancelled (multi_start cps)))).

Definition multi_expect_ctx (cancelled : list nat) (i : nat) : option sentinel :=
  if existsb (Nat.eqb i) cancelled then Some SCanceled else None.

Definition multi_results (cps : list (call * point)) (cancelled : list nat) (z : cause) : list (rclass * bool) :=
  map (fun ic => (classify unwraps_fixed (multi_expect_ctx cancelled (fst ic)) (snd ic), retryable (snd ic)))
      (combine (seq 0 (length cps)) (firstn (length cps) (calls (multi_run cps cancelled z)))).

(* ===================================================================================== *)
(** * 5c. A message handler in progress: the reader goroutine is inside user code *)

(* While handler.Serve runs the reader takes no step (serve.go:84-90,96-102,139-146 call the handler after
   releasing c.mu, so nobody else is held up). Schedules without reader steps: *)
Definition successors_nr (s : sys) : list sys :=
  flat_map (fun l => match step l s with Some s' => [s'] | None => [] end) (tl (all_labels (length (calls s)))).

Fixpoint greedy_nr (fuel : nat) (s : sys) : sys :=
  match fuel with
  | O => s
  | S f => match successors_nr s with [] => s | s' :: _ => greedy_nr f s' end
  end.

Definition cancel_all (x : ctxst) (s : sys) : sys := set_calls s (map (fun c => set_cx c x) (calls s)).

(* requests issued while a handler is parked; [closed_before]: the transport was closed locally (Close or
   Disconnect) before they were issued — afterwards it makes no difference to them, only the reader could
   notice; then all their contexts end *)
Definition handler_run (closed_before : bool) (cs : list call) (z : cause) : sys :=
  let s0 := conn0 true (map (fun c => fresh c 0) cs) in
  let s1 := greedy_nr FUELM (if closed_before then set_tclosed s0 true else s0) in
  greedy_nr FUELM (cancel_all (match z with CtxDeadline => CtxExpired | _ => CtxCanceled end) s1).

Definition handler_results (closed_before : bool) (cs : list call) (z : cause) : list (rclass * bool) :=
  map (fun c => (classify unwraps_fixed (cause_sentinel z) c, retryable c)) (calls (handler_run closed_before cs z)).

(* ===================================================================================== *)
(** * 6. The reconnecting client *)

(* where the loop goroutine of reconnectClient.Connect is (reconnclient.go:81-169) *)
Inductive lst :=
| LIdle         (* Connect was never called: there is no loop, c.done is never closed *)
| LDial         (* in c.dialer.DialContext(ctx)                                    :88 *)
| LConnect      (* in c.RetryClient.Connect(ctxConnect): waiting for CONNACK         :93 *)
| LHandoff      (* CONNACK accepted, RetryClient.Connect returned nil: doneOnce.Do { ctx = Background;
                   done <- sessionPresent; close(done) } — done has capacity 1 (reconnclient.go:79,107-111) *)
| LUp           (* connected: Retry, keep-alive, then select { baseCli.Done(); ctx.Done(); c.disconnected } *)
| LCloseWait    (* baseCli.Close(); <-baseCli.Done()                               :152-154 *)
| LBackoff      (* select { time.After; ctx.Done(); c.disconnected }               :158-165 *)
| LExit.        (* returned: deferred close(c.done)                                 :83 *)

Inductive dialres := DFail | DOk | DHang.   (* DHang: DialContext blocks until its context is done *)

Record renv := mkR {
  r_ctx : bool;        (* the context given to Connect is done *)
  r_first : bool;      (* a first connection was established: the loop runs on context.Background() :99 *)
  r_disc : bool;       (* c.disconnected closed *)
  r_dial : dialres;    (* what every DialContext does *)
  r_ack : bool;        (* the broker answers CONNECT *)
  r_timeout : bool;    (* ReconnectOptions.Timeout > 0: ctxConnect expires by itself :91 *)
  r_base_done : bool;  (* Done() of the current base client *)
  r_base_err : bool;   (* its Err() is non-nil *)
  r_chtask : bool      (* RetryClient.chTask non-nil: SetClient was called at least once *)
}.

Definition loop_ctx_done (e : renv) : bool := r_ctx e && negb (r_first e).

Definition set_r_first e v := mkR (r_ctx e) v (r_disc e) (r_dial e) (r_ack e) (r_timeout e) (r_base_done e) (r_base_err e) (r_chtask e).
Definition set_r_base e d er := mkR (r_ctx e) (r_first e) (r_disc e) (r_dial e) (r_ack e) (r_timeout e) d er (r_chtask e).
Definition set_r_chtask e v := mkR (r_ctx e) (r_first e) (r_disc e) (r_dial e) (r_ack e) (r_timeout e) (r_base_done e) (r_base_err e) v.
Definition set_r_disc e v := mkR (r_ctx e) (r_first e) v (r_dial e) (r_ack e) (r_timeout e) (r_base_done e) (r_base_err e) (r_chtask e).
Definition set_r_ctx e v := mkR v (r_first e) (r_disc e) (r_dial e) (r_ack e) (r_timeout e) (r_base_done e) (r_base_err e) (r_chtask e).
Definition set_r_dial e v := mkR (r_ctx e) (r_first e) (r_disc e) v (r_ack e) (r_timeout e) (r_base_done e) (r_base_err e) (r_chtask e).

(* one step of the loop goroutine; None = blocked. Where the code waits for the base client
   (<-baseCli.Done() after baseCli.Close(), :152-154) the step relies on done_and_reader_exit. *)
Definition lstep (st : lst) (e : renv) : option (lst * renv) :=
  match st with
  | LIdle | LExit => None
  | LDial =>
      match r_dial e with
      | DFail => Some (LBackoff, e)
      | DOk => Some (LConnect, set_r_chtask (set_r_base e false false) true)       (* SetClient :89 *)
      | DHang => if loop_ctx_done e then Some (LBackoff, e) else None
      end
  | LConnect =>
      (* BaseClient.Connect's select: CONNACK / ctxConnect.Done() / connClosed; ctxConnect is also cancelled
         when c.disconnected is closed (fix 515978c, reconnclient.go:92-100) *)
      if r_ack e then Some (LHandoff, e)
      else if loop_ctx_done e || r_timeout e || r_base_done e || r_disc e then Some (LCloseWait, e)
      else None
  | LHandoff =>
      (* the send into the buffered channel cannot block, whether the caller of Connect is still in its select
         or has left through its context: the loop goes on to supervise the connection either way *)
      Some (LUp, set_r_first e true)
  | LUp =>
      if r_base_done e then (if r_base_err e then Some (LCloseWait, e) else Some (LExit, e))
      else if loop_ctx_done e || r_disc e then Some (LExit, e)
      else None
  | LCloseWait => Some (LBackoff, set_r_base e true (r_base_err e))
  | LBackoff =>
      if loop_ctx_done e || r_disc e then Some (LExit, e) else Some (LDial, e)      (* timer fires *)
  end.

Fixpoint lrun (fuel : nat) (st : lst) (e : renv) : lst * renv :=
  match fuel with
  | O => (st, e)
  | S f => match lstep st e with Some (st', e') => lrun f st' e' | None => (st, e) end
  end.

(* result of a call of the reconnecting client *)
Inductive rres := RRBlocked | RRNil | RRCtx | RRPanic | RROther.

Definition rres_eqb (a b : rres) : bool :=
  match a, b with
  | RRBlocked, RRBlocked | RRNil, RRNil | RRCtx, RRCtx | RRPanic, RRPanic | RROther, RROther => true
  | _, _ => false
  end.

(* what the loop has recorded so far (reconnclient.go:79: errDial, errConnect — first dial error, first
   handshake error other than the context's) *)
Record rrec := mkRec { rec_dial : bool; rec_connect : bool }.

(* the error of reconnectClient.Connect when its context ends (:189-203):
   wrapErrorf(ctx.Err(), "establishing first connection (dial: ..., connect: ...)") — whatever was recorded
   is quoted in the text only, the cause is the context's error *)
Definition rconnect_err (rc : rrec) (x : ctxst) : errv := Wrap WError (Leaf (ctx_sentinel x)).

(* reconnectClient.Connect's own select (:185-203): first connection or ctx.Done() *)
Definition rconnect_result (rc : rrec) (x : ctxst) (e : renv) : rres :=
  if r_first e then RRNil
  else if r_ctx e then
    (if chain_contains unwraps_fixed (ctx_sentinel x) (rconnect_err rc x) then RRCtx else RROther)
  else RRBlocked.

(* RetryClient.Disconnect (retryclient.go:238-254): [guard] = the nil test of fix cbf3ad0 is present.
   Closing a nil channel panics. *)
Definition retry_disconnect_panics (guard : bool) (e : renv) : bool := negb guard && negb (r_chtask e).

(* reconnectClient.Disconnect (:192-201): close(c.disconnected) — a second close panics —, RetryClient.Disconnect,
   then select { c.done; ctx.Done() }. [dctx]: Disconnect's context is done. The loop is run to its end first:
   it is the only other goroutine. While connected the queued DISCONNECT task closes the base client's
   transport without error (disconnect.go), so its Done() closes. *)
Definition rdisconnect (guard : bool) (dctx : bool) (st : lst) (e : renv) : rres * lst * renv :=
  if r_disc e then (RRPanic, st, e)
  else
    let e1 := set_r_disc e true in
    if retry_disconnect_panics guard e1 then (RRPanic, st, e1)
    else
      let e2 := match st with LUp | LHandoff => set_r_base e1 true false | _ => e1 end in
      let '(st', e') := lrun 8 st e2 in
      match st' with
      | LExit => (RRNil, st', e')
      | _ => ((if dctx then RRCtx else RRBlocked), st', e')
      end.

(* phases × causes examined for the reconnecting client *)
Inductive rphase :=
| RC_DialFail        (* Connect: every dial fails *)
| RC_DialHang        (* Connect: DialContext blocks until its context ends *)
| RC_AckWithheld     (* Connect: dial succeeds, CONNACK withheld *)
| RC_DialFailBackoff     (* Connect: a dial failed (errDial recorded), loop in a long back-off wait *)
| RC_RefusedBackoff      (* Connect: handshake failed — CONNACK refused, peer closed or malformed answer —
                            (errConnect recorded), loop in a long back-off wait *)
| RC_RefusedThenDialHang (* Connect: the same, and the NEXT dial is in progress when the context ends *)
| RD_Never           (* Disconnect: Connect never called *)
| RD_AfterFailed     (* Disconnect: after a Connect whose dials all failed and that was cancelled (cbf3ad0) *)
| RD_DuringDialFail  (* Disconnect: while Connect (another goroutine) is in the dial/back-off cycle *)
| RD_WaitConnAck     (* Disconnect: while the first CONNECT is unanswered (aborts the handshake: fix 515978c) *)
| RD_Connected       (* Disconnect: connected *)
| RD_BackoffAfterLoss. (* Disconnect: connection lost, later dials fail, loop in dial/back-off cycle *)

Inductive rcause := RZNone | RZCancel | RZDeadline.

Definition renv0 (d : dialres) (ack : bool) : renv := mkR false false false d ack false false false false.

(* the state the phase describes *)
Definition rphase_state (p : rphase) : lst * renv :=
  match p with
  | RC_DialFail => lrun 5 LDial (renv0 DFail false)
  | RC_DialHang => lrun 5 LDial (renv0 DHang false)
  | RC_AckWithheld => lrun 5 LDial (renv0 DOk false)
  | RC_DialFailBackoff => lrun 1 LDial (renv0 DFail false)
  | RC_RefusedBackoff => lrun 3 LDial (set_r_base (renv0 DOk false) true true)
  | RC_RefusedThenDialHang =>
      let '(st, e) := lrun 3 LDial (set_r_base (renv0 DOk false) true true) in
      lrun 1 st (set_r_dial e DHang)
  | RD_Never => (LIdle, renv0 DFail false)
  | RD_AfterFailed => lrun 5 LBackoff (set_r_ctx (renv0 DFail false) true)
  | RD_DuringDialFail => lrun 5 LDial (renv0 DFail false)
  | RD_WaitConnAck => lrun 5 LDial (renv0 DOk false)
  | RD_Connected => lrun 5 LDial (renv0 DOk true)
  | RD_BackoffAfterLoss =>
      let '(st, e) := lrun 5 LDial (renv0 DOk true) in
      lrun 5 st (set_r_dial (set_r_base e true true) DFail)
  end.

Definition is_rconnect (p : rphase) : bool :=
  match p with
  | RC_DialFail | RC_DialHang | RC_AckWithheld | RC_DialFailBackoff | RC_RefusedBackoff | RC_RefusedThenDialHang => true
  | _ => false
  end.

Definition rphase_recorded (p : rphase) : rrec :=
  match p with
  | RC_DialFail | RC_DialFailBackoff => mkRec true false
  | RC_RefusedBackoff | RC_RefusedThenDialHang => mkRec false true
  | _ => mkRec false false
  end.

Definition rcause_ctx (z : rcause) : ctxst :=
  match z with RZNone => CtxLive | RZCancel => CtxCanceled | RZDeadline => CtxExpired end.

Definition rvalid (p : rphase) (z : rcause) : bool :=
  match p, z with
  | (RC_DialFail | RC_DialHang | RC_AckWithheld | RC_DialFailBackoff | RC_RefusedBackoff | RC_RefusedThenDialHang
     | RD_Never), (RZCancel | RZDeadline) => true
  | (RD_AfterFailed | RD_DuringDialFail | RD_WaitConnAck | RD_Connected | RD_BackoffAfterLoss), RZNone => true
  | _, _ => false
  end.

(* observation: result of the call; is the loop goroutine gone once everything the scenario started has
   been cancelled ("nothing left running") *)
Record routcome := mkRO { ro_res : rres; ro_loop_gone : bool }.

Definition routcome_eqb (a b : routcome) : bool :=
  rres_eqb (ro_res a) (ro_res b) && Bool.eqb (ro_loop_gone a) (ro_loop_gone b).

Definition lgone (st : lst) : bool := match st with LExit | LIdle => true | _ => false end.

Definition rcell_run (guard : bool) (p : rphase) (z : rcause) : routcome :=
  let '(st, e) := rphase_state p in
  let ctxdone := match z with RZNone => false | _ => true end in
  if is_rconnect p then
    (* the cause hits Connect's context, which is also the loop's *)
    let e1 := set_r_ctx e ctxdone in
    let '(st', e') := lrun 8 st e1 in
    mkRO (rconnect_result (rphase_recorded p) (rcause_ctx z) e') (lgone st')
  else
    let '(r, st', e') := rdisconnect guard ctxdone st e in
    (* afterwards the scenario cancels the context of a Connect still pending *)
    let '(st'', _) := lrun 8 st' (set_r_ctx e' true) in
    mkRO r (lgone st'').

Definition rok (p : rphase) (z : rcause) (o : routcome) : bool :=
  match z with
  | RZNone => rres_eqb (ro_res o) RRNil && ro_loop_gone o
  | _ => rres_eqb (ro_res o) RRCtx && ro_loop_gone o
  end.

(* ---------- the context of Connect ending at each point of the first connection's establishment ---------- *)

Inductive cxpoint :=
| CX_BeforeDial        (* before Connect is called *)
| CX_DuringDial        (* inside DialContext *)
| CX_AfterSetClient    (* after SetClient, before CONNECT is written (inside BaseClient.Connect) *)
| CX_ConnAckWait       (* CONNECT written, CONNACK not yet there *)
| CX_InActiveCb        (* CONNACK accepted (inside the ConnState(StateActive) callback), before the hand-off; the
                          caller has left through its context *)
| CX_AfterReturn.      (* Connect has returned nil *)

Inductive cxfollow := CF_Disconnect | CF_PeerClose | CF_Nothing.

Definition cx_established (p : cxpoint) : bool := match p with CX_InActiveCb | CX_AfterReturn => true | _ => false end.

(* loop state and environment at the moment the context ends *)
Definition cx_state (p : cxpoint) : lst * renv :=
  let noack := set_r_ctx (renv0 DOk false) true in
  match p with
  | CX_BeforeDial => (LDial, noack)
  | CX_DuringDial => (LDial, set_r_ctx (renv0 DHang false) true)
  | CX_AfterSetClient | CX_ConnAckWait => (LConnect, set_r_chtask noack true)
  | CX_InActiveCb => (LHandoff, set_r_chtask (set_r_ctx (renv0 DOk true) true) true)
  | CX_AfterReturn => lrun 3 LDial (set_r_ctx (renv0 DOk true) false)
  end.

Definition cx_valid (p : cxpoint) (f : cxfollow) : bool :=
  match f with CF_PeerClose => cx_established p | _ => true end.

(* result of Connect; of the follow-up (Disconnect: its result; peer close: a redial follows; nothing: true);
   whether a loop goroutine is left although no connection was established or after Disconnect *)
Record cxoutcome := mkCX { cx_connect : rres; cx_follow_ok : bool; cx_clean : bool }.

Definition cx_run (p : cxpoint) (f : cxfollow) : cxoutcome :=
  let '(st0, e0) := cx_state p in
  let conn := match p with
              | CX_AfterReturn => RRNil
              | _ => RRCtx   (* the caller leaves through ctx.Done(): rconnect_err *)
              end in
  let '(st, e) := lrun 8 st0 e0 in             (* the loop runs on by itself *)
  match f with
  | CF_Disconnect =>
      let '(r, st', _) := rdisconnect true false st e in
      mkCX conn (rres_eqb r RRNil) (lgone st')
  | CF_PeerClose =>
      let '(st', _) := lrun 3 st (set_r_base e true true) in
      mkCX conn (match st' with LDial | LConnect => true | _ => false end) true
  | CF_Nothing =>
      (* established: the loop supervises the connection (LUp); otherwise it must be gone *)
      mkCX conn true (if cx_established p then match st with LUp => true | _ => false end else lgone st)
  end.

Definition cx_ok (p : cxpoint) (o : cxoutcome) : bool :=
  rres_eqb (cx_connect o) (match p with CX_AfterReturn => RRNil | _ => RRCtx end) && cx_follow_ok o && cx_clean o.

Definition all_cxpoints := [CX_BeforeDial; CX_DuringDial; CX_AfterSetClient; CX_ConnAckWait; CX_InActiveCb; CX_AfterReturn].
Definition all_cxfollows := [CF_Disconnect; CF_PeerClose; CF_Nothing].
Definition cxmatrix : list (cxpoint * cxfollow) :=
  filter (fun k => cx_valid (fst k) (snd k)) (flat_map (fun p => map (fun f => (p, f)) all_cxfollows) all_cxpoints).

Definition all_rphases := [RC_DialFail; RC_DialHang; RC_AckWithheld; RC_DialFailBackoff; RC_RefusedBackoff;
                           RC_RefusedThenDialHang; RD_Never; RD_AfterFailed;
                           RD_DuringDialFail; RD_WaitConnAck; RD_Connected; RD_BackoffAfterLoss].
Definition all_rcauses := [RZNone; RZCancel; RZDeadline].

Definition rmatrix : list (rphase * rcause) :=
  filter (fun k => rvalid (fst k) (snd k)) (flat_map (fun p => map (fun z => (p, z)) all_rcauses) all_rphases).
