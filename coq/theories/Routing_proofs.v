(* Routing_proofs.v — proofs about the acknowledgement routing model (Routing.v), property C07.

   Main result [refines]: in every well-formed concurrent history, what each request does
   (its PUBREL, its return and result) is exactly what the one-request automaton [react] does,
   which by definition reacts only to the request's own Start, to acknowledgements of the kind it
   is waiting for carrying its identifier, and to its own Resume.  The explicit statements
   (completion exactly at the own acknowledgement, inertness of foreign acknowledgements, QoS 2
   order, SUBACK codes) are derived from it. *)
From MQ Require Import Base Routing.
Open Scope N_scope.

(* ================= finite maps ================= *)
Lemma wm_get_del_same m id : wm_get (wm_del m id) id = None.
Proof.
  induction m as [|[k w] r IH]; cbn [wm_del wm_get]; [reflexivity|].
  destruct (k =? id) eqn:E; [exact IH|]. cbn [wm_get]. rewrite E. exact IH.
Qed.

Lemma wm_get_del_other m id id' : id' <> id -> wm_get (wm_del m id) id' = wm_get m id'.
Proof.
  intros Hn. induction m as [|[k w] r IH]; cbn [wm_del wm_get]; [reflexivity|].
  destruct (k =? id) eqn:E.
  - apply N.eqb_eq in E. subst k. destruct (id =? id') eqn:E2; [apply N.eqb_eq in E2; congruence|exact IH].
  - cbn [wm_get]. destruct (k =? id'); [reflexivity|exact IH].
Qed.

Lemma wm_get_set_same m id w : wm_get (wm_set m id w) id = Some w.
Proof. unfold wm_set. cbn [wm_get]. rewrite N.eqb_refl. reflexivity. Qed.

Lemma wm_get_set_other m id w id' : id' <> id -> wm_get (wm_set m id w) id' = wm_get m id'.
Proof.
  intros Hn. unfold wm_set. cbn [wm_get].
  destruct (id =? id') eqn:E; [apply N.eqb_eq in E; congruence|]. apply wm_get_del_other; exact Hn.
Qed.

Lemma wm_del_absent m id : wm_get m id = None -> wm_del m id = m.
Proof.
  induction m as [|[k w] r IH]; cbn [wm_del wm_get]; [reflexivity|].
  destruct (k =? id); [discriminate|]. intros H. rewrite (IH H). reflexivity.
Qed.

Lemma akind_eqb_eq a b : akind_eqb a b = true <-> a = b.
Proof. destruct a, b; cbn; split; intros H; try reflexivity; try discriminate. Qed.

Lemma akind_eq_dec (a b : akind) : {a = b} + {a <> b}.
Proof. decide equality. Defined.

(* ================= signaller accessors ================= *)
Lemma smap_with_map_same s k m : smap (with_map s k m) k = m.
Proof. destruct k; reflexivity. Qed.

Lemma smap_with_map_other s k m k' : k' <> k -> smap (with_map s k m) k' = smap s k'.
Proof. destruct k, k'; intros H; try reflexivity; congruence. Qed.

Lemma resum_with_map s k m : resum (with_map s k m) = resum s.
Proof. destruct k; reflexivity. Qed.

Lemma closed_with_map s k m : closed (with_map s k m) = closed s.
Proof. destruct k; reflexivity. Qed.

Lemma live_with_map s k m : live (with_map s k m) = live s.
Proof. destruct k; reflexivity. Qed.

Lemma smap_with_live s l k : smap (with_live s l) k = smap s k.
Proof. destruct k; reflexivity. Qed.

Lemma smap_with_resum s r k : smap (with_resum s r) k = smap s k.
Proof. destruct k; reflexivity. Qed.

Lemma smap_with_closed s k : smap (with_closed s) k = smap s k.
Proof. destruct k; reflexivity. Qed.

Lemma with_map_id s k : with_map s k (smap s k) = s.
Proof. destruct s, k; reflexivity. Qed.

(* get after register / take, by key *)
Lemma get_register s k id w k' id' :
  wm_get (smap (register s k id w) k') id' =
  if akind_eqb k' k && (id' =? id) then Some w else wm_get (smap s k') id'.
Proof.
  unfold register. destruct (akind_eq_dec k' k) as [->|Hk].
  - rewrite smap_with_map_same. replace (akind_eqb k k) with true by (destruct k; reflexivity).
    cbn [andb]. destruct (id' =? id) eqn:E.
    + apply N.eqb_eq in E. subst. apply wm_get_set_same.
    + apply wm_get_set_other. intros ->. rewrite N.eqb_refl in E. discriminate.
  - rewrite smap_with_map_other by exact Hk.
    destruct (akind_eqb k' k) eqn:E; [apply akind_eqb_eq in E; contradiction|reflexivity].
Qed.

Lemma get_take s k id k' id' :
  wm_get (smap (snd (take s k id)) k') id' =
  if akind_eqb k' k && (id' =? id) then None else wm_get (smap s k') id'.
Proof.
  unfold take. cbn [snd]. destruct (akind_eq_dec k' k) as [->|Hk].
  - rewrite smap_with_map_same. replace (akind_eqb k k) with true by (destruct k; reflexivity).
    cbn [andb]. destruct (id' =? id) eqn:E.
    + apply N.eqb_eq in E. subst. apply wm_get_del_same.
    + apply wm_get_del_other. intros ->. rewrite N.eqb_refl in E. discriminate.
  - rewrite smap_with_map_other by exact Hk.
    destruct (akind_eqb k' k) eqn:E; [apply akind_eqb_eq in E; contradiction|reflexivity].
Qed.

(* an acknowledgement for which no waiter is registered leaves the signaller as it is *)
Lemma take_absent s k id : wm_get (smap s k) id = None -> snd (take s k id) = s.
Proof. intros H. unfold take. cbn [snd]. rewrite (wm_del_absent _ _ H). apply with_map_id. Qed.

(* ================= resumable list ================= *)
Lemma rs_get_in r h id : rs_get r h = Some id -> In (h, id) r.
Proof.
  induction r as [|[h' i] t IH]; cbn [rs_get]; [discriminate|].
  destruct (Nat.eqb h' h) eqn:E.
  - apply Nat.eqb_eq in E. intros [= ->]. left. congruence.
  - intros H. right. exact (IH H).
Qed.

Lemma rs_get_none r h : rs_get r h = None -> forall id, ~ In (h, id) r.
Proof.
  induction r as [|[h' i] t IH]; cbn [rs_get]; intros H id Hin; [exact Hin|].
  destruct (Nat.eqb h' h) eqn:E; [discriminate|].
  destruct Hin as [Heq|Hin]; [injection Heq as -> ->; rewrite Nat.eqb_refl in E; discriminate|].
  exact (IH H id Hin).
Qed.

Lemma rs_del_in r h h' id : In (h', id) (rs_del r h) <-> In (h', id) r /\ h' <> h.
Proof.
  unfold rs_del. rewrite filter_In. cbn [fst]. split; intros [H1 H2]; split; try exact H1.
  - intros ->. rewrite Nat.eqb_refl in H2. discriminate.
  - destruct (Nat.eqb h' h) eqn:E; [apply Nat.eqb_eq in E; contradiction|reflexivity].
Qed.

Lemma rs_has_id_false r id : rs_has_id r id = false -> forall h, ~ In (h, id) r.
Proof.
  unfold rs_has_id. intros H h Hin.
  assert (E : existsb (fun p : nat * N => snd p =? id) r = true).
  { apply existsb_exists. exists (h, id). split; [exact Hin|apply N.eqb_refl]. }
  congruence.
Qed.

(* ================= live callers ================= *)
Lemma mem_nat_true h l : mem_nat h l = true <-> In h l.
Proof.
  unfold mem_nat. rewrite existsb_exists. split.
  - intros (x & Hin & E). apply Nat.eqb_eq in E. subst. exact Hin.
  - intros Hin. exists h. split; [exact Hin|apply Nat.eqb_refl].
Qed.

Lemma mem_nat_false h l : mem_nat h l = false <-> ~ In h l.
Proof.
  rewrite <- mem_nat_true. destruct (mem_nat h l); split; intros H; try reflexivity; try discriminate.
  exfalso. apply H. reflexivity.
Qed.

Lemma lv_del_in l h h' : In h' (lv_del l h) <-> In h' l /\ h' <> h.
Proof.
  unfold lv_del. rewrite filter_In. split; intros [H1 H2]; split; try exact H1.
  - intros ->. rewrite Nat.eqb_refl in H2. discriminate.
  - destruct (Nat.eqb h' h) eqn:E; [apply Nat.eqb_eq in E; contradiction|reflexivity].
Qed.

(* ================= the simulation invariant ================= *)
Definition pub2_at (p : phase) (id : N) : Prop :=
  match p with
  | PWait KPubRec i _ | PWait KPubComp i _ | PResum i => i = id
  | _ => False
  end.

(* [f h] is the phase of request h according to the one-request automaton *)
Definition is_wait (p : phase) : Prop := exists k id subs, p = PWait k id subs.

Record Inv (s : sig) (f : nat -> phase) (used : list nat) : Prop := {
  (* an entry belongs to the request waiting under it, or is the stale entry of one that gave up *)
  inv_map : forall k id w, wm_get (smap s k) id = Some w ->
    f (w_h w) = PWait k id (w_subs w) \/ f (w_h w) = PFin;
  inv_live : forall h, In h (live s) <-> is_wait (f h);
  inv_wait : forall h k id subs, f h = PWait k id subs -> wm_get (smap s k) id = Some (mkW h subs);
  inv_resum : forall h id, In (h, id) (resum s) <-> f h = PResum id;
  inv_pub2 : forall h1 h2 id, pub2_at (f h1) id -> pub2_at (f h2) id -> h1 = h2;
  inv_new : forall h, mem_nat h used = false -> f h = PNone }.

Definition adv (f : nat -> phase) (e : event) : nat -> phase := fun h => fst (react h (f h) e).

Definition used_after (used : list nat) (e : event) : list nat :=
  match e with Start h _ _ => h :: used | _ => used end.

Definition ok_event (s : sig) (used : list nat) (e : event) : Prop :=
  match e with
  | Start h rk id => mem_nat h used = false /\ fresh s rk id = true
  | _ => True
  end.

Lemma Inv_init : Inv sig_init (fun _ => PNone) [].
Proof.
  split; try discriminate.
  - intros k id w. destruct k; discriminate.
  - intros h. cbn. split; [intros []|intros (k & id & subs & E); discriminate].
  - intros h id. cbn. split; [tauto|discriminate].
  - intros h1 h2 id H; destruct H.
  - reflexivity.
Qed.

Lemma fresh_first s rk id : fresh s rk id = true -> wm_get (smap s (first_kind rk)) id = None.
Proof.
  unfold fresh, wm_has. destruct rk; cbn [first_kind smap]; intros H.
  - destruct (wm_get (chPubAck s) id); [discriminate|reflexivity].
  - destruct (wm_get (chPubRec s) id); [discriminate|reflexivity].
  - destruct (wm_get (chSubAck s) id); [discriminate|reflexivity].
  - destruct (wm_get (chUnsubAck s) id); [discriminate|reflexivity].
Qed.

Lemma fresh_pub2 s id : fresh s RPub2 id = true ->
  wm_get (chPubRec s) id = None /\ rs_has_id (resum s) id = false /\ wm_get (chPubComp s) id = None.
Proof.
  unfold fresh, wm_has. intros H.
  destruct (wm_get (chPubRec s) id); [discriminate|].
  destruct (rs_has_id (resum s) id); [discriminate|].
  destruct (wm_get (chPubComp s) id); [discriminate|]. auto.
Qed.

Lemma mem_nat_cons h h' l : mem_nat h (h' :: l) = false -> h <> h' /\ mem_nat h l = false.
Proof.
  unfold mem_nat. cbn [existsb]. intros H. apply orb_false_iff in H as [H1 H2].
  split; [intros ->; rewrite Nat.eqb_refl in H1; discriminate|exact H2].
Qed.

Lemma key_eqb_true k' k id' id : akind_eqb k' k && (id' =? id) = true <-> k' = k /\ id' = id.
Proof. rewrite andb_true_iff, akind_eqb_eq, N.eqb_eq. tauto. Qed.

Lemma key_eqb_refl k id : akind_eqb k k && (id =? id) = true.
Proof. apply key_eqb_true. auto. Qed.

Lemma is_wait_PWait k id subs : is_wait (PWait k id subs).
Proof. exists k, id, subs. reflexivity. Qed.

Lemma not_wait_fin : ~ is_wait PFin.
Proof. intros (k & id & subs & E). discriminate. Qed.

Lemma not_wait_none : ~ is_wait PNone.
Proof. intros (k & id & subs & E). discriminate. Qed.

Lemma not_wait_resum i : ~ is_wait (PResum i).
Proof. intros (k & id & subs & E). discriminate. Qed.

(* the entry of a live caller is the one it waits under *)
Lemma live_entry s f used k id w : Inv s f used -> wm_get (smap s k) id = Some w ->
  In (w_h w) (live s) -> f (w_h w) = PWait k id (w_subs w).
Proof.
  intros I G L. destruct (inv_map _ _ _ I _ _ _ G) as [P|P]; [exact P|].
  apply (inv_live _ _ _ I) in L. rewrite P in L. exfalso. exact (not_wait_fin L).
Qed.

(* a phase function that differs from f only at h0, where a waiting/resumable request moves to
   a phase that is not waiting: the bookkeeping common to all such steps *)

(* ---------- Start ---------- *)
Lemma react_start h' p h rk id :
  react h' p (Start h rk id) =
  match p with
  | PNone => if Nat.eqb h h' then (PWait (first_kind rk) id (subs_of rk), []) else (p, [])
  | _ => (p, [])
  end.
Proof. destruct p; reflexivity. Qed.

Lemma sim_start s f used h rk id :
  closed s = false -> Inv s f used -> mem_nat h used = false -> fresh s rk id = true ->
  let s1 := register s (first_kind rk) id (mkW h (subs_of rk)) in
  step s (Start h rk id) = (with_live s1 (h :: live s1), []) /\
  (forall h', snd (react h' (f h') (Start h rk id)) = []) /\
  Inv (with_live s1 (h :: live s1)) (adv f (Start h rk id)) (h :: used).
Proof.
  intros Hc I Hu Hf s1. pose proof (inv_new _ _ _ I h Hu) as Hh.
  assert (Hadv_h : adv f (Start h rk id) h = PWait (first_kind rk) id (subs_of rk)).
  { unfold adv. rewrite react_start, Hh, Nat.eqb_refl. reflexivity. }
  assert (Hadv_o : forall h', h' <> h -> adv f (Start h rk id) h' = f h').
  { intros h' Hn. unfold adv. rewrite react_start. destruct (f h'); try reflexivity.
    destruct (Nat.eqb h h') eqn:E; [apply Nat.eqb_eq in E; congruence|reflexivity]. }
  split; [cbn [step]; rewrite Hc; reflexivity|]. split.
  { intros h'. rewrite react_start. destruct (f h'); try reflexivity. destruct (Nat.eqb h h'); reflexivity. }
  pose proof (fresh_first _ _ _ Hf) as Hfree.
  assert (Ls1 : live s1 = live s) by (unfold s1, register; apply live_with_map).
  split.
  - intros k id' w. rewrite smap_with_live. unfold s1. rewrite get_register.
    destruct (akind_eqb k (first_kind rk) && (id' =? id)) eqn:E.
    + apply key_eqb_true in E as [-> ->]. intros [= <-]. cbn [w_h w_subs]. left. exact Hadv_h.
    + intros G. pose proof (inv_map _ _ _ I _ _ _ G) as P.
      rewrite Hadv_o; [exact P|]. intros Eh. rewrite Eh, Hh in P. destruct P; discriminate.
  - intros h'. cbn [live with_live]. rewrite Ls1. cbn [In].
    destruct (Nat.eq_dec h' h) as [->|Hn].
    + rewrite Hadv_h. split; [intros _; apply is_wait_PWait|auto].
    + rewrite Hadv_o by exact Hn. rewrite <- (inv_live _ _ _ I). split; [intros [E|L]; [congruence|exact L]|auto].
  - intros h' k id' subs P. rewrite smap_with_live. unfold s1. rewrite get_register.
    destruct (Nat.eq_dec h' h) as [->|Hn].
    + rewrite Hadv_h in P. injection P as <- <- <-. rewrite key_eqb_refl. reflexivity.
    + rewrite Hadv_o in P by exact Hn. pose proof (inv_wait _ _ _ I _ _ _ _ P) as G.
      destruct (akind_eqb k (first_kind rk) && (id' =? id)) eqn:E; [|exact G].
      apply key_eqb_true in E as [-> ->]. rewrite Hfree in G. discriminate.
  - intros h' id'. cbn [resum with_live]. unfold s1, register. rewrite resum_with_map.
    destruct (Nat.eq_dec h' h) as [->|Hn].
    + rewrite Hadv_h. rewrite (inv_resum _ _ _ I). rewrite Hh. split; discriminate.
    + rewrite Hadv_o by exact Hn. apply (inv_resum _ _ _ I).
  - assert (Hnew : forall h2 i, h2 <> h -> pub2_at (adv f (Start h rk id) h) i -> pub2_at (f h2) i -> False).
    { intros h2 i Hn P1 P2. rewrite Hadv_h in P1.
      destruct rk; cbn [first_kind pub2_at] in P1; try contradiction. subst i.
      apply fresh_pub2 in Hf as (F1 & F2 & F3).
      destruct (f h2) as [|k i subs|i|] eqn:E2; cbn [pub2_at] in P2; try contradiction.
      - destruct k; try contradiction; subst i.
        + pose proof (inv_wait _ _ _ I _ _ _ _ E2) as G. cbn [smap] in G. congruence.
        + pose proof (inv_wait _ _ _ I _ _ _ _ E2) as G. cbn [smap] in G. congruence.
      - subst i. apply (inv_resum _ _ _ I) in E2. exact (rs_has_id_false _ _ F2 _ E2). }
    intros h1 h2 i P1 P2.
    destruct (Nat.eq_dec h1 h) as [->|N1], (Nat.eq_dec h2 h) as [->|N2]; try reflexivity.
    + rewrite (Hadv_o _ N2) in P2. exfalso. exact (Hnew _ _ N2 P1 P2).
    + rewrite (Hadv_o _ N1) in P1. exfalso. exact (Hnew _ _ N1 P2 P1).
    + rewrite (Hadv_o _ N1) in P1. rewrite (Hadv_o _ N2) in P2. exact (inv_pub2 _ _ _ I _ _ _ P1 P2).
  - intros h' Hm. apply mem_nat_cons in Hm as [Hn Hm]. rewrite Hadv_o by exact Hn.
    exact (inv_new _ _ _ I _ Hm).
Qed.

(* ---------- Recv ---------- *)
Lemma Inv_ext s f g used : (forall h, g h = f h) -> Inv s f used -> Inv s g used.
Proof.
  intros E I. split.
  - intros k id w G. rewrite E. exact (inv_map _ _ _ I _ _ _ G).
  - intros h. rewrite E. apply (inv_live _ _ _ I).
  - intros h k id subs P. rewrite E in P. exact (inv_wait _ _ _ I _ _ _ _ P).
  - intros h id. rewrite E. apply (inv_resum _ _ _ I).
  - intros h1 h2 id. rewrite !E. apply (inv_pub2 _ _ _ I).
  - intros h Hm. rewrite E. exact (inv_new _ _ _ I _ Hm).
Qed.

(* what the waiting request does with an acknowledgement of its kind and identifier *)
Definition on_ack (h : nat) (k : akind) (id : N) (subs : list sub) (a : ack) : phase * list out :=
  match k with
  | KPubAck | KPubComp | KUnsubAck => (PFin, [Done h (RSuccess [])])
  | KPubRec => (PResum id, [])
  | KSubAck =>
      if Nat.eqb (length (a_codes a)) (length subs)
      then (PFin, [Done h (RSuccess (grant subs (a_codes a)))])
      else (PFin, [Done h RInvalidSubAck])
  end.

Lemma react_recv h p a :
  react h p (Recv a) =
  match p with
  | PWait k id subs => if akind_eqb (a_kind a) k && (a_id a =? id) then on_ack h k id subs a else (p, [])
  | _ => (p, [])
  end.
Proof. destruct p; reflexivity. Qed.

(* nobody else is waiting under the key of a registered waiter *)
Lemma others_ignore s f used a w : Inv s f used ->
  wm_get (smap s (a_kind a)) (a_id a) = Some w ->
  forall h', h' <> w_h w -> react h' (f h') (Recv a) = (f h', []).
Proof.
  intros I G h' Hn. rewrite react_recv. destruct (f h') as [|k id subs| |] eqn:E; try reflexivity.
  destruct (akind_eqb (a_kind a) k && (a_id a =? id)) eqn:K; [|reflexivity].
  apply key_eqb_true in K as [<- <-]. pose proof (inv_wait _ _ _ I _ _ _ _ E) as G2.
  rewrite G in G2. injection G2 as ->. cbn in Hn. congruence.
Qed.

Lemma owner_reacts s f used a w : Inv s f used ->
  wm_get (smap s (a_kind a)) (a_id a) = Some w -> In (w_h w) (live s) ->
  f (w_h w) = PWait (a_kind a) (a_id a) (w_subs w) /\
  react (w_h w) (f (w_h w)) (Recv a) = on_ack (w_h w) (a_kind a) (a_id a) (w_subs w) a.
Proof.
  intros I G L. pose proof (live_entry _ _ _ _ _ _ I G L) as P. split; [exact P|].
  rewrite react_recv, P, key_eqb_refl. reflexivity.
Qed.

Lemma nobody_reacts s f used a : Inv s f used ->
  wm_get (smap s (a_kind a)) (a_id a) = None ->
  forall h', react h' (f h') (Recv a) = (f h', []).
Proof.
  intros I G h'. rewrite react_recv. destruct (f h') as [|k id subs| |] eqn:E; try reflexivity.
  destruct (akind_eqb (a_kind a) k && (a_id a =? id)) eqn:K; [|reflexivity].
  apply key_eqb_true in K as [<- <-]. pose proof (inv_wait _ _ _ I _ _ _ _ E) as G2. congruence.
Qed.

(* the entry found is stale: its caller gave up. Nobody reacts, the entry goes away. *)
Lemma stale_nobody_reacts s f used a w : Inv s f used ->
  wm_get (smap s (a_kind a)) (a_id a) = Some w -> ~ In (w_h w) (live s) ->
  forall h', react h' (f h') (Recv a) = (f h', []).
Proof.
  intros I G NL h'. destruct (Nat.eq_dec h' (w_h w)) as [->|Hn]; [|exact (others_ignore s f used a w I G h' Hn)].
  rewrite react_recv. destruct (f (w_h w)) as [|k id subs| |] eqn:E; try reflexivity.
  exfalso. apply NL. apply (inv_live _ _ _ I). rewrite E. apply is_wait_PWait.
Qed.

Lemma inv_stale s f used k id w : Inv s f used ->
  wm_get (smap s k) id = Some w -> ~ In (w_h w) (live s) ->
  Inv (snd (take s k id)) f used.
Proof.
  intros I G NL. split.
  - intros k' id' w'. rewrite get_take.
    destruct (akind_eqb k' k && (id' =? id)); [discriminate|]. apply (inv_map _ _ _ I).
  - intros h. unfold take. cbn [snd]. rewrite live_with_map. apply (inv_live _ _ _ I).
  - intros h' k' id' subs P. pose proof (inv_wait _ _ _ I _ _ _ _ P) as G'.
    rewrite get_take. destruct (akind_eqb k' k && (id' =? id)) eqn:K; [|exact G'].
    apply key_eqb_true in K as [-> ->]. rewrite G in G'. injection G' as ->. cbn in NL.
    exfalso. apply NL. apply (inv_live _ _ _ I). rewrite P. apply is_wait_PWait.
  - intros h' id'. unfold take. cbn [snd]. rewrite resum_with_map. apply (inv_resum _ _ _ I).
  - apply (inv_pub2 _ _ _ I).
  - apply (inv_new _ _ _ I).
Qed.

(* the waiter of a live caller is taken out, the caller is signalled, its request finishes *)
Lemma inv_finish s f used k id w g : Inv s f used ->
  wm_get (smap s k) id = Some w -> In (w_h w) (live s) ->
  g (w_h w) = PFin -> (forall h', h' <> w_h w -> g h' = f h') ->
  let s1 := snd (take s k id) in
  Inv (with_live s1 (lv_del (live s1) (w_h w))) g used.
Proof.
  intros I G L Gh Go s1. pose proof (live_entry _ _ _ _ _ _ I G L) as P0.
  assert (Ls1 : live s1 = live s) by (unfold s1, take; cbn [snd]; apply live_with_map).
  split.
  - intros k' id' w'. rewrite smap_with_live. unfold s1. rewrite get_take.
    destruct (akind_eqb k' k && (id' =? id)) eqn:K; [discriminate|]. intros G'.
    pose proof (inv_map _ _ _ I _ _ _ G') as P. rewrite Go; [exact P|].
    intros Eh. rewrite Eh, P0 in P. destruct P as [P|P]; [|discriminate].
    injection P as E1 E2 _. subst k' id'. rewrite key_eqb_refl in K. discriminate.
  - intros h'. cbn [live with_live]. rewrite Ls1, lv_del_in, (inv_live _ _ _ I).
    destruct (Nat.eq_dec h' (w_h w)) as [->|Hn].
    + rewrite Gh. split; [intros [_ H]; congruence|intros H; exfalso; exact (not_wait_fin H)].
    + rewrite Go by exact Hn. tauto.
  - intros h' k' id' subs P. destruct (Nat.eq_dec h' (w_h w)) as [->|Hn]; [congruence|].
    rewrite Go in P by exact Hn. pose proof (inv_wait _ _ _ I _ _ _ _ P) as G'.
    rewrite smap_with_live. unfold s1. rewrite get_take.
    destruct (akind_eqb k' k && (id' =? id)) eqn:K; [|exact G'].
    apply key_eqb_true in K as [-> ->]. rewrite G in G'. injection G' as ->. cbn in Hn. congruence.
  - intros h' id'. cbn [resum with_live]. unfold s1, take. cbn [snd]. rewrite resum_with_map.
    destruct (Nat.eq_dec h' (w_h w)) as [->|Hn].
    + rewrite Gh. rewrite (inv_resum _ _ _ I), P0. split; discriminate.
    + rewrite Go by exact Hn. apply (inv_resum _ _ _ I).
  - assert (Hp : forall h i, pub2_at (g h) i -> pub2_at (f h) i).
    { intros h i. destruct (Nat.eq_dec h (w_h w)) as [->|Hn]; [rewrite Gh; intros []|rewrite Go by exact Hn; tauto]. }
    intros h1 h2 i P1 P2. exact (inv_pub2 _ _ _ I _ _ _ (Hp _ _ P1) (Hp _ _ P2)).
  - intros h' Hm. pose proof (inv_new _ _ _ I _ Hm) as Pn.
    rewrite Go; [exact Pn|]. intros Eh. rewrite Eh in Pn. congruence.
Qed.

(* PUBREC: the waiter leaves chPubRec, its request becomes resumable *)
Lemma inv_pubrec s f used id w g : Inv s f used ->
  wm_get (smap s KPubRec) id = Some w -> In (w_h w) (live s) ->
  g (w_h w) = PResum id -> (forall h', h' <> w_h w -> g h' = f h') ->
  let s1 := snd (take s KPubRec id) in
  let s2 := with_live s1 (lv_del (live s1) (w_h w)) in
  Inv (with_resum s2 (resum s2 ++ [(w_h w, id)])) g used.
Proof.
  intros I G L Gh Go s1 s2. pose proof (live_entry _ _ _ _ _ _ I G L) as P0.
  assert (Ls1 : live s1 = live s) by (unfold s1, take; cbn [snd]; apply live_with_map).
  split.
  - intros k' id' w'. rewrite smap_with_resum. unfold s2. rewrite smap_with_live. unfold s1. rewrite get_take.
    destruct (akind_eqb k' KPubRec && (id' =? id)) eqn:K; [discriminate|]. intros G'.
    pose proof (inv_map _ _ _ I _ _ _ G') as P. rewrite Go; [exact P|].
    intros Eh. rewrite Eh, P0 in P. destruct P as [P|P]; [|discriminate].
    injection P as E1 E2 _. subst k' id'. rewrite key_eqb_refl in K. discriminate.
  - intros h'. cbn [live with_live with_resum s2]. rewrite Ls1, lv_del_in, (inv_live _ _ _ I).
    destruct (Nat.eq_dec h' (w_h w)) as [->|Hn].
    + rewrite Gh. split; [intros [_ H]; congruence|intros H; exfalso; exact (not_wait_resum _ H)].
    + rewrite Go by exact Hn. tauto.
  - intros h' k' id' subs P. destruct (Nat.eq_dec h' (w_h w)) as [->|Hn]; [congruence|].
    rewrite Go in P by exact Hn. pose proof (inv_wait _ _ _ I _ _ _ _ P) as G'.
    rewrite smap_with_resum. unfold s2. rewrite smap_with_live. unfold s1. rewrite get_take.
    destruct (akind_eqb k' KPubRec && (id' =? id)) eqn:K; [|exact G'].
    apply key_eqb_true in K as [-> ->]. rewrite G in G'. injection G' as ->. cbn in Hn. congruence.
  - intros h' id'. cbn [resum with_resum with_live s2]. unfold s1, take. cbn [snd]. rewrite resum_with_map.
    rewrite in_app_iff. cbn [In].
    destruct (Nat.eq_dec h' (w_h w)) as [->|Hn].
    + rewrite Gh. rewrite (inv_resum _ _ _ I), P0. split.
      * intros [H|[H|[]]]; [discriminate|]. injection H as ->. reflexivity.
      * intros [= ->]. right. left. reflexivity.
    + rewrite Go by exact Hn. rewrite <- (inv_resum _ _ _ I). split; [|tauto].
      intros [H|[H|[]]]; [exact H|]. injection H as E _. congruence.
  - assert (Hp : forall h i, pub2_at (g h) i -> pub2_at (f h) i).
    { intros h i. destruct (Nat.eq_dec h (w_h w)) as [->|Hn]; [|rewrite Go by exact Hn; tauto].
      rewrite Gh, P0. cbn [pub2_at]. tauto. }
    intros h1 h2 i P1 P2. exact (inv_pub2 _ _ _ I _ _ _ (Hp _ _ P1) (Hp _ _ P2)).
  - intros h' Hm. pose proof (inv_new _ _ _ I _ Hm) as Pn.
    rewrite Go; [exact Pn|]. intros Eh. rewrite Eh in Pn. congruence.
Qed.

(* ---------- Resume ---------- *)
Lemma react_resume h' p h :
  react h' p (Resume h) =
  match p with
  | PResum id => if Nat.eqb h h' then (PWait KPubComp id [], [WPubRel h' id]) else (p, [])
  | _ => (p, [])
  end.
Proof. destruct p; reflexivity. Qed.

Lemma inv_resume s f used h id g : Inv s f used ->
  rs_get (resum s) h = Some id ->
  g h = PWait KPubComp id [] -> (forall h', h' <> h -> g h' = f h') ->
  let s1 := register (with_resum s (rs_del (resum s) h)) KPubComp id (mkW h []) in
  Inv (with_live s1 (h :: live s1)) g used.
Proof.
  intros I R Gh Go s1. apply rs_get_in in R. pose proof (proj1 (inv_resum _ _ _ I _ _) R) as P0.
  assert (Ls1 : live s1 = live s) by (unfold s1, register; rewrite live_with_map; reflexivity).
  split.
  - intros k' id' w'. rewrite smap_with_live. unfold s1. rewrite get_register, smap_with_resum.
    destruct (akind_eqb k' KPubComp && (id' =? id)) eqn:K.
    + apply key_eqb_true in K as [-> ->]. intros [= <-]. left. exact Gh.
    + intros G'. pose proof (inv_map _ _ _ I _ _ _ G') as P. rewrite Go; [exact P|].
      intros Eh. rewrite Eh, P0 in P. destruct P; discriminate.
  - intros h'. cbn [live with_live]. rewrite Ls1. cbn [In].
    destruct (Nat.eq_dec h' h) as [->|Hn].
    + rewrite Gh. split; [intros _; apply is_wait_PWait|auto].
    + rewrite Go by exact Hn. rewrite <- (inv_live _ _ _ I). split; [intros [E|L]; [congruence|exact L]|auto].
  - intros h' k' id' subs P. rewrite smap_with_live. unfold s1. rewrite get_register, smap_with_resum.
    destruct (Nat.eq_dec h' h) as [->|Hn].
    + rewrite Gh in P. injection P as <- <- <-. rewrite N.eqb_refl. reflexivity.
    + rewrite Go in P by exact Hn. pose proof (inv_wait _ _ _ I _ _ _ _ P) as G'.
      destruct (akind_eqb k' KPubComp && (id' =? id)) eqn:K; [|exact G'].
      apply key_eqb_true in K as [-> ->]. exfalso. apply Hn.
      apply (inv_pub2 _ _ _ I h' h id); [rewrite P|rewrite P0]; reflexivity.
  - intros h' id'. cbn [resum with_live]. unfold s1, register. rewrite resum_with_map. cbn [resum with_resum].
    rewrite rs_del_in. destruct (Nat.eq_dec h' h) as [->|Hn].
    + rewrite Gh. split; [intros [_ H]; congruence|discriminate].
    + rewrite Go by exact Hn. rewrite (inv_resum _ _ _ I). tauto.
  - assert (Hp : forall h' i, pub2_at (g h') i -> pub2_at (f h') i).
    { intros h' i. destruct (Nat.eq_dec h' h) as [->|Hn]; [|rewrite Go by exact Hn; tauto].
      rewrite Gh, P0. cbn [pub2_at]. tauto. }
    intros h1 h2 i P1 P2. exact (inv_pub2 _ _ _ I _ _ _ (Hp _ _ P1) (Hp _ _ P2)).
  - intros h' Hm. pose proof (inv_new _ _ _ I _ Hm) as Pn.
    rewrite Go; [exact Pn|]. intros Eh. rewrite Eh, P0 in Pn. discriminate.
Qed.

(* ---------- Cancel ---------- *)
Lemma react_cancel h' p h :
  react h' p (Cancel h) =
  match p with
  | PWait _ _ _ | PResum _ => if Nat.eqb h h' then (PFin, [Done h' RCancelled]) else (p, [])
  | _ => (p, [])
  end.
Proof. destruct p; reflexivity. Qed.

Lemma react_cancel_other h' p h : h' <> h -> react h' p (Cancel h) = (p, []).
Proof.
  intros Hn. rewrite react_cancel. destruct p; try reflexivity;
    (destruct (Nat.eqb h h') eqn:E; [apply Nat.eqb_eq in E; congruence|reflexivity]).
Qed.

(* a blocked caller gives up: it leaves [live], its entry stays behind as a stale entry *)
Lemma inv_cancel_live s f used h g : Inv s f used -> In h (live s) ->
  g h = PFin -> (forall h', h' <> h -> g h' = f h') ->
  Inv (with_live s (lv_del (live s) h)) g used.
Proof.
  intros I L Gh Go. pose proof (proj1 (inv_live _ _ _ I h) L) as (k0 & id0 & subs0 & P0).
  split.
  - intros k id w. rewrite smap_with_live. intros G. pose proof (inv_map _ _ _ I _ _ _ G) as P.
    destruct (Nat.eq_dec (w_h w) h) as [E|Hn]; [rewrite E, Gh; right; reflexivity|].
    rewrite Go by exact Hn. exact P.
  - intros h'. cbn [live with_live]. rewrite lv_del_in, (inv_live _ _ _ I).
    destruct (Nat.eq_dec h' h) as [->|Hn].
    + rewrite Gh. split; [intros [_ H]; congruence|intros H; exfalso; exact (not_wait_fin H)].
    + rewrite Go by exact Hn. tauto.
  - intros h' k id subs P. rewrite smap_with_live. destruct (Nat.eq_dec h' h) as [->|Hn]; [congruence|].
    rewrite Go in P by exact Hn. exact (inv_wait _ _ _ I _ _ _ _ P).
  - intros h' id. cbn [resum with_live]. destruct (Nat.eq_dec h' h) as [->|Hn].
    + rewrite Gh, (inv_resum _ _ _ I), P0. split; discriminate.
    + rewrite Go by exact Hn. apply (inv_resum _ _ _ I).
  - assert (Hp : forall h' i, pub2_at (g h') i -> pub2_at (f h') i).
    { intros h' i. destruct (Nat.eq_dec h' h) as [->|Hn]; [rewrite Gh; intros []|rewrite Go by exact Hn; tauto]. }
    intros h1 h2 i P1 P2. exact (inv_pub2 _ _ _ I _ _ _ (Hp _ _ P1) (Hp _ _ P2)).
  - intros h' Hm. pose proof (inv_new _ _ _ I _ Hm) as Pn.
    rewrite Go; [exact Pn|]. intros Eh. rewrite Eh, P0 in Pn. discriminate.
Qed.

(* a caller signalled by PUBREC gives up before running on *)
Lemma inv_cancel_resum s f used h id g : Inv s f used -> rs_get (resum s) h = Some id ->
  g h = PFin -> (forall h', h' <> h -> g h' = f h') ->
  Inv (with_resum s (rs_del (resum s) h)) g used.
Proof.
  intros I R Gh Go. apply rs_get_in in R. pose proof (proj1 (inv_resum _ _ _ I _ _) R) as P0.
  split.
  - intros k i w. rewrite smap_with_resum. intros G. pose proof (inv_map _ _ _ I _ _ _ G) as P.
    rewrite Go; [exact P|]. intros Eh. rewrite Eh, P0 in P. destruct P; discriminate.
  - intros h'. cbn [live with_resum]. rewrite (inv_live _ _ _ I).
    destruct (Nat.eq_dec h' h) as [->|Hn]; [|rewrite Go by exact Hn; tauto].
    rewrite Gh, P0. split; intros H; exfalso; [exact (not_wait_resum _ H)|exact (not_wait_fin H)].
  - intros h' k i subs P. rewrite smap_with_resum. destruct (Nat.eq_dec h' h) as [->|Hn]; [congruence|].
    rewrite Go in P by exact Hn. exact (inv_wait _ _ _ I _ _ _ _ P).
  - intros h' i. cbn [resum with_resum]. rewrite rs_del_in. destruct (Nat.eq_dec h' h) as [->|Hn].
    + rewrite Gh. split; [intros [_ H]; congruence|discriminate].
    + rewrite Go by exact Hn. rewrite (inv_resum _ _ _ I). tauto.
  - assert (Hp : forall h' i, pub2_at (g h') i -> pub2_at (f h') i).
    { intros h' i. destruct (Nat.eq_dec h' h) as [->|Hn]; [rewrite Gh; intros []|rewrite Go by exact Hn; tauto]. }
    intros h1 h2 i P1 P2. exact (inv_pub2 _ _ _ I _ _ _ (Hp _ _ P1) (Hp _ _ P2)).
  - intros h' Hm. pose proof (inv_new _ _ _ I _ Hm) as Pn.
    rewrite Go; [exact Pn|]. intros Eh. rewrite Eh, P0 in Pn. discriminate.
Qed.

(* ---------- one step of the simulation ---------- *)
Lemma concerns_done_same h r : filter (concerns h) [Done h r] = [Done h r].
Proof. cbn. rewrite Nat.eqb_refl. reflexivity. Qed.

Lemma concerns_done_other h h' r : h' <> h -> filter (concerns h') [Done h r] = [].
Proof. intros Hn. cbn. destruct (Nat.eqb h h') eqn:E; [apply Nat.eqb_eq in E; congruence|reflexivity]. Qed.

Lemma closed_with_live s l : closed (with_live s l) = closed s.
Proof. reflexivity. Qed.

Lemma step_sim s f used e :
  closed s = false -> Inv s f used -> ok_event s used e ->
  (forall h, filter (concerns h) (snd (step s e)) = snd (react h (f h) e)) /\
  closed (fst (step s e)) = existsb is_closed (snd (step s e)) /\
  (closed (fst (step s e)) = false -> Inv (fst (step s e)) (adv f e) (used_after used e)).
Proof.
  intros Hc I Hok. destruct e as [h rk id|a|h|h].
  - (* Start *)
    destruct Hok as [Hu Hf]. destruct (sim_start s f used h rk id Hc I Hu Hf) as (E & O & I').
    rewrite E. cbn [fst snd]. split; [intros h'; rewrite O; reflexivity|]. split.
    + rewrite closed_with_live. unfold register. rewrite closed_with_map. cbn. exact Hc.
    + intros _. exact I'.
  - (* Recv *)
    cbn [step]. rewrite Hc. unfold take.
    destruct (wm_get (smap s (a_kind a)) (a_id a)) as [w|] eqn:G.
    + rewrite live_with_map.
      destruct (mem_nat (w_h w) (live s)) eqn:ML; cbn [negb].
      2:{ (* stale entry *)
        apply mem_nat_false in ML.
        pose proof (stale_nobody_reacts s f used a w I G ML) as Rn. cbn [fst snd].
        split; [intros h'; rewrite Rn; reflexivity|]. split.
        { rewrite closed_with_map. cbn. exact Hc. }
        intros _. apply (Inv_ext _ f); [intros h'; unfold adv; rewrite Rn; reflexivity|].
        exact (inv_stale s f used _ _ w I G ML). }
      apply mem_nat_true in ML.
      destruct (owner_reacts s f used a w I G ML) as [P0 R0].
      pose proof (others_ignore s f used a w I G) as Ro.
      assert (Go : forall h', h' <> w_h w -> adv f (Recv a) h' = f h').
      { intros h' Hn. unfold adv. rewrite (Ro _ Hn). reflexivity. }
      assert (Fin : forall r, snd (on_ack (w_h w) (a_kind a) (a_id a) (w_subs w) a) = [Done (w_h w) r] ->
                forall h', filter (concerns h') [Done (w_h w) r] = snd (react h' (f h') (Recv a))).
      { intros r Er h'. destruct (Nat.eq_dec h' (w_h w)) as [->|Hn].
        - rewrite R0, Er. apply concerns_done_same.
        - rewrite (Ro _ Hn). apply concerns_done_other. exact Hn. }
      assert (Cl : closed (with_live (with_map s (a_kind a) (wm_del (smap s (a_kind a)) (a_id a)))
                     (lv_del (live s) (w_h w))) = false).
      { rewrite closed_with_live, closed_with_map. exact Hc. }
      pose proof (inv_finish s f used (a_kind a) (a_id a) w (adv f (Recv a)) I G ML) as IF.
      unfold take in IF. cbn [snd] in IF. rewrite live_with_map in IF.
      destruct (a_kind a) eqn:K.
      * (* PUBACK *) cbn [fst snd]. split; [apply Fin; reflexivity|]. split; [cbn; exact Cl|].
        intros _. apply IF; [unfold adv; rewrite R0; reflexivity|exact Go].
      * (* PUBREC *) cbn [fst snd]. split.
        { intros h'. destruct (Nat.eq_dec h' (w_h w)) as [->|Hn]; [rewrite R0|rewrite (Ro _ Hn)]; reflexivity. }
        split. { cbn. exact Hc. }
        intros _. pose proof (inv_pubrec s f used (a_id a) w (adv f (Recv a)) I G ML) as IP.
        unfold take in IP. cbn [snd] in IP. rewrite live_with_map in IP.
        apply IP; [unfold adv; rewrite R0; reflexivity|exact Go].
      * (* PUBCOMP *) cbn [fst snd]. split; [apply Fin; reflexivity|]. split; [cbn; exact Cl|].
        intros _. apply IF; [unfold adv; rewrite R0; reflexivity|exact Go].
      * (* SUBACK *)
        destruct (Nat.eqb (length (a_codes a)) (length (w_subs w))) eqn:L; cbn [fst snd].
        { split; [apply Fin; cbn [on_ack]; rewrite L; reflexivity|]. split; [cbn; exact Cl|].
          intros _. apply IF; [unfold adv; rewrite R0; cbn [on_ack]; rewrite L; reflexivity|exact Go]. }
        { split.
          - intros h'. cbn [filter concerns]. destruct (Nat.eq_dec h' (w_h w)) as [->|Hn].
            + rewrite R0. cbn [on_ack]. rewrite L, Nat.eqb_refl. reflexivity.
            + rewrite (Ro _ Hn). destruct (Nat.eqb (w_h w) h') eqn:E; [apply Nat.eqb_eq in E; congruence|reflexivity].
          - split; [reflexivity|]. cbn. discriminate. }
      * (* UNSUBACK *) cbn [fst snd]. split; [apply Fin; reflexivity|]. split; [cbn; exact Cl|].
        intros _. apply IF; [unfold adv; rewrite R0; reflexivity|exact Go].
    + pose proof (nobody_reacts s f used a I G) as Rn. cbn [fst snd].
      split; [intros h'; rewrite Rn; reflexivity|]. split.
      { rewrite closed_with_map. cbn. exact Hc. }
      intros _. rewrite (wm_del_absent _ _ G), with_map_id.
      apply (Inv_ext s f); [|exact I]. intros h'. unfold adv. rewrite Rn. reflexivity.
  - (* Resume *)
    cbn [step]. rewrite Hc. destruct (rs_get (resum s) h) as [id|] eqn:R.
    + pose proof (proj1 (inv_resum _ _ _ I _ _) (rs_get_in _ _ _ R)) as P0. cbn [fst snd].
      assert (Rh : react h (f h) (Resume h) = (PWait KPubComp id [], [WPubRel h id])).
      { rewrite react_resume, P0, Nat.eqb_refl. reflexivity. }
      assert (Ro : forall h', h' <> h -> react h' (f h') (Resume h) = (f h', [])).
      { intros h' Hn. rewrite react_resume. destruct (f h'); try reflexivity.
        destruct (Nat.eqb h h') eqn:E; [apply Nat.eqb_eq in E; congruence|reflexivity]. }
      split.
      { intros h'. cbn [filter concerns]. destruct (Nat.eq_dec h' h) as [->|Hn].
        - rewrite Rh, Nat.eqb_refl. reflexivity.
        - rewrite (Ro _ Hn). destruct (Nat.eqb h h') eqn:E; [apply Nat.eqb_eq in E; congruence|reflexivity]. }
      split. { rewrite closed_with_live. unfold register. rewrite closed_with_map. cbn. exact Hc. }
      intros _. apply (inv_resume s f used h id); try assumption.
      * unfold adv. rewrite Rh. reflexivity.
      * intros h' Hn. unfold adv. rewrite (Ro _ Hn). reflexivity.
    + cbn [fst snd].
      assert (Rn : forall h', react h' (f h') (Resume h) = (f h', [])).
      { intros h'. rewrite react_resume. destruct (f h') as [| |id|] eqn:E; try reflexivity.
        destruct (Nat.eqb h h') eqn:E2; [|reflexivity]. apply Nat.eqb_eq in E2. subst h'.
        apply (inv_resum _ _ _ I) in E. exfalso. exact (rs_get_none _ _ R _ E). }
      split; [intros h'; rewrite Rn; reflexivity|]. split; [cbn; exact Hc|].
      intros _. apply (Inv_ext s f); [|exact I]. intros h'. unfold adv. rewrite Rn. reflexivity.
  - (* Cancel *)
    cbn [step]. rewrite Hc.
    assert (Ro : forall h', h' <> h -> react h' (f h') (Cancel h) = (f h', [])).
    { intros h' Hn. apply react_cancel_other. exact Hn. }
    assert (Out : react h (f h) (Cancel h) = (PFin, [Done h RCancelled]) ->
              forall h', filter (concerns h') [Done h RCancelled] = snd (react h' (f h') (Cancel h))).
    { intros Rh h'. destruct (Nat.eq_dec h' h) as [->|Hn].
      - rewrite Rh. apply concerns_done_same.
      - rewrite (Ro _ Hn). apply concerns_done_other. exact Hn. }
    destruct (mem_nat h (live s)) eqn:ML.
    + apply mem_nat_true in ML. pose proof (proj1 (inv_live _ _ _ I h) ML) as (k0 & id0 & subs0 & P0).
      assert (Rh : react h (f h) (Cancel h) = (PFin, [Done h RCancelled])).
      { rewrite react_cancel, P0, Nat.eqb_refl. reflexivity. }
      cbn [fst snd]. split; [exact (Out Rh)|]. split; [cbn; exact Hc|].
      intros _. apply (inv_cancel_live s f used h); try assumption.
      * unfold adv. rewrite Rh. reflexivity.
      * intros h' Hn. unfold adv. rewrite (Ro _ Hn). reflexivity.
    + apply mem_nat_false in ML. destruct (rs_get (resum s) h) as [id|] eqn:R.
      * pose proof (proj1 (inv_resum _ _ _ I _ _) (rs_get_in _ _ _ R)) as P0.
        assert (Rh : react h (f h) (Cancel h) = (PFin, [Done h RCancelled])).
        { rewrite react_cancel, P0, Nat.eqb_refl. reflexivity. }
        cbn [fst snd]. split; [exact (Out Rh)|]. split; [cbn; exact Hc|].
        intros _. apply (inv_cancel_resum s f used h id); try assumption.
        -- unfold adv. rewrite Rh. reflexivity.
        -- intros h' Hn. unfold adv. rewrite (Ro _ Hn). reflexivity.
      * assert (Rn : forall h', react h' (f h') (Cancel h) = (f h', [])).
        { intros h'. destruct (Nat.eq_dec h' h) as [->|Hn]; [|exact (Ro _ Hn)].
          rewrite react_cancel. destruct (f h) as [|k i subs|i|] eqn:E; try reflexivity.
          - exfalso. apply ML. apply (inv_live _ _ _ I). rewrite E. apply is_wait_PWait.
          - apply (inv_resum _ _ _ I) in E. exfalso. exact (rs_get_none _ _ R _ E). }
        cbn [fst snd]. split; [intros h'; rewrite Rn; reflexivity|]. split; [cbn; exact Hc|].
        intros _. apply (Inv_ext s f); [|exact I]. intros h'. unfold adv. rewrite Rn. reflexivity.
Qed.

(* ================= refinement ================= *)
Lemma step_closed s e : closed s = true ->
  closed (fst (step s e)) = true /\
  snd (step s e) = match e with Start h _ _ => [Done h RClosed] | _ => [] end.
Proof.
  intros Hc. destruct e as [h rk id|a|h|h]; cbn [step]; rewrite Hc; cbn [fst snd]; auto.
  split; [|reflexivity]. unfold register. rewrite closed_with_map. exact Hc.
Qed.

Lemma refines_closed h : forall evs s p, closed s = true ->
  view h (run s evs) = spec_run h (p, true) evs (closings (run s evs)).
Proof.
  induction evs as [|e r IH]; intros s p Hc; [reflexivity|].
  cbn [run]. destruct (step s e) as [s' o] eqn:E.
  destruct (step_closed s e Hc) as [Hc' Ho]. rewrite E in Hc', Ho. cbn [fst snd] in Hc', Ho.
  cbn [view closings map spec_run spec_step]. fold (view h (run s' r)). fold (closings (run s' r)).
  subst o. destruct e as [h' rk id|a|h'|h'].
  - destruct (Nat.eqb h' h) eqn:Eh.
    + cbn [filter concerns]. rewrite Eh. apply Nat.eqb_eq in Eh. subst h'. f_equal. apply IH. exact Hc'.
    + cbn [filter concerns]. rewrite Eh. f_equal. apply IH. exact Hc'.
  - cbn [filter]. f_equal. apply IH. exact Hc'.
  - cbn [filter]. f_equal. apply IH. exact Hc'.
  - cbn [filter]. f_equal. apply IH. exact Hc'.
Qed.

Lemma wf_from_cons s used e r : wf_from s used (e :: r) = true ->
  ok_event s used e /\ wf_from (fst (step s e)) (used_after used e) r = true.
Proof.
  cbn [wf_from]. destruct e as [h rk id|a|h|h]; cbn [ok_event used_after]; [|auto|auto|auto].
  intros H. apply andb_true_iff in H as [H H3]. apply andb_true_iff in H as [H1 H2].
  apply negb_true_iff in H1. auto.
Qed.

Lemma refines_from h : forall evs s f used,
  Inv s f used -> closed s = false -> wf_from s used evs = true ->
  view h (run s evs) = spec_run h (f h, false) evs (closings (run s evs)).
Proof.
  induction evs as [|e r IH]; intros s f used I Hc W; [reflexivity|].
  apply wf_from_cons in W as [Hok W].
  destruct (step_sim s f used e Hc I Hok) as (Ho & Hcl & I').
  cbn [run]. destruct (step s e) as [s' o] eqn:E. cbn [fst snd] in *.
  cbn [view closings map spec_run spec_step]. fold (view h (run s' r)). fold (closings (run s' r)).
  rewrite (Ho h). destruct (react h (f h) e) as [p' o'] eqn:R. cbn [snd].
  f_equal. rewrite <- Hcl.
  replace p' with (adv f e h) by (unfold adv; rewrite R; reflexivity).
  destruct (closed s') eqn:Hc'.
  - apply refines_closed. exact Hc'.
  - apply (IH s' (adv f e) (used_after used e)); auto.
Qed.

(* In a history in which every Start uses a new handle and an identifier that no outstanding
   request of its kind holds, what request h does is what the one-request automaton does on the
   same history (which ignores everything that is not h's own), until the transport is closed. *)
Theorem refines : forall evs h, wf evs = true ->
  view h (run sig_init evs) = spec_run h (PNone, false) evs (closings (run sig_init evs)).
Proof.
  intros evs h W. exact (refines_from h evs sig_init (fun _ => PNone) [] Inv_init eq_refl W).
Qed.

(* ================= the one-request automaton on segments of a history ================= *)
Fixpoint spec_end (h : nat) (st : phase * bool) (evs : list event) (cls : list bool) : phase * bool :=
  match evs, cls with
  | e :: r, c :: cr => spec_end h (fst (spec_step h st e c)) r cr
  | _, _ => st
  end.

Lemma spec_run_app h : forall a st b ca cb, length a = length ca ->
  spec_run h st (a ++ b) (ca ++ cb) = spec_run h st a ca ++ spec_run h (spec_end h st a ca) b cb.
Proof.
  induction a as [|e r IH]; intros st b ca cb L; destruct ca as [|c cr]; try discriminate; [reflexivity|].
  cbn [app spec_run spec_end]. destruct (spec_step h st e c) as [st' o]. cbn [fst].
  rewrite IH by (cbn in L; lia). reflexivity.
Qed.

Lemma run_app : forall a s b, run s (a ++ b) = run s a ++ run (state_after s a) b.
Proof.
  induction a as [|e r IH]; intros s b; [reflexivity|].
  cbn [app run state_after]. destruct (step s e) as [s' o]. cbn [fst]. rewrite IH. reflexivity.
Qed.

Lemma run_length : forall evs s, length (run s evs) = length evs.
Proof.
  induction evs as [|e r IH]; intros s; [reflexivity|]. cbn [run]. destruct (step s e). cbn. rewrite IH. reflexivity.
Qed.

Lemma closings_length outs : length (closings outs) = length outs.
Proof. apply map_length. Qed.

(* a stretch of events none of which makes the request move, with the transport open *)
Lemma idle_segment h p : forall a, (forall e, In e a -> react h p e = (p, [])) ->
  spec_run h (p, false) a (repeat false (length a)) = repeat [] (length a) /\
  spec_end h (p, false) a (repeat false (length a)) = (p, false).
Proof.
  induction a as [|e r IH]; intros H; [split; reflexivity|].
  cbn [length repeat spec_run spec_end spec_step]. rewrite (H e (or_introl eq_refl)). cbn [fst].
  destruct IH as [IH1 IH2]; [intros e' Hin; apply H; right; exact Hin|].
  rewrite IH1, IH2. split; reflexivity.
Qed.

Lemma react_none h e : (forall rk id, e <> Start h rk id) -> react h PNone e = (PNone, []).
Proof.
  intros H. destruct e as [h' rk id|a|h'|h']; try reflexivity. cbn [react].
  destruct (Nat.eqb h' h) eqn:E; [|reflexivity]. apply Nat.eqb_eq in E. subst. exfalso. exact (H rk id eq_refl).
Qed.

Lemma react_wait_other h k id subs e : own_ack k id e = false -> e <> Cancel h ->
  react h (PWait k id subs) e = (PWait k id subs, []).
Proof.
  destruct e as [h' rk i|a|h'|h']; try reflexivity.
  - cbn [own_ack react]. intros -> _. reflexivity.
  - intros _ Hn. cbn [react]. destruct (Nat.eqb h' h) eqn:E; [|reflexivity]. apply Nat.eqb_eq in E. subst. congruence.
Qed.

Definition on_cancel (h : nat) (p : phase) (e : event) : phase * list out :=
  match e with
  | Cancel h' => if Nat.eqb h' h then (PFin, [Done h RCancelled]) else (p, [])
  | _ => (p, [])
  end.

Lemma react_wait_or h k id subs e :
  react h (PWait k id subs) e =
  if own_ack k id e then react h (PWait k id subs) e else on_cancel h (PWait k id subs) e.
Proof.
  destruct (own_ack k id e) eqn:O; [reflexivity|].
  destruct e as [h' rk i|a|h'|h']; try reflexivity. cbn [own_ack] in O. cbn [react on_cancel]. rewrite O. reflexivity.
Qed.

Lemma react_resum_other h id e : e <> Resume h -> e <> Cancel h -> react h (PResum id) e = (PResum id, []).
Proof.
  intros H H2. destruct e as [h' rk i|a|h'|h']; try reflexivity; cbn [react];
    (destruct (Nat.eqb h' h) eqn:E; [|reflexivity]); apply Nat.eqb_eq in E; subst; congruence.
Qed.

(* after its return a request does nothing more *)
Lemma fin_segment h : forall a c cls, no_start h a -> length cls = length a ->
  spec_run h (PFin, c) a cls = repeat [] (length a).
Proof.
  induction a as [|e r IH]; intros c cls Hn L; destruct cls as [|c' cr]; try discriminate; [reflexivity|].
  assert (Hr : no_start h r) by (intros rk id Hin; apply (Hn rk id); right; exact Hin).
  cbn [spec_run spec_step length repeat]. destruct c.
  - destruct e as [h' rk id|a0|h'|h'].
    + destruct (Nat.eqb h' h) eqn:E.
      * apply Nat.eqb_eq in E. subst. exfalso. apply (Hn rk id). left. reflexivity.
      * rewrite IH; [reflexivity|exact Hr|cbn in L; lia].
    + rewrite IH; [reflexivity|exact Hr|cbn in L; lia].
    + rewrite IH; [reflexivity|exact Hr|cbn in L; lia].
    + rewrite IH; [reflexivity|exact Hr|cbn in L; lia].
  - replace (react h PFin e) with (PFin, @nil out) by (destruct e; reflexivity).
    rewrite IH; [reflexivity|exact Hr|cbn in L; lia].
Qed.

(* ---------- handles are used once ---------- *)
Fixpoint starts (evs : list event) : list nat :=
  match evs with
  | [] => []
  | Start h _ _ :: r => h :: starts r
  | _ :: r => starts r
  end.

Lemma starts_app a b : starts (a ++ b) = starts a ++ starts b.
Proof. induction a as [|e r IH]; [reflexivity|]. destruct e; cbn [app starts]; rewrite IH; reflexivity. Qed.

Lemma in_starts h evs : In h (starts evs) <-> exists rk id, In (Start h rk id) evs.
Proof.
  induction evs as [|e r IH]; [split; [intros []|intros (rk & id & [])]|].
  destruct e as [h' rk' id'|a|h'|h']; cbn [starts In]; rewrite ?IH.
  - split.
    + intros [->|(rk & id & H)]; [exists rk', id'; left; reflexivity|exists rk, id; right; exact H].
    + intros (rk & id & [H|H]); [injection H as -> _ _; left; reflexivity|right; exists rk, id; exact H].
  - split; intros (rk & id & H); exists rk, id; [right; exact H|destruct H as [H|H]; [discriminate|exact H]].
  - split; intros (rk & id & H); exists rk, id; [right; exact H|destruct H as [H|H]; [discriminate|exact H]].
  - split; intros (rk & id & H); exists rk, id; [right; exact H|destruct H as [H|H]; [discriminate|exact H]].
Qed.

Lemma wf_from_starts : forall evs s used, wf_from s used evs = true ->
  NoDup (starts evs) /\ (forall h, In h (starts evs) -> ~ In h used).
Proof.
  induction evs as [|e r IH]; intros s used W; [split; [constructor|intros h []]|].
  apply wf_from_cons in W as [Hok W]. destruct (IH _ _ W) as [ND Hu].
  destruct e as [h rk id|a|h|h]; cbn [starts used_after] in *; [|split; assumption|split; assumption|split; assumption].
  destruct Hok as [Hm _]. split.
  - constructor; [|exact ND]. intros Hin. apply (Hu h Hin). left. reflexivity.
  - intros h' [<-|Hin].
    + intros Hin. apply mem_nat_true in Hin. congruence.
    + intros Hin'. apply (Hu h' Hin). right. exact Hin'.
Qed.

Lemma wf_unique_start evs pre h rk id post : wf evs = true -> evs = pre ++ Start h rk id :: post ->
  no_start h pre /\ no_start h post.
Proof.
  intros W ->. destruct (wf_from_starts _ _ _ W) as [ND _].
  rewrite starts_app in ND. cbn [starts] in ND. apply NoDup_remove_2 in ND.
  split; intros rk' id' Hin; apply ND, in_or_app; [left|right]; apply in_starts; exists rk', id'; exact Hin.
Qed.

Lemma spec_end_app h : forall a st b ca cb, length a = length ca ->
  spec_end h st (a ++ b) (ca ++ cb) = spec_end h (spec_end h st a ca) b cb.
Proof.
  induction a as [|e r IH]; intros st b ca cb L; destruct ca as [|c cr]; try discriminate; [reflexivity|].
  cbn [app spec_end]. apply IH. cbn in L; lia.
Qed.

Lemma repeat_app_len {A} (x : A) n m : repeat x (n + m) = repeat x n ++ repeat x m.
Proof. apply repeat_app. Qed.

(* from the start of the history up to the point where h waits for its first acknowledgement *)
Lemma prefix_to_wait h rk id pre mid :
  no_start h pre -> (forall e, In e mid -> own_ack (first_kind rk) id e = false) ->
  ~ In (Cancel h) mid ->
  let A := pre ++ Start h rk id :: mid in
  spec_run h (PNone, false) A (repeat false (length A)) = repeat [] (length A) /\
  spec_end h (PNone, false) A (repeat false (length A)) = (PWait (first_kind rk) id (subs_of rk), false).
Proof.
  intros Hn Hm Hcn A. unfold A. rewrite app_length. cbn [length].
  rewrite !repeat_app_len. cbn [repeat].
  destruct (idle_segment h PNone pre) as [P1 P2].
  { intros e Hin. apply react_none. intros rk' id' ->. exact (Hn _ _ Hin). }
  destruct (idle_segment h (PWait (first_kind rk) id (subs_of rk)) mid) as [M1 M2].
  { intros e Hin. apply react_wait_other; [exact (Hm e Hin)|intros ->; exact (Hcn Hin)]. }
  rewrite spec_run_app, spec_end_app by (rewrite repeat_length; reflexivity).
  rewrite P1, P2. cbn [spec_run spec_end spec_step react]. rewrite Nat.eqb_refl. cbn [fst].
  rewrite M1, M2. split; reflexivity.
Qed.

Lemma on_ack_result h rk id a : first_kind rk <> KPubRec ->
  on_ack h (first_kind rk) id (subs_of rk) a = (PFin, [Done h (ack_result rk a)]).
Proof.
  destruct rk; cbn [first_kind subs_of on_ack ack_result]; intros H; try reflexivity; try congruence.
  destruct (Nat.eqb (length (a_codes a)) (length subs)); reflexivity.
Qed.

Lemma split_closings (cls : list bool) T : firstn T cls = repeat false T -> cls = repeat false T ++ skipn T cls.
Proof. intros H. rewrite <- H. symmetry. apply firstn_skipn. Qed.

(* Publish QoS 1, Subscribe, Unsubscribe: the request completes exactly at the first
   acknowledgement of its kind carrying its identifier after its Start — nothing before, nothing
   after, whatever else arrives in between — and returns [ack_result]. *)
Theorem completes_at_own_ack evs pre h rk id mid a post :
  wf evs = true ->
  evs = pre ++ Start h rk id :: mid ++ Recv a :: post ->
  first_kind rk <> KPubRec ->
  own_ack (first_kind rk) id (Recv a) = true ->
  (forall e, In e mid -> own_ack (first_kind rk) id e = false) ->
  ~ In (Cancel h) mid ->
  let T := length (pre ++ Start h rk id :: mid) in
  firstn T (closings (run sig_init evs)) = repeat false T ->
  view h (run sig_init evs) = repeat [] T ++ [Done h (ack_result rk a)] :: repeat [] (length post).
Proof.
  intros W E Hk Ha Hm Hcn T Hc. rewrite (refines evs h W).
  destruct (wf_unique_start evs pre h rk id _ W E) as [Np Nq].
  assert (Npost : no_start h post).
  { intros rk' id' Hin. apply (Nq rk' id'). apply in_or_app. right. right. exact Hin. }
  pose proof (split_closings _ _ Hc) as Ec.
  assert (Lc : length (closings (run sig_init evs)) = length evs) by (rewrite closings_length; apply run_length).
  remember (closings (run sig_init evs)) as cls. clear Heqcls.
  destruct (skipn T cls) as [|c cpost] eqn:Es.
  { exfalso. rewrite Ec, app_nil_r, repeat_length in Lc. rewrite E in Lc.
    replace (pre ++ Start h rk id :: mid ++ Recv a :: post) with ((pre ++ Start h rk id :: mid) ++ Recv a :: post) in Lc
      by (rewrite <- app_assoc; reflexivity).
    rewrite app_length in Lc. fold T in Lc. cbn in Lc. lia. }
  rewrite Ec, E.
  replace (pre ++ Start h rk id :: mid ++ Recv a :: post) with ((pre ++ Start h rk id :: mid) ++ Recv a :: post)
    by (rewrite <- app_assoc; reflexivity).
  destruct (prefix_to_wait h rk id pre mid Np Hm Hcn) as [R1 R2]. fold T in R1, R2.
  rewrite spec_run_app by (rewrite repeat_length; reflexivity). rewrite R1, R2.
  f_equal. cbn [spec_run spec_step]. rewrite react_recv.
  cbn [own_ack] in Ha. rewrite Ha. rewrite (on_ack_result h rk id a Hk). f_equal.
  apply fin_segment; [exact Npost|].
  assert (L2 : length (repeat false T ++ c :: cpost) = length evs) by (rewrite <- Ec; exact Lc).
  rewrite E in L2.
  replace (pre ++ Start h rk id :: mid ++ Recv a :: post) with ((pre ++ Start h rk id :: mid) ++ Recv a :: post) in L2
    by (rewrite <- app_assoc; reflexivity).
  unfold T in L2. rewrite ?app_length, ?repeat_length in L2. cbn [length] in L2. rewrite ?app_length in L2. cbn [length] in L2. lia.
Qed.

(* Publish QoS 2: PUBREL is written at the first Resume after the first PUBREC after the Start;
   the request completes exactly at the first PUBCOMP after that — a PUBCOMP (or anything else)
   arriving in m1, m2 changes nothing. *)
Theorem qos2_completes_at_pubcomp evs pre h id m1 a1 m2 m3 a2 post :
  wf evs = true ->
  evs = pre ++ Start h RPub2 id :: m1 ++ Recv a1 :: m2 ++ Resume h :: m3 ++ Recv a2 :: post ->
  own_ack KPubRec id (Recv a1) = true -> own_ack KPubComp id (Recv a2) = true ->
  (forall e, In e m1 -> own_ack KPubRec id e = false) ->
  ~ In (Resume h) m2 ->
  (forall e, In e m3 -> own_ack KPubComp id e = false) ->
  ~ In (Cancel h) (m1 ++ m2 ++ m3) ->
  let T1 := length (pre ++ Start h RPub2 id :: m1) in
  let T3 := (T1 + (S (length m2) + S (length m3)))%nat in
  firstn T3 (closings (run sig_init evs)) = repeat false T3 ->
  view h (run sig_init evs) =
    repeat [] (T1 + S (length m2)) ++ [WPubRel h id] :: repeat [] (length m3)
    ++ [Done h (RSuccess [])] :: repeat [] (length post).
Proof.
  intros W E Ha1 Ha2 Hm1 Hm2 Hm3 Hcn T1 T3 Hc. rewrite (refines evs h W).
  assert (Hc1 : ~ In (Cancel h) m1) by (intros X; apply Hcn; apply in_or_app; left; exact X).
  assert (Hc2 : ~ In (Cancel h) m2) by (intros X; apply Hcn; apply in_or_app; right; apply in_or_app; left; exact X).
  assert (Hc3 : ~ In (Cancel h) m3) by (intros X; apply Hcn; apply in_or_app; right; apply in_or_app; right; exact X).
  destruct (wf_unique_start evs pre h RPub2 id _ W E) as [Np Nq].
  assert (Npost : no_start h post).
  { intros rk' id' Hin. apply (Nq rk' id'). apply in_or_app. right. right.
    apply in_or_app. right. right. apply in_or_app. right. right. exact Hin. }
  pose proof (split_closings _ _ Hc) as Ec.
  assert (Lc : length (closings (run sig_init evs)) = length evs) by (rewrite closings_length; apply run_length).
  remember (closings (run sig_init evs)) as cls. clear Heqcls.
  set (A := pre ++ Start h RPub2 id :: m1) in *.
  assert (E' : evs = A ++ (Recv a1 :: m2) ++ (Resume h :: m3) ++ Recv a2 :: post).
  { rewrite E. unfold A. rewrite <- !app_assoc. reflexivity. }
  assert (Le : length evs = (T3 + S (length post))%nat).
  { rewrite E'. rewrite !app_length. cbn [length]. fold T1. unfold T3. lia. }
  destruct (skipn T3 cls) as [|c cpost] eqn:Es.
  { exfalso. rewrite Ec, app_nil_r, repeat_length in Lc. lia. }
  assert (Lp : length cpost = length post).
  { rewrite Ec, app_length, repeat_length in Lc. cbn [length] in Lc. lia. }
  rewrite Ec, E'. unfold T3. rewrite !repeat_app_len, <- !app_assoc.
  destruct (prefix_to_wait h RPub2 id pre m1 Np Hm1 Hc1) as [R1 R2]. fold A in R1, R2. fold T1 in R1, R2.
  cbn [first_kind subs_of] in R1, R2.
  rewrite spec_run_app by (rewrite repeat_length; reflexivity). rewrite R1, R2.
  f_equal.
  (* PUBREC, then idle until Resume *)
  destruct (idle_segment h (PResum id) m2) as [B1 B2].
  { intros e Hin. apply react_resum_other; intros ->; [exact (Hm2 Hin)|exact (Hc2 Hin)]. }
  rewrite spec_run_app by (cbn [length repeat]; rewrite repeat_length; reflexivity).
  assert (S1 : spec_step h (PWait KPubRec id [], false) (Recv a1) false = ((PResum id, false), [])).
  { cbn [spec_step]. rewrite react_recv. cbn [own_ack] in Ha1. rewrite Ha1. reflexivity. }
  cbn [repeat spec_run spec_end]. rewrite S1. cbn [fst]. rewrite B1, B2.
  cbn [app]. f_equal. f_equal.
  (* Resume: PUBREL, then idle until PUBCOMP *)
  destruct (idle_segment h (PWait KPubComp id []) m3) as [C1 C2].
  { intros e Hin. apply react_wait_other; [exact (Hm3 e Hin)|intros ->; exact (Hc3 Hin)]. }
  assert (S2 : spec_step h (PResum id, false) (Resume h) false = ((PWait KPubComp id [], false), [WPubRel h id])).
  { cbn [spec_step react]. rewrite Nat.eqb_refl. reflexivity. }
  cbn [spec_run]. rewrite S2. f_equal.
  rewrite spec_run_app by (rewrite repeat_length; reflexivity). rewrite C1, C2. f_equal.
  (* PUBCOMP *)
  cbn [spec_run spec_step]. rewrite react_recv. cbn [own_ack] in Ha2. rewrite Ha2. cbn [on_ack].
  f_equal. apply fin_segment; [exact Npost|exact Lp].
Qed.

(* ================= safety: success only on the own acknowledgement ================= *)
(* what the phase of h tells about the history so far *)
Definition hist (h : nat) (pre : list event) (p : phase) : Prop :=
  match p with
  | PNone | PFin => True
  | PWait k id subs =>
      (exists p0 rk, nth_error pre p0 = Some (Start h rk id) /\ first_kind rk = k /\ subs_of rk = subs)
      \/ (k = KPubComp /\ subs = [] /\ exists p0 t1 t2, (p0 < t1)%nat /\ (t1 < t2)%nat /\
            nth_error pre p0 = Some (Start h RPub2 id) /\ is_ack KPubRec id (nth_error pre t1) /\
            nth_error pre t2 = Some (Resume h))
  | PResum id =>
      exists p0 t1, (p0 < t1)%nat /\ nth_error pre p0 = Some (Start h RPub2 id) /\
        is_ack KPubRec id (nth_error pre t1)
  end.

Lemma nth_error_snoc_old {A} (l : list A) x i y : nth_error l i = Some y -> nth_error (l ++ [x]) i = Some y.
Proof. intros H. rewrite nth_error_app1; [exact H|]. apply nth_error_Some. congruence. Qed.

Lemma nth_error_snoc_new {A} (l : list A) x : nth_error (l ++ [x]) (length l) = Some x.
Proof. rewrite nth_error_app2 by lia. rewrite Nat.sub_diag. reflexivity. Qed.

Lemma is_ack_snoc k id pre e i : is_ack k id (nth_error pre i) -> is_ack k id (nth_error (pre ++ [e]) i).
Proof. intros (a & E & K & I). exists a. split; [apply nth_error_snoc_old; exact E|auto]. Qed.

Lemma hist_mono h pre e p : hist h pre p -> hist h (pre ++ [e]) p.
Proof.
  destruct p as [|k id subs|id|]; cbn [hist]; auto.
  - intros [(p0 & rk & E & K & S)|(K & S & p0 & t1 & t2 & L1 & L2 & E0 & E1 & E2)].
    + left. exists p0, rk. split; [apply nth_error_snoc_old; exact E|auto].
    + right. split; [exact K|]. split; [exact S|]. exists p0, t1, t2.
      repeat split; auto using nth_error_snoc_old, is_ack_snoc.
  - intros (p0 & t1 & L & E0 & E1). exists p0, t1. repeat split; auto using nth_error_snoc_old, is_ack_snoc.
Qed.

Lemma nth_error_lt {A} (l : list A) i x : nth_error l i = Some x -> (i < length l)%nat.
Proof. intros H. apply nth_error_Some. congruence. Qed.

Lemma is_ack_lt k id (l : list event) i : is_ack k id (nth_error l i) -> (i < length l)%nat.
Proof. intros (a & E & _). exact (nth_error_lt _ _ _ E). Qed.

Lemma hist_step h pre p cl e c : hist h pre p ->
  hist h (pre ++ [e]) (fst (fst (spec_step h (p, cl) e c))).
Proof.
  intros H. cbn [spec_step]. destruct cl.
  - destruct e as [h' rk id|a|h'|h']; try (apply hist_mono; exact H).
    destruct (Nat.eqb h' h); [exact Logic.I|apply hist_mono; exact H].
  - destruct (react h p e) as [p' o] eqn:R. cbn [fst].
    destruct p as [|k id subs|id|].
    + destruct e as [h' rk id|a|h'|h']; cbn [react] in R; try (injection R as <- _; exact Logic.I).
      destruct (Nat.eqb h' h) eqn:E; injection R as <- _; [|exact Logic.I].
      apply Nat.eqb_eq in E. subst h'. left. exists (length pre), rk. split; [apply nth_error_snoc_new|auto].
    + rewrite react_wait_or in R. destruct (own_ack k id e) eqn:O.
      * destruct e as [h' rk i|a|h'|h']; try discriminate. cbn [own_ack] in O.
        apply key_eqb_true in O as [Ka Ia]. rewrite react_recv in R.
        replace (akind_eqb (a_kind a) k && (a_id a =? id)) with true in R by (symmetry; apply key_eqb_true; auto).
        destruct k; cbn [on_ack] in R;
          try (injection R as <- _; exact Logic.I);
          try (destruct (Nat.eqb (length (a_codes a)) (length subs)); injection R as <- _; exact Logic.I).
        injection R as <- _. cbn [hist].
        destruct H as [(p0 & rk & E0 & K & S)|(K & _)]; [|discriminate].
        destruct rk; try discriminate. exists p0, (length pre).
        split; [exact (nth_error_lt _ _ _ E0)|]. split; [apply nth_error_snoc_old; exact E0|].
        exists a. split; [apply nth_error_snoc_new|auto].
      * destruct e as [h' rk i|a|h'|h']; cbn [on_cancel] in R; try (injection R as <- _; apply hist_mono; exact H).
        destruct (Nat.eqb h' h); injection R as <- _; [exact Logic.I|apply hist_mono; exact H].
    + destruct e as [h' rk i|a|h'|h']; cbn [react] in R; try (injection R as <- _; apply hist_mono; exact H).
      * destruct (Nat.eqb h' h) eqn:E; injection R as <- _; [|apply hist_mono; exact H].
        apply Nat.eqb_eq in E. subst h'. destruct H as (p0 & t1 & L & E0 & E1).
        right. split; [reflexivity|]. split; [reflexivity|]. exists p0, t1, (length pre).
        split; [exact L|]. split; [exact (is_ack_lt _ _ _ _ E1)|].
        split; [apply nth_error_snoc_old; exact E0|]. split; [apply is_ack_snoc; exact E1|apply nth_error_snoc_new].
      * destruct (Nat.eqb h' h); injection R as <- _; [exact Logic.I|apply hist_mono; exact H].
    + replace p' with PFin by (destruct e; cbn [react] in R; congruence). exact Logic.I.
Qed.

Lemma nth_error_app_old {A} (l r : list A) i y : nth_error l i = Some y -> nth_error (l ++ r) i = Some y.
Proof. intros H. rewrite nth_error_app1; [exact H|]. exact (nth_error_lt _ _ _ H). Qed.

Lemma nth_error_app_here {A} (l r : list A) x : nth_error (l ++ x :: r) (length l) = Some x.
Proof. rewrite nth_error_app2 by lia. rewrite Nat.sub_diag. reflexivity. Qed.

Lemma is_ack_app k id pre r i : is_ack k id (nth_error pre i) -> is_ack k id (nth_error (pre ++ r) i).
Proof. intros (a & E & K & I). exists a. split; [apply nth_error_app_old; exact E|auto]. Qed.

Lemma success_at_step h pre p cl e c r g :
  hist h pre p -> In (Done h (RSuccess g)) (snd (spec_step h (p, cl) e c)) ->
  justified (pre ++ e :: r) h g (length pre).
Proof.
  intros H Hin. cbn [spec_step] in Hin. destruct cl.
  { destruct e as [h' rk id|a|h'|h']; try contradiction.
    destruct (Nat.eqb h' h); [destruct Hin as [Hin|[]]; discriminate|contradiction]. }
  destruct (react h p e) as [p' o] eqn:R. cbn [snd] in Hin.
  destruct p as [|k id subs|id|].
  - destruct e as [h' rk id|a|h'|h']; cbn [react] in R; try (injection R as _ <-; contradiction).
    destruct (Nat.eqb h' h); injection R as _ <-; contradiction.
  - rewrite react_wait_or in R. destruct (own_ack k id e) eqn:O.
    2:{ destruct e as [h' rk i|a|h'|h']; cbn [on_cancel] in R; try (injection R as _ <-; contradiction).
        destruct (Nat.eqb h' h); injection R as _ <-; [|contradiction].
        destruct Hin as [Hin|[]]. discriminate. }
    destruct e as [h' rk i|a|h'|h']; try discriminate. cbn [own_ack] in O.
    apply key_eqb_true in O as [Ka Ia]. rewrite react_recv in R.
    replace (akind_eqb (a_kind a) k && (a_id a =? id)) with true in R by (symmetry; apply key_eqb_true; auto).
    assert (Hack : forall k', a_kind a = k' -> is_ack k' id (nth_error (pre ++ Recv a :: r) (length pre))).
    { intros k' Kk. exists a. split; [apply nth_error_app_here|auto]. }
    destruct k; cbn [on_ack] in R.
    + (* PUBACK *) injection R as _ <-. destruct Hin as [Hin|[]]. injection Hin as <-.
      destruct H as [(p0 & rk & E0 & K & S)|(K & _)]; [|discriminate].
      destruct rk; try discriminate. exists p0, RPub1, id.
      split; [exact (nth_error_lt _ _ _ E0)|]. split; [apply nth_error_app_old; exact E0|]. split; auto.
    + (* PUBREC *) injection R as _ <-. contradiction.
    + (* PUBCOMP *) injection R as _ <-. destruct Hin as [Hin|[]]. injection Hin as <-.
      destruct H as [(p0 & rk & E0 & K & S)|(_ & _ & p0 & t1 & t2 & L1 & L2 & E0 & E1 & E2)].
      { destruct rk; discriminate. }
      exists p0, RPub2, id. split; [pose proof (nth_error_lt _ _ _ E2); lia|].
      split; [apply nth_error_app_old; exact E0|]. split; [reflexivity|]. split; [auto|].
      exists t1, t2. repeat split; auto using nth_error_app_old, is_ack_app.
      exact (nth_error_lt _ _ _ E2).
    + (* SUBACK *)
      destruct (Nat.eqb (length (a_codes a)) (length subs)) eqn:L; injection R as _ <-;
        destruct Hin as [Hin|[]]; [|discriminate]. injection Hin as <-.
      destruct H as [(p0 & rk & E0 & K & S)|(K & _)]; [|discriminate].
      destruct rk as [| |subs'|]; try discriminate. cbn [subs_of] in S. subst subs'.
      exists p0, (RSub subs), id.
      split; [exact (nth_error_lt _ _ _ E0)|]. split; [apply nth_error_app_old; exact E0|].
      exists a. split; [apply nth_error_app_here|]. apply Nat.eqb_eq in L. auto.
    + (* UNSUBACK *) injection R as _ <-. destruct Hin as [Hin|[]]. injection Hin as <-.
      destruct H as [(p0 & rk & E0 & K & S)|(K & _)]; [|discriminate].
      destruct rk; try discriminate. exists p0, RUnsub, id.
      split; [exact (nth_error_lt _ _ _ E0)|]. split; [apply nth_error_app_old; exact E0|]. split; auto.
  - destruct e as [h' rk i|a|h'|h']; cbn [react] in R; try (injection R as _ <-; contradiction);
      (destruct (Nat.eqb h' h); injection R as _ <-; [|contradiction]);
      destruct Hin as [Hin|[]]; discriminate.
  - replace o with (@nil out) in Hin by (destruct e; cbn [react] in R; congruence). contradiction.
Qed.

Lemma spec_success_hist h : forall evs cls pre st t g,
  hist h pre (fst st) ->
  In (Done h (RSuccess g)) (nth t (spec_run h st evs cls) []) ->
  justified (pre ++ evs) h g (length pre + t).
Proof.
  induction evs as [|e r IH]; intros cls pre st t g H Hin.
  { destruct t; contradiction. }
  destruct cls as [|c cr]; [destruct t; contradiction|].
  destruct st as [p cl]. cbn [fst] in H. cbn [spec_run] in Hin.
  destruct (spec_step h (p, cl) e c) as [st' o] eqn:Est.
  destruct t as [|t'].
  - cbn [nth] in Hin. rewrite Nat.add_0_r. apply (success_at_step h pre p cl e c r g H). rewrite Est. exact Hin.
  - cbn [nth] in Hin. pose proof (hist_step h pre p cl e c H) as H'. rewrite Est in H'. cbn [fst] in H'.
    pose proof (IH cr (pre ++ [e]) st' t' g H' Hin) as J.
    rewrite <- app_assoc in J. cbn [app] in J. rewrite app_length in J. cbn [length] in J.
    replace (length pre + S t')%nat with (length pre + 1 + t')%nat by lia. exact J.
Qed.

(* A request returns success only at the acknowledgement that belongs to it: *)
Theorem success_only_on_own_ack evs h g t : wf evs = true ->
  In (Done h (RSuccess g)) (nth t (run sig_init evs) []) -> justified evs h g t.
Proof.
  intros W Hin.
  assert (Hv : In (Done h (RSuccess g)) (nth t (view h (run sig_init evs)) [])).
  { unfold view. destruct (Nat.lt_ge_cases t (length (run sig_init evs))) as [L|L].
    - rewrite (nth_indep _ _ (filter (concerns h) []) ) by (rewrite map_length; exact L).
      rewrite (map_nth (filter (concerns h))). apply filter_In. split; [exact Hin|]. cbn. apply Nat.eqb_refl.
    - rewrite nth_overflow in Hin by exact L. contradiction. }
  rewrite (refines evs h W) in Hv.
  exact (spec_success_hist h evs _ [] (PNone, false) t g Logic.I Hv).
Qed.

(* ---------- QoS 2 order ---------- *)
Lemma unique_start_pos pre h rk id post p rk' id' :
  no_start h pre -> no_start h post ->
  nth_error (pre ++ Start h rk id :: post) p = Some (Start h rk' id') ->
  p = length pre /\ rk' = rk /\ id' = id.
Proof.
  intros Np Nq E. destruct (Nat.lt_trichotomy p (length pre)) as [L|[L|L]].
  - rewrite nth_error_app1 in E by exact L. apply nth_error_In in E. exfalso. exact (Np _ _ E).
  - subst p. rewrite nth_error_app_here in E. injection E as -> ->. auto.
  - rewrite nth_error_app2 in E by lia. destruct (p - length pre)%nat as [|q] eqn:Q; [lia|].
    cbn [nth_error] in E. apply nth_error_In in E. exfalso. exact (Nq _ _ E).
Qed.

(* Before its PUBREC has arrived, no PUBCOMP (nor anything else) completes a QoS 2 publish. *)
Theorem qos2_not_before_pubrec evs pre h id m1 :
  wf evs = true -> evs = pre ++ Start h RPub2 id :: m1 ->
  (forall e, In e m1 -> own_ack KPubRec id e = false) ->
  forall t g, ~ In (Done h (RSuccess g)) (nth t (run sig_init evs) []).
Proof.
  intros W E Hm t g Hin.
  destruct (wf_unique_start evs pre h RPub2 id m1 W E) as [Np Nq].
  destruct (success_only_on_own_ack evs h g t W Hin) as (p & rk & i & L & Es & J).
  rewrite E in Es. destruct (unique_start_pos _ _ _ _ _ _ _ _ Np Nq Es) as (-> & -> & ->).
  destruct J as (_ & _ & t1 & t2 & L1 & _ & _ & (a & Ea & Ka & Ia) & _).
  rewrite E in Ea. rewrite nth_error_app2 in Ea by lia.
  destruct (t1 - length pre)%nat as [|q] eqn:Q; [lia|]. cbn [nth_error] in Ea.
  apply nth_error_In in Ea. specialize (Hm _ Ea). cbn [own_ack] in Hm.
  rewrite Ka, Ia, N.eqb_refl in Hm. discriminate.
Qed.

(* ================= acknowledgements that belong to nobody / to somebody else ================= *)
(* no waiter under (kind, id): the reader drops the acknowledgement, nothing changes *)
Lemma unawaited_step s a : wm_has (smap s (a_kind a)) (a_id a) = false -> step s (Recv a) = (s, []).
Proof.
  unfold wm_has. intros H. cbn [step]. destruct (closed s); [reflexivity|]. unfold take.
  destruct (wm_get (smap s (a_kind a)) (a_id a)) eqn:G; [discriminate|].
  rewrite (wm_del_absent _ _ G), with_map_id. reflexivity.
Qed.

Lemma firstn_app_exact {A} (a b : list A) n : length a = n -> firstn n (a ++ b) = a.
Proof. intros <-. rewrite firstn_app, Nat.sub_diag, firstn_all. cbn. apply app_nil_r. Qed.

Lemma skipn_app_exact {A} (a b : list A) n : length a = n -> skipn n (a ++ b) = b.
Proof. intros <-. rewrite skipn_app, Nat.sub_diag, skipn_all. reflexivity. Qed.

(* An acknowledgement for which no waiter is registered (other identifier, other kind,
   duplicate, unsolicited) is inert: the run is the run without it, with an empty output
   inserted at its position. No hypothesis on the history. *)
Theorem unawaited_ack_inert e1 a e2 :
  wm_has (smap (state_after sig_init e1) (a_kind a)) (a_id a) = false ->
  let R := run sig_init (e1 ++ e2) in
  run sig_init (e1 ++ Recv a :: e2) = firstn (length e1) R ++ [] :: skipn (length e1) R.
Proof.
  intros H R. unfold R. rewrite !run_app.
  rewrite firstn_app_exact, skipn_app_exact by apply run_length.
  cbn [run state_after]. rewrite (unawaited_step _ _ H). reflexivity.
Qed.

(* phases of the one-request automaton after a closing-free history *)
Definition phase_after (h : nat) (evs : list event) : phase :=
  fold_left (fun p e => fst (react h p e)) evs PNone.

Lemma closed_mono : forall evs s, closed s = true -> closed (state_after s evs) = true.
Proof.
  induction evs as [|e r IH]; intros s H; [exact H|]. cbn [state_after]. apply IH.
  exact (proj1 (step_closed s e H)).
Qed.

Lemma inv_after : forall evs s f used, Inv s f used -> closed s = false -> wf_from s used evs = true ->
  closed (state_after s evs) = false ->
  exists used', Inv (state_after s evs) (fun h => fold_left (fun p e => fst (react h p e)) evs (f h)) used'.
Proof.
  induction evs as [|e r IH]; intros s f used I Hc W Hc'; [exists used; exact I|].
  apply wf_from_cons in W as [Hok W].
  destruct (step_sim s f used e Hc I Hok) as (_ & _ & I').
  cbn [state_after fold_left] in *.
  destruct (closed (fst (step s e))) eqn:C.
  - rewrite (closed_mono r _ C) in Hc'. discriminate.
  - exact (IH _ (adv f e) _ (I' eq_refl) C W Hc').
Qed.

(* what "a caller is blocked waiting for (kind, id)" ([awaited]: a waiter is registered under
   that key and its caller has not given up) means in terms of the history *)
Theorem awaited_iff_waiting evs k id : wf evs = true -> closed (state_after sig_init evs) = false ->
  (awaited (state_after sig_init evs) k id = true <-> exists h subs, phase_after h evs = PWait k id subs).
Proof.
  intros W Hc. destruct (inv_after evs sig_init (fun _ => PNone) [] Inv_init eq_refl W Hc) as [u I].
  unfold awaited, phase_after. split.
  - destruct (wm_get (smap (state_after sig_init evs) k) id) as [w|] eqn:G; [|discriminate].
    intros L. apply mem_nat_true in L. exists (w_h w), (w_subs w). exact (live_entry _ _ _ _ _ _ I G L).
  - intros (h & subs & P). rewrite (inv_wait _ _ _ I _ _ _ _ P). cbn [w_h]. apply mem_nat_true.
    apply (inv_live _ _ _ I). unfold phase_after in P. rewrite P. apply is_wait_PWait.
Qed.

(* An acknowledgement nobody is blocked waiting for — no entry, or the stale entry of a request
   that gave up (its late acknowledgement) — completes nobody: the event has no output at all. *)
Lemma unawaited_no_output_step s a : awaited s (a_kind a) (a_id a) = false -> snd (step s (Recv a)) = [].
Proof.
  unfold awaited. intros H. cbn [step]. destruct (closed s); [reflexivity|]. unfold take.
  destruct (wm_get (smap s (a_kind a)) (a_id a)) as [w|]; [|reflexivity].
  rewrite live_with_map, H. reflexivity.
Qed.

Theorem late_ack_completes_nobody e1 a e2 :
  awaited (state_after sig_init e1) (a_kind a) (a_id a) = false ->
  nth (length e1) (run sig_init (e1 ++ Recv a :: e2)) [] = [].
Proof.
  intros H. rewrite run_app, app_nth2 by (rewrite run_length; lia).
  rewrite run_length, Nat.sub_diag. cbn [run].
  pose proof (unawaited_no_output_step _ _ H) as O.
  destruct (step (state_after sig_init e1) (Recv a)) as [s' o]. cbn [snd] in O. subst o. reflexivity.
Qed.

(* ---------- an acknowledgement that belongs to somebody else ---------- *)
Definition no_close (outs : list (list out)) : Prop := closings outs = repeat false (length outs).

(* a is not an acknowledgement of request h: other identifier, or a kind h never waits for *)
Definition foreign_to (h : nat) (evs : list event) (a : ack) : Prop :=
  forall rk id, In (Start h rk id) evs -> a_id a <> id \/ ~ In (a_kind a) (chain rk).

Lemma hist_end h : forall evs cls pre st, hist h pre (fst st) -> hist h (pre ++ evs) (fst (spec_end h st evs cls)).
Proof.
  induction evs as [|e r IH]; intros cls pre st H; [rewrite app_nil_r; exact H|].
  destruct cls as [|c cr]; [cbn [spec_end]|].
  - clear IH. revert pre H. induction (e :: r) as [|x l IHl]; intros pre H; [rewrite app_nil_r; exact H|].
    replace (pre ++ x :: l) with ((pre ++ [x]) ++ l) by (rewrite <- app_assoc; reflexivity).
    apply IHl. apply hist_mono. exact H.
  - cbn [spec_end]. destruct st as [p cl].
    replace (pre ++ e :: r) with ((pre ++ [e]) ++ r) by (rewrite <- app_assoc; reflexivity).
    apply IH. apply hist_step. exact H.
Qed.

Lemma spec_end_false h : forall evs p, snd (spec_end h (p, false) evs (repeat false (length evs))) = false.
Proof.
  induction evs as [|e r IH]; intros p; [reflexivity|].
  cbn [length repeat spec_end spec_step]. destruct (react h p e) as [p' o]. cbn [fst]. apply IH.
Qed.

Lemma spec_run_length h : forall evs st cls, length cls = length evs -> length (spec_run h st evs cls) = length evs.
Proof.
  induction evs as [|e r IH]; intros st cls L; destruct cls as [|c cr]; try discriminate; [reflexivity|].
  cbn [spec_run]. destruct (spec_step h st e c). cbn [length]. rewrite IH; [reflexivity|cbn in L; lia].
Qed.

Lemma foreign_ignored h evs a p : foreign_to h evs a -> hist h evs p -> react h p (Recv a) = (p, []).
Proof.
  intros F H. rewrite react_recv. destruct p as [|k id subs|id|]; try reflexivity.
  destruct (akind_eqb (a_kind a) k && (a_id a =? id)) eqn:K; [|reflexivity].
  apply key_eqb_true in K as [Ka Ia]. exfalso. cbn [hist] in H.
  destruct H as [(p0 & rk & E0 & Kk & S)|(Kk & _ & p0 & t1 & t2 & _ & _ & E0 & _)].
  - apply nth_error_In in E0. destruct (F _ _ E0) as [N|N]; [congruence|].
    apply N. rewrite Ka, <- Kk. destruct rk; cbn; auto.
  - apply nth_error_In in E0. destruct (F _ _ E0) as [N|N]; [congruence|].
    apply N. rewrite Ka, Kk. cbn. auto.
Qed.

(* An acknowledgement that is not h's (it may well be the genuine acknowledgement of another
   request) neither completes nor disturbs h: h's outputs with it are h's outputs without it,
   with an empty output inserted at its position. *)
Theorem foreign_ack_inert h e1 a e2 :
  wf (e1 ++ Recv a :: e2) = true -> wf (e1 ++ e2) = true ->
  no_close (run sig_init (e1 ++ Recv a :: e2)) -> no_close (run sig_init (e1 ++ e2)) ->
  foreign_to h e1 a ->
  let V := view h (run sig_init (e1 ++ e2)) in
  view h (run sig_init (e1 ++ Recv a :: e2)) = firstn (length e1) V ++ [] :: skipn (length e1) V.
Proof.
  intros W1 W2 C1 C2 F V. unfold V. rewrite (refines _ h W1), (refines _ h W2).
  unfold no_close in C1, C2. rewrite C1, C2, !run_length, !app_length. cbn [length].
  replace (length e1 + S (length e2))%nat with (length e1 + (1 + length e2))%nat by lia.
  rewrite !repeat_app_len. cbn [repeat app].
  rewrite !spec_run_app by (rewrite repeat_length; reflexivity).
  rewrite firstn_app_exact, skipn_app_exact
    by (apply spec_run_length; rewrite repeat_length; reflexivity).
  f_equal. cbn [spec_run].
  destruct (spec_end h (PNone, false) e1 (repeat false (length e1))) as [p1 c1] eqn:E.
  assert (Hc1 : c1 = false).
  { pose proof (spec_end_false h e1 PNone) as X. rewrite E in X. exact X. }
  subst c1.
  assert (H1 : hist h e1 p1).
  { pose proof (hist_end h e1 (repeat false (length e1)) [] (PNone, false) Logic.I) as X.
    rewrite E in X. exact X. }
  cbn [spec_step]. rewrite (foreign_ignored h e1 a p1 F H1). reflexivity.
Qed.

(* ================= outside the hypothesis: two outstanding requests share kind and id ================= *)
(* (the consequence of finding F13: identifiers are reused after 65,535 allocations) *)
Definition absent (s : sig) (h : nat) : Prop :=
  (forall k id w, wm_get (smap s k) id = Some w -> w_h w <> h) /\ (forall id, ~ In (h, id) (resum s)).

Lemma absent_with_live s l h : absent s h -> absent (with_live s l) h.
Proof.
  intros [A1 A2]. split; [intros k id w; rewrite smap_with_live; apply A1|exact A2].
Qed.

Definition only_cancel (h : nat) (os : list out) : Prop :=
  forall o, In o os -> concerns h o = true -> o = Done h RCancelled.

Lemma only_cancel_nil h : only_cancel h [].
Proof. intros o []. Qed.

Lemma only_cancel_other h h' r : h' <> h -> only_cancel h [Done h' r].
Proof.
  intros Hn o [<-|[]] C. cbn in C. apply Nat.eqb_eq in C. congruence.
Qed.

Lemma absent_step s h e : absent s h -> (forall rk id, e <> Start h rk id) ->
  absent (fst (step s e)) h /\ only_cancel h (snd (step s e)).
Proof.
  intros [A1 A2] Hn. destruct e as [h' rk id|a|h'|h'].
  - assert (Hh : h' <> h) by (intros ->; exact (Hn rk id eq_refl)).
    cbn [step].
    assert (X : absent (register s (first_kind rk) id (mkW h' (subs_of rk))) h).
    { split.
      - intros k i w. rewrite get_register. destruct (akind_eqb k (first_kind rk) && (i =? id)).
        + intros [= <-]. exact Hh.
        + apply A1.
      - intros i. unfold register. rewrite resum_with_map. apply A2. }
    destruct (closed s); cbn [fst snd].
    + split; [exact X|apply only_cancel_other; exact Hh].
    + split; [apply absent_with_live; exact X|apply only_cancel_nil].
  - cbn [step]. destruct (closed s); [split; [split; assumption|apply only_cancel_nil]|].
    assert (X : absent (snd (take s (a_kind a) (a_id a))) h).
    { split.
      - intros k i w. rewrite get_take. destruct (akind_eqb k (a_kind a) && (i =? a_id a)); [discriminate|apply A1].
      - intros i. unfold take. cbn [snd]. rewrite resum_with_map. apply A2. }
    unfold take in *. cbn [snd] in X.
    destruct (wm_get (smap s (a_kind a)) (a_id a)) as [w|] eqn:G; [|split; [exact X|apply only_cancel_nil]].
    pose proof (A1 _ _ _ G) as Hw.
    destruct (negb (mem_nat (w_h w) (live (with_map s (a_kind a) (wm_del (smap s (a_kind a)) (a_id a))))));
      [split; [exact X|apply only_cancel_nil]|].
    pose proof (absent_with_live _ (lv_del (live (with_map s (a_kind a) (wm_del (smap s (a_kind a)) (a_id a)))) (w_h w)) _ X) as X'.
    destruct (a_kind a) eqn:K; cbn [fst snd]; try (split; [exact X'|apply only_cancel_other; exact Hw]).
    + split; [|apply only_cancel_nil]. destruct X' as [X1 X2]. split.
      * intros k i w'. rewrite smap_with_resum. apply X1.
      * intros i. cbn [resum with_resum]. rewrite in_app_iff. intros [Hin|[Hin|[]]]; [exact (X2 _ Hin)|].
        injection Hin as E _. exact (Hw E).
    + destruct (Nat.eqb (length (a_codes a)) (length (w_subs w))); cbn [fst snd].
      * split; [exact X'|apply only_cancel_other; exact Hw].
      * split; [split; [intros k i w'; rewrite smap_with_closed; apply (proj1 X')|intros i; apply (proj2 X')]|].
        intros o [<-|[<-|[]]] C; [cbn in C; apply Nat.eqb_eq in C; congruence|discriminate].
  - cbn [step]. destruct (closed s); [split; [split; assumption|apply only_cancel_nil]|].
    destruct (rs_get (resum s) h') as [id|] eqn:R; [|split; [split; assumption|apply only_cancel_nil]].
    assert (Hh : h' <> h).
    { intros ->. apply rs_get_in in R. exact (A2 _ R). }
    cbn [fst snd]. split.
    + apply absent_with_live. split.
      * intros k i w. rewrite get_register, smap_with_resum.
        destruct (akind_eqb k KPubComp && (i =? id)); [intros [= <-]; exact Hh|apply A1].
      * intros i. unfold register. rewrite resum_with_map. cbn [resum with_resum].
        rewrite rs_del_in. intros [Hin _]. exact (A2 _ Hin).
    + intros o [<-|[]] C. cbn in C. apply Nat.eqb_eq in C. congruence.
  - cbn [step]. destruct (closed s); [split; [split; assumption|apply only_cancel_nil]|].
    destruct (mem_nat h' (live s)); cbn [fst snd].
    + split; [apply absent_with_live; split; assumption|].
      intros o [<-|[]] C. cbn in C. apply Nat.eqb_eq in C. subst. reflexivity.
    + destruct (rs_get (resum s) h') as [id|] eqn:R; cbn [fst snd]; [|split; [split; assumption|apply only_cancel_nil]].
      split.
      * split; [intros k i w; rewrite smap_with_resum; apply A1|].
        intros i. cbn [resum with_resum]. rewrite rs_del_in. intros [Hin _]. exact (A2 _ Hin).
      * intros o [<-|[]] C. cbn in C. apply Nat.eqb_eq in C. subst. reflexivity.
Qed.

Lemma absent_run h : forall evs s, absent s h -> no_start h evs ->
  forall t, only_cancel h (nth t (run s evs) []).
Proof.
  induction evs as [|e r IH]; intros s A Hn t; [destruct t; apply only_cancel_nil|].
  destruct (absent_step s h e A) as [A' O].
  { intros rk id ->. apply (Hn rk id). left. reflexivity. }
  cbn [run]. destruct (step s e) as [s' o'] eqn:E. cbn [fst snd] in *.
  destruct t as [|t']; cbn [nth]; [exact O|].
  apply (IH s' A').
  intros rk id H. apply (Hn rk id). right. exact H.
Qed.

Lemma step_start_open s h rk id : closed s = false ->
  step s (Start h rk id) =
  (let s1 := register s (first_kind rk) id (mkW h (subs_of rk)) in with_live s1 (h :: live s1), []).
Proof. intros H. cbn [step]. rewrite H. reflexivity. Qed.

Lemma closed_register s k id w : closed (register s k id w) = closed s.
Proof. unfold register. apply closed_with_map. Qed.

(* If a second request registers under the kind and identifier of one that is still
   outstanding, the first waiter is overwritten: the first request never returns on an
   acknowledgement, whatever arrives later (its own acknowledgement included) — the only way
   it ever returns is by giving up (its context). *)
Theorem shared_id_first_never_completes h1 h2 rk1 rk2 id post :
  h1 <> h2 -> first_kind rk1 = first_kind rk2 -> no_start h1 post ->
  forall t r, In (Done h1 r) (nth t (run sig_init (Start h1 rk1 id :: Start h2 rk2 id :: post)) []) ->
  r = RCancelled.
Proof.
  intros Hh Hk Hn t r Hin.
  assert (A : absent (state_after sig_init [Start h1 rk1 id; Start h2 rk2 id]) h1).
  { cbn [state_after]. rewrite (step_start_open sig_init) by reflexivity. cbn [fst].
    rewrite step_start_open by (rewrite closed_with_live, closed_register; reflexivity). cbn [fst].
    apply absent_with_live. split.
    - intros k i w. rewrite get_register, smap_with_live, get_register. rewrite Hk.
      destruct (akind_eqb k (first_kind rk2) && (i =? id)).
      + intros [= <-]. cbn. congruence.
      + destruct k; discriminate.
    - intros i. unfold register. rewrite resum_with_map. cbn [resum with_live]. rewrite resum_with_map. intros []. }
  assert (R2 : run sig_init [Start h1 rk1 id; Start h2 rk2 id] = [[]; []]).
  { cbn [run]. rewrite (step_start_open sig_init) by reflexivity.
    rewrite step_start_open by (rewrite closed_with_live, closed_register; reflexivity). reflexivity. }
  change (Start h1 rk1 id :: Start h2 rk2 id :: post) with ([Start h1 rk1 id; Start h2 rk2 id] ++ post) in Hin.
  rewrite run_app, R2 in Hin.
  destruct t as [|[|t]]; try (cbn in Hin; contradiction).
  cbn [app nth] in Hin.
  pose proof (absent_run h1 post _ A Hn t _ Hin) as C.
  assert (E : Done h1 r = Done h1 RCancelled) by (apply C; cbn; apply Nat.eqb_refl).
  congruence.
Qed.

(* ================= SUBACK return codes ================= *)
Lemma grant_spec : forall subs codes, length codes = length subs ->
  map fst (grant subs codes) = map fst subs /\ map snd (grant subs codes) = codes.
Proof.
  induction subs as [|[t q] sr IH]; intros [|c cr] L; try discriminate; [split; reflexivity|].
  cbn [grant map fst snd]. destruct (IH cr) as [I1 I2]; [cbn in L; lia|]. rewrite I1, I2. split; reflexivity.
Qed.

Lemma closed_step s e : closed (fst (step s e)) = closed s || existsb is_closed (snd (step s e)).
Proof.
  destruct e as [h rk id|a|h|h]; cbn [step].
  - destruct (closed s) eqn:C; cbn [fst snd]; rewrite ?closed_with_live, closed_register, C; reflexivity.
  - destruct (closed s) eqn:C; [cbn; exact C|]. unfold take.
    destruct (wm_get (smap s (a_kind a)) (a_id a)) as [w|]; [|cbn [fst snd]; rewrite closed_with_map, C; reflexivity].
    destruct (negb (mem_nat (w_h w) (live (with_map s (a_kind a) (wm_del (smap s (a_kind a)) (a_id a))))));
      [cbn [fst snd]; rewrite closed_with_map, C; reflexivity|].
    destruct (a_kind a); cbn [fst snd]; try (rewrite closed_with_live, closed_with_map, C; reflexivity).
    + cbn. exact C.
    + destruct (Nat.eqb (length (a_codes a)) (length (w_subs w))); cbn [fst snd];
        [rewrite closed_with_live, closed_with_map, C|]; reflexivity.
  - destruct (closed s) eqn:C; [cbn; exact C|].
    destruct (rs_get (resum s) h); cbn [fst snd];
      [rewrite closed_with_live, closed_register; cbn; exact C|cbn; rewrite C; reflexivity].
  - destruct (closed s) eqn:C; [cbn; exact C|].
    destruct (mem_nat h (live s)); [cbn; exact C|].
    destruct (rs_get (resum s) h); cbn; exact C.
Qed.

Lemma open_after : forall evs s, closed s = false ->
  closings (run s evs) = repeat false (length evs) -> closed (state_after s evs) = false.
Proof.
  induction evs as [|e r IH]; intros s Hc H; [exact Hc|].
  cbn [run state_after] in *. pose proof (closed_step s e) as CS.
  destruct (step s e) as [s' o]. cbn [fst snd closings map length repeat] in *.
  injection H as H1 H2. rewrite Hc, H1 in CS. apply IH; [exact CS|exact H2].
Qed.

Lemma spec_end_quiet h : forall evs p,
  spec_end h (p, false) evs (repeat false (length evs)) = (fold_left (fun p e => fst (react h p e)) evs p, false).
Proof.
  induction evs as [|e r IH]; intros p; [reflexivity|].
  cbn [length repeat spec_end spec_step fold_left]. destruct (react h p e) as [p' o]. cbn [fst]. apply IH.
Qed.

Lemma closings_app a b : closings (a ++ b) = closings a ++ closings b.
Proof. apply map_app. Qed.

(* Subscribe: at its SUBACK the request returns the filters in request order with the granted
   codes when there is one code per filter; otherwise ErrInvalidSubAck, and the transport is
   closed. This is the whole output of that event. *)
Theorem suback_codes evs pre h subs id mid a post :
  wf evs = true ->
  evs = pre ++ Start h (RSub subs) id :: mid ++ Recv a :: post ->
  own_ack KSubAck id (Recv a) = true ->
  (forall e, In e mid -> own_ack KSubAck id e = false) ->
  ~ In (Cancel h) mid ->
  let T := length (pre ++ Start h (RSub subs) id :: mid) in
  firstn T (closings (run sig_init evs)) = repeat false T ->
  nth T (run sig_init evs) [] =
    if Nat.eqb (length (a_codes a)) (length subs)
    then [Done h (RSuccess (grant subs (a_codes a)))]
    else [Done h RInvalidSubAck; Closed].
Proof.
  intros W E Ha Hm Hcn T Hc.
  destruct (wf_unique_start evs pre h (RSub subs) id _ W E) as [Np _].
  set (A := pre ++ Start h (RSub subs) id :: mid) in *.
  assert (E' : evs = A ++ Recv a :: post) by (rewrite E; unfold A; rewrite <- app_assoc; reflexivity).
  assert (WA : wf A = true).
  { clear - W E'. subst evs. unfold wf in *. revert W. generalize sig_init, (@nil nat).
    induction A as [|e r IH]; intros s u W; [reflexivity|].
    cbn [app] in W. apply wf_from_cons in W as [Hok W]. cbn [wf_from].
    destruct e as [h' rk' id'|a'|h'|h']; cbn [ok_event used_after] in *; try (apply IH; exact W).
    destruct Hok as [H1 H2]. rewrite H1, H2. cbn. apply IH; exact W. }
  assert (CA : closings (run sig_init A) = repeat false (length A)).
  { rewrite E', run_app, closings_app in Hc. rewrite firstn_app_exact in Hc; [exact Hc|].
    rewrite closings_length, run_length. reflexivity. }
  pose proof (open_after A sig_init eq_refl CA) as Hopen.
  destruct (inv_after A sig_init (fun _ => PNone) [] Inv_init eq_refl WA Hopen) as [u I].
  destruct (prefix_to_wait h (RSub subs) id pre mid Np Hm Hcn) as [_ R2]. fold A in R2.
  rewrite spec_end_quiet in R2. injection R2 as R2. cbn [first_kind subs_of] in R2.
  pose proof (inv_wait _ _ _ I _ _ _ _ R2) as G. cbn [smap] in G.
  assert (Lh : mem_nat h (live (state_after sig_init A)) = true).
  { apply mem_nat_true. apply (inv_live _ _ _ I). rewrite R2. apply is_wait_PWait. }
  rewrite E', run_app. rewrite app_nth2 by (rewrite run_length; fold T; lia).
  rewrite run_length. fold T. rewrite Nat.sub_diag. cbn [run].
  destruct (step (state_after sig_init A) (Recv a)) as [s' o] eqn:S. cbn [nth].
  cbn [step] in S. rewrite Hopen in S. unfold take in S.
  cbn [own_ack] in Ha. apply key_eqb_true in Ha as [Ka Ia]. rewrite Ka, Ia in S. cbn [smap] in S.
  rewrite G in S. rewrite live_with_map in S. cbn [w_h w_subs] in S. rewrite Lh in S. cbn [negb] in S.
  destruct (Nat.eqb (length (a_codes a)) (length subs)); injection S as _ <-; reflexivity.
Qed.

(* ================= a request returns at most once; one that gave up never succeeds ================= *)
Lemma hist_started h pre p : hist h pre p -> p <> PNone -> p <> PFin -> exists rk id, In (Start h rk id) pre.
Proof.
  destruct p as [|k id subs|id|]; cbn [hist]; intros H N1 N2; try congruence.
  - destruct H as [(p0 & rk & E0 & _)|(_ & _ & p0 & _ & _ & _ & _ & E0 & _)];
      apply nth_error_In in E0; eauto.
  - destruct H as (p0 & t1 & _ & E0 & _). apply nth_error_In in E0. eauto.
Qed.

(* an event at which h returns: the output for h is exactly that return, h is finished
   afterwards, and h was started at or before this event *)
Lemma done_step h pre st e c r : hist h pre (fst st) ->
  In (Done h r) (snd (spec_step h st e c)) ->
  snd (spec_step h st e c) = [Done h r] /\ fst (fst (spec_step h st e c)) = PFin /\
  exists rk id, In (Start h rk id) (pre ++ [e]).
Proof.
  destruct st as [p cl]. cbn [fst]. intros H Hin. cbn [spec_step] in *. destruct cl.
  { destruct e as [h' rk id|a|h'|h']; try contradiction.
    destruct (Nat.eqb h' h) eqn:E; [|contradiction]. apply Nat.eqb_eq in E. subst h'.
    destruct Hin as [Hin|[]]. injection Hin as <-. cbn [fst snd].
    split; [reflexivity|]. split; [reflexivity|]. exists rk, id. apply in_or_app. right. left. reflexivity. }
  assert (St : p <> PNone -> p <> PFin -> exists rk id, In (Start h rk id) (pre ++ [e])).
  { intros N1 N2. destruct (hist_started h pre p H N1 N2) as (rk & id & X). exists rk, id.
    apply in_or_app. left. exact X. }
  destruct (react h p e) as [p' o] eqn:R. cbn [fst snd] in *.
  destruct p as [|k id subs|id|].
  - exfalso. destruct e as [h' rk id|a|h'|h']; cbn [react] in R; try (injection R as _ <-; contradiction).
    destruct (Nat.eqb h' h); injection R as _ <-; contradiction.
  - assert (S' : exists rk id0, In (Start h rk id0) (pre ++ [e])) by (apply St; discriminate).
    rewrite react_wait_or in R. destruct (own_ack k id e) eqn:O.
    + destruct e as [h' rk i|a|h'|h']; try discriminate. cbn [own_ack] in O. rewrite react_recv, O in R.
      destruct k; cbn [on_ack] in R;
        try (injection R as <- <-; destruct Hin as [Hin|[]]; injection Hin as <-; auto).
      * injection R as _ <-. contradiction.
      * destruct (Nat.eqb (length (a_codes a)) (length subs)); injection R as <- <-;
          destruct Hin as [Hin|[]]; injection Hin as <-; auto.
    + destruct e as [h' rk i|a|h'|h']; cbn [on_cancel] in R; try (injection R as _ <-; contradiction).
      destruct (Nat.eqb h' h); injection R as <- <-; [|contradiction].
      destruct Hin as [Hin|[]]. injection Hin as <-. auto.
  - assert (S' : exists rk id0, In (Start h rk id0) (pre ++ [e])) by (apply St; discriminate).
    destruct e as [h' rk i|a|h'|h']; cbn [react] in R; try (injection R as _ <-; contradiction);
      (destruct (Nat.eqb h' h); injection R as <- <-; [|contradiction]).
    + destruct Hin as [Hin|[]]. discriminate.
    + destruct Hin as [Hin|[]]. injection Hin as <-. auto.
  - exfalso. replace o with (@nil out) in Hin by (destruct e; cbn [react] in R; congruence). contradiction.
Qed.

Lemma NoDup_app_disjoint {A} (l1 l2 : list A) x : NoDup (l1 ++ l2) -> In x l1 -> ~ In x l2.
Proof.
  induction l1 as [|y l IH]; intros ND H1 H2; [exact H1|].
  cbn [app] in ND. inversion ND as [|? ? Hy ND']; subst. destruct H1 as [->|H1].
  - apply Hy. apply in_or_app. right. exact H2.
  - exact (IH ND' H1 H2).
Qed.

Lemma in_view h o os : In o os -> concerns h o = true -> In o (filter (concerns h) os).
Proof. intros H C. apply filter_In. auto. Qed.

Lemma nth_view h outs t : nth t (view h outs) [] = filter (concerns h) (nth t outs []).
Proof.
  unfold view. destruct (Nat.lt_ge_cases t (length outs)) as [L|L].
  - rewrite (nth_indep _ _ (filter (concerns h) [])) by (rewrite map_length; exact L).
    apply (map_nth (filter (concerns h))).
  - rewrite !nth_overflow; [reflexivity|exact L|rewrite map_length; exact L].
Qed.

Lemma nth_repeat_nil {A} n q : nth q (repeat (@nil A) n) [] = [].
Proof. revert q. induction n as [|n IH]; intros [|q]; cbn; auto. Qed.

(* what h outputs at the event at which it returns, and nothing for h after it *)
Lemma return_is_final evs h t r : wf evs = true ->
  In (Done h r) (nth t (run sig_init evs) []) ->
  nth t (view h (run sig_init evs)) [] = [Done h r] /\
  forall t', (t < t')%nat -> nth t' (view h (run sig_init evs)) [] = [].
Proof.
  intros W Hin.
  assert (Lt : (t < length evs)%nat).
  { destruct (Nat.lt_ge_cases t (length evs)) as [L|L]; [exact L|].
    rewrite nth_overflow in Hin by (rewrite run_length; exact L). contradiction. }
  assert (Hv : In (Done h r) (nth t (view h (run sig_init evs)) [])).
  { rewrite nth_view. apply in_view; [exact Hin|]. cbn. apply Nat.eqb_refl. }
  pose proof (wf_from_starts _ _ _ W) as [ND _].
  rewrite (refines evs h W) in *.
  assert (Lc : length (closings (run sig_init evs)) = length evs) by (rewrite closings_length; apply run_length).
  remember (closings (run sig_init evs)) as cls. clear Heqcls.
  destruct (nth_error evs t) as [e|] eqn:Ee; [|apply nth_error_None in Ee; lia].
  destruct (nth_error cls t) as [c|] eqn:Ec; [|apply nth_error_None in Ec; lia].
  apply nth_error_split in Ee as (pre & post & -> & Lp).
  apply nth_error_split in Ec as (cpre & cpost & -> & Lcp).
  assert (Lpost : length cpost = length post).
  { rewrite !app_length in Lc. cbn [length] in Lc. lia. }
  rewrite spec_run_app in * by lia.
  assert (Lr : length (spec_run h (PNone, false) pre cpre) = t) by (rewrite spec_run_length; lia).
  cbn [spec_run] in *.
  pose proof (hist_end h pre cpre [] (PNone, false) Logic.I) as Hh. cbn [app] in Hh.
  destruct (spec_step h (spec_end h (PNone, false) pre cpre) e c) as [st' o] eqn:St.
  rewrite app_nth2 in Hv by lia. rewrite Lr, Nat.sub_diag in Hv. cbn [nth] in Hv.
  pose proof (done_step h pre _ e c r Hh) as D. rewrite St in D. cbn [fst snd] in D.
  destruct (D Hv) as (Eo & Ef & rk & id & Hs). subst o.
  split.
  - rewrite app_nth2 by lia. rewrite Lr, Nat.sub_diag. reflexivity.
  - intros t' Ltt. rewrite app_nth2 by lia. rewrite Lr.
    destruct (t' - t)%nat as [|q] eqn:Q; [lia|]. cbn [nth].
    destruct st' as [p' c']. cbn [fst] in Ef. subst p'.
    rewrite fin_segment; [apply nth_repeat_nil| |exact Lpost].
    intros rk' id' Hin'.
    replace (pre ++ e :: post) with ((pre ++ [e]) ++ post) in ND by (rewrite <- app_assoc; reflexivity).
    rewrite starts_app in ND.
    apply (NoDup_app_disjoint _ _ h ND); apply in_starts; eauto.
Qed.

(* A request returns at most once, with one result. *)
Theorem done_once evs h t t' r r' : wf evs = true ->
  In (Done h r) (nth t (run sig_init evs) []) -> In (Done h r') (nth t' (run sig_init evs) []) ->
  t = t' /\ r = r'.
Proof.
  intros W H1 H2.
  destruct (return_is_final evs h t r W H1) as [E1 F1].
  destruct (return_is_final evs h t' r' W H2) as [E2 F2].
  destruct (Nat.lt_trichotomy t t') as [L|[L|L]].
  - rewrite (F1 _ L) in E2. discriminate.
  - subst t'. split; [reflexivity|]. rewrite E1 in E2. congruence.
  - rewrite (F2 _ L) in E1. discriminate.
Qed.

(* A request that gave up (context cancelled / deadline exceeded) never returns success —
   neither before nor after, whatever acknowledgements arrive late. *)
Theorem cancelled_never_succeeds evs h t : wf evs = true ->
  In (Done h RCancelled) (nth t (run sig_init evs) []) ->
  forall t' g, ~ In (Done h (RSuccess g)) (nth t' (run sig_init evs) []).
Proof.
  intros W H1 t' g H2. destruct (done_once evs h t t' _ _ W H1 H2) as [_ E]. discriminate.
Qed.

(* ... and a Cancel of a request that is blocked waiting does make it return its context's
   error (at that event) *)
Theorem cancel_returns_ctx_error evs pre h rk id mid post :
  wf evs = true -> evs = pre ++ Start h rk id :: mid ++ Cancel h :: post ->
  (forall e, In e mid -> own_ack (first_kind rk) id e = false) -> ~ In (Cancel h) mid ->
  let T := length (pre ++ Start h rk id :: mid) in
  firstn T (closings (run sig_init evs)) = repeat false T ->
  view h (run sig_init evs) = repeat [] T ++ [Done h RCancelled] :: repeat [] (length post).
Proof.
  intros W E Hm Hcn T Hc. rewrite (refines evs h W).
  destruct (wf_unique_start evs pre h rk id _ W E) as [Np Nq].
  assert (Npost : no_start h post).
  { intros rk' id' Hin. apply (Nq rk' id'). apply in_or_app. right. right. exact Hin. }
  pose proof (split_closings _ _ Hc) as Ec.
  assert (Lc : length (closings (run sig_init evs)) = length evs) by (rewrite closings_length; apply run_length).
  remember (closings (run sig_init evs)) as cls. clear Heqcls.
  assert (E' : evs = (pre ++ Start h rk id :: mid) ++ Cancel h :: post) by (rewrite E, <- app_assoc; reflexivity).
  assert (Le : length evs = (T + S (length post))%nat) by (rewrite E', app_length; reflexivity).
  destruct (skipn T cls) as [|c cpost] eqn:Es.
  { exfalso. rewrite Ec, app_nil_r, repeat_length in Lc. lia. }
  assert (Lp : length cpost = length post).
  { rewrite Ec, app_length, repeat_length in Lc. cbn [length] in Lc. lia. }
  rewrite Ec, E'.
  destruct (prefix_to_wait h rk id pre mid Np Hm Hcn) as [R1 R2]. fold T in R1, R2.
  rewrite spec_run_app by (rewrite repeat_length; reflexivity). rewrite R1, R2.
  f_equal. cbn [spec_run spec_step react]. rewrite Nat.eqb_refl. f_equal.
  apply fin_segment; [exact Npost|exact Lp].
Qed.

(* ================= zero delay: the acknowledgement directly after the request ================= *)
(* The waiter is registered before the request is written ([Start] is register-then-write): an
   own acknowledgement that is the very next event after the Start completes the request. *)
Theorem ack_right_after_write_completes evs pre h rk id a post :
  wf evs = true -> evs = pre ++ Start h rk id :: Recv a :: post ->
  first_kind rk <> KPubRec -> own_ack (first_kind rk) id (Recv a) = true ->
  firstn (S (length pre)) (closings (run sig_init evs)) = repeat false (S (length pre)) ->
  In (Done h (ack_result rk a)) (nth (S (length pre)) (run sig_init evs) []).
Proof.
  intros W E Hk Ha Hc.
  assert (T : length (pre ++ Start h rk id :: []) = S (length pre)) by (rewrite app_length; cbn; lia).
  pose proof (completes_at_own_ack evs pre h rk id [] a post W E Hk Ha) as C. cbn zeta in C.
  rewrite T in C. specialize (C (fun e (H : In e []) => match H with end) (fun H : In (Cancel h) [] => H) Hc).
  assert (V : nth (S (length pre)) (view h (run sig_init evs)) [] = [Done h (ack_result rk a)]).
  { rewrite C. rewrite app_nth2 by (rewrite repeat_length; lia). rewrite repeat_length, Nat.sub_diag. reflexivity. }
  rewrite nth_view in V.
  assert (X : In (Done h (ack_result rk a)) (filter (concerns h) (nth (S (length pre)) (run sig_init evs) []))).
  { rewrite V. left. reflexivity. }
  apply filter_In in X. exact (proj1 X).
Qed.

(* QoS 2: PUBREC directly after the PUBLISH, PUBCOMP directly after the PUBREL *)
Theorem qos2_acks_right_after_writes_complete evs pre h id a1 a2 post :
  wf evs = true -> evs = pre ++ Start h RPub2 id :: Recv a1 :: Resume h :: Recv a2 :: post ->
  own_ack KPubRec id (Recv a1) = true -> own_ack KPubComp id (Recv a2) = true ->
  firstn (length pre + 3) (closings (run sig_init evs)) = repeat false (length pre + 3) ->
  In (WPubRel h id) (nth (length pre + 2) (run sig_init evs) []) /\
  In (Done h (RSuccess [])) (nth (length pre + 3) (run sig_init evs) []).
Proof.
  intros W E Ha1 Ha2 Hc.
  assert (T : length (pre ++ Start h RPub2 id :: []) = S (length pre)) by (rewrite app_length; cbn; lia).
  pose proof (qos2_completes_at_pubcomp evs pre h id [] a1 [] [] a2 post W E Ha1 Ha2) as C. cbn zeta in C.
  rewrite T in C. cbn [length] in C.
  replace (S (length pre) + (1 + 1))%nat with (length pre + 3)%nat in C by lia.
  specialize (C (fun e (H : In e []) => match H with end) (fun H : In (Resume h) [] => H)
                (fun e (H : In e []) => match H with end) (fun H : In (Cancel h) ([] ++ [] ++ []) => H) Hc).
  replace (S (length pre) + 1)%nat with (length pre + 2)%nat in C by lia. cbn [repeat app] in C.
  assert (V1 : nth (length pre + 2) (view h (run sig_init evs)) [] = [WPubRel h id]).
  { rewrite C. rewrite app_nth2 by (rewrite repeat_length; lia). rewrite repeat_length, Nat.sub_diag. reflexivity. }
  assert (V2 : nth (length pre + 3) (view h (run sig_init evs)) [] = [Done h (RSuccess [])]).
  { rewrite C. rewrite app_nth2 by (rewrite repeat_length; lia). rewrite repeat_length.
    replace (length pre + 3 - (length pre + 2))%nat with 1%nat by lia. reflexivity. }
  rewrite nth_view in V1, V2. split.
  - assert (X : In (WPubRel h id) (filter (concerns h) (nth (length pre + 2) (run sig_init evs) []))) by (rewrite V1; left; reflexivity).
    apply filter_In in X. exact (proj1 X).
  - assert (X : In (Done h (RSuccess [])) (filter (concerns h) (nth (length pre + 3) (run sig_init evs) []))) by (rewrite V2; left; reflexivity).
    apply filter_In in X. exact (proj1 X).
Qed.

(* ================= a pending request's waiter stays, whatever else comes and goes ================= *)
(* A waiter registered under identifier X is removed only by an acknowledgement of its kind
   carrying X (or its caller giving up, or the end of the connection): after any history [mid] —
   any number of other requests registered and acknowledged meanwhile under other identifiers,
   any foreign acknowledgements — the request is still blocked waiting for exactly its own
   acknowledgement, i.e. its entry is there and live. *)
Theorem pending_waiter_stays evs pre h rk id mid :
  wf evs = true -> evs = pre ++ Start h rk id :: mid ->
  (forall e, In e mid -> own_ack (first_kind rk) id e = false) -> ~ In (Cancel h) mid ->
  no_close (run sig_init evs) ->
  awaited (state_after sig_init evs) (first_kind rk) id = true.
Proof.
  intros W E Hm Hcn Hnc.
  destruct (wf_unique_start evs pre h rk id mid W E) as [Np _].
  unfold no_close in Hnc. rewrite run_length in Hnc.
  pose proof (open_after evs sig_init eq_refl Hnc) as Hopen.
  apply (awaited_iff_waiting evs _ _ W Hopen).
  exists h, (subs_of rk). unfold phase_after.
  destruct (prefix_to_wait h rk id pre mid Np Hm Hcn) as [_ R2]. rewrite <- E in R2.
  rewrite spec_end_quiet in R2. injection R2 as R2. exact R2.
Qed.

(* ================= non-vacuity: concrete histories satisfying the hypotheses ================= *)
Definition ackOf (k : akind) (id : N) : ack := mkAck k id [].

(* four concurrent requests of the four kinds (QoS 1 and QoS 2 publish sharing identifier 7,
   Subscribe and Unsubscribe sharing 9), answered out of order, with an early PUBCOMP, a foreign
   PUBACK, a duplicate PUBCOMP, and a later request re-using identifier 7 *)
Definition ex_hist : list event :=
  [ Start 0 RPub1 7; Start 1 RPub2 7; Start 2 (RSub [([97], 1); ([98], 2)]) 9; Start 3 RUnsub 9;
    Recv (ackOf KPubComp 7);
    Recv (mkAck KSubAck 9 [1; 128]);
    Recv (ackOf KPubRec 7);
    Recv (ackOf KPubAck 8);
    Resume 1;
    Recv (ackOf KPubAck 7);
    Recv (ackOf KUnsubAck 9);
    Recv (ackOf KPubComp 7);
    Recv (ackOf KPubComp 7);
    Start 4 RPub1 7 ].

Example ex_hist_wf : wf ex_hist = true.
Proof. vm_compute. reflexivity. Qed.

Example ex_hist_run : run sig_init ex_hist =
  [ []; []; []; []; []; [Done 2 (RSuccess [([97], 1); ([98], 128)])]; []; []; [WPubRel 1 7];
    [Done 0 (RSuccess [])]; [Done 3 (RSuccess [])]; [Done 1 (RSuccess [])]; []; [] ].
Proof. vm_compute. reflexivity. Qed.

(* hypotheses of [completes_at_own_ack] (request 0, QoS 1) *)
Example ex_single_ack : exists pre h rk id mid a post,
  wf ex_hist = true /\ ex_hist = pre ++ Start h rk id :: mid ++ Recv a :: post /\
  first_kind rk <> KPubRec /\ own_ack (first_kind rk) id (Recv a) = true /\
  (forall e, In e mid -> own_ack (first_kind rk) id e = false) /\ ~ In (Cancel h) mid /\
  firstn (length (pre ++ Start h rk id :: mid)) (closings (run sig_init ex_hist))
    = repeat false (length (pre ++ Start h rk id :: mid)).
Proof.
  exists [], 0%nat, RPub1, 7, (firstn 8 (tl ex_hist)), (ackOf KPubAck 7), (skipn 10 ex_hist).
  split; [exact ex_hist_wf|]. split; [reflexivity|]. split; [discriminate|]. split; [reflexivity|].
  split; [|split; [|vm_compute; reflexivity]].
  - intros e Hin. cbn in Hin. repeat (destruct Hin as [<-|Hin]; [reflexivity|]). contradiction.
  - intros Hin. cbn in Hin. repeat (destruct Hin as [Hin|Hin]; [discriminate|]). contradiction.
Qed.

(* hypotheses of [qos2_completes_at_pubcomp] (request 1) *)
Example ex_qos2 : exists pre h id m1 a1 m2 m3 a2 post,
  wf ex_hist = true /\
  ex_hist = pre ++ Start h RPub2 id :: m1 ++ Recv a1 :: m2 ++ Resume h :: m3 ++ Recv a2 :: post /\
  own_ack KPubRec id (Recv a1) = true /\ own_ack KPubComp id (Recv a2) = true /\
  (forall e, In e m1 -> own_ack KPubRec id e = false) /\ ~ In (Resume h) m2 /\
  (forall e, In e m3 -> own_ack KPubComp id e = false) /\ ~ In (Cancel h) (m1 ++ m2 ++ m3) /\
  firstn (length (pre ++ Start h RPub2 id :: m1) + (S (length m2) + S (length m3))) (closings (run sig_init ex_hist))
    = repeat false (length (pre ++ Start h RPub2 id :: m1) + (S (length m2) + S (length m3))).
Proof.
  exists [Start 0 RPub1 7], 1%nat, 7,
    [Start 2 (RSub [([97], 1); ([98], 2)]) 9; Start 3 RUnsub 9; Recv (ackOf KPubComp 7); Recv (mkAck KSubAck 9 [1; 128])],
    (ackOf KPubRec 7), [Recv (ackOf KPubAck 8)],
    [Recv (ackOf KPubAck 7); Recv (ackOf KUnsubAck 9)], (ackOf KPubComp 7),
    [Recv (ackOf KPubComp 7); Start 4 RPub1 7].
  split; [exact ex_hist_wf|]. split; [reflexivity|]. split; [reflexivity|]. split; [reflexivity|].
  split. { intros e Hin. cbn in Hin. repeat (destruct Hin as [<-|Hin]; [reflexivity|]). contradiction. }
  split. { intros [H|[]]. discriminate. }
  split. { intros e Hin. cbn in Hin. repeat (destruct Hin as [<-|Hin]; [reflexivity|]). contradiction. }
  split. { intros Hin. cbn in Hin. repeat (destruct Hin as [Hin|Hin]; [discriminate|]). contradiction. }
  vm_compute. reflexivity.
Qed.

(* hypotheses of [foreign_ack_inert]: request 1's PUBREC removed, seen from request 0 *)
Example ex_foreign : exists h e1 a e2,
  wf (e1 ++ Recv a :: e2) = true /\ wf (e1 ++ e2) = true /\
  no_close (run sig_init (e1 ++ Recv a :: e2)) /\ no_close (run sig_init (e1 ++ e2)) /\
  foreign_to h e1 a /\ wm_has (smap (state_after sig_init e1) (a_kind a)) (a_id a) = true.
Proof.
  exists 0%nat, (firstn 6 ex_hist), (ackOf KPubRec 7), (firstn 3 (skipn 7 ex_hist)).
  split; [vm_compute; reflexivity|]. split; [vm_compute; reflexivity|].
  split; [vm_compute; reflexivity|]. split; [vm_compute; reflexivity|].
  split; [|vm_compute; reflexivity].
  intros rk id Hin. cbn in Hin.
  repeat (destruct Hin as [Hin|Hin]; [try discriminate; injection Hin as <- <-; right; cbn; intros [H|[]]; discriminate|]).
  contradiction.
Qed.

(* requests that give up: 0 (QoS 1) and 2 (Subscribe) before any acknowledgement, 1 (QoS 2)
   while waiting for PUBCOMP; a new request 3 is started in between; the late acknowledgements
   of the cancelled requests arrive before request 3's own PUBACK and complete nobody *)
Definition ex_cancel : list event :=
  [ Start 0 RPub1 5; Start 1 RPub2 6; Start 2 (RSub [([97], 1)]) 7;
    Cancel 0; Cancel 2;
    Start 3 RPub1 8;
    Recv (ackOf KPubAck 5); Recv (mkAck KSubAck 7 [1]);
    Recv (ackOf KPubRec 6); Resume 1; Cancel 1; Recv (ackOf KPubComp 6);
    Recv (ackOf KPubAck 8) ].

Example ex_cancel_wf : wf ex_cancel = true.
Proof. vm_compute. reflexivity. Qed.

Example ex_cancel_run : run sig_init ex_cancel =
  [ []; []; []; [Done 0 RCancelled]; [Done 2 RCancelled]; []; []; []; []; [WPubRel 1 6];
    [Done 1 RCancelled]; []; [Done 3 (RSuccess [])] ].
Proof. vm_compute. reflexivity. Qed.

(* the late PUBACK of the cancelled request 0 finds a stale entry and nobody awaits it *)
Example ex_cancel_stale :
  wm_has (smap (state_after sig_init (firstn 6 ex_cancel)) KPubAck) 5 = true /\
  awaited (state_after sig_init (firstn 6 ex_cancel)) KPubAck 5 = false.
Proof. split; vm_compute; reflexivity. Qed.

(* hypotheses of [cancel_returns_ctx_error] (request 0) *)
Example ex_cancel_hyp : exists pre h rk id mid post,
  wf ex_cancel = true /\ ex_cancel = pre ++ Start h rk id :: mid ++ Cancel h :: post /\
  (forall e, In e mid -> own_ack (first_kind rk) id e = false) /\ ~ In (Cancel h) mid /\
  firstn (length (pre ++ Start h rk id :: mid)) (closings (run sig_init ex_cancel))
    = repeat false (length (pre ++ Start h rk id :: mid)).
Proof.
  exists [], 0%nat, RPub1, 5, [Start 1 RPub2 6; Start 2 (RSub [([97], 1)]) 7], (skipn 4 ex_cancel).
  split; [exact ex_cancel_wf|]. split; [reflexivity|].
  split; [|split; [|vm_compute; reflexivity]].
  - intros e Hin. cbn in Hin. repeat (destruct Hin as [<-|Hin]; [reflexivity|]). contradiction.
  - intros Hin. cbn in Hin. repeat (destruct Hin as [Hin|Hin]; [discriminate|]). contradiction.
Qed.

(* zero-delay broker: every acknowledgement is the event directly after the packet it answers *)
Definition ex_zero : list event :=
  [ Start 0 RUnsub 3; Recv (ackOf KUnsubAck 3);
    Start 1 RPub2 4; Recv (ackOf KPubRec 4); Resume 1; Recv (ackOf KPubComp 4);
    Start 2 (RSub [([97], 0)]) 5; Recv (mkAck KSubAck 5 [2]) ].

Example ex_zero_ok : wf ex_zero = true /\
  run sig_init ex_zero = [ []; [Done 0 (RSuccess [])]; []; []; [WPubRel 1 4]; [Done 1 (RSuccess [])];
                           []; [Done 2 (RSuccess [([97], 2)])] ].
Proof. split; vm_compute; reflexivity. Qed.

(* a miscounted SUBACK: ErrInvalidSubAck for the subscriber, transport closed *)
Example ex_bad_suback :
  wf [Start 0 (RSub [([97], 1)]) 3; Start 1 RPub1 4; Recv (mkAck KSubAck 3 [0; 1])] = true /\
  run sig_init [Start 0 (RSub [([97], 1)]) 3; Start 1 RPub1 4; Recv (mkAck KSubAck 3 [0; 1])]
    = [[]; []; [Done 0 RInvalidSubAck; Closed]].
Proof. split; vm_compute; reflexivity. Qed.

(* outside the hypothesis (shared identifier): the history is not well-formed, the second
   PUBACK goes nowhere and request 0 never returns *)
Example ex_shared_id :
  wf [Start 0 RPub1 5; Start 1 RPub1 5; Recv (ackOf KPubAck 5); Recv (ackOf KPubAck 5)] = false /\
  run sig_init [Start 0 RPub1 5; Start 1 RPub1 5; Recv (ackOf KPubAck 5); Recv (ackOf KPubAck 5)]
    = [[]; []; [Done 1 (RSuccess [])]; []].
Proof. split; vm_compute; reflexivity. Qed.
