(* Clone.v — C20: a small heap model of *Message, Message.clone, ServeMux.Serve and
   ServeAsync.Serve, with handlers that are arbitrary mutator programs.

   Go side modelled:
     message.go:18-25   type Message {Topic string; ID; QoS; Retain; Dup; Payload []byte}
     message.go:27-36   Message.clone
     servemux.go:47-54  ServeMux.Serve      (loop, Match on message.Topic, Serve(message.clone()))
     serveasync.go:25-27 ServeAsync.Serve   (go m.Handler.Serve(message.clone()))
   Filter matching is Filter.v (C14), used read-only.

   Memory: byte buffers (backing arrays) live at buffer locations, message objects at object
   locations. A []byte is (buffer, offset, len, cap): writes and appends within capacity go to the
   backing array in place, so two slices over one buffer alias. A Go string is immutable, hence a
   value. Handlers get object locations (pointers).

   Concurrency: one flat schedule of atomic steps (labels) of all participants; any interleaving.
   The Go allocator decides spare capacities ([append] growth, size classes): they are oracle
   arguments ([extra]) of the labels that allocate. *)
From MQ Require Import Base Filter.
Open Scope nat_scope.

(* ---------- heap ---------- *)

Record slice := mkSlice { s_buf : nat; s_off : nat; s_len : nat; s_cap : nat }.

Record mobj := mkObj { m_topic : str; m_id : N; m_qos : N; m_retain : bool; m_dup : bool; m_pl : slice }.

Record heap := mkHeap { hb : nat -> list N; nb : nat; ho : nat -> mobj; no : nat }.

Definition upd {A} (f : nat -> A) (k : nat) (v : A) : nat -> A :=
  fun x => if Nat.eqb x k then v else f x.

Definition empty_slice := mkSlice 0 0 0 0.
Definition empty_obj := mkObj [] 0%N 0%N false false empty_slice.
Definition empty_heap := mkHeap (fun _ => []) 0 (fun _ => empty_obj) 0.

Definition zeros (n : nat) : list N := repeat 0%N n.

(* overwrite [bs] into [l] starting at index [k] (the caller guarantees k + |bs| <= |l|) *)
Definition write_at (k : nat) (bs l : list N) : list N :=
  firstn k l ++ bs ++ skipn (k + length bs) l.

(* everything reachable through a slice: buf[off : off+cap]; the payload is its first len bytes *)
Definition window (h : heap) (s : slice) : list N := firstn (s_cap s) (skipn (s_off s) (hb h (s_buf s))).
Definition payload (h : heap) (s : slice) : list N := firstn (s_len s) (window h s).

Definition alloc_buf (h : heap) (bs : list N) : heap * nat :=
  (mkHeap (upd (hb h) (nb h) bs) (S (nb h)) (ho h) (no h), nb h).
Definition alloc_obj (h : heap) (m : mobj) : heap * nat :=
  (mkHeap (hb h) (nb h) (upd (ho h) (no h) m) (S (no h)), no h).
Definition set_obj (h : heap) (p : nat) (m : mobj) : heap := mkHeap (hb h) (nb h) (upd (ho h) p m) (no h).
Definition set_buf (h : heap) (b : nat) (bs : list N) : heap := mkHeap (upd (hb h) b bs) (nb h) (ho h) (no h).
Definition with_pl (m : mobj) (s : slice) : mobj :=
  mkObj (m_topic m) (m_id m) (m_qos m) (m_retain m) (m_dup m) s.

(* ---------- what is observable ---------- *)

(* the MQTT content of a message *)
Record content := mkC { c_topic : str; c_id : N; c_qos : N; c_retain : bool; c_dup : bool; c_payload : list N }.

(* everything a holder of the pointer can ever observe through it: the fields, and the window of the
   backing array (payload followed by the spare capacity, reachable by reslicing) *)
Record view := mkV { v_topic : str; v_id : N; v_qos : N; v_retain : bool; v_dup : bool; v_win : list N; v_len : nat }.

Definition view_of (h : heap) (p : nat) : view :=
  let m := ho h p in
  mkV (m_topic m) (m_id m) (m_qos m) (m_retain m) (m_dup m) (window h (m_pl m)) (s_len (m_pl m)).

Definition content_of_view (v : view) : content :=
  mkC (v_topic v) (v_id v) (v_qos v) (v_retain v) (v_dup v) (firstn (v_len v) (v_win v)).

Definition content_of (h : heap) (p : nat) : content := content_of_view (view_of h p).

(* ---------- mutators: what a handler (or the caller) may do with the *Message it holds ---------- *)

Inductive op :=
| OSetTopic (t : str)                    (* m.Topic = t *)
| OSetId (n : N)                         (* m.ID = n *)
| OSetQos (n : N)                        (* m.QoS = n *)
| OSetRetain (b : bool)                  (* m.Retain = b *)
| OSetDup (b : bool)                     (* m.Dup = b *)
| OWrite (i : nat) (v : N)               (* if i < len(m.Payload) { m.Payload[i] = v } *)
| OAppend (bs : list N) (extra : nat)    (* m.Payload = append(m.Payload, bs...); [extra] = spare capacity if it reallocates *)
| OReslice (lo hi : nat)                 (* if lo <= hi && hi <= cap(m.Payload) { m.Payload = m.Payload[lo:hi] } *)
| ONewPayload (bs : list N) (extra : nat)(* m.Payload = a freshly allocated slice holding bs, with spare capacity *).

(* on the heap *)
Definition hop (o : op) (h : heap) (p : nat) : heap :=
  let m := ho h p in
  let s := m_pl m in
  match o with
  | OSetTopic t => set_obj h p (mkObj t (m_id m) (m_qos m) (m_retain m) (m_dup m) s)
  | OSetId n => set_obj h p (mkObj (m_topic m) n (m_qos m) (m_retain m) (m_dup m) s)
  | OSetQos n => set_obj h p (mkObj (m_topic m) (m_id m) n (m_retain m) (m_dup m) s)
  | OSetRetain b => set_obj h p (mkObj (m_topic m) (m_id m) (m_qos m) b (m_dup m) s)
  | OSetDup b => set_obj h p (mkObj (m_topic m) (m_id m) (m_qos m) (m_retain m) b s)
  | OWrite i v =>
      if i <? s_len s
      then set_buf h (s_buf s) (write_at (s_off s + i) [v] (hb h (s_buf s)))
      else h
  | OAppend bs extra =>
      if s_len s + length bs <=? s_cap s
      then (* in place: the bytes go to the shared backing array *)
        set_obj (set_buf h (s_buf s) (write_at (s_off s + s_len s) bs (hb h (s_buf s)))) p
                (with_pl m (mkSlice (s_buf s) (s_off s) (s_len s + length bs) (s_cap s)))
      else (* growslice: new backing array *)
        let (h1, b) := alloc_buf h (payload h s ++ bs ++ zeros extra) in
        set_obj h1 p (with_pl m (mkSlice b 0 (s_len s + length bs) (s_len s + length bs + extra)))
  | OReslice lo hi =>
      if (lo <=? hi) && (hi <=? s_cap s)
      then set_obj h p (with_pl m (mkSlice (s_buf s) (s_off s + lo) (hi - lo) (s_cap s - lo)))
      else h
  | ONewPayload bs extra =>
      let (h1, b) := alloc_buf h (bs ++ zeros extra) in
      set_obj h1 p (with_pl m (mkSlice b 0 (length bs) (length bs + extra)))
  end.

(* the same program on a private value (no heap, nothing shared): the reference semantics *)
Definition vop (o : op) (v : view) : view :=
  match o with
  | OSetTopic t => mkV t (v_id v) (v_qos v) (v_retain v) (v_dup v) (v_win v) (v_len v)
  | OSetId n => mkV (v_topic v) n (v_qos v) (v_retain v) (v_dup v) (v_win v) (v_len v)
  | OSetQos n => mkV (v_topic v) (v_id v) n (v_retain v) (v_dup v) (v_win v) (v_len v)
  | OSetRetain b => mkV (v_topic v) (v_id v) (v_qos v) b (v_dup v) (v_win v) (v_len v)
  | OSetDup b => mkV (v_topic v) (v_id v) (v_qos v) (v_retain v) b (v_win v) (v_len v)
  | OWrite i x =>
      if i <? v_len v
      then mkV (v_topic v) (v_id v) (v_qos v) (v_retain v) (v_dup v) (write_at i [x] (v_win v)) (v_len v)
      else v
  | OAppend bs extra =>
      if v_len v + length bs <=? length (v_win v)
      then mkV (v_topic v) (v_id v) (v_qos v) (v_retain v) (v_dup v) (write_at (v_len v) bs (v_win v)) (v_len v + length bs)
      else mkV (v_topic v) (v_id v) (v_qos v) (v_retain v) (v_dup v)
               (firstn (v_len v) (v_win v) ++ bs ++ zeros extra) (v_len v + length bs)
  | OReslice lo hi =>
      if (lo <=? hi) && (hi <=? length (v_win v))
      then mkV (v_topic v) (v_id v) (v_qos v) (v_retain v) (v_dup v) (skipn lo (v_win v)) (hi - lo)
      else v
  | ONewPayload bs extra =>
      mkV (v_topic v) (v_id v) (v_qos v) (v_retain v) (v_dup v) (bs ++ zeros extra) (length bs)
  end.

(* ---------- clone (message.go:27-36) ---------- *)

Definition clone_fn := heap -> nat -> nat -> heap * nat.

(* &Message{...} with a payload slice of its own: allocate the backing array, then the object.
   [extra] is the spare capacity the allocator happens to give. *)
Definition new_message (h : heap) (c : content) (extra : nat) : heap * nat :=
  let (h1, b) := alloc_buf h (c_payload c ++ zeros extra) in
  alloc_obj h1 (mkObj (c_topic c) (c_id c) (c_qos c) (c_retain c) (c_dup c)
                      (mkSlice b 0 (length (c_payload c)) (length (c_payload c) + extra))).

(* &Message{Topic: string([]byte(m.Topic)), QoS: m.QoS, Retain: m.Retain,
            Payload: append([]byte{}, m.Payload...), Dup: m.Dup, ID: m.ID}
   every field is read from *m, the payload bytes m.Payload[0:len] are copied into a new array *)
Definition clone : clone_fn := fun h p extra =>
  let m := ho h p in
  new_message h (mkC (m_topic m) (m_id m) (m_qos m) (m_retain m) (m_dup m) (payload h (m_pl m))) extra.

(* variants that the model can express and that break the property (used only in *_refuted lemmas) *)
Definition shallow_clone : clone_fn := fun h p _ =>      (* Payload: m.Payload *)
  alloc_obj h (ho h p).
Definition no_clone : clone_fn := fun h p _ => (h, p).   (* handler.Serve(message) *)

(* ---------- the system: callers, ServeMux, ServeAsync, handlers ---------- *)

(* an agent = somebody holding a *Message: a caller, or one invocation of a handler. An asynchronous
   invocation exists (its goroutine holds the clone) before its handler has been entered:
   [a_pend = Some (dispatch, handler)] until then. *)
Record agent := mkAgent { a_ptr : nat; a_pend : option (nat * nat) }.

(* The dispatch is UNIFORM IN THE HANDLER'S DYNAMIC TYPE. servemux.go:50 is h.handler.Serve(message.clone())
   for every registered Handler and serveasync.go:26 is go m.Handler.Serve(message.clone()) for every
   underlying Handler: a closure (HandlerFunc), a *ServeMux, a *ServeAsync, or any user type — in
   particular one that embeds ServeMux / ServeAsync (by value or by pointer) and overrides Serve, or
   holds them in a field. The model therefore identifies a handler by a bare number (hid) and has no
   notion of handler type at all: every entered handler is an agent holding a clone, and what the
   handler is shows only in what its agent does next (SMut steps; SMuxBegin / SAsync when a wrapper
   delegates to what it embeds). An implementation that treats some handler types differently (e.g.
   hands the un-copied message to handlers it takes for "self-copying") differs from this model on
   the harness's wrapper handlers (c20.go: c20EmbedMux, c20EmbedMuxPtr, c20EmbedAsync, c20EmbedAsyncPtr,
   c20FieldMux). *)

(* an activation of ServeMux.Serve: the loop over m.handlers (servemux.go:48) *)
Record frame := mkFrame { f_disp : nat; f_agent : nat; f_todo : list (list str * nat) }.

Inductive event :=
| EvDispatch (d a : nat) (c : content)          (* agent a called Serve with a message of this content: dispatch d *)
| EvEntry (d hid ag : nat) (c : content).       (* handler hid was entered for dispatch d as agent ag and saw c *)

Record state := mkSt {
  st_h : heap;
  st_agents : list agent;
  st_frames : list frame;
  st_log : list event;       (* newest first *)
  st_nd : nat }.

Definition init : state := mkSt empty_heap [] [] [] 0.

Inductive label :=
| SNew (c : content) (extra : nat)     (* somebody builds a message (payload with spare capacity): a new caller *)
| SMut (a : nat) (o : op)              (* agent a executes one mutator operation on its message *)
| SMuxBegin (a mi : nat)               (* agent a calls muxes[mi].Serve(its message) *)
| SMuxNext (f extra : nat)             (* activation f: previous handler returned; loop on to the next matching handler, clone, enter it *)
| SAsync (a hid extra : nat)           (* agent a calls (&ServeAsync{handler hid}).Serve(its message): clone now, go *)
| SRun (k : nat)                       (* the goroutine of asynchronous invocation k gets to run: handler entered *)
| SReturn (a : nat).                   (* the handler invocation a returns and keeps the pointer (hands it to a worker,
                                          stores it): neither ServeMux nor ServeAsync does anything with the copy then *)

Definition open_frame (f : frame) : bool := negb (is_nil (f_todo f)).

(* blocked inside ServeMux.Serve *)
Definition busy (st : state) (a : nat) : bool :=
  existsb (fun f => Nat.eqb (f_agent f) a && open_frame f) (st_frames st).

Definition acting (st : state) (a : nat) : option agent :=
  match nth_error (st_agents st) a with
  | Some ag => match a_pend ag with
               | None => if busy st a then None else Some ag
               | Some _ => None
               end
  | None => None
  end.

(* servemux.go:48-49: skip registrations whose filter does not match message.Topic *)
Fixpoint next_match (topic : str) (todo : list (list str * nat)) : option (nat * list (list str * nat)) :=
  match todo with
  | [] => None
  | (tf, hid) :: r => if filter_match tf topic then Some (hid, r) else next_match topic r
  end.

Fixpoint set_nth {A} (k : nat) (v : A) (l : list A) : list A :=
  match l, k with
  | [], _ => []
  | _ :: r, O => v :: r
  | x :: r, S k' => x :: set_nth k' v r
  end.

Definition step (muxes : list mux) (cl : clone_fn) (st : state) (s : label) : state :=
  let h := st_h st in
  match s with
  | SNew c extra =>
      let (h2, p) := new_message h c extra in
      mkSt h2 (st_agents st ++ [mkAgent p None]) (st_frames st) (st_log st) (st_nd st)
  | SMut a o =>
      match acting st a with
      | Some ag => mkSt (hop o h (a_ptr ag)) (st_agents st) (st_frames st) (st_log st) (st_nd st)
      | None => st
      end
  | SMuxBegin a mi =>
      match acting st a with
      | Some ag =>
          mkSt h (st_agents st)
               (st_frames st ++ [mkFrame (st_nd st) a (nth mi muxes [])])
               (EvDispatch (st_nd st) a (content_of h (a_ptr ag)) :: st_log st)
               (S (st_nd st))
      | None => st
      end
  | SMuxNext f extra =>
      match nth_error (st_frames st) f with
      | Some fr =>
          match nth_error (st_agents st) (f_agent fr) with
          | Some src =>
              (* h.filter.Match(message.Topic): message is read again in every iteration *)
              match next_match (m_topic (ho h (a_ptr src))) (f_todo fr) with
              | Some (hid, rest) =>
                  let (h1, q) := cl h (a_ptr src) extra in      (* message.clone() *)
                  mkSt h1 (st_agents st ++ [mkAgent q None])
                       (set_nth f (mkFrame (f_disp fr) (f_agent fr) rest) (st_frames st))
                       (EvEntry (f_disp fr) hid (length (st_agents st)) (content_of h1 q) :: st_log st)
                       (st_nd st)
              | None =>                                          (* loop finished, Serve returns *)
                  mkSt h (st_agents st) (set_nth f (mkFrame (f_disp fr) (f_agent fr) []) (st_frames st))
                       (st_log st) (st_nd st)
              end
          | None => st
          end
      | None => st
      end
  | SAsync a hid extra =>
      match acting st a with
      | Some ag =>
          let (h1, q) := cl h (a_ptr ag) extra in               (* evaluated by the caller of [go] *)
          mkSt h1 (st_agents st ++ [mkAgent q (Some (st_nd st, hid))]) (st_frames st)
               (EvDispatch (st_nd st) a (content_of h (a_ptr ag)) :: st_log st)
               (S (st_nd st))
      | None => st
      end
  | SRun k =>
      match nth_error (st_agents st) k with
      | Some (mkAgent q (Some (d, hid))) =>
          mkSt h (set_nth k (mkAgent q None) (st_agents st)) (st_frames st)
               (EvEntry d hid k (content_of h q) :: st_log st) (st_nd st)
      | _ => st
      end
  | SReturn _ => st
  end.

Definition exec (muxes : list mux) (cl : clone_fn) (sched : list label) (st : state) : state :=
  fold_left (step muxes cl) sched st.

(* the real system *)
Definition run (muxes : list mux) (sched : list label) : state := exec muxes clone sched init.

(* ---------- observables ---------- *)

(* the view an agent has of its message; agents whose handler has not been entered observe nothing *)
Definition agent_view (st : state) (a : nat) : option view :=
  match nth_error (st_agents st) a with
  | Some ag => Some (view_of (st_h st) (a_ptr ag))
  | None => None
  end.

Definition agent_content (st : state) (a : nat) : option content :=
  match nth_error (st_agents st) a with
  | Some ag => match a_pend ag with
               | None => Some (content_of (st_h st) (a_ptr ag))
               | Some _ => None
               end
  | None => None
  end.

(* who made dispatch d and with which content, according to the log *)
Fixpoint disp_of (log : list event) (d : nat) : option (nat * content) :=
  match log with
  | [] => None
  | EvDispatch d' a c :: r => if Nat.eqb d' d then Some (a, c) else disp_of r d
  | _ :: r => disp_of r d
  end.

Definition actor (s : label) : option nat :=
  match s with
  | SMut a _ => Some a
  | _ => None
  end.
