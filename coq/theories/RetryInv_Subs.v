(* RetryInv_Subs.v — the system invariant I-subs and the two convergence statements of C08.

   [Inv s]: for every topic t, replaying on (broker value of t, client value of t) the retry queue,
   then the task queue (with the Resubscribe the reconnect loop is about to push, [virt]) ends with
   broker = client = net effect of all submitted calls, and every raw entry that is the last raw entry
   for t agrees with the client's view at that point ([kinv], RetryInv_SubsMap).  Plus: tasks only
   run on an initialised client ([conn_inv]) and the broker's table is empty as long as no
   connection was ever accepted ([first_inv]). *)
From MQ Require Import Base RetryCore RetrySys CheckRetry RetryProps RetryInv_SubsMap RetryInv_SubsExec.
Open Scope nat_scope.

Ltac ssimpl :=
  cbn [s_w s_cur s_gen s_cres s_taskq s_tmode s_pc s_initialized s_submitted s_waits
       set_w set_pc set_tmode set_taskq set_cres] in *.

(* ---------- changes of the client list only ---------- *)
Definition cchange (w w' : world) : Prop :=
  w_broker w' = w_broker w /\ w_subest w' = w_subest w /\ w_retryq w' = w_retryq w /\ w_hung w' = w_hung w /\
  (forall j, accepted w' j = accepted w j) /\
  (forall j, inited w j = true -> inited w' j = true) /\
  length (w_clients w) <= length (w_clients w').

Lemma cchange_refl w : cchange w w.
Proof. repeat split; auto. Qed.

Lemma cchange_upd w k f :
  (forall c, cl_accepted (f c) = cl_accepted c) -> (forall c, cl_inited c = true -> cl_inited (f c) = true) ->
  cchange w (upd_client w k f).
Proof.
  intros Ha Hi. unfold cchange, accepted, inited, get_client, upd_client. wsimpl.
  split; [reflexivity|]. split; [reflexivity|]. split; [reflexivity|]. split; [reflexivity|].
  split; [|split].
  - intros j. rewrite nth_upd_nth. destruct ((j =? k) && (k <? length (w_clients w))); auto.
  - intros j. rewrite nth_upd_nth. destruct ((j =? k) && (k <? length (w_clients w))); auto.
  - rewrite length_upd_nth. lia.
Qed.

Lemma get_client_snoc w c j :
  get_client (set_clients w (w_clients w ++ [c])) j =
  if j <? length (w_clients w) then get_client w j else if j =? length (w_clients w) then c else client_none.
Proof.
  unfold get_client. wsimpl. destruct (j <? length (w_clients w)) eqn:E.
  - apply app_nth1. lia.
  - rewrite app_nth2 by lia. destruct (j =? length (w_clients w)) eqn:E2.
    + replace (j - length (w_clients w)) with 0 by lia. reflexivity.
    + destruct (j - length (w_clients w)) as [|m] eqn:E3; [lia|]. cbn [nth]. destruct m; reflexivity.
Qed.

Lemma get_client_overflow w j : length (w_clients w) <= j -> get_client w j = client_none.
Proof. intros H. unfold get_client. apply nth_overflow. exact H. Qed.

Lemma cchange_dial w : cchange w (set_clients w (w_clients w ++ [client_new])).
Proof.
  unfold cchange. wsimpl. repeat (split; [reflexivity|]). split; [|split].
  - intros j. unfold accepted. rewrite get_client_snoc. destruct (j <? length (w_clients w)) eqn:E; [reflexivity|].
    rewrite (get_client_overflow w j) by lia. destruct (j =? length (w_clients w)); reflexivity.
  - intros j. unfold inited. rewrite get_client_snoc. destruct (j <? length (w_clients w)) eqn:E; [auto|].
    rewrite (get_client_overflow w j) by lia. cbn. discriminate.
  - rewrite app_length. lia.
Qed.

Lemma WSide_cchange w w' : cchange w w' -> WSide w -> WSide w'.
Proof.
  intros (H1 & H2 & H3 & H4 & H5 & H6 & H7) (A & B & C & D). unfold WSide, bsubs. rewrite H1, H2, H4.
  repeat split; auto. intros Hn. apply D. intros j. rewrite <- H5. apply Hn.
Qed.

Lemma WInv_cchange w w' tail n : cchange w w' -> WInv w tail n -> WInv w' tail n.
Proof.
  intros (H1 & H2 & H3 & _). apply WInv_ext; intros t; unfold bget, eget, bsubs; rewrite ?H1, ?H2, ?H3; reflexivity.
Qed.

Section Sys.
Variable cfg : config.
Variable fp : fplan.
Hypothesis Hfp : closing_only fp.

(* the Resubscribe task the reconnect loop will push next *)
Definition virt (s : sys) : list task :=
  match s_pc s with
  | RPushResub _ sp => if s_initialized s && (negb sp || c_always_resub cfg) then [TResub] else []
  | _ => []
  end.
Definition vtaskq (s : sys) : list task := s_taskq s ++ virt s.
Definition netget (s : sys) (t : str) : option N := subs_get t (net_effect (s_submitted s)).

Definition conn_inv (s : sys) : Prop :=
  match s_tmode s with
  | TReady g => g <= s_gen s /\ (g = s_gen s -> s_cres s <> CrPending)
  | TWaiting => True
  end /\
  (s_cres s <> CrPending -> exists k, s_cur s = Some k /\ inited (s_w s) k = true) /\
  match s_pc s with
  | RSetClient k => k < length (w_clients (s_w s))
  | RConnBegin k => s_cur s = Some k /\ k < length (w_clients (s_w s))
  | RConnWait k => s_cur s = Some k /\ inited (s_w s) k = true
  | _ => True
  end.

Definition first_inv (s : sys) : Prop :=
  s_initialized s = false ->
  match s_pc s with
  | RPushResub _ _ | RPushRetry _ => True
  | RRun _ => False
  | _ => never_accepted (s_w s)
  end.

Definition Inv (s : sys) : Prop :=
  WSide (s_w s) /\ WInv (s_w s) (fun t => kabs_tq t (vtaskq s)) (netget s) /\ conn_inv s /\ first_inv s.

Lemma virt_cases s t : kabs_tq t (virt s) = [] \/ kabs_tq t (virt s) = [KResub].
Proof.
  unfold virt. destruct (s_pc s); auto.
  destruct (s_initialized s && (negb sp || c_always_resub cfg)); auto.
Qed.

Lemma Inv_sys0 : Inv sys0.
Proof.
  unfold Inv. cbn [s_w sys0]. split; [|split; [|split]].
  - unfold WSide, bsubs. cbn. repeat split; auto using coh_nil.
  - intros t. cbn. repeat split.
  - unfold conn_inv. cbn. repeat split. intros H; contradiction.
  - intros _. cbn. intros j. unfold accepted, get_client. cbn. destruct j; reflexivity.
Qed.

(* steps that only touch the client list and the control state *)
Lemma Inv_ctrl s s' :
  Inv s -> cchange (s_w s) (s_w s') -> (forall t, kabs_tq t (vtaskq s') = kabs_tq t (vtaskq s)) ->
  s_submitted s' = s_submitted s -> conn_inv s' -> first_inv s' -> Inv s'.
Proof.
  intros (A & B & C & D) Hc Hv Hs HC HF. split; [eapply WSide_cchange; eauto|]. split; [|auto].
  intros t. unfold netget. rewrite Hs, Hv. eapply WInv_cchange in B; [|exact Hc]. apply B.
Qed.

Lemma never_accepted_cchange w w' : cchange w w' -> never_accepted w -> never_accepted w'.
Proof. intros (_ & _ & _ & _ & H & _) Hn j. rewrite H. apply Hn. Qed.

Lemma cmono_accept_acc c : cl_accepted (kill c) = cl_accepted c.
Proof. reflexivity. Qed.

Lemma cchange_kill w k : cchange w (upd_client w k kill).
Proof. apply cchange_upd; intros c; cbn; auto. Qed.
Lemma cchange_init w k : cchange w (upd_client w k client_init).
Proof. apply cchange_upd; intros c; cbn; auto. Qed.

Lemma inited_upd_init w k : k < length (w_clients w) -> inited (upd_client w k client_init) k = true.
Proof.
  intros H. unfold inited, get_client, upd_client. wsimpl. rewrite nth_upd_nth, Nat.eqb_refl.
  replace (k <? length (w_clients w)) with true by (symmetry; apply Nat.ltb_lt; exact H). reflexivity.
Qed.

Lemma alive_lt w k : alive w k = true -> k < length (w_clients w).
Proof.
  intros H. destruct (Nat.lt_ge_cases k (length (w_clients w))) as [L|L]; [exact L|].
  unfold alive in H. rewrite get_client_overflow in H by exact L. discriminate.
Qed.

Lemma accepted_upd_accept w k : k < length (w_clients w) -> accepted (upd_client w k client_accept) k = true.
Proof.
  intros H. unfold accepted, get_client, upd_client. wsimpl. rewrite nth_upd_nth, Nat.eqb_refl.
  replace (k <? length (w_clients w)) with true by (symmetry; apply Nat.ltb_lt; exact H). reflexivity.
Qed.

Lemma inited_upd_accept w k j : inited (upd_client w k client_accept) j = inited w j.
Proof.
  unfold inited, get_client, upd_client. wsimpl. rewrite nth_upd_nth.
  destruct ((j =? k) && (k <? length (w_clients w))); reflexivity.
Qed.

(* ---------- control-only consequences ---------- *)
Definition cctl (w w' : world) : Prop :=
  (forall j, accepted w' j = accepted w j) /\
  (forall j, inited w j = true -> inited w' j = true) /\
  length (w_clients w) <= length (w_clients w').

Lemma cctl_of_cchange w w' : cchange w w' -> cctl w w'.
Proof. intros (_ & _ & _ & _ & A & B & C). repeat split; auto. Qed.
Lemma cctl_of_cframe w w' : cframe w w' -> cctl w w'.
Proof. intros (A & B & C & D). unfold cctl, accepted, inited. split; [exact C|]. split; [|lia]. intros j. rewrite B. auto. Qed.
Lemma cctl_trans w1 w2 w3 : cctl w1 w2 -> cctl w2 w3 -> cctl w1 w3.
Proof.
  intros (A1 & A2 & A3) (B1 & B2 & B3). split; [|split].
  - intros j. rewrite B1. apply A1.
  - auto.
  - lia.
Qed.
Lemma cctl_refl w : cctl w w.
Proof. repeat split; auto. Qed.

Lemma conn_inv_ctl s s' :
  conn_inv s -> cctl (s_w s) (s_w s') -> s_cres s' = s_cres s -> s_cur s' = s_cur s -> s_gen s' = s_gen s ->
  s_pc s' = s_pc s -> (s_tmode s' = s_tmode s \/ s_tmode s' = TWaiting) -> conn_inv s'.
Proof.
  intros (C1 & C2 & C3) (A & B & L) Hr Hc Hg Hp Ht. unfold conn_inv. rewrite Hr, Hc, Hg, Hp.
  split; [|split].
  - destruct Ht as [-> | ->]; [exact C1 | exact I].
  - intros H. destruct (C2 H) as (k & Hk & Hi). exists k. split; [exact Hk | apply B, Hi].
  - destruct (s_pc s); auto; try lia.
    + destruct C3 as [X Y]. split; [exact X | lia].
    + destruct C3 as [X Y]. split; [exact X | apply B, Y].
Qed.

Lemma first_inv_ctl s s' :
  first_inv s -> cctl (s_w s) (s_w s') -> s_pc s' = s_pc s -> s_initialized s' = s_initialized s -> first_inv s'.
Proof.
  intros HF (A & _ & _) Hp Hi. unfold first_inv. rewrite Hp, Hi. intros H. specialize (HF H).
  destruct (s_pc s); auto; intros j; rewrite A; apply HF.
Qed.

(* ---------- every step preserves the invariant ---------- *)
Lemma step_inv s l s' : Inv s -> step cfg fp s l = Some s' -> Inv s'.
Proof.
  intros HI. pose proof HI as (HS & HW & HC & HF).
  destruct l; cbn [step].
  - (* LSubmit *)
    intros H; injection H as <-.
    split; [exact HS|]. split; [|split].
    + intros t. specialize (HW t). unfold netget, vtaskq, virt in *. ssimpl.
      rewrite net_effect_app, get_net_step.
      rewrite !kabs_tq_app in *. cbn [kabs_tq flat_map kabs_task] in *. rewrite app_nil_r, <- !app_assoc.
      rewrite app_assoc. rewrite app_assoc in HW.
      apply K_submit; [|exact HW].
      destruct (s_pc s); auto. destruct (s_initialized s && (negb sp || c_always_resub cfg)); auto.
    + eapply conn_inv_ctl; eauto using cctl_refl.
    + eapply first_inv_ctl; eauto using cctl_refl.
  - (* LObserve *)
    destruct (s_tmode s) eqn:Et; [|discriminate].
    destruct ((0 <? g) && ((g <? s_gen s) || (g =? s_gen s) && match s_cres s with CrPending => false | _ => true end)) eqn:Eg;
      [|discriminate].
    intros H; injection H as <-.
    eapply Inv_ctrl; [exact HI | apply cchange_refl | reflexivity | reflexivity | | ].
    + destruct HC as (C1 & C2 & C3). unfold conn_inv. ssimpl. split; [|split; auto].
      split; [lia|]. intros ->. destruct (s_cres s); [|discriminate|discriminate].
      rewrite Nat.ltb_irrefl, andb_false_r in Eg. cbn in Eg. rewrite andb_false_r in Eg. discriminate.
    + eapply first_inv_ctl; eauto using cctl_refl.
  - (* LTask *)
    destruct (w_hung (s_w s)) eqn:Eh; [discriminate|].
    destruct (s_tmode s) as [|g] eqn:Et; [discriminate|].
    destruct (negb (g =? s_gen s)) eqn:Eg.
    { intros H; injection H as <-.
      eapply Inv_ctrl; [exact HI | apply cchange_refl | reflexivity | reflexivity | | ].
      - eapply conn_inv_ctl; eauto using cctl_refl.
      - eapply first_inv_ctl; eauto using cctl_refl. }
    destruct (s_taskq s) as [|x q] eqn:Eq; [discriminate|].
    destruct (s_cur s) as [k|] eqn:Ek; [|discriminate].
    apply negb_false_iff, Nat.eqb_eq in Eg. subst g.
    assert (Hin : inited (s_w s) k = true).
    { destruct HC as (C1 & C2 & C3). rewrite Et in C1. destruct C1 as [_ C1]. specialize (C1 eq_refl).
      destruct (C2 C1) as (k' & Hk' & Hin). congruence. }
    assert (Hexec : WSide (exec_task cfg fp (s_w s) k x) /\ cframe (s_w s) (exec_task cfg fp (s_w s) k x)
                    /\ WInv (exec_task cfg fp (s_w s) k x) (fun t => kabs_tq t (q ++ virt s)) (netget s)).
    { apply exec_task_spec; auto.
      - intros t. apply kabs_tq_noraw.
      - intros t. specialize (HW t). unfold vtaskq in HW. rewrite Eq in HW. exact HW. }
    destruct Hexec as (E1 & E2 & E3).
    set (w1 := exec_task cfg fp (s_w s) k x) in *.
    destruct (w_nrbe w1).
    + intros H; injection H as <-.
      assert (Hc : cchange w1 (set_nrbe (upd_client w1 k kill) false)) by exact (cchange_kill w1 k).
      split; [eapply WSide_cchange; eauto|]. split; [|split].
      * eapply WInv_cchange; [exact Hc|]. exact E3.
      * eapply conn_inv_ctl; eauto. ssimpl. eapply cctl_trans; [apply cctl_of_cframe, E2 | apply cctl_of_cchange, Hc].
      * eapply first_inv_ctl; eauto. ssimpl. eapply cctl_trans; [apply cctl_of_cframe, E2 | apply cctl_of_cchange, Hc].
    + intros H; injection H as <-.
      split; [exact E1|]. split; [exact E3|]. split.
      * eapply conn_inv_ctl; eauto. ssimpl. apply cctl_of_cframe, E2.
      * eapply first_inv_ctl; eauto. ssimpl. apply cctl_of_cframe, E2.
  - (* LDial *)
    destruct (s_pc s) eqn:Ep; try discriminate. destruct HC as (C1 & C2 & C3). rewrite Ep in C3.
    destruct ok; intros H; injection H as <-.
    + eapply Inv_ctrl; [exact HI | apply cchange_dial | | reflexivity | | ].
      * intros t. unfold vtaskq, virt. ssimpl. rewrite Ep. reflexivity.
      * unfold conn_inv. ssimpl. split; [exact C1|]. split.
        -- intros H. destruct (C2 H) as (k & Hk & Hi). exists k. split; [exact Hk|].
           apply (cchange_dial (s_w s)). exact Hi.
        -- wsimpl. rewrite app_length. cbn [length]. lia.
      * intros Hi. specialize (HF Hi). rewrite Ep in HF. ssimpl.
        eapply never_accepted_cchange; [apply cchange_dial | exact HF].
    + eapply Inv_ctrl; [exact HI | apply cchange_refl | | reflexivity | | ].
      * intros t. unfold vtaskq, virt. ssimpl. rewrite Ep. reflexivity.
      * unfold conn_inv. ssimpl. auto.
      * unfold first_inv in *. ssimpl. rewrite Ep in HF. exact HF.
  - (* LSetClient *)
    destruct (s_pc s) eqn:Ep; try discriminate. destruct HC as (C1 & C2 & C3). rewrite Ep in C3.
    intros H; injection H as <-.
    eapply Inv_ctrl; [exact HI | apply cchange_refl | | reflexivity | | ].
    + intros t. unfold vtaskq, virt. ssimpl. rewrite Ep. reflexivity.
    + unfold conn_inv. ssimpl. split; [|split].
      * destruct (s_tmode s); [exact I|]. destruct C1 as [C1 _]. split; [lia|]. intros X. lia.
      * intros X. contradiction.
      * auto.
    + unfold first_inv in *. ssimpl. rewrite Ep in HF. exact HF.
  - (* LConnBegin *)
    destruct (s_pc s) eqn:Ep; try discriminate. destruct HC as (C1 & C2 & C3). rewrite Ep in C3.
    intros H; injection H as <-.
    eapply Inv_ctrl; [exact HI | apply cchange_init | | reflexivity | | ].
    + intros t. unfold vtaskq, virt. ssimpl. rewrite Ep. reflexivity.
    + unfold conn_inv. ssimpl. split; [exact C1|]. split.
      * intros H. destruct (C2 H) as (k' & Hk & Hi). exists k'. split; [exact Hk|].
        apply (cchange_init (s_w s) k). exact Hi.
      * destruct C3 as [X Y]. split; [exact X | apply inited_upd_init, Y].
    + intros Hi. specialize (HF Hi). rewrite Ep in HF. ssimpl.
      eapply never_accepted_cchange; [apply cchange_init | exact HF].
  - (* LConnEnd *)
    destruct (s_pc s) eqn:Ep; try discriminate. destruct HC as (C1 & C2 & C3). rewrite Ep in C3. destruct C3 as (C3 & C4).
    assert (Hv0 : forall t, kabs_tq t (vtaskq s) = kabs_tq t (s_taskq s)).
    { intros t. unfold vtaskq, virt. rewrite Ep, app_nil_r. reflexivity. }
    assert (C1' : forall c, c <> CrPending ->
              match s_tmode s with TReady g => g <= s_gen s /\ (g = s_gen s -> c <> CrPending) | TWaiting => True end).
    { intros c Hc. destruct (s_tmode s); [exact I|]. destruct C1 as [X _]. split; [exact X | intros _; exact Hc]. }
    destruct o as [sp| | |].
    + (* accepted *)
      destruct (cl_alive (get_client (s_w s) k)) eqn:Ea; [|discriminate].
      pose proof (alive_lt _ _ Ea) as Hlt.
      intros H; injection H as <-.
      set (w1 := upd_client (s_w s) k client_accept).
      assert (Hacc : forall w2, (forall j, accepted w2 j = accepted w1 j) -> ~ never_accepted w2).
      { intros w2 H2 Hn. specialize (Hn k). rewrite H2 in Hn. unfold w1 in Hn. rewrite accepted_upd_accept in Hn by exact Hlt. discriminate. }
      destruct HS as (S1 & S2 & S3 & S4).
      split; [|split; [|split]].
      * (* WSide *)
        destruct sp; ssimpl.
        -- unfold WSide. split; [exact S1|]. split; [exact S2|]. split; [exact S3|]. intros Hn. exfalso. eapply Hacc; [|exact Hn]. reflexivity.
        -- unfold WSide, bsubs. wsimpl. cbn [broker_wipe b_subs]. split; [apply coh_nil|]. split; [exact S2|]. split; [exact S3|]. reflexivity.
      * (* WInv *)
        intros t. specialize (HW t). cbv beta in HW. rewrite Hv0 in HW. unfold netget, vtaskq, virt. ssimpl.
        destruct sp; cbn [negb orb].
        -- change (bget w1 t) with (bget (s_w s) t). change (eget w1 t) with (eget (s_w s) t).
           change (w_retryq w1) with (w_retryq (s_w s)).
           destruct (s_initialized s && c_always_resub cfg).
           ++ rewrite kabs_tq_app. cbn [kabs_tq flat_map kabs_task Datatypes.app]. rewrite app_assoc.
              apply K_resub_kept. exact HW.
           ++ rewrite app_nil_r. exact HW.
        -- change (bget (set_broker w1 (broker_wipe (w_broker w1))) t) with (@None N).
           change (eget (set_broker w1 (broker_wipe (w_broker w1))) t) with (eget (s_w s) t).
           change (w_retryq (set_broker w1 (broker_wipe (w_broker w1)))) with (w_retryq (s_w s)).
           rewrite ?orb_true_l, ?andb_true_r.
           destruct (s_initialized s) eqn:Ei.
           ++ rewrite kabs_tq_app. cbn [kabs_tq flat_map kabs_task Datatypes.app]. rewrite app_assoc.
              eapply K_wipe. exact HW.
           ++ rewrite app_nil_r. specialize (HF Ei). rewrite Ep in HF. specialize (S4 HF).
              unfold bget in HW. rewrite S4 in HW. exact HW.
      * (* conn_inv *)
        unfold conn_inv. ssimpl. split; [apply C1'; discriminate|]. split; [|exact I].
        intros _. exists k. split; [exact C3|].
        destruct sp; change (inited w1 k = true); unfold w1; rewrite inited_upd_accept; exact C4.
      * intros _. ssimpl. exact I.
    + (* refused *)
      intros H; injection H as <-.
      eapply Inv_ctrl; [exact HI | apply cchange_kill | | reflexivity | | ].
      * intros t. unfold vtaskq, virt. ssimpl. rewrite Ep. reflexivity.
      * unfold conn_inv. ssimpl. split; [apply C1'; discriminate|]. split; [|exact I].
        intros _. exists k. split; [exact C3|]. apply (cchange_kill (s_w s) k). exact C4.
      * intros Hi. specialize (HF Hi). rewrite Ep in HF. ssimpl.
        eapply never_accepted_cchange; [apply cchange_kill | exact HF].
    + (* closed *)
      intros H; injection H as <-.
      eapply Inv_ctrl; [exact HI | apply cchange_kill | | reflexivity | | ].
      * intros t. unfold vtaskq, virt. ssimpl. rewrite Ep. reflexivity.
      * unfold conn_inv. ssimpl. split; [apply C1'; discriminate|]. split; [|exact I].
        intros _. exists k. split; [exact C3|]. apply (cchange_kill (s_w s) k). exact C4.
      * intros Hi. specialize (HF Hi). rewrite Ep in HF. ssimpl.
        eapply never_accepted_cchange; [apply cchange_kill | exact HF].
    + (* no CONNACK *)
      intros H; injection H as <-.
      eapply Inv_ctrl; [exact HI | apply cchange_refl | | reflexivity | | ].
      * intros t. unfold vtaskq, virt. ssimpl. rewrite Ep. reflexivity.
      * unfold conn_inv. ssimpl. split; [apply C1'; discriminate|]. split; [|exact I].
        intros _. exists k. split; [exact C3 | exact C4].
      * unfold first_inv in *. ssimpl. rewrite Ep in HF. exact HF.
  - (* LPushResub *)
    destruct (s_pc s) eqn:Ep; try discriminate. destruct HC as (C1 & C2 & C3). rewrite Ep in C3.
    destruct (s_initialized s && (negb sp || c_always_resub cfg)) eqn:Ec; intros H; injection H as <-.
    + eapply Inv_ctrl; [exact HI | apply cchange_refl | | reflexivity | | ].
      * intros t. unfold vtaskq, virt. ssimpl. rewrite Ep, Ec, app_nil_r. reflexivity.
      * unfold conn_inv. ssimpl. auto.
      * intros _. ssimpl. exact I.
    + eapply Inv_ctrl; [exact HI | apply cchange_refl | | reflexivity | | ].
      * intros t. unfold vtaskq, virt. ssimpl. rewrite Ep, Ec. reflexivity.
      * unfold conn_inv. ssimpl. auto.
      * intros _. ssimpl. exact I.
  - (* LPushRetry *)
    destruct (s_pc s) eqn:Ep; try discriminate. destruct HC as (C1 & C2 & C3). rewrite Ep in C3.
    intros H; injection H as <-.
    eapply Inv_ctrl; [exact HI | apply cchange_refl | | reflexivity | | ].
    + intros t. unfold vtaskq, virt. ssimpl. rewrite Ep, !app_nil_r, kabs_tq_app. cbn. rewrite app_nil_r. reflexivity.
    + unfold conn_inv. ssimpl. auto.
    + intros X. ssimpl. discriminate.
  - (* LDetectEnd *)
    destruct (s_pc s) eqn:Ep; try discriminate. destruct HC as (C1 & C2 & C3). rewrite Ep in C3.
    destruct (cl_alive (get_client (s_w s) k)); [discriminate|]. intros H; injection H as <-.
    eapply Inv_ctrl; [exact HI | apply cchange_refl | | reflexivity | | ].
    + intros t. unfold vtaskq, virt. ssimpl. rewrite Ep. reflexivity.
    + unfold conn_inv. ssimpl. auto.
    + intros Hi. specialize (HF Hi). rewrite Ep in HF. contradiction.
  - (* LCloseFailed *)
    destruct (s_pc s) eqn:Ep; try discriminate. destruct HC as (C1 & C2 & C3). rewrite Ep in C3.
    intros H; injection H as <-.
    eapply Inv_ctrl; [exact HI | apply cchange_kill | | reflexivity | | ].
    + intros t. unfold vtaskq, virt. ssimpl. rewrite Ep. reflexivity.
    + unfold conn_inv. ssimpl. split; [exact C1|]. split; [|exact I].
      intros H. destruct (C2 H) as (k' & Hk & Hi). exists k'. split; [exact Hk|].
      apply (cchange_kill (s_w s) k). exact Hi.
    + intros Hi. specialize (HF Hi). rewrite Ep in HF. ssimpl.
      eapply never_accepted_cchange; [apply cchange_kill | exact HF].
  - (* LBackoff *)
    destruct (s_pc s) eqn:Ep; try discriminate. destruct HC as (C1 & C2 & C3). rewrite Ep in C3.
    intros H; injection H as <-.
    eapply Inv_ctrl; [exact HI | apply cchange_refl | | reflexivity | | ].
    + intros t. unfold vtaskq, virt. ssimpl. rewrite Ep. reflexivity.
    + unfold conn_inv. ssimpl. auto.
    + unfold first_inv in *. ssimpl. rewrite Ep in HF. exact HF.
  - (* LIdleCut *)
    destruct (s_pc s) eqn:Ep; try discriminate.
    destruct (cl_alive (get_client (s_w s) k)); [|discriminate]. intros H; injection H as <-.
    eapply Inv_ctrl; [exact HI | apply cchange_kill | | reflexivity | | ].
    + intros t. unfold vtaskq, virt. ssimpl. rewrite Ep. reflexivity.
    + eapply conn_inv_ctl; eauto. apply cctl_of_cchange, cchange_kill.
    + eapply first_inv_ctl; eauto. apply cctl_of_cchange, cchange_kill.
Qed.

Lemma run_inv ls : forall s s', Inv s -> run cfg fp s ls = Some s' -> Inv s'.
Proof.
  induction ls as [|l ls IH]; intros s s' HI; cbn [run].
  - intros H; injection H as <-. exact HI.
  - destruct (step cfg fp s l) as [s1|] eqn:Es; [|discriminate]. apply IH. eapply step_inv; eauto.
Qed.

Lemma quiescent_maps s : Inv s -> quiescent s ->
  coh (bsubs (s_w s)) /\ coh (w_subest (s_w s)) /\
  forall t, bget (s_w s) t = netget s t /\ eget (s_w s) t = netget s t.
Proof.
  intros ((S1 & S2 & _) & HW & _) (Q1 & Q2 & _ & _ & k & Q3 & _).
  split; [exact S1|]. split; [exact S2|]. intros t. specialize (HW t).
  unfold vtaskq, virt in HW. rewrite Q1, Q2, Q3 in HW. cbn in HW. destruct HW as (A & _ & B). split; congruence.
Qed.

End Sys.

Lemma C08_converges : C08_converges_stmt.
Proof.
  unfold C08_converges_stmt. intros cfg fp ls s Hrun _ Hfp Hq.
  pose proof (run_inv cfg fp Hfp ls sys0 s (Inv_sys0 cfg) Hrun) as HI.
  destruct (quiescent_maps cfg s HI Hq) as (A & B & C).
  apply subs_equiv_of_get; [exact A | apply coh_net_effect|]. intros t. apply C.
Qed.

Lemma C08_established_view : C08_established_view_stmt.
Proof.
  unfold C08_established_view_stmt. intros cfg fp ls s Hrun _ Hfp Hq.
  pose proof (run_inv cfg fp Hfp ls sys0 s (Inv_sys0 cfg) Hrun) as HI.
  destruct (quiescent_maps cfg s HI Hq) as (A & B & C).
  apply subs_equiv_of_get; [exact B | apply coh_net_effect|]. intros t. apply C.
Qed.

Lemma C08_resub_condition : C08_resub_condition_stmt.
Proof.
  unfold C08_resub_condition_stmt. intros cfg fp s sp k Hpc. cbn [step]. rewrite Hpc.
  destruct (s_initialized s && (negb sp || c_always_resub cfg)); eexists; split; try reflexivity.
  cbn. rewrite app_nil_r. reflexivity.
Qed.
