(* ParseExit_proofs.v — whenever Done() is closed, the error that ended the link is already in
   Err() and was already reported through the state callback, and the transport is closed. *)
From MQ Require Import Base Codec Codec_proofs Inbound Parse Parse_proofs ParseExit.
Open Scope N_scope.

Definition done_implies_observable (e : perr) (l : link) : Prop :=
  lk_done l = true ->
  lk_err l = Some e /\ lk_reported l = Some (Some e) /\ lk_transport_closed l = true.

Theorem exit_order_safe e : Forall (done_implies_observable e) (exit_states e).
Proof.
  unfold exit_states, exit_steps. cbn [xrun xapply link0 lk_err lk_reported lk_done lk_transport_closed].
  repeat (apply Forall_cons;
    [unfold done_implies_observable; cbn; intros H; try discriminate H; repeat split|]).
  apply Forall_nil.
Qed.

Theorem exit_reaches_done e : exists l, In l (exit_states e) /\ lk_done l = true.
Proof. eexists. split; [do 4 right; left; reflexivity | reflexivity]. Qed.

(* Transport.Close() is entered — and may block — with Done() still open *)
Theorem close_entered_before_done e l : state_at_close link0 (exit_steps e) = Some l -> lk_done l = false.
Proof. cbn. intros H. injection H as <-. reflexivity. Qed.

(* the same through the loop: for EVERY byte stream the link ends, and at every moment at which
   Done() is closed, Err() holds the loop's error and the Closed callback has delivered it *)
Theorem link_done_implies_observable h s :
  exists e, snd (serve h s) = EndErr e /\
    Forall (done_implies_observable e) (link_states h s) /\
    (exists l, In l (link_states h s) /\ lk_done l = true) /\
    (if has_malformed s then protocol_error e else (e = EEOF \/ e = EUnexpectedEOF)).
Proof.
  destruct (serve_classified h s) as (e & He & Hc). exists e. split; [exact He|].
  unfold link_states. rewrite He.
  split; [apply exit_order_safe|]. split; [apply exit_reaches_done | exact Hc].
Qed.

(* non-vacuity, and the order that seeded change C06-9 introduces violates the statement *)
Example ex_done_first_is_unsafe :
  ~ Forall (done_implies_observable EInvalidPacket)
      (xrun link0 [XCloseDone; XCloseTransport; XStoreErr EInvalidPacket; XReportClosed]).
Proof.
  intros H. inversion H as [|x l _ H1]; subst. inversion H1 as [|x l H2 _]; subst.
  destruct (H2 eq_refl) as [E _]. discriminate E.
Qed.

Print Assumptions link_done_implies_observable.
