(* CheckC05.v — executable comparison of what the implementation wrote / delivered with the
   encoder model (M_ results) and with the independent decoder and the property's own clauses (V_ results). *)
From MQ Require Import Base Codec SpecDecode Inbound Parse C05Flows.
Open Scope N_scope.

Definition bytes_eqb := list_eqb N.eqb.
Definition obytes_eqb := option_eqb bytes_eqb.

Definition ostr_eqb := option_eqb str_eqb.

Definition will_eqb (a b : str * str * N * bool) : bool :=
  let '(t1, p1, q1, r1) := a in let '(t2, p2, q2, r2) := b in
  str_eqb t1 t2 && str_eqb p1 p2 && (q1 =? q2) && Bool.eqb r1 r2.

Fixpoint subs_eqb (a b : list (str * N)) : bool :=
  match a, b with
  | [], [] => true
  | (t1, q1) :: a', (t2, q2) :: b' => str_eqb t1 t2 && (q1 =? q2) && subs_eqb a' b'
  | _, _ => false
  end.

(* ---------- CONNECT ---------- *)
Definition conn_hyp (c : connect) : bool := negb (nonempty (c_pass c)) || nonempty (c_user c).

Definition conn_decodes (c : connect) (obs : list N) : bool :=
  match spec_decode obs with
  | Some (PConnect lv cl ka cid wl us pw, []) =>
      (lv =? c_level c) && Bool.eqb cl (c_clean c) && (ka =? c_keepalive c) && str_eqb cid (c_client_id c)
      && option_eqb will_eqb wl (option_map (fun w => (w_topic w, w_payload w, w_qos w, w_retain w)) (c_will c))
      && ostr_eqb us (if nonempty (c_user c) then Some (c_user c) else None)
      && ostr_eqb pw (if nonempty (c_pass c) then Some (c_pass c) else None)
  | _ => false
  end.

Definition c05_conn_violations (cs : list (connect * list N)) : list nat :=
  indices_where (fun c => conn_hyp (fst c) && negb (conn_decodes (fst c) (snd c))) cs.
Definition c05_conn_mismatches (cs : list (connect * list N)) : list nat :=
  indices_where (fun c => negb (obytes_eqb (pack_connect (fst c)) (Some (snd c)))) cs.

(* ---------- PUBLISH ---------- *)
Definition pub_case := (N * message * bool * N * list (list N))%type.

Definition publish_decodes (m : message) (obs : list N) : bool :=
  match spec_decode obs with
  | Some (PPublish dup q rt t id pl, []) =>
      negb dup && (q =? m_qos m) && Bool.eqb rt (m_retain m) && str_eqb t (m_topic m)
      && option_eqb N.eqb id (if m_qos m =? 0 then None else Some (m_id m)) && str_eqb pl (m_payload m)
  | _ => false
  end.

Definition pubrel_decodes (id : N) (obs : list N) : bool :=
  match spec_decode obs with Some (PPubRel i, []) => i =? id | _ => false end.

(* the property's clauses, judged on what was observed *)
Definition pub_ok (c : pub_case) : bool :=
  let '(mx, m, given, code, ws) := c in
  let must_reject := (2 <? m_qos m) || (negb (mx =? 0) && (mx <? len (m_payload m))) in
  if negb (code =? 0) then
    is_nil_b (concat ws)                                   (* rejected: nothing written *)
    && ((code =? 1) || (code =? 2))
  else
    negb must_reject
    && match ws with
       | [p] => negb (m_qos m =? 2) && publish_decodes m p
       | [p; r] => (m_qos m =? 2) && publish_decodes m p && pubrel_decodes (m_id m) r
       | _ => false
       end
    && ((m_qos m =? 0) || negb (m_id m =? 0)).

Definition pub_model_ok (c : pub_case) : bool :=
  let '(mx, m, given, code, ws) := c in
  (validate_message mx m =? code)
  && (if code =? 0 then
        match ws with
        | [p] => obytes_eqb (pack_publish m) (Some p) && negb (m_qos m =? 2)
        | [p; r] => obytes_eqb (pack_publish m) (Some p) && obytes_eqb (pack_pubrel (m_id m)) (Some r) && (m_qos m =? 2)
        | _ => false
        end
      else is_nil_b (concat ws)).

Definition c05_pub_violations (cs : list pub_case) : list nat := indices_where (fun c => negb (pub_ok c)) cs.
Definition c05_pub_mismatches (cs : list pub_case) : list nat := indices_where (fun c => negb (pub_model_ok c)) cs.

(* ---------- SUBSCRIBE / UNSUBSCRIBE ---------- *)
Definition sub_ok (c : list (str * N) * list N) : bool :=
  let '(subs, obs) := c in
  match spec_decode obs with
  | Some (PSubscribe id ss, []) => subs_eqb ss subs && negb (id =? 0) && obytes_eqb (pack_subscribe id subs) (Some obs)
  | _ => false
  end.

Definition unsub_ok (c : list str * list N) : bool :=
  let '(ts, obs) := c in
  match spec_decode obs with
  | Some (PUnsubscribe id tps, []) => list_eqb str_eqb tps ts && negb (id =? 0) && obytes_eqb (pack_unsubscribe id ts) (Some obs)
  | _ => false
  end.

Definition c05_sub_violations (cs : list (list (str * N) * list N)) : list nat := indices_where (fun c => negb (sub_ok c)) cs.
Definition c05_unsub_violations (cs : list (list str * list N)) : list nat := indices_where (fun c => negb (unsub_ok c)) cs.

(* ---------- small packets ---------- *)
Definition is_pingreq (b : list N) : bool := bytes_eqb b [192; 0].

Definition small_ok (c : N * N * list (list N)) : bool :=
  let '(id1, id2, ws) := c in
  let others := filter (fun b => negb (is_pingreq b)) ws in
  Nat.eqb (length (filter is_pingreq ws)) 1
  && match others with
     | [a; b; c'; d] =>
         obytes_eqb (pack_puback id1) (Some a) && obytes_eqb (pack_pubrec id2) (Some b)
         && obytes_eqb (pack_pubcomp id2) (Some c') && obytes_eqb pack_disconnect (Some d)
         && match spec_decode a, spec_decode b, spec_decode c', spec_decode d with
            | Some (PPubAck i, []), Some (PPubRec j, []), Some (PPubComp k, []), Some (PDisconnect, []) =>
                (i =? id1) && (j =? id2) && (k =? id2)
            | _, _, _, _ => false
            end
     | _ => false
     end
  && forallb (fun b => match spec_decode b with Some (_, []) => true | _ => false end) ws.

Definition c05_small_violations (cs : list (N * N * list (list N))) : list nat := indices_where (fun c => negb (small_ok c)) cs.

(* ---------- remaining length ---------- *)
Definition len_ok (c : N * option (list N)) : bool :=
  let '(n, obs) := c in
  obytes_eqb (remaining_length_go n) obs
  && match obs with
     | Some b => (n <=? 268435455)
                 && match decode_varint 4 1 0 b with Some (k, []) => k =? n | _ => false end
                 && Nat.eqb (length b) (min_varint_len n)
     | None => 268435455 <? n
     end.

Definition c05_len_violations (cs : list (N * option (list N))) : list nat := indices_where (fun c => negb (len_ok c)) cs.

(* ---------- big payloads: header prefix and total length, without materialising the payload ---------- *)
Definition big_ok (c : N * N * bool * list N * N) : bool :=
  let '(n, q, panicked, prefix, total) := c in
  let topic := [0; 3; 98; 105; 103] in
  let idb := if q =? 0 then [] else [0; 7] in
  let body_len := len topic + len idb + n in
  match remaining_length_go body_len with
  | None => panicked
  | Some rl =>
      negb panicked
      && (total =? 1 + len rl + body_len)
      && bytes_eqb prefix (firstn 16 ((48 + 2 * q) :: rl ++ topic ++ idb ++ repeat 0 (N.to_nat (N.min n 16))))
  end.

Definition c05_big_violations (cs : list (N * N * bool * list N * N)) : list nat := indices_where (fun c => negb (big_ok c)) cs.

(* ---------- inbound PUBLISH ---------- *)
Definition pflags (m : message) : N := b2n (m_retain m) 1 + 2 * m_qos m + b2n (m_dup m) 8.
Definition pbody (m : message) : option (list N) :=
  match pack_bytes (m_topic m) with
  | Some t => Some (t ++ (if m_qos m =? 0 then [] else uint16_bytes (m_id m)) ++ m_payload m)
  | None => None
  end.

Definition omsg_eqb := option_eqb message_eqb.

Definition expected_delivery (m : message) : message :=
  {| m_topic := m_topic m; m_id := if m_qos m =? 0 then 0 else m_id m; m_qos := m_qos m;
     m_retain := m_retain m; m_dup := m_dup m; m_payload := m_payload m |}.

(* property: a valid topic is delivered with exactly the encoded fields *)
Definition inpub_ok (c : message * bool * option message) : bool :=
  let '(m, valid, obs) := c in
  if valid then omsg_eqb obs (Some (expected_delivery m)) else true.

(* model: what parse_publish makes of the encoded packet *)
Definition inpub_model_ok (c : message * bool * option message) : bool :=
  let '(m, valid, obs) := c in
  match pbody m with
  | Some body =>
      match parse_publish (pflags m) body with
      | Ok m' => omsg_eqb obs (Some m')
      | Err _ => omsg_eqb obs None
      | Panic => false
      end
  | None => false
  end.

Definition c05_inpub_violations (cs : list (message * bool * option message)) : list nat := indices_where (fun c => negb (inpub_ok c)) cs.
Definition c05_inpub_mismatches (cs : list (message * bool * option message)) : list nat := indices_where (fun c => negb (inpub_model_ok c)) cs.

(* inbound length decoding: header = first 8 bytes of a QoS 0 PUBLISH with topic "big" and n payload bytes *)
Definition inbig_ok (c : list N * N * N) : bool :=
  let '(hdr, n, got1) := c in
  (got1 =? n + 1)
  && match hdr with
     | _ :: l0 :: r =>
         match read_len 0 0 l0 r with
         | Ok (k, _) => k =? n + 5
         | _ => false
         end
     | _ => false
     end.

Definition c05_inbig_violations (cs : list (list N * N * N)) : list nat := indices_where (fun c => negb (inbig_ok c)) cs.

(* compact literal for the harness: the n bytes s, s+3, s+6, ... (mod 256); generated payloads are such
   progressions, so that long ones cross the boundary as two numbers *)
Fixpoint ap3_nat (s : N) (n : nat) : list N :=
  match n with O => [] | S k => (s mod 256) :: ap3_nat (s + 3) k end.
Definition ap3 (s n : N) : list N := ap3_nat s (N.to_nat n).
Fixpoint ap1_nat (s : N) (n : nat) : list N :=
  match n with O => [] | S k => (s mod 256) :: ap1_nat (s + 1) k end.
Definition ap1 (s n : N) : list N := ap1_nat s (N.to_nat n).
(* letters 'a'+k, 'a'+k+1, ... cycling through the alphabet *)
Definition alphabet : list N :=
  [97; 98; 99; 100; 101; 102; 103; 104; 105; 106; 107; 108; 109; 110; 111; 112; 113; 114; 115; 116; 117; 118;
   119; 120; 121; 122].
Fixpoint rep_app (l : list N) (m : nat) : list N :=
  match m with O => [] | S j => l ++ rep_app l j end.
(* built from whole copies of the alphabet (no arithmetic per byte: fields of 128 KB are cheap) *)
Definition az (k n : N) : list N :=
  firstn (N.to_nat n) (skipn (N.to_nat (k mod 26)) (rep_app alphabet (N.to_nat (n / 26 + 2)))).

(* ---------- inbound sequences: PUBLISH of every QoS, PUBREL, routed packets in between ---------- *)
(* the whole broker stream read by the independent decoder *)
Fixpoint spec_decode_all (fuel : nat) (bs : list N) : option (list packet) :=
  match fuel with
  | O => None
  | S f =>
      match bs with
      | [] => Some []
      | _ => match spec_decode bs with
             | Some (p, r) => match spec_decode_all f r with Some l => Some (p :: l) | None => None end
             | None => None
             end
      end
  end.

(* broker-to-client packets as the receiver specification of Inbound.v sees them; a packet that a
   broker never sends makes the case invalid *)
Fixpoint flow_of_packets (ps : list packet) : option (list in_pkt) :=
  match ps with
  | [] => Some []
  | p :: r =>
      match flow_of_packets r with
      | None => None
      | Some l =>
          match p with
          | PPublish dup q rt t id pl =>
              Some (InPublish {| m_topic := t; m_id := match id with Some i => i | None => 0 end; m_qos := q;
                                 m_retain := rt; m_dup := dup; m_payload := pl |} :: l)
          | PPubRel id => Some (InPubRel id :: l)
          | PConnAck _ _ | PPubAck _ | PPubRec _ | PPubComp _ | PSubAck _ _ | PUnsubAck _ | PPingResp => Some l
          | _ => None
          end
      end
  end.

Definition inseq_case := (list N * list in_event)%type.

(* property: the messages handed to the handler are, field by field (topic, id, QoS, retain, DUP,
   payload), what the independent decoder reads from the encoded PUBLISH packets, released as the
   receiver specification says, whatever arrived between a QoS 2 PUBLISH and its PUBREL *)
Definition inseq_ok (c : inseq_case) : bool :=
  let '(stream, obs) := c in
  match spec_decode_all (S (length stream)) stream with
  | Some pk =>
      match flow_of_packets pk with
      | Some fl => list_eqb message_eqb (hands obs) (hands (spec_run true os_empty fl))
      | None => false
      end
  | None => false
  end.

(* model: the serve loop model on the same bytes makes the same hand-overs and writes the same
   acknowledgements in the same order, and ends with io.EOF *)
Definition inseq_model_ok (c : inseq_case) : bool :=
  let '(stream, obs) := c in
  let '(evs, e) := serve true stream in
  list_eqb in_event_eqb (in_events evs) obs
  && match e with EndErr EEOF => true | _ => false end.

Definition c05_inseq_violations (cs : list inseq_case) : list nat := indices_where (fun c => negb (inseq_ok c)) cs.
Definition c05_inseq_mismatches (cs : list inseq_case) : list nat := indices_where (fun c => negb (inseq_model_ok c)) cs.

(* ---------- retry handles: every packet written on every connection of an interrupted request ---------- *)
Inductive rop :=
| RPub (m : message)              (* m_id = the identifier the library put on the wire; m_dup unused *)
| RSub (subs : list (str * N))
| RUnsub (ts : list str).

(* request, identifier given by the caller (0 = none), where each connection was interrupted,
   packets handed to the transport per connection (the CONNECT of each connection first) *)
Definition retry_case := (rop * N * list N * list (list (list N)))%type.

Definition decode_whole (b : list N) : option packet :=
  match spec_decode b with Some (p, []) => Some p | _ => None end.

Fixpoint decode_conn (ws : list (list N)) : option (list packet) :=
  match ws with
  | [] => Some []
  | w :: r => match decode_whole w, decode_conn r with
              | Some p, Some l => Some (p :: l)
              | _, _ => None
              end
  end.

(* each connection starts with a well-formed CONNECT; what follows it, decoded *)
Fixpoint decode_conns (cs : list (list (list N))) : option (list (list packet)) :=
  match cs with
  | [] => Some []
  | c :: r =>
      match decode_conn c, decode_conns r with
      | Some (PConnect _ _ _ _ _ _ _ :: l), Some ls => Some (l :: ls)
      | _, _ => None
      end
  end.

(* PUBLISH/PUBREL sequence of one request over all its connections:
   [first] = no PUBLISH was sent yet, [rel] = a PUBREL was already sent *)
Fixpoint pubseq_ok (m : message) (first rel : bool) (ps : list packet) : bool :=
  match ps with
  | [] => true
  | PPublish dup q rt t id pl :: r =>
      negb rel                                              (* MQTT 4.3.3: no PUBLISH once PUBREC was received *)
      && Bool.eqb dup (negb first)                          (* DUP exactly on re-deliveries, MQTT-3.3.1-1 *)
      && (q =? m_qos m) && Bool.eqb rt (m_retain m) && str_eqb t (m_topic m)
      && option_eqb N.eqb id (Some (m_id m)) && str_eqb pl (m_payload m)
      && pubseq_ok m false rel r
  | PPubRel id :: r =>
      (m_qos m =? 2) && negb first && (id =? m_id m) && pubseq_ok m first true r
  | _ => false
  end.

Definition is_pubrel (p : packet) : bool := match p with PPubRel _ => true | _ => false end.

Definition retry_ok (c : retry_case) : bool :=
  let '(op, given, cuts, conns) := c in
  Nat.eqb (length cuts) (length conns)
  && match decode_conns conns with
     | None => false                                        (* some packet is not well-formed MQTT 3.1.1 *)
     | Some ls =>
         forallb (fun l => negb (Nat.eqb (length l) 0)) ls  (* every attempt sends something *)
         && match op with
            | RPub m =>
                ((m_qos m =? 1) || (m_qos m =? 2)) && negb (m_id m =? 0) && ((given =? 0) || (given =? m_id m))
                && pubseq_ok m true false (concat ls)
                && (if m_qos m =? 2 then match rev (concat ls) with p :: _ => is_pubrel p | [] => false end else true)
            | RSub subs =>
                forallb (fun l => match l with
                                  | [PSubscribe id ss] => subs_eqb ss subs && negb (id =? 0)
                                  | _ => false end) ls
            | RUnsub ts =>
                forallb (fun l => match l with
                                  | [PUnsubscribe id tps] => list_eqb str_eqb tps ts && negb (id =? 0)
                                  | _ => false end) ls
            end
     end.

Fixpoint olist_eqb (a : list (option (list N))) (b : list (list N)) : bool :=
  match a, b with
  | [], [] => true
  | x :: a', y :: b' => obytes_eqb x (Some y) && olist_eqb a' b'
  | _, _ => false
  end.

Fixpoint conns_eqb (a : list (list (option (list N)))) (b : list (list (list N))) : bool :=
  match a, b with
  | [], [] => true
  | x :: a', y :: b' => olist_eqb x y && conns_eqb a' b'
  | _, _ => false
  end.

Fixpoint drop_connects (cs : list (list (list N))) : list (list (list N)) :=
  match cs with [] => [] | c :: r => tl c :: drop_connects r end.

Definition packet_id_of (b : list N) : N :=
  match decode_whole b with
  | Some (PSubscribe id _) | Some (PUnsubscribe id _) => id
  | _ => 0
  end.

(* model: the bytes are those of the encoder model, in the number and order pub_run says *)
Definition retry_model_ok (c : retry_case) : bool :=
  let '(op, given, cuts, conns) := c in
  let ws := drop_connects conns in
  match op with
  | RPub m => conns_eqb (pub_run m (PSend false) cuts) ws
  | RSub subs =>
      Nat.eqb (length cuts) (length ws)
      && forallb (fun l => match l with [b] => obytes_eqb (pack_subscribe (packet_id_of b) subs) (Some b) | _ => false end) ws
  | RUnsub ts =>
      Nat.eqb (length cuts) (length ws)
      && forallb (fun l => match l with [b] => obytes_eqb (pack_unsubscribe (packet_id_of b) ts) (Some b) | _ => false end) ws
  end.

Definition c05_retry_violations (cs : list retry_case) : list nat := indices_where (fun c => negb (retry_ok c)) cs.
Definition c05_retry_mismatches (cs : list retry_case) : list nat := indices_where (fun c => negb (retry_model_ok c)) cs.

(* ---------- length-prefixed fields around the 65,535 limit ---------- *)
(* request; rejected (an error or the panic "string length overflow" came back); packets handed to the
   transport (for CONNECT: everything; otherwise: everything after the session's CONNECT) *)
Inductive lreq :=
| LConn (c : connect)
| LPub (m : message)               (* m_id = identifier on the wire *)
| LSub (subs : list (str * N))
| LUnsub (ts : list str).

Definition long_case := (lreq * bool * list (list N))%type.

Definition no_writes (ws : list (list N)) : bool := match ws with [] => true | _ => false end.

Definition sub_decodes (subs : list (str * N)) (obs : list N) : bool :=
  match spec_decode obs with
  | Some (PSubscribe id ss, []) => subs_eqb ss subs && negb (id =? 0)
  | _ => false
  end.

Definition unsub_decodes (ts : list str) (obs : list N) : bool :=
  match spec_decode obs with
  | Some (PUnsubscribe id tps, []) => list_eqb str_eqb tps ts && negb (id =? 0)
  | _ => false
  end.

(* the property: EITHER rejected before anything is written OR what was written decodes to exactly the
   requested fields (a field above 65,535 bytes cannot be carried, so it can only be rejected) *)
Definition long_ok (c : long_case) : bool :=
  let '(rq, rejected, ws) := c in
  if rejected then no_writes ws else
  match rq, ws with
  | LConn cn, [p] => conn_hyp cn && conn_decodes cn p
  | LPub m, _ => pub_ok (0, m, true, 0, ws)
  | LSub subs, [p] => sub_decodes subs p
  | LUnsub ts, [p] => unsub_decodes ts p
  | _, _ => false
  end.

(* the model: the encoder's panic outcome (None) is the rejection, otherwise the same bytes *)
Definition long_model_ok (c : long_case) : bool :=
  let '(rq, rejected, ws) := c in
  match rq with
  | LConn cn =>
      match pack_connect cn with
      | None => rejected && no_writes ws
      | Some b => negb rejected && match ws with [p] => bytes_eqb b p | _ => false end
      end
  | LPub m =>
      match pack_publish m with
      | None => rejected && no_writes ws
      | Some _ => negb rejected && pub_model_ok (0, m, true, 0, ws)
      end
  | LSub subs =>
      if rejected then no_writes ws && match pack_subscribe 1 subs with None => true | Some _ => false end
      else match ws with [p] => obytes_eqb (pack_subscribe (packet_id_of p) subs) (Some p) | _ => false end
  | LUnsub ts =>
      if rejected then no_writes ws && match pack_unsubscribe 1 ts with None => true | Some _ => false end
      else match ws with [p] => obytes_eqb (pack_unsubscribe (packet_id_of p) ts) (Some p) | _ => false end
  end.

Definition c05_long_violations (cs : list long_case) : list nat := indices_where (fun c => negb (long_ok c)) cs.
Definition c05_long_mismatches (cs : list long_case) : list nat := indices_where (fun c => negb (long_model_ok c)) cs.

(* ---------- RetryClient: the re-subscription after a reconnection ---------- *)
(* request history with the codes the first broker granted; packets after the CONNECT on each later
   connection (Resubscribe and Retry were called on each) *)
Definition resub_case := (list (sop * list N) * list (list (list N)))%type.

Fixpoint decode_subscribes (ws : list (list N)) : option (list (str * N)) :=
  match ws with
  | [] => Some []
  | w :: r =>
      match decode_whole w, decode_subscribes r with
      | Some (PSubscribe id ss), Some l => if id =? 0 then None else Some (ss ++ l)
      | _, _ => None
      end
  end.

Definition op_topics (o : sop) : list str :=
  match o with SSub subs => map fst subs | SUnsub ts => ts end.

Definition count_topic (t : str) (l : list (str * N)) : nat :=
  length (filter (fun e => str_eqb (fst e) t) l).

(* property: every packet is a well-formed SUBSCRIBE; each requested (filter, QoS) is what the application
   asked last for that filter; every filter still asked for is re-subscribed exactly once *)
Definition resub_conn_ok (ops : list sop) (ws : list (list N)) : bool :=
  match decode_subscribes ws with
  | None => false
  | Some l =>
      forallb (fun e => option_eqb N.eqb (asked (fst e) ops None) (Some (snd e))) l
      && forallb (fun t => match asked t ops None with
                           | Some _ => Nat.eqb (count_topic t l) 1
                           | None => Nat.eqb (count_topic t l) 0
                           end) (flat_map op_topics ops)
  end.

Definition resub_ok (c : resub_case) : bool :=
  let '(h, conns) := c in
  negb (Nat.eqb (length conns) 0) && forallb (resub_conn_ok (map fst h)) conns.

(* model: byte for byte the encoding of one SUBSCRIBE per remembered request, in order *)
Fixpoint resub_bytes_ok (reqs : list (list (str * N))) (ws : list (list N)) : bool :=
  match reqs, ws with
  | [], [] => true
  | r :: reqs', w :: ws' => obytes_eqb (pack_subscribe (packet_id_of w) r) (Some w) && resub_bytes_ok reqs' ws'
  | _, _ => false
  end.

Definition resub_model_ok (c : resub_case) : bool :=
  let '(h, conns) := c in
  forallb (resub_bytes_ok (resub_requests (rc_run [] h))) conns.

Definition c05_resub_violations (cs : list resub_case) : list nat := indices_where (fun c => negb (resub_ok c)) cs.
Definition c05_resub_mismatches (cs : list resub_case) : list nat := indices_where (fun c => negb (resub_model_ok c)) cs.

(* ---------- RetryClient: messages published while the retry queue is not empty ---------- *)
(* the interrupted request that sits in the retry queue; the messages the application published behind it
   (m_id = the identifier the application gave, 0 = none), in order; packets after the CONNECT of the
   next connection, on which Retry() ran *)
Definition parked_case := (rop * list message * list (list N))%type.

(* property: after the retransmission of the interrupted request, one PUBLISH per message, in order, with
   exactly the topic, payload, QoS and RETAIN the application asked for, DUP=0, the application's
   identifier if it gave one, and (QoS 2) the PUBREL of that identifier *)
Fixpoint parked_seq_ok (dupfirst : bool) (ms : list message) (ps : list packet) : bool :=
  match ms with
  | [] => match ps with [] => true | _ => false end
  | m :: r =>
      match ps with
      | PPublish dup q rt t (Some id) pl :: ps' =>
          Bool.eqb dup dupfirst && (q =? m_qos m) && Bool.eqb rt (m_retain m) && str_eqb t (m_topic m)
          && str_eqb pl (m_payload m) && negb (id =? 0) && ((m_id m =? 0) || (id =? m_id m))
          && (if q =? 2 then
                match ps' with
                | PPubRel i :: ps'' => (i =? id) && parked_seq_ok false r ps''
                | _ => false
                end
              else parked_seq_ok false r ps')
      | _ => false
      end
  end.

Definition parked_ok (c : parked_case) : bool :=
  let '(first, ms, ws) := c in
  match decode_conn ws with
  | None => false
  | Some ps =>
      match first with
      | RPub m0 => ((m_qos m0 =? 1) || (m_qos m0 =? 2)) && parked_seq_ok true (m0 :: ms) ps
      | RSub subs => match ps with
                     | PSubscribe id ss :: ps' => subs_eqb ss subs && negb (id =? 0) && parked_seq_ok false ms ps'
                     | _ => false
                     end
      | RUnsub ts => match ps with
                     | PUnsubscribe id tps :: ps' => list_eqb str_eqb tps ts && negb (id =? 0) && parked_seq_ok false ms ps'
                     | _ => false
                     end
      end
  end.

Definition set_id (m : message) (id : N) : message :=
  {| m_topic := m_topic m; m_id := id; m_qos := m_qos m; m_retain := m_retain m; m_dup := m_dup m;
     m_payload := m_payload m |}.

Definition publish_id_of (b : list N) : N :=
  match decode_whole b with Some (PPublish _ _ _ _ (Some i) _) => i | _ => 0 end.

(* model: byte for byte the encoder model on the application's message (struct copy: every field) *)
Fixpoint parked_bytes_ok (dupfirst : bool) (ms : list message) (ws : list (list N)) : bool :=
  match ms with
  | [] => no_writes ws
  | m :: r =>
      match ws with
      | w :: ws' =>
          let id := publish_id_of w in
          obytes_eqb (pack_publish (set_id (with_dup m dupfirst) id)) (Some w)
          && ((m_id m =? 0) || (id =? m_id m))
          && (if m_qos m =? 2 then
                match ws' with
                | rl :: ws'' => obytes_eqb (pack_pubrel id) (Some rl) && parked_bytes_ok false r ws''
                | [] => false
                end
              else parked_bytes_ok false r ws')
      | [] => false
      end
  end.

Definition parked_model_ok (c : parked_case) : bool :=
  let '(first, ms, ws) := c in
  match first with
  | RPub m0 => parked_bytes_ok true (m0 :: ms) ws
  | RSub subs => match ws with
                 | w :: ws' => obytes_eqb (pack_subscribe (packet_id_of w) subs) (Some w) && parked_bytes_ok false ms ws'
                 | [] => false
                 end
  | RUnsub ts => match ws with
                 | w :: ws' => obytes_eqb (pack_unsubscribe (packet_id_of w) ts) (Some w) && parked_bytes_ok false ms ws'
                 | [] => false
                 end
  end.

Definition c05_parked_violations (cs : list parked_case) : list nat := indices_where (fun c => negb (parked_ok c)) cs.
Definition c05_parked_mismatches (cs : list parked_case) : list nat := indices_where (fun c => negb (parked_model_ok c)) cs.

(* ---------- large inbound PUBLISH packets, complete or cut by the end of the stream ---------- *)
(* bytes the broker sent after the CONNACK (one PUBLISH, possibly cut short), what the handler received,
   how the connection ended: 1 = io.EOF, 2 = io.ErrUnexpectedEOF, 9 = anything else *)
Definition trunc_case := (list N * option message * N)%type.

(* property, judged with the independent decoder: a complete PUBLISH is handed over with exactly its fields
   and the stream then ends normally; of a packet whose body is shorter than its remaining length says
   NOTHING is handed over and the connection ends with an unexpected-EOF error *)
Definition trunc_ok (c : trunc_case) : bool :=
  let '(stream, obs, code) := c in
  match spec_decode stream with
  | Some (PPublish dup q rt t id pl, rest) =>
      (* a complete QoS 2 PUBLISH is followed by its PUBREL, a QoS 0/1 PUBLISH by nothing *)
      (if q =? 2 then match spec_decode rest, id with
                      | Some (PPubRel i, []), Some j => i =? j
                      | _, _ => false
                      end
       else is_nil_b rest)
      && omsg_eqb obs (Some {| m_topic := t; m_id := match id with Some i => i | None => 0 end; m_qos := q;
                               m_retain := rt; m_dup := dup; m_payload := pl |})
      && (code =? 1)
  | Some _ => false
  | None => match obs with None => code =? 2 | Some _ => false end
  end.

Definition trunc_model_ok (c : trunc_case) : bool :=
  let '(stream, obs, code) := c in
  let '(evs, e) := serve true stream in
  list_eqb message_eqb (hands (in_events evs)) (match obs with Some m => [m] | None => [] end)
  && match e with
     | EndErr EEOF => code =? 1
     | EndErr EUnexpectedEOF => code =? 2
     | _ => false
     end.

Definition c05_trunc_violations (cs : list trunc_case) : list nat := indices_where (fun c => negb (trunc_ok c)) cs.
Definition c05_trunc_mismatches (cs : list trunc_case) : list nat := indices_where (fun c => negb (trunc_model_ok c)) cs.

(* ---------- RetryClient: SUBSCRIBE / UNSUBSCRIBE requests on the wire = the application's, in order ---------- *)
Definition rcreq_case := (list sop * list (list N))%type.

Fixpoint rcreq_seq_ok (ops : list sop) (ps : list packet) : bool :=
  match ops, ps with
  | [], [] => true
  | SSub subs :: r, PSubscribe id ss :: ps' => subs_eqb ss subs && negb (id =? 0) && rcreq_seq_ok r ps'
  | SUnsub ts :: r, PUnsubscribe id tps :: ps' => list_eqb str_eqb tps ts && negb (id =? 0) && rcreq_seq_ok r ps'
  | _, _ => false
  end.

Definition rcreq_ok (c : rcreq_case) : bool :=
  let '(ops, ws) := c in
  match decode_conn ws with Some ps => rcreq_seq_ok ops ps | None => false end.

Fixpoint rcreq_bytes_ok (ops : list sop) (ws : list (list N)) : bool :=
  match ops, ws with
  | [], [] => true
  | SSub subs :: r, w :: ws' => obytes_eqb (pack_subscribe (packet_id_of w) subs) (Some w) && rcreq_bytes_ok r ws'
  | SUnsub ts :: r, w :: ws' => obytes_eqb (pack_unsubscribe (packet_id_of w) ts) (Some w) && rcreq_bytes_ok r ws'
  | _, _ => false
  end.

Definition c05_rcreq_violations (cs : list rcreq_case) : list nat := indices_where (fun c => negb (rcreq_ok c)) cs.
Definition c05_rcreq_mismatches (cs : list rcreq_case) : list nat :=
  indices_where (fun c => negb (rcreq_bytes_ok (fst c) (snd c))) cs.
