(* CheckC04.v — executable comparison for C04 *)
From MQ Require Import Base Codec Inbound.
Open Scope N_scope.

Definition c04_case := (bool * list in_pkt * list in_event)%type.

Definition c04_spec_ok (c : c04_case) : bool :=
  let '(h, ps, obs) := c in list_eqb in_event_eqb obs (spec_run h os_empty ps).

Definition c04_model_ok (c : c04_case) : bool :=
  let '(h, ps, obs) := c in list_eqb in_event_eqb obs (serve_in h [] ps).

Definition c04_spec_violations (cs : list c04_case) : list nat := indices_where (fun c => negb (c04_spec_ok c)) cs.
Definition c04_model_mismatches (cs : list c04_case) : list nat := indices_where (fun c => negb (c04_model_ok c)) cs.

(* ---- histories that replace the handler while the connection is up (InboundH.v) ---- *)
From MQ Require Import InboundH.
Definition c04h_case := (list seg * list (list (nat * in_event)))%type.
Definition c04h_spec_ok (c : c04h_case) : bool :=
  let '(segs, obs) := c in list_eqb (list_eqb tagged_eqb) obs (spec_segs os_empty segs).
Definition c04h_model_ok (c : c04h_case) : bool :=
  let '(segs, obs) := c in list_eqb (list_eqb tagged_eqb) obs (serve_segs [] segs).
Definition c04h_spec_violations (cs : list c04h_case) : list nat := indices_where (fun c => negb (c04h_spec_ok c)) cs.
Definition c04h_model_mismatches (cs : list c04h_case) : list nat := indices_where (fun c => negb (c04h_model_ok c)) cs.
