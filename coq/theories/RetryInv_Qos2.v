(* RetryInv_Qos2.v — the QoS 2 invariant ("I-qos2") of the retry / reconnect system model and the
   proofs of C02_silent_after_pubcomp_stmt, C02_at_most_once_stmt, C02_exactly_once_when_acked_stmt.

   Everything is stated for ONE fixed identifier [u] (uids are pairwise distinct by [wf_labels]):
   the "relevant" entries of the virtual queue (retry queue ++ entries still to be run ++ task
   queue) are those that carry [u]; there is at most one; its kind (DPublish / RPublish / RPubRel)
   is the client-side stage of the exchange and determines what the broker may have done.
   The flag [b] switches the broker clauses on (u is a QoS 2 publish and the session is kept). *)
From MQ Require Import Base RetryCore RetrySys CheckRetry RetryProps.
Open Scope nat_scope.

(* ---------- small list facts ---------- *)
Lemma count_app x l1 l2 : count x (l1 ++ l2) = count x l1 + count x l2.
Proof. unfold count. rewrite filter_app, app_length. reflexivity. Qed.

Lemma count_snoc x l y : count x (l ++ [y]) = count x l + (if x =? y then 1 else 0).
Proof. rewrite count_app. unfold count. cbn [filter]. destruct (x =? y); reflexivity. Qed.

Lemma incr_lower lo l : increasing_from lo l = true -> forall y, In y l -> lo < y.
Proof.
  revert lo; induction l as [|x l IH]; intros lo H y Hy; [destruct Hy|].
  cbn [increasing_from] in H. apply andb_true_iff in H as [H1 H2]. apply Nat.ltb_lt in H1.
  destruct Hy as [<-|Hy]; [exact H1|]. specialize (IH _ H2 _ Hy). lia.
Qed.

Lemma incr_snoc lo l x : increasing_from lo (l ++ [x]) = true ->
  increasing_from lo l = true /\ lo < x /\ forall y, In y l -> y < x.
Proof.
  revert lo; induction l as [|a l IH]; intros lo H.
  - cbn in H. apply andb_true_iff in H as [H1 _]. apply Nat.ltb_lt in H1.
    repeat split; [exact H1 | intros y []].
  - cbn [Datatypes.app increasing_from] in H. apply andb_true_iff in H as [H1 H2].
    destruct (IH _ H2) as (I1 & I2 & I3). apply Nat.ltb_lt in H1.
    repeat split.
    + cbn [increasing_from]. rewrite I1. apply Nat.ltb_lt in H1. rewrite H1. reflexivity.
    + lia.
    + intros y [<-|Hy]; [exact I2 | exact (I3 _ Hy)].
Qed.

Lemma incr_inj {A} (f : A -> nat) lo l : increasing_from lo (map f l) = true ->
  forall a c, In a l -> In c l -> f a = f c -> a = c.
Proof.
  revert lo; induction l as [|x l IH]; intros lo H a c Ha Hc E; [destruct Ha|].
  cbn [map increasing_from] in H. apply andb_true_iff in H as [H1 H2].
  pose proof (incr_lower _ _ H2) as L.
  destruct Ha as [<-|Ha], Hc as [<-|Hc].
  - reflexivity.
  - specialize (L (f c) (in_map f _ _ Hc)). lia.
  - specialize (L (f a) (in_map f _ _ Ha)). lia.
  - exact (IH _ H2 _ _ Ha Hc E).
Qed.

(* ---------- clients ---------- *)
Lemma nth_upd_nth_proj {B} (proj : client -> B) (f : client -> client) :
  (forall c, proj (f c) = proj c) ->
  forall l k j d, proj (nth j (upd_nth k f l) d) = proj (nth j l d).
Proof.
  intros Hf l; induction l as [|x l IH]; intros k j d.
  - destruct k; reflexivity.
  - destruct k, j; cbn [upd_nth nth]; auto.
Qed.

Lemma acc_upd w k f j : (forall c, cl_accepted (f c) = cl_accepted c) ->
  cl_accepted (get_client (upd_client w k f) j) = cl_accepted (get_client w j).
Proof.
  intros Hf. unfold get_client, upd_client. cbn [w_clients set_clients].
  apply nth_upd_nth_proj. exact Hf.
Qed.

Lemma gc_log w e j : get_client (log_wire w e) j = get_client w j.
Proof. reflexivity. Qed.
Lemma gc_sb w br j : get_client (set_broker w br) j = get_client w j.
Proof. reflexivity. Qed.

(* the part of the world that matters to "nothing is processed before the first accept" *)
Definition frame (w w' : world) : Prop :=
  (forall j, cl_accepted (get_client w' j) = cl_accepted (get_client w j)) /\
  ((forall j, cl_accepted (get_client w j) = false) -> w_broker w' = w_broker w).

Lemma frame_refl w : frame w w.
Proof. split; auto. Qed.

Lemma frame_trans w1 w2 w3 : frame w1 w2 -> frame w2 w3 -> frame w1 w3.
Proof.
  intros [A1 B1] [A2 B2]. split.
  - intros j. rewrite A2. apply A1.
  - intros H. rewrite B2; [apply B1; exact H|]. intros j. rewrite A1. apply H.
Qed.

(* ---------- runs and label lists ---------- *)
Lemma run_snoc cfg fp ls : forall s l,
  run cfg fp s (ls ++ [l]) = match run cfg fp s ls with Some s1 => step cfg fp s1 l | None => None end.
Proof.
  induction ls as [|a ls IH]; intros s l; cbn [Datatypes.app run].
  - destruct (step cfg fp s l); reflexivity.
  - destruct (step cfg fp s a); [apply IH | reflexivity].
Qed.

Lemma submits_app l1 l2 : submits (l1 ++ l2) = submits l1 ++ submits l2.
Proof.
  induction l1 as [|a l1 IH]; [reflexivity|]. destruct a; cbn [Datatypes.app submits]; rewrite IH; reflexivity.
Qed.

Lemma accepts_app l1 l2 : accepts (l1 ++ l2) = accepts l1 ++ accepts l2.
Proof.
  induction l1 as [|a l1 IH]; [reflexivity|].
  destruct a; cbn [Datatypes.app accepts]; try exact IH.
  destruct o; cbn [Datatypes.app]; rewrite ?IH; reflexivity.
Qed.

Lemma step_submitted cfg fp s l s' : step cfg fp s l = Some s' ->
  s_submitted s' = s_submitted s ++ submits [l].
Proof.
  intros H. destruct l; cbn [step submits] in *; rewrite ?app_nil_r.
  - injection H as <-. reflexivity.
  - destruct (s_tmode s); [|discriminate]. destruct (_ && _); [|discriminate]. injection H as <-. reflexivity.
  - destruct (w_hung (s_w s)); [discriminate|]. destruct (s_tmode s); [discriminate|].
    destruct (negb _); [injection H as <-; reflexivity|].
    destruct (s_taskq s); [discriminate|]. destruct (s_cur s); [|discriminate].
    destruct (w_nrbe _); injection H as <-; reflexivity.
  - destruct (s_pc s); try discriminate. destruct ok; injection H as <-; reflexivity.
  - destruct (s_pc s); try discriminate. injection H as <-; reflexivity.
  - destruct (s_pc s); try discriminate. injection H as <-; reflexivity.
  - destruct (s_pc s); try discriminate. destruct o.
    + destruct (cl_alive _); [|discriminate]. injection H as <-; reflexivity.
    + injection H as <-; reflexivity.
    + injection H as <-; reflexivity.
    + injection H as <-; reflexivity.
  - destruct (s_pc s); try discriminate. destruct (_ && _); injection H as <-; reflexivity.
  - destruct (s_pc s); try discriminate. injection H as <-; reflexivity.
  - destruct (s_pc s); try discriminate. destruct (cl_alive _); [discriminate|]. injection H as <-; reflexivity.
  - destruct (s_pc s); try discriminate. injection H as <-; reflexivity.
  - destruct (s_pc s); try discriminate. injection H as <-; reflexivity.
  - destruct (s_pc s); try discriminate. destruct (cl_alive _); [|discriminate]. injection H as <-; reflexivity.
Qed.

Lemma run_submitted cfg fp ls : forall s s', run cfg fp s ls = Some s' ->
  s_submitted s' = s_submitted s ++ submits ls.
Proof.
  induction ls as [|l ls IH]; intros s s' H; cbn [run] in H.
  - injection H as <-. cbn. symmetry; apply app_nil_r.
  - destruct (step cfg fp s l) as [s1|] eqn:E; [|discriminate].
    rewrite (IH _ _ H), (step_submitted _ _ _ _ _ E), <- app_assoc.
    change (l :: ls) with ([l] ++ ls). rewrite submits_app. reflexivity.
Qed.

Definition accb (ls : list label) : bool := match accepts ls with [] => false | _ => true end.

Lemma wf_labels_snoc ls l : wf_labels (ls ++ [l]) ->
  wf_labels ls /\ forall o, l = LSubmit o ->
     0 < uop_uid o /\ forall o', In o' (submits ls) -> uop_uid o' < uop_uid o.
Proof.
  unfold wf_labels. rewrite submits_app, map_app. intros H.
  destruct l; cbn [submits map] in H; rewrite ?app_nil_r in H;
    try (split; [exact H | intros o0 E; discriminate]).
  apply incr_snoc in H as (H1 & H2 & H3). split; [exact H1|].
  intros o0 E. injection E as <-. split; [exact H2|]. intros o' Ho'. apply H3. apply in_map. exact Ho'.
Qed.

Lemma session_kept_snoc ls l : session_kept_labels (ls ++ [l]) ->
  session_kept_labels ls /\ (l = LConnEnd (CoAccept false) -> accb ls = false).
Proof.
  unfold session_kept_labels, accb. rewrite accepts_app. intros H.
  destruct (accepts ls) as [|a r]; [split; reflexivity|].
  cbn [Datatypes.app tl] in *. rewrite forallb_app in H. apply andb_true_iff in H as [H1 H2].
  split; [exact H1|]. intros ->. cbn in H2. discriminate.
Qed.

Lemma accb_snoc ls l :
  accb (ls ++ [l]) = accb ls || match l with LConnEnd (CoAccept _) => true | _ => false end.
Proof.
  unfold accb. rewrite accepts_app.
  destruct (accepts ls) as [|a r]; [|reflexivity].
  destruct l; try reflexivity. destruct o; reflexivity.
Qed.

Section U.
Variable cfg : config.
Variable fp : fplan.
Variable u : nat.
Variable b : bool.
Hypothesis Hb0 : b = true -> u <> 0.

Local Notation mb := (c_method_b cfg).

(* ---------- the wire, as far as u is concerned ---------- *)
Definition ackedb (w : list (nat * pkt * wres)) : bool :=
  existsb (fun x => match x with (_, PPubRel u', WAck) => u =? u' | _ => false end) w.

Definition okp (p : pkt) : bool :=
  match p with
  | PPublish m _ => negb (p_uid m =? u) || N.eqb (p_qos m) 2
  | PPubRel _ => true
  | PSubscribe u' _ | PUnsubscribe u' _ => negb (u' =? u)
  end.
Definition okw (w : list (nat * pkt * wres)) : bool := forallb (fun x => okp (snd (fst x))) w.

Lemma ackedb_app w r : ackedb (w ++ r) = ackedb w || ackedb r.
Proof. apply existsb_app. Qed.

Lemma okw_app w r : okw (w ++ r) = okw w && okw r.
Proof. apply forallb_app. Qed.

Lemma silent_fresh r : forallb (fun e => negb (wire_uid (snd (fst e)) =? u)) r = true ->
  silent_after_comp u r = true.
Proof.
  induction r as [|[[k p] res] r IH]; intros H; [reflexivity|].
  cbn [forallb] in H. apply andb_true_iff in H as [H1 H2]. cbn [fst snd] in H1.
  cbn [silent_after_comp].
  destruct p; try (apply IH; exact H2).
  destruct res; try (apply IH; exact H2).
  cbn [wire_uid] in H1. destruct (u =? uid) eqn:E.
  - apply Nat.eqb_eq in E. subst uid. rewrite Nat.eqb_refl in H1. discriminate.
  - apply IH; exact H2.
Qed.

Lemma silent_app_unacked w r : ackedb w = false ->
  silent_after_comp u (w ++ r) = silent_after_comp u r.
Proof.
  induction w as [|[[k p] res] w IH]; intros H; [reflexivity|].
  unfold ackedb in H. cbn [existsb] in H. apply orb_false_iff in H as [H1 H2].
  destruct p; try destruct res; cbn [Datatypes.app silent_after_comp]; try (apply IH; exact H2).
  rewrite H1. apply IH; exact H2.
Qed.

Lemma silent_unacked w : ackedb w = false -> silent_after_comp u w = true.
Proof.
  intros H. rewrite <- (app_nil_r w). rewrite silent_app_unacked by exact H. reflexivity.
Qed.

Lemma silent_app_other w r : silent_after_comp u w = true ->
  forallb (fun e => negb (wire_uid (snd (fst e)) =? u)) r = true ->
  silent_after_comp u (w ++ r) = true.
Proof.
  induction w as [|[[k p] res] w IH]; intros H Hr; [apply silent_fresh; exact Hr|].
  destruct p; try destruct res; cbn [Datatypes.app silent_after_comp] in *; try (apply IH; assumption).
  destruct (u =? uid).
  - rewrite forallb_app, H, Hr. reflexivity.
  - apply IH; assumption.
Qed.

Lemma okw_final_acked w : okw w = true -> In u (final_acked w) -> ackedb w = true.
Proof.
  induction w as [|[[k p] res] w IH]; intros H Hin; [destruct Hin|].
  unfold okw in H. cbn [forallb fst snd] in H. apply andb_true_iff in H as [H1 H2].
  unfold final_acked in Hin. cbn [flat_map] in Hin. apply in_app_or in Hin.
  unfold ackedb. cbn [existsb]. apply orb_true_iff.
  destruct Hin as [Hin|Hin]; [left | right; apply IH; assumption].
  destruct res; try (destruct p; destruct Hin; fail).
  destruct p; cbn [okp] in H1.
  - destruct (N.eqb (p_qos m) 1) eqn:E1; [|destruct Hin].
    destruct Hin as [Hin|[]]. rewrite Hin, Nat.eqb_refl in H1. cbn in H1.
    apply N.eqb_eq in E1, H1. rewrite E1 in H1. discriminate.
  - destruct Hin as [Hin|[]]. subst. apply Nat.eqb_refl.
  - destruct Hin as [Hin|[]]. subst. rewrite Nat.eqb_refl in H1. discriminate.
  - destruct Hin as [Hin|[]]. subst. rewrite Nat.eqb_refl in H1. discriminate.
Qed.

(* ---------- the broker, as far as u is concerned ---------- *)
Definition bv (br : broker) : bool * nat := (q2_mem u (b_q2 br), count u (b_delivered br)).

Lemma q2_mem_remove_same l : q2_mem u (q2_remove u l) = false.
Proof.
  induction l as [|[u' m] l IH]; [reflexivity|]. cbn [q2_remove].
  destruct (u =? u') eqn:E; [exact IH|]. cbn [q2_mem]. rewrite E, IH. reflexivity.
Qed.

Lemma q2_mem_remove_other u' l : u <> u' -> q2_mem u (q2_remove u' l) = q2_mem u l.
Proof.
  intros Hne. induction l as [|[u2 m] l IH]; [reflexivity|]. cbn [q2_remove q2_mem].
  destruct (u' =? u2) eqn:E.
  - apply Nat.eqb_eq in E. subst u2. apply Nat.eqb_neq in Hne. rewrite Hne, IH. reflexivity.
  - cbn [q2_mem]. rewrite IH. reflexivity.
Qed.

(* packets that cannot touch u's exchange *)
Definition irrp (p : pkt) : Prop :=
  match p with PPublish m _ => p_uid m <> u | PPubRel u' => u' <> u | _ => True end.

Lemma bstep_irrel br p : irrp p -> bv (broker_step mb br p) = bv br.
Proof.
  intros H. unfold bv, broker_step. destruct p; cbn [irrp] in H; cbn [b_subs b_q2 b_delivered b_processed].
  - assert (E : (u =? p_uid m) = false) by (apply Nat.eqb_neq; congruence).
    destruct (N.leb (p_qos m) 1).
    + cbn [b_q2 b_delivered]. rewrite count_snoc, E. f_equal. lia.
    + destruct mb.
      * cbn [b_q2 b_delivered q2_mem]. rewrite E, q2_mem_remove_other by congruence. reflexivity.
      * destruct (q2_mem (p_uid m) (b_q2 br)); cbn [b_q2 b_delivered q2_mem].
        -- reflexivity.
        -- rewrite E, count_snoc, E. cbn [orb]. f_equal. lia.
  - assert (E : (u =? uid) = false) by (apply Nat.eqb_neq; congruence).
    destruct mb; cbn [b_q2 b_delivered]; rewrite q2_mem_remove_other by congruence.
    + destruct (q2_mem uid (b_q2 br)); [rewrite count_snoc, E; f_equal; lia | reflexivity].
    + reflexivity.
  - reflexivity.
  - reflexivity.
Qed.

Lemma bstep_pub br m d : p_uid m = u -> p_qos m = 2%N ->
  bv (broker_step mb br (PPublish m d)) =
  (true, if mb || fst (bv br) then snd (bv br) else snd (bv br) + 1).
Proof.
  intros Hu Hq. unfold bv, broker_step. rewrite Hq, Hu. cbn [N.leb N.compare Pos.compare Pos.compare_cont fst snd].
  replace (2 <=? 1)%N with false by reflexivity. cbn [b_subs b_q2 b_delivered b_processed].
  destruct mb; cbn [orb].
  - cbn [b_q2 b_delivered q2_mem]. rewrite Nat.eqb_refl. reflexivity.
  - destruct (q2_mem u (b_q2 br)) eqn:E; cbn [b_q2 b_delivered q2_mem].
    + rewrite E. reflexivity.
    + rewrite Nat.eqb_refl, count_snoc, Nat.eqb_refl. reflexivity.
Qed.

Lemma bstep_rel br :
  bv (broker_step mb br (PPubRel u)) =
  (false, if mb && fst (bv br) then snd (bv br) + 1 else snd (bv br)).
Proof.
  unfold bv, broker_step. cbn [fst snd b_subs b_q2 b_delivered b_processed].
  destruct mb; cbn [andb b_q2 b_delivered]; rewrite q2_mem_remove_same.
  - destruct (q2_mem u (b_q2 br)); [rewrite count_snoc, Nat.eqb_refl|]; reflexivity.
  - reflexivity.
Qed.

(* ---------- send ---------- *)
Lemma send_spec w k p w' r : send cfg fp w k p = (w', r) ->
  exists (res : wres) (proc : bool),
    w_wire w' = w_wire w ++ [(k, p, res)]
    /\ w_broker w' = (if proc then broker_step mb (w_broker w) p else w_broker w)
    /\ w_retryq w' = w_retryq w
    /\ (r = CAck -> res = WAck /\ proc = true)
    /\ (res = WAck -> r = CAck)
    /\ (proc = true -> cl_accepted (get_client w k) = true)
    /\ (forall j, cl_accepted (get_client w' j) = cl_accepted (get_client w j)).
Proof.
  unfold send, process. intros H.
  destruct (cl_alive (get_client w k)); cbn [negb] in H.
  2:{ injection H as <- <-. exists WDead, false. cbn. repeat split; try discriminate; auto. }
  destruct (cl_accepted (get_client w k)) eqn:Eacc.
  - destruct (fp k (cl_sent (get_client w k))); injection H as <- <-;
      [exists WAck, true | exists WFail, false | exists WOk, false | exists WOk, true
      | exists WOk, false | exists WOk, true];
      cbn [w_wire w_broker w_retryq set_broker log_wire upd_client set_clients];
      (repeat split; try discriminate; auto);
      try (destruct (c_timeout cfg); discriminate);
      try (intros j; repeat (rewrite ?gc_log, ?gc_sb; try rewrite acc_upd by reflexivity); reflexivity).
  - injection H as <- <-.
    exists WOk, false. cbn [w_wire w_broker w_retryq set_broker log_wire upd_client set_clients].
    repeat split; try discriminate; auto.
    intros j; repeat (rewrite ?gc_log, ?gc_sb; try rewrite acc_upd by reflexivity); reflexivity.
Qed.

Local Notation ack w := (ackedb (w_wire w)).
Local Notation sil w := (silent_after_comp u (w_wire w)).
Local Notation okW w := (okw (w_wire w)).
Local Notation held w := (q2_mem u (b_q2 (w_broker w))).
Local Notation cntd w := (count u (b_delivered (w_broker w))).

Lemma send_frame w k p w' r : send cfg fp w k p = (w', r) -> frame w w'.
Proof.
  intros H. apply send_spec in H as (res & proc & _ & Hb & _ & _ & _ & Hp & Hacc).
  split; [exact Hacc|]. intros Hno. destruct proc; [|exact Hb].
  rewrite Hno in Hp. discriminate (Hp eq_refl).
Qed.

Lemma send_irrel w k p w' r : send cfg fp w k p = (w', r) -> irrp p ->
  ack w' = ack w /\ held w' = held w /\ cntd w' = cntd w /\ w_retryq w' = w_retryq w
  /\ (wire_uid p <> u -> (sil w = true -> sil w' = true) /\ (okW w = true -> okW w' = true)).
Proof.
  intros H Hi. apply send_spec in H as (res & proc & Hw & Hb & Hq & _).
  assert (Hbv : bv (w_broker w') = bv (w_broker w)).
  { rewrite Hb. destruct proc; [apply bstep_irrel; exact Hi | reflexivity]. }
  unfold bv in Hbv. injection Hbv as Hh Hc.
  repeat split; try assumption.
  - rewrite Hw, ackedb_app. unfold ackedb at 2. cbn [existsb].
    destruct p; try (rewrite !orb_false_r; reflexivity).
    cbn [irrp] in Hi. destruct res; try (rewrite !orb_false_r; reflexivity).
    replace (u =? uid) with false by (symmetry; apply Nat.eqb_neq; congruence).
    rewrite !orb_false_r; reflexivity.
  - intros Hs. rewrite Hw. apply silent_app_other; [exact Hs|].
    cbn [forallb fst snd]. apply Nat.eqb_neq in H. rewrite H. reflexivity.
  - intros Hs. rewrite Hw, okw_app, Hs. unfold okw. cbn [forallb fst snd andb].
    rewrite andb_true_r. apply Nat.eqb_neq in H.
    destruct p; cbn [okp wire_uid] in *; try rewrite H; reflexivity.
Qed.

Lemma send_pub w k m d w' r : send cfg fp w k (PPublish m d) = (w', r) -> p_uid m = u ->
  ack w' = ack w /\ w_retryq w' = w_retryq w
  /\ (p_qos m = 2%N -> (okW w = true -> okW w' = true) /\
      exists proc : bool, (r = CAck -> proc = true) /\
        held w' = (if proc then true else held w) /\
        cntd w' = (if proc then (if mb || held w then cntd w else cntd w + 1) else cntd w)).
Proof.
  intros H Hu. apply send_spec in H as (res & proc & Hw & Hb & Hq & Hr & _).
  repeat split; try assumption.
  - rewrite Hw, ackedb_app. unfold ackedb at 2. cbn [existsb]. rewrite !orb_false_r. reflexivity.
  - intros Hs. rewrite Hw, okw_app, Hs. unfold okw. cbn [forallb fst snd andb okp].
    rewrite H. cbn. rewrite orb_true_r. reflexivity.
  - exists proc. split; [intros E; apply Hr; exact E|].
    rewrite Hb. destruct proc; [|split; reflexivity].
    pose proof (bstep_pub (w_broker w) m d Hu H) as E. unfold bv in E. cbn [fst snd] in E.
    injection E as E1 E2. split; assumption.
Qed.

Lemma send_rel w k w' r : send cfg fp w k (PPubRel u) = (w', r) -> ack w = false ->
  w_retryq w' = w_retryq w
  /\ (okW w = true -> okW w' = true)
  /\ (r = CAck -> ack w' = true /\ sil w' = true)
  /\ (r <> CAck -> ack w' = false)
  /\ exists proc : bool, (r = CAck -> proc = true) /\
       held w' = (if proc then false else held w) /\
       cntd w' = (if proc then (if mb && held w then cntd w + 1 else cntd w) else cntd w).
Proof.
  intros H Ha. apply send_spec in H as (res & proc & Hw & Hb & Hq & Hr & Hr' & _).
  repeat split; try assumption.
  - intros Hs. rewrite Hw, okw_app, Hs. reflexivity.
  - destruct (Hr H) as [-> _]. rewrite Hw, ackedb_app. unfold ackedb at 2. cbn [existsb].
    rewrite Nat.eqb_refl. rewrite orb_true_r. reflexivity.
  - destruct (Hr H) as [-> _]. rewrite Hw, silent_app_unacked by exact Ha.
    cbn [silent_after_comp]. rewrite Nat.eqb_refl. reflexivity.
  - intros Hn. rewrite Hw, ackedb_app, Ha. unfold ackedb. cbn [existsb orb].
    destruct res; try reflexivity. elim Hn. apply Hr'. reflexivity.
  - exists proc. split; [intros E; apply Hr; exact E|].
    rewrite Hb. destruct proc; [|split; reflexivity].
    pose proof (bstep_rel (w_broker w)) as E. unfold bv in E. cbn [fst snd] in E.
    injection E as E1 E2. split; assumption.
Qed.

(* ---------- what the broker may have done, by the client-side stage of u's exchange ---------- *)
Definition bok (h : bool) (c : nat) (e : rentry) : Prop :=
  match e with
  | DPublish m => p_qos m = 2%N /\ h = false /\ c = 0
  | RPublish m => p_qos m = 2%N /\ (if mb then c = 0 else c = (if h then 1 else 0))
  | RPubRel m => p_qos m = 2%N /\ (if mb then c = (if h then 0 else 1) else c = 1)
  | _ => False
  end.

Lemma bok_le1 h c e : bok h c e -> c <= 1.
Proof.
  destruct e; cbn [bok]; try tauto; intros [_ H]; destruct mb, h; lia.
Qed.

Lemma attempt_pubrel_rel w k m w' r : attempt_pubrel cfg fp w k m = (w', r) ->
  p_uid m = u -> ack w = false ->
  (b = true -> okW w = true /\ bok (held w) (cntd w) (RPubRel m)) ->
  w_retryq w' = w_retryq w /\ frame w w'
  /\ (b = true -> okW w' = true /\ bok (held w') (cntd w') (RPubRel m))
  /\ match r with
     | ADone => ack w' = true /\ sil w' = true /\ (b = true -> cntd w' = 1)
     | AFail e _ => e = RPubRel m /\ ack w' = false
     | _ => ack w' = false
     end.
Proof.
  unfold attempt_pubrel. intros H Hu Ha Hb.
  destruct (cl_inited (get_client w k)); cbn [negb] in H.
  2:{ injection H as <- <-. repeat split; auto using frame_refl; apply Hb; assumption. }
  destruct (send cfg fp w k (PPubRel (p_uid m))) as [w1 r1] eqn:Es. rewrite Hu in Es.
  pose proof (send_frame _ _ _ _ _ Es) as Hf.
  destruct (send_rel _ _ _ _ Es Ha) as (Hq & Hok & Hack & Hnack & proc & Hp & Hh & Hc).
  assert (Hbok : b = true -> okW w1 = true /\ bok (held w1) (cntd w1) (RPubRel m)).
  { intros Eb. destruct (Hb Eb) as [O [Q B]]. split; [apply Hok; exact O|].
    cbn [bok]. split; [exact Q|]. rewrite Hh, Hc. destruct proc, mb, (held w); cbn [andb]; lia. }
  assert (Hone : r1 = CAck -> b = true -> cntd w1 = 1).
  { intros Er Eb. destruct (Hb Eb) as [_ [_ B]]. rewrite Hc, (Hp Er).
    destruct mb, (held w); cbn [andb]; lia. }
  destruct r1; injection H as <- <-;
    cbn [w_wire w_broker w_retryq add_acked set_hung];
    (split; [exact Hq|]); (split; [try exact Hf|]); (split; [exact Hbok|]).
  - destruct (Hack eq_refl) as [A1 A2]. repeat split; auto.
  - split; [reflexivity|]. apply Hnack. discriminate.
  - split; [reflexivity|]. apply Hnack. discriminate.
  - split; [reflexivity|]. apply Hnack. discriminate.
  - apply Hnack. discriminate.
Qed.

Lemma attempt_publish_rel w k m d w' r : attempt_publish cfg fp w k m d = (w', r) ->
  p_uid m = u -> ack w = false ->
  (b = true -> okW w = true /\ bok (held w) (cntd w) (RPublish m)) ->
  w_retryq w' = w_retryq w /\ frame w w'
  /\ (b = true -> okW w' = true)
  /\ match r with
     | ADone => (ack w' = true /\ sil w' = true /\ (b = true -> cntd w' = 1))
                \/ (ack w' = false /\ (b = true -> cntd w' <= 1))
     | AFail e _ => ack w' = false /\ (e = RPublish m \/ e = RPubRel m)
                    /\ (b = true -> bok (held w') (cntd w') e)
     | _ => ack w' = false /\ (b = true -> cntd w' <= 1)
     end.
Proof.
  unfold attempt_publish. intros H Hu Ha Hb.
  destruct (cl_inited (get_client w k)); cbn [negb] in H.
  2:{ injection H as <- <-. repeat split; auto using frame_refl.
      - apply Hb; assumption.
      - intros Eb. destruct (Hb Eb) as [_ B]. exact (bok_le1 _ _ _ B). }
  destruct (send cfg fp w k (PPublish m d)) as [w1 r1] eqn:Es.
  pose proof (send_frame _ _ _ _ _ Es) as Hf.
  destruct (send_pub _ _ _ _ _ _ Es Hu) as (Hack & Hq & Hq2).
  rewrite Ha in Hack.
  assert (Hq' : b = true -> p_qos m = 2%N) by (intros Eb; destruct (Hb Eb) as [_ [Q _]]; exact Q).
  assert (Hb1 : b = true -> okW w1 = true /\ bok (held w1) (cntd w1) (RPublish m)
                             /\ (r1 = CAck -> bok (held w1) (cntd w1) (RPubRel m))).
  { intros Eb. destruct (Hb Eb) as [O [Q B]]. destruct (Hq2 Q) as (Hok & proc & Hp & Hh & Hc).
    split; [apply Hok; exact O|]. cbn [bok]. rewrite Hh, Hc. split.
    - split; [exact Q|]. destruct proc, mb, (held w); cbn [orb]; lia.
    - intros Er. rewrite (Hp Er). split; [exact Q|]. destruct mb, (held w); cbn [orb]; lia. }
  destruct (N.eqb (p_qos m) 0) eqn:E0.
  { assert (Hc : b = true -> False).
    { intros Eb. rewrite (Hq' Eb) in E0. discriminate. }
    destruct r1; injection H as <- <-; (split; [exact Hq|]); (split; [exact Hf|]);
      (split; [intros Eb; destruct (Hc Eb)|]);
      try (right; split; [exact Hack | intros Eb; destruct (Hc Eb)]);
      try (split; [exact Hack | intros Eb; destruct (Hc Eb)]). }
  destruct (N.eqb (p_qos m) 1) eqn:E1.
  { assert (Hc : b = true -> False).
    { intros Eb. rewrite (Hq' Eb) in E1. discriminate. }
    destruct r1; injection H as <- <-; cbn [w_wire w_broker w_retryq add_acked set_hung];
      (split; [exact Hq|]); (split; [exact Hf|]);
      (split; [intros Eb; destruct (Hc Eb)|]);
      try (right; split; [exact Hack | intros Eb; destruct (Hc Eb)]);
      try (split; [exact Hack | intros Eb; destruct (Hc Eb)]);
      try (split; [exact Hack | split; [left; reflexivity | intros Eb; destruct (Hc Eb)]]). }
  assert (Hle : b = true -> cntd w1 <= 1).
  { intros Eb. destruct (Hb1 Eb) as [_ [B _]]. exact (bok_le1 _ _ _ B). }
  destruct r1.
  - (* PUBREC arrived: PUBREL *)
    assert (Hb2 : b = true -> okW w1 = true /\ bok (held w1) (cntd w1) (RPubRel m)).
    { intros Eb. destruct (Hb1 Eb) as [O [_ B]]. split; [exact O | apply B; reflexivity]. }
    destruct (attempt_pubrel_rel _ _ _ _ _ H Hu Hack Hb2) as (Hq3 & Hf3 & Hb3 & Hr).
    split; [congruence|]. split; [exact (frame_trans _ _ _ Hf Hf3)|].
    split; [intros Eb; apply Hb3; exact Eb|].
    destruct r.
    + left. exact Hr.
    + destruct Hr as [-> A]. split; [exact A|]. split; [right; reflexivity|].
      intros Eb. apply Hb3; exact Eb.
    + split; [exact Hr|]. intros Eb. destruct (Hb3 Eb) as [_ B]. exact (bok_le1 _ _ _ B).
    + split; [exact Hr|]. intros Eb. destruct (Hb3 Eb) as [_ B]. exact (bok_le1 _ _ _ B).
  - injection H as <- <-. split; [exact Hq|]. split; [exact Hf|].
    split; [intros Eb; apply Hb1; exact Eb|].
    split; [exact Hack|]. split; [left; reflexivity|]. intros Eb; apply Hb1; exact Eb.
  - injection H as <- <-. split; [exact Hq|]. split; [exact Hf|].
    split; [intros Eb; apply Hb1; exact Eb|].
    split; [exact Hack|]. split; [left; reflexivity|]. intros Eb; apply Hb1; exact Eb.
  - injection H as <- <-. split; [exact Hq|]. split; [exact Hf|].
    split; [intros Eb; apply Hb1; exact Eb|].
    split; [exact Hack|]. split; [left; reflexivity|]. intros Eb; apply Hb1; exact Eb.
  - injection H as <- <-. cbn [w_wire w_broker w_retryq set_hung].
    split; [exact Hq|]. split; [exact Hf|].
    split; [intros Eb; apply Hb1; exact Eb|].
    split; [exact Hack | exact Hle].
Qed.

(* ---------- entries that do not concern u ---------- *)
Definition keep (strong : Prop) (w w' : world) : Prop :=
  ack w' = ack w /\ held w' = held w /\ cntd w' = cntd w /\ frame w w'
  /\ (strong -> (sil w = true -> sil w' = true) /\ (okW w = true -> okW w' = true)).

Lemma keep_refl P w : keep P w w.
Proof. unfold keep. repeat split; auto using frame_refl. Qed.

Lemma keep_trans P w1 w2 w3 : keep P w1 w2 -> keep P w2 w3 -> keep P w1 w3.
Proof.
  intros (A1 & B1 & C1 & D1 & E1) (A2 & B2 & C2 & D2 & E2).
  unfold keep. split; [congruence|]. split; [congruence|]. split; [congruence|].
  split; [exact (frame_trans _ _ _ D1 D2)|].
  intros p. split; intros S; apply E2; try assumption; apply E1; assumption.
Qed.

Lemma send_keep w k p w' r : send cfg fp w k p = (w', r) -> irrp p ->
  keep (wire_uid p <> u) w w' /\ w_retryq w' = w_retryq w.
Proof.
  intros H Hi. pose proof (send_frame _ _ _ _ _ H) as Hf.
  destruct (send_irrel _ _ _ _ _ H Hi) as (A & B & C & D & E).
  split; [|exact D].
  unfold keep. split; [exact A|]. split; [exact B|]. split; [exact C|]. split; [exact Hf|].
  exact E.
Qed.

Lemma attempt_pubrel_irrel w k m w' r : attempt_pubrel cfg fp w k m = (w', r) -> p_uid m <> u ->
  keep True w w' /\ w_retryq w' = w_retryq w /\ (forall e c, r = AFail e c -> e = RPubRel m).
Proof.
  unfold attempt_pubrel. intros H Hu.
  destruct (cl_inited (get_client w k)); cbn [negb] in H.
  2:{ injection H as <- <-. split; [apply keep_refl|]. split; [reflexivity|]. discriminate. }
  destruct (send cfg fp w k (PPubRel (p_uid m))) as [w1 r1] eqn:Es.
  destruct (send_keep _ _ _ _ _ Es Hu) as [K Q].
  assert (K' : keep True w w1).
  { destruct K as (A & B & C & D & E). unfold keep. split; [exact A|]. split; [exact B|].
    split; [exact C|]. split; [exact D|]. intros _. apply E. exact Hu. }
  destruct r1; injection H as <- <-; (split; [exact K'|]); (split; [exact Q|]);
    intros e c E; try discriminate; injection E as <- _; reflexivity.
Qed.

Lemma attempt_publish_irrel w k m d w' r : attempt_publish cfg fp w k m d = (w', r) -> p_uid m <> u ->
  keep True w w' /\ w_retryq w' = w_retryq w
  /\ (forall e c, r = AFail e c -> e = RPublish m \/ e = RPubRel m).
Proof.
  unfold attempt_publish. intros H Hu.
  destruct (cl_inited (get_client w k)); cbn [negb] in H.
  2:{ injection H as <- <-. split; [apply keep_refl|]. split; [reflexivity|]. discriminate. }
  destruct (send cfg fp w k (PPublish m d)) as [w1 r1] eqn:Es.
  destruct (send_keep _ _ _ _ _ Es Hu) as [K Q].
  assert (K' : keep True w w1).
  { destruct K as (A & B & C & D & E). unfold keep. split; [exact A|]. split; [exact B|].
    split; [exact C|]. split; [exact D|]. intros _. apply E. exact Hu. }
  destruct (N.eqb (p_qos m) 0).
  { destruct r1; injection H as <- <-; (split; [exact K'|]); (split; [exact Q|]); discriminate. }
  destruct (N.eqb (p_qos m) 1).
  { destruct r1; injection H as <- <-; (split; [exact K'|]); (split; [exact Q|]);
      intros e c E; try discriminate; injection E as <- _; left; reflexivity. }
  destruct r1.
  - destruct (attempt_pubrel_irrel _ _ _ _ _ H Hu) as (K2 & Q2 & F2).
    split; [exact (keep_trans _ _ _ _ K' K2)|]. split; [congruence|].
    intros e c E. right. exact (F2 _ _ E).
  - injection H as <- <-. split; [exact K'|]. split; [exact Q|].
    intros e c E; injection E as <- _; left; reflexivity.
  - injection H as <- <-. split; [exact K'|]. split; [exact Q|].
    intros e c E; injection E as <- _; left; reflexivity.
  - injection H as <- <-. split; [exact K'|]. split; [exact Q|].
    intros e c E; injection E as <- _; left; reflexivity.
  - injection H as <- <-. split; [exact K'|]. split; [exact Q|]. discriminate.
Qed.

Lemma attempt_subscribe_keep w k uid ss w' r : attempt_subscribe cfg fp w k uid ss = (w', r) ->
  keep (uid <> u) w w' /\ w_retryq w' = w_retryq w /\ (forall e c, r = AFail e c -> e = RSubscribe uid ss).
Proof.
  unfold attempt_subscribe. intros H.
  destruct (cl_inited (get_client w k)); cbn [negb] in H.
  2:{ injection H as <- <-. split; [apply keep_refl|]. split; [reflexivity|]. discriminate. }
  destruct (send cfg fp w k (PSubscribe uid ss)) as [w1 r1] eqn:Es.
  destruct (send_keep _ _ _ _ _ Es I) as [K Q]. cbn [wire_uid] in K.
  destruct r1; injection H as <- <-; (split; [exact K|]); (split; [exact Q|]);
    intros e c E; try discriminate; injection E as <- _; reflexivity.
Qed.

Lemma attempt_unsubscribe_keep w k uid ts w' r : attempt_unsubscribe cfg fp w k uid ts = (w', r) ->
  keep (uid <> u) w w' /\ w_retryq w' = w_retryq w /\ (forall e c, r = AFail e c -> e = RUnsubscribe uid ts).
Proof.
  unfold attempt_unsubscribe. intros H.
  destruct (cl_inited (get_client w k)); cbn [negb] in H.
  2:{ injection H as <- <-. split; [apply keep_refl|]. split; [reflexivity|]. discriminate. }
  destruct (send cfg fp w k (PUnsubscribe uid ts)) as [w1 r1] eqn:Es.
  destruct (send_keep _ _ _ _ _ Es I) as [K Q]. cbn [wire_uid] in K.
  destruct r1; injection H as <- <-; (split; [exact K|]); (split; [exact Q|]);
    intros e c E; try discriminate; injection E as <- _; reflexivity.
Qed.

Lemma keep_weaken (P Q : Prop) w w' : (Q -> P) -> keep P w w' -> keep Q w w'.
Proof.
  intros HPQ (A & B & C & D & E). unfold keep. split; [exact A|]. split; [exact B|].
  split; [exact C|]. split; [exact D|]. intros q. apply E. apply HPQ. exact q.
Qed.

(* ---------- entries: a uniform view of run_entry ---------- *)
Definition pubkind (e : rentry) : bool :=
  match e with RPublish _ | RPubRel _ | DPublish _ => true | _ => false end.
(* the entries that concern u (re-subscriptions carry uid 0 and never concern anybody) *)
Definition relb (e : rentry) : bool := (entry_uid e =? u) && (pubkind e || negb (u =? 0)).
Definition relq (q : list rentry) : list rentry := filter relb q.

Definition fail_entry (r : ares) : list rentry := match r with AFail e _ => [e] | _ => [] end.

Definition deferred (e : rentry) : bool :=
  match e with DPublish _ | DSubscribe _ _ | DUnsubscribe _ _ => true | _ => false end.
Definition pre (w : world) (e : rentry) : world :=
  match e with
  | DSubscribe _ ss => set_subest w (est_apply_subs (w_subest w) ss)
  | DUnsubscribe _ ts => set_subest w (est_apply_unsubs (w_subest w) ts)
  | _ => w
  end.
Definition attempt (w : world) (k : nat) (e : rentry) : world * ares :=
  match e with
  | RPublish m => attempt_publish cfg fp w k m true
  | DPublish m => attempt_publish cfg fp w k m false
  | RPubRel m => attempt_pubrel cfg fp w k m
  | RSubscribe uid ss | DSubscribe uid ss => attempt_subscribe cfg fp w k uid ss
  | RUnsubscribe uid ts | DUnsubscribe uid ts => attempt_unsubscribe cfg fp w k uid ts
  end.

Lemma run_entry_eq w k e :
  run_entry cfg fp w k e =
  if deferred e then (settle (entry_uid e) (attempt (pre w e) k e), ADone) else attempt w k e.
Proof. destruct e; reflexivity. Qed.

Lemma settle_spec uid w1 r1 :
  let w' := settle uid (w1, r1) in
  w_retryq w' = w_retryq w1 ++ fail_entry r1
  /\ w_wire w' = w_wire w1 /\ w_broker w' = w_broker w1 /\ w_clients w' = w_clients w1.
Proof.
  destruct r1; cbn; repeat split; auto using app_nil_r; symmetry; apply app_nil_r.
Qed.

Lemma frame_same w1 w' : w_broker w' = w_broker w1 -> w_clients w' = w_clients w1 -> frame w1 w'.
Proof.
  intros Hb Hc. split; [|intros _; exact Hb]. intros j. unfold get_client. rewrite Hc. reflexivity.
Qed.

Lemma relb_uid e : relb e = true -> entry_uid e = u.
Proof. unfold relb. intros H. apply andb_true_iff in H as [H _]. apply Nat.eqb_eq. exact H. Qed.

Lemma relb_false_uid e : relb e = false -> u <> 0 -> entry_uid e <> u.
Proof.
  unfold relb. intros H Hu E. rewrite E, Nat.eqb_refl in H.
  apply Nat.eqb_neq in Hu. rewrite Hu in H. cbn in H. rewrite orb_true_r in H. discriminate.
Qed.

Definition rel_post (w' : world) (out : list rentry) : Prop :=
  (out = [] /\ ((ack w' = true /\ sil w' = true /\ (b = true -> cntd w' = 1))
                \/ (ack w' = false /\ (b = true -> cntd w' <= 1))))
  \/ (exists e', out = [e'] /\ relb e' = true /\ ack w' = false
                 /\ (b = true -> bok (held w') (cntd w') e')).

Lemma attempt_rel w k e w' r : attempt w k e = (w', r) -> relb e = true -> u <> 0 ->
  ack w = false -> (b = true -> okW w = true /\ bok (held w) (cntd w) e) ->
  w_retryq w' = w_retryq w /\ frame w w' /\ (b = true -> okW w' = true)
  /\ rel_post w' (fail_entry r).
Proof.
  intros H Hr Hu0 Ha Hb. pose proof (relb_uid _ Hr) as Hu.
  assert (Hnb : forall (P : Prop), (b = true -> okW w = true /\ False) -> b = true -> P).
  { intros P HF Eb. destruct (HF Eb) as [_ []]. }
  destruct e; cbn [attempt entry_uid bok] in *.
  - (* RPublish *)
    destruct (attempt_publish_rel _ _ _ _ _ _ H Hu Ha Hb) as (Q & F & O & R).
    split; [exact Q|]. split; [exact F|]. split; [exact O|].
    destruct r; cbn [fail_entry].
    + left. split; [reflexivity | exact R].
    + right. destruct R as (A & Ee & B). exists e. split; [reflexivity|].
      split; [|split; assumption].
      unfold relb in *. destruct Ee as [-> | ->]; exact Hr.
    + left. split; [reflexivity|]. right. exact R.
    + left. split; [reflexivity|]. right. exact R.
  - (* RPubRel *)
    destruct (attempt_pubrel_rel _ _ _ _ _ H Hu Ha Hb) as (Q & F & O & R).
    split; [exact Q|]. split; [exact F|]. split; [intros Eb; apply O; exact Eb|].
    destruct r; cbn [fail_entry].
    + left. split; [reflexivity|]. left. exact R.
    + right. destruct R as [-> A]. exists (RPubRel m). split; [reflexivity|].
      split; [exact Hr|]. split; [exact A|]. intros Eb; apply O; exact Eb.
    + left. split; [reflexivity|]. right. split; [exact R|]. intros Eb.
      destruct (O Eb) as [_ B]. exact (bok_le1 _ _ _ B).
    + left. split; [reflexivity|]. right. split; [exact R|]. intros Eb.
      destruct (O Eb) as [_ B]. exact (bok_le1 _ _ _ B).
  - (* RSubscribe *)
    destruct (attempt_subscribe_keep _ _ _ _ _ _ H) as ((A & _ & _ & F & _) & Q & E).
    split; [exact Q|]. split; [exact F|]. split; [apply Hnb; exact Hb|]. rewrite Ha in A.
    destruct r; cbn [fail_entry].
    + left. split; [reflexivity|]. right. split; [exact A | apply Hnb; exact Hb].
    + right. exists e. rewrite (E _ _ eq_refl). split; [reflexivity|]. split; [exact Hr|].
      split; [exact A | apply Hnb; exact Hb].
    + left. split; [reflexivity|]. right. split; [exact A | apply Hnb; exact Hb].
    + left. split; [reflexivity|]. right. split; [exact A | apply Hnb; exact Hb].
  - (* RUnsubscribe *)
    destruct (attempt_unsubscribe_keep _ _ _ _ _ _ H) as ((A & _ & _ & F & _) & Q & E).
    split; [exact Q|]. split; [exact F|]. split; [apply Hnb; exact Hb|]. rewrite Ha in A.
    destruct r; cbn [fail_entry].
    + left. split; [reflexivity|]. right. split; [exact A | apply Hnb; exact Hb].
    + right. exists e. rewrite (E _ _ eq_refl). split; [reflexivity|]. split; [exact Hr|].
      split; [exact A | apply Hnb; exact Hb].
    + left. split; [reflexivity|]. right. split; [exact A | apply Hnb; exact Hb].
    + left. split; [reflexivity|]. right. split; [exact A | apply Hnb; exact Hb].
  - (* DPublish *)
    assert (Hb' : b = true -> okW w = true /\ bok (held w) (cntd w) (RPublish m)).
    { intros Eb. destruct (Hb Eb) as (O & Q & Hh & Hc). split; [exact O|]. cbn [bok].
      split; [exact Q|]. rewrite Hh, Hc. destruct mb; reflexivity. }
    destruct (attempt_publish_rel _ _ _ _ _ _ H Hu Ha Hb') as (Q & F & O & R).
    split; [exact Q|]. split; [exact F|]. split; [exact O|].
    destruct r; cbn [fail_entry].
    + left. split; [reflexivity | exact R].
    + right. destruct R as (A & Ee & B). exists e. split; [reflexivity|].
      split; [|split; assumption].
      unfold relb in *. destruct Ee as [-> | ->]; exact Hr.
    + left. split; [reflexivity|]. right. exact R.
    + left. split; [reflexivity|]. right. exact R.
  - (* DSubscribe *)
    destruct (attempt_subscribe_keep _ _ _ _ _ _ H) as ((A & _ & _ & F & _) & Q & E).
    split; [exact Q|]. split; [exact F|]. split; [apply Hnb; exact Hb|]. rewrite Ha in A.
    destruct r; cbn [fail_entry].
    + left. split; [reflexivity|]. right. split; [exact A | apply Hnb; exact Hb].
    + right. exists e. rewrite (E _ _ eq_refl). split; [reflexivity|]. split; [exact Hr|].
      split; [exact A | apply Hnb; exact Hb].
    + left. split; [reflexivity|]. right. split; [exact A | apply Hnb; exact Hb].
    + left. split; [reflexivity|]. right. split; [exact A | apply Hnb; exact Hb].
  - (* DUnsubscribe *)
    destruct (attempt_unsubscribe_keep _ _ _ _ _ _ H) as ((A & _ & _ & F & _) & Q & E).
    split; [exact Q|]. split; [exact F|]. split; [apply Hnb; exact Hb|]. rewrite Ha in A.
    destruct r; cbn [fail_entry].
    + left. split; [reflexivity|]. right. split; [exact A | apply Hnb; exact Hb].
    + right. exists e. rewrite (E _ _ eq_refl). split; [reflexivity|]. split; [exact Hr|].
      split; [exact A | apply Hnb; exact Hb].
    + left. split; [reflexivity|]. right. split; [exact A | apply Hnb; exact Hb].
    + left. split; [reflexivity|]. right. split; [exact A | apply Hnb; exact Hb].
Qed.

Lemma keep_same P w w' : w_wire w' = w_wire w -> w_broker w' = w_broker w ->
  w_clients w' = w_clients w -> keep P w w'.
Proof.
  intros Hw Hb Hc. unfold keep. rewrite Hw, Hb.
  split; [reflexivity|]. split; [reflexivity|]. split; [reflexivity|].
  split; [apply frame_same; assumption|]. intros _. split; auto.
Qed.

Lemma pre_view w e :
  w_wire (pre w e) = w_wire w /\ w_broker (pre w e) = w_broker w
  /\ w_clients (pre w e) = w_clients w /\ w_retryq (pre w e) = w_retryq w.
Proof. destruct e; repeat split; reflexivity. Qed.

Lemma attempt_irrel w k e w' r : attempt w k e = (w', r) -> relb e = false ->
  keep (entry_uid e <> u) w w' /\ w_retryq w' = w_retryq w /\ relq (fail_entry r) = [].
Proof.
  intros H Hr.
  assert (Hpk : pubkind e = true -> entry_uid e <> u).
  { intros Hp E. unfold relb in Hr. rewrite Hp, E, Nat.eqb_refl in Hr. discriminate. }
  destruct e; cbn [attempt entry_uid pubkind] in *.
  - specialize (Hpk eq_refl).
    destruct (attempt_publish_irrel _ _ _ _ _ _ H Hpk) as (K & Q & E).
    split; [apply (keep_weaken True); auto|]. split; [exact Q|].
    destruct r; try reflexivity. cbn [fail_entry relq filter].
    apply Nat.eqb_neq in Hpk.
    destruct (E _ _ eq_refl) as [-> | ->]; unfold relb; cbn [entry_uid]; rewrite Hpk; reflexivity.
  - specialize (Hpk eq_refl).
    destruct (attempt_pubrel_irrel _ _ _ _ _ H Hpk) as (K & Q & E).
    split; [apply (keep_weaken True); auto|]. split; [exact Q|].
    destruct r; try reflexivity. cbn [fail_entry relq filter].
    apply Nat.eqb_neq in Hpk.
    rewrite (E _ _ eq_refl); unfold relb; cbn [entry_uid]; rewrite Hpk; reflexivity.
  - destruct (attempt_subscribe_keep _ _ _ _ _ _ H) as (K & Q & E).
    split; [exact K|]. split; [exact Q|].
    destruct r; try reflexivity. cbn [fail_entry relq filter].
    rewrite (E _ _ eq_refl). rewrite Hr. reflexivity.
  - destruct (attempt_unsubscribe_keep _ _ _ _ _ _ H) as (K & Q & E).
    split; [exact K|]. split; [exact Q|].
    destruct r; try reflexivity. cbn [fail_entry relq filter].
    rewrite (E _ _ eq_refl). rewrite Hr. reflexivity.
  - specialize (Hpk eq_refl).
    destruct (attempt_publish_irrel _ _ _ _ _ _ H Hpk) as (K & Q & E).
    split; [apply (keep_weaken True); auto|]. split; [exact Q|].
    destruct r; try reflexivity. cbn [fail_entry relq filter].
    apply Nat.eqb_neq in Hpk.
    destruct (E _ _ eq_refl) as [-> | ->]; unfold relb; cbn [entry_uid]; rewrite Hpk; reflexivity.
  - destruct (attempt_subscribe_keep _ _ _ _ _ _ H) as (K & Q & E).
    split; [exact K|]. split; [exact Q|].
    destruct r; try reflexivity. cbn [fail_entry relq filter].
    rewrite (E _ _ eq_refl). change (relb (RSubscribe uid ss)) with (relb (DSubscribe uid ss)).
    rewrite Hr. reflexivity.
  - destruct (attempt_unsubscribe_keep _ _ _ _ _ _ H) as (K & Q & E).
    split; [exact K|]. split; [exact Q|].
    destruct r; try reflexivity. cbn [fail_entry relq filter].
    rewrite (E _ _ eq_refl). change (relb (RUnsubscribe uid ts)) with (relb (DUnsubscribe uid ts)).
    rewrite Hr. reflexivity.
Qed.

Lemma run_entry_irrel w k e w' r : run_entry cfg fp w k e = (w', r) -> relb e = false ->
  exists qa, w_retryq w' = w_retryq w ++ qa /\ relq qa = [] /\ relq (fail_entry r) = []
             /\ keep (entry_uid e <> u) w w'.
Proof.
  rewrite run_entry_eq. intros H Hr. destruct (deferred e).
  - injection H as <- <-.
    destruct (attempt (pre w e) k e) as [w1 r1] eqn:Ea.
    destruct (attempt_irrel _ _ _ _ _ Ea Hr) as (K & Q & F).
    destruct (pre_view w e) as (P1 & P2 & P3 & P4).
    destruct (settle_spec (entry_uid e) w1 r1) as (S1 & S2 & S3 & S4). cbv zeta in *.
    exists (fail_entry r1). split; [congruence|]. split; [exact F|]. split; [reflexivity|].
    eapply keep_trans; [apply (keep_same _ w (pre w e)); assumption|].
    eapply keep_trans; [exact K|]. apply keep_same; assumption.
  - destruct (attempt_irrel _ _ _ _ _ H Hr) as (K & Q & F).
    exists []. rewrite app_nil_r. auto.
Qed.

Lemma rel_post_same w1 w' out : w_wire w' = w_wire w1 -> w_broker w' = w_broker w1 ->
  rel_post w1 out -> rel_post w' out.
Proof. intros Hw Hb. unfold rel_post. rewrite Hw, Hb. auto. Qed.

Lemma run_entry_rel w k e w' r : run_entry cfg fp w k e = (w', r) -> relb e = true -> u <> 0 ->
  ack w = false -> (b = true -> okW w = true /\ bok (held w) (cntd w) e) ->
  exists qa, w_retryq w' = w_retryq w ++ qa /\ frame w w' /\ (b = true -> okW w' = true)
             /\ rel_post w' (qa ++ fail_entry r).
Proof.
  rewrite run_entry_eq. intros H Hr Hu0 Ha Hb. destruct (deferred e).
  - injection H as <- <-.
    destruct (attempt (pre w e) k e) as [w1 r1] eqn:Ea.
    destruct (pre_view w e) as (P1 & P2 & P3 & P4).
    assert (Ha' : ack (pre w e) = false) by (rewrite P1; exact Ha).
    assert (Hb' : b = true -> okW (pre w e) = true /\ bok (held (pre w e)) (cntd (pre w e)) e)
      by (rewrite P1, P2; exact Hb).
    destruct (attempt_rel _ _ _ _ _ Ea Hr Hu0 Ha' Hb') as (Q & F & O & R).
    destruct (settle_spec (entry_uid e) w1 r1) as (S1 & S2 & S3 & S4). cbv zeta in *.
    exists (fail_entry r1). split; [congruence|].
    split.
    { eapply frame_trans; [apply (frame_same w (pre w e)); assumption|].
      eapply frame_trans; [exact F|]. apply frame_same; assumption. }
    split; [rewrite S2; exact O|].
    cbn [fail_entry]. rewrite app_nil_r. exact (rel_post_same _ _ _ S2 S3 R).
  - destruct (attempt_rel _ _ _ _ _ H Hr Hu0 Ha Hb) as (Q & F & O & R).
    exists []. rewrite app_nil_r. cbn [Datatypes.app]. auto.
Qed.

(* ---------- the invariant on a world, relative to the list R of entries that concern u ---------- *)
Definition WIr (sub : bool) (R : list rentry) (w : world) : Prop :=
  (b = true -> okW w = true) /\
  match R with
  | [] => if sub
          then u <> 0 /\ sil w = true /\ (b = true -> cntd w <= 1 /\ (ack w = true -> cntd w = 1))
          else ack w = false /\ (b = true -> held w = false /\ cntd w = 0)
  | [e] => sub = true /\ u <> 0 /\ ack w = false /\ (b = true -> bok (held w) (cntd w) e)
  | _ => False
  end.

Lemma WIr_keep P sub R w w' : WIr sub R w -> keep P w w' -> (u <> 0 -> P) -> WIr sub R w'.
Proof.
  intros [O H] (A & B & C & D & E) HP. unfold WIr. rewrite A, B, C. split.
  - intros Eb. apply E; [apply HP, Hb0, Eb | apply O, Eb].
  - destruct R as [|e [|e2 R]]; [|exact H|exact H].
    destruct sub; [|exact H]. destruct H as (U & S & X). split; [exact U|]. split; [|exact X].
    apply E; [apply HP, U | exact S].
Qed.

Lemma WIr_drop sub e w : WIr sub [e] w -> WIr sub [] w.
Proof.
  intros [O (-> & U & A & B)]. split; [exact O|]. split; [exact U|].
  split; [apply silent_unacked; exact A|]. intros Eb. split.
  - exact (bok_le1 _ _ _ (B Eb)).
  - rewrite A. discriminate.
Qed.

Lemma WIr_same sub R w w' : w_wire w' = w_wire w -> w_broker w' = w_broker w ->
  WIr sub R w -> WIr sub R w'.
Proof. intros Hw Hb. unfold WIr. rewrite Hw, Hb. auto. Qed.

Lemma relq_app a c : relq (a ++ c) = relq a ++ relq c.
Proof. apply filter_app. Qed.

Lemma WIr_sub sub R1 R2 R3 w : WIr sub (R1 ++ R2 ++ R3) w -> WIr sub (R1 ++ R3) w.
Proof.
  destruct R2 as [|e R2]; [auto|].
  destruct R1 as [|a R1]; cbn [Datatypes.app].
  - destruct R2, R3; cbn [Datatypes.app]; try (intros [_ []]; fail). apply WIr_drop.
  - destruct R1; cbn [Datatypes.app]; intros [_ []].
Qed.

Lemma run_entry_WI sub w k e X w' r :
  WIr sub (relq (w_retryq w ++ e :: X)) w -> run_entry cfg fp w k e = (w', r) ->
  WIr sub (relq (w_retryq w' ++ fail_entry r ++ X)) w' /\ frame w w'.
Proof.
  intros HW Hrun. destruct (relb e) eqn:Hr.
  - rewrite relq_app in HW. unfold relq at 2 in HW. cbn [filter] in HW. rewrite Hr in HW.
    fold (relq X) in HW.
    destruct (relq (w_retryq w)) as [|a l] eqn:E1.
    2:{ destruct l; destruct HW as [_ []]. }
    destruct (relq X) as [|a2 l2] eqn:E2.
    2:{ destruct HW as [_ []]. }
    cbn [Datatypes.app] in HW. destruct HW as [O (-> & U & A & B)].
    assert (Hb : b = true -> okW w = true /\ bok (held w) (cntd w) e) by auto.
    destruct (run_entry_rel _ _ _ _ _ Hrun Hr U A Hb) as (qa & Q & F & O' & R).
    split; [|exact F].
    rewrite Q, <- !app_assoc, relq_app, E1. cbn [Datatypes.app].
    rewrite app_assoc, relq_app, E2, app_nil_r.
    destruct R as [[-> R] | (e' & -> & Hr' & A' & B')].
    + cbn [relq filter]. split; [exact O'|]. split; [exact U|].
      destruct R as [(A1 & A2 & A3) | (A1 & A2)].
      * split; [exact A2|]. intros Eb. rewrite (A3 Eb). auto.
      * split; [apply silent_unacked; exact A1|]. intros Eb. split; [exact (A2 Eb)|].
        rewrite A1. discriminate.
    + cbn [relq filter]. rewrite Hr'. split; [exact O'|]. auto.
  - destruct (run_entry_irrel _ _ _ _ _ Hrun Hr) as (qa & Q & Fq & Ff & K).
    split; [|apply K].
    assert (E : relq (w_retryq w' ++ fail_entry r ++ X) = relq (w_retryq w ++ e :: X)).
    { rewrite Q, !relq_app, Fq, Ff, app_nil_r. cbn [Datatypes.app].
      f_equal. unfold relq. cbn [filter]. rewrite Hr. reflexivity. }
    rewrite E. apply (WIr_keep _ _ _ _ _ HW K). intros U. apply relb_false_uid; assumption.
Qed.

Lemma retry_loop_WI sub k old : forall w X,
  WIr sub (relq (w_retryq w ++ old ++ X)) w ->
  WIr sub (relq (w_retryq (retry_loop cfg fp w k old) ++ X)) (retry_loop cfg fp w k old)
  /\ frame w (retry_loop cfg fp w k old).
Proof.
  induction old as [|e rest IH]; intros w X HW.
  - cbn [retry_loop]. split; [exact HW | apply frame_refl].
  - cbn [retry_loop]. destruct (run_entry cfg fp w k e) as [w1 r] eqn:Hrun.
    cbn [Datatypes.app] in HW.
    destruct (run_entry_WI _ _ _ _ _ _ _ HW Hrun) as [H1 F1].
    destruct (w_hung w1).
    { split; [|exact F1].
      rewrite (app_assoc (fail_entry r) rest X) in H1. rewrite relq_app in H1.
      rewrite (relq_app (fail_entry r ++ rest) X) in H1. rewrite relq_app.
      exact (WIr_sub _ _ _ _ _ H1). }
    destruct r; cbn [fail_entry Datatypes.app] in H1.
    + destruct (IH _ _ H1) as [H2 F2]. split; [exact H2 | exact (frame_trans _ _ _ F1 F2)].
    + split; [|eapply frame_trans; [exact F1 | apply frame_same; reflexivity]].
      cbn [w_retryq queue_retry set_retryq set_nrbe on_error].
      rewrite <- !app_assoc. cbn [Datatypes.app].
      eapply WIr_same; [| |exact H1]; reflexivity.
    + assert (H1' : WIr sub (relq (w_retryq (add_dropped w1 (entry_uid e)) ++ rest ++ X))
                        (add_dropped w1 (entry_uid e))).
      { eapply WIr_same; [| |exact H1]; reflexivity. }
      destruct (IH _ _ H1') as [H2 F2]. split; [exact H2|].
      eapply frame_trans; [exact F1|]. eapply frame_trans; [|exact F2]. apply frame_same; reflexivity.
    + destruct (IH _ _ H1) as [H2 F2]. split; [exact H2 | exact (frame_trans _ _ _ F1 F2)].
Qed.

(* ---------- tasks ---------- *)
Definition op_entry (o : uop) : rentry :=
  match o with
  | UPub m => DPublish m
  | USub uid ss => DSubscribe uid ss
  | UUnsub uid ts => DUnsubscribe uid ts
  end.
Definition task_entries (t : task) : list rentry :=
  match t with TOp o => [op_entry o] | _ => [] end.

Lemma exec_op_cases w k o :
  (exists r, run_entry cfg fp w k (op_entry o) = (exec_task cfg fp w k (TOp o), r) /\ fail_entry r = [])
  \/ exec_task cfg fp w k (TOp o) = set_retryq w (w_retryq w ++ [op_entry o])
  \/ exec_task cfg fp w k (TOp o) = w.
Proof.
  destruct o; cbn [exec_task op_entry run_entry];
    unfold task_publish, task_subscribe, task_unsubscribe; destruct (w_retryq w) eqn:E.
  - left. exists ADone. split; reflexivity.
  - destruct (N.ltb 0 (p_qos m)); auto.
  - left. exists ADone. split; reflexivity.
  - auto.
  - left. exists ADone. split; reflexivity.
  - auto.
Qed.

Lemma exec_op_WI sub w k o X :
  WIr sub (relq (w_retryq w ++ op_entry o :: X)) w ->
  WIr sub (relq (w_retryq (exec_task cfg fp w k (TOp o)) ++ X)) (exec_task cfg fp w k (TOp o))
  /\ frame w (exec_task cfg fp w k (TOp o)).
Proof.
  intros HW. destruct (exec_op_cases w k o) as [(r & Hrun & Hf) | [E | E]].
  - destruct (run_entry_WI _ _ _ _ _ _ _ HW Hrun) as [H F]. rewrite Hf in H. auto.
  - rewrite E. split; [|apply frame_same; reflexivity].
    cbn [w_retryq set_retryq]. rewrite <- app_assoc. cbn [Datatypes.app].
    eapply WIr_same; [| |exact HW]; reflexivity.
  - rewrite E. split; [|apply frame_refl].
    rewrite relq_app. rewrite relq_app in HW.
    change (op_entry o :: X) with ([op_entry o] ++ X) in HW. rewrite relq_app in HW.
    exact (WIr_sub _ _ _ _ _ HW).
Qed.

Lemma relb_resub s0 : relb (DSubscribe 0 s0) = false.
Proof. unfold relb. cbn [entry_uid pubkind]. destruct u; reflexivity. Qed.

Lemma resub_fold_WI sub k l : forall w Y,
  WIr sub (relq (w_retryq w ++ Y)) w ->
  let w' := fold_left (fun w s => if w_hung w then w else task_subscribe cfg fp w k 0 [s]) l w in
  WIr sub (relq (w_retryq w' ++ Y)) w' /\ frame w w'.
Proof.
  induction l as [|s0 l IH]; intros w Y HW; cbn [fold_left].
  - split; [exact HW | apply frame_refl].
  - destruct (w_hung w).
    + apply IH. exact HW.
    + assert (HW' : WIr sub (relq (w_retryq w ++ op_entry (USub 0 [s0]) :: Y)) w).
      { rewrite relq_app. unfold relq at 2. cbn [filter op_entry]. rewrite relb_resub.
        rewrite relq_app in HW. exact HW. }
      destruct (exec_op_WI _ _ k _ _ HW') as [H F]. cbn [exec_task] in H, F.
      destruct (IH _ _ H) as [H2 F2]. split; [exact H2 | exact (frame_trans _ _ _ F F2)].
Qed.

Lemma exec_task_WI sub w k t X :
  WIr sub (relq (w_retryq w ++ task_entries t ++ X)) w ->
  WIr sub (relq (w_retryq (exec_task cfg fp w k t) ++ X)) (exec_task cfg fp w k t)
  /\ frame w (exec_task cfg fp w k t).
Proof.
  intros HW. destruct t as [o| |]; cbn [task_entries Datatypes.app] in HW.
  - apply exec_op_WI. exact HW.
  - cbn [exec_task]. unfold task_resubscribe.
    set (w0 := set_retryq (set_subest w []) []).
    assert (H0 : WIr sub (relq (w_retryq w0 ++ w_retryq w ++ X)) w0).
    { eapply WIr_same; [| |exact HW]; reflexivity. }
    destruct (resub_fold_WI sub k (w_subest w) _ _ H0) as [H F]. cbv zeta in H, F.
    split.
    + cbn [w_retryq set_retryq]. rewrite <- app_assoc.
      eapply WIr_same; [| |exact H]; reflexivity.
    + eapply frame_trans; [apply (frame_same w w0); reflexivity|].
      eapply frame_trans; [exact F|]. apply frame_same; reflexivity.
  - cbn [exec_task]. unfold task_retry.
    assert (H0 : WIr sub (relq (w_retryq (set_retryq w []) ++ w_retryq w ++ X)) (set_retryq w [])).
    { eapply WIr_same; [| |exact HW]; reflexivity. }
    destruct (retry_loop_WI sub k _ _ _ H0) as [H F]. split; [exact H|].
    eapply frame_trans; [|exact F]. apply frame_same; reflexivity.
Qed.

(* ---------- the invariant on the system ---------- *)
Definition NA (acc : bool) (w : world) : Prop :=
  acc = false -> (forall j, cl_accepted (get_client w j) = false) /\ w_broker w = broker0.

Lemma NA_frame acc w w' : NA acc w -> frame w w' -> NA acc w'.
Proof.
  intros H [F1 F2] E. destruct (H E) as [A B]. split.
  - intros j. rewrite F1. apply A.
  - rewrite F2; assumption.
Qed.

Definition SIc (sub acc : bool) (w : world) (tq : list task) : Prop :=
  WIr sub (relq (w_retryq w ++ flat_map task_entries tq)) w /\ NA acc w.
Definition SI (sub acc : bool) (s : sys) : Prop := SIc sub acc (s_w s) (s_taskq s).

Lemma SIc_clients sub acc w w' tq :
  w_wire w' = w_wire w -> w_broker w' = w_broker w -> w_retryq w' = w_retryq w ->
  (forall j, cl_accepted (get_client w' j) = cl_accepted (get_client w j)) ->
  SIc sub acc w tq -> SIc sub acc w' tq.
Proof.
  intros Hw Hb Hq Hc [H N]. split.
  - rewrite Hq. exact (WIr_same _ _ _ _ Hw Hb H).
  - apply (NA_frame _ _ _ N). split; [exact Hc | intros _; exact Hb].
Qed.

Lemma SIc_upd sub acc w k f tq : (forall c, cl_accepted (f c) = cl_accepted c) ->
  SIc sub acc w tq -> SIc sub acc (upd_client w k f) tq.
Proof.
  intros Hf. apply SIc_clients; try reflexivity. intros j. apply acc_upd. exact Hf.
Qed.

Lemma SIc_acc sub acc w tq : SIc sub acc w tq -> SIc (sub || false) (acc || false) w tq.
Proof. rewrite !orb_false_r. auto. Qed.

Lemma acc_app_new l j :
  cl_accepted (nth j (l ++ [client_new]) client_none) = cl_accepted (nth j l client_none).
Proof.
  revert j; induction l as [|x l IH]; intros j.
  - destruct j as [|[|j]]; reflexivity.
  - destruct j; cbn [Datatypes.app nth]; auto.
Qed.

Lemma WIr_nob sub R w w' : b <> true -> w_wire w' = w_wire w -> WIr sub R w -> WIr sub R w'.
Proof.
  intros Hn Hw [O H]. unfold WIr. rewrite Hw. split; [intros Eb; destruct (Hn Eb)|].
  destruct R as [|e [|e2 R]]; [| |exact H].
  - destruct sub.
    + destruct H as (A & B & C). split; [exact A|]. split; [exact B|]. intros Eb; destruct (Hn Eb).
    + destruct H as (A & B). split; [exact A|]. intros Eb; destruct (Hn Eb).
  - destruct H as (A & B & C & D). split; [exact A|]. split; [exact B|]. split; [exact C|].
    intros Eb; destruct (Hn Eb).
Qed.

Definition is_sub_u (l : label) : bool := match l with LSubmit o => uop_uid o =? u | _ => false end.
Definition is_acc (l : label) : bool := match l with LConnEnd (CoAccept _) => true | _ => false end.

Lemma flat_map_snoc {A B} (f : A -> list B) l x : flat_map f (l ++ [x]) = flat_map f l ++ f x.
Proof. rewrite flat_map_app. cbn [flat_map]. rewrite app_nil_r. reflexivity. Qed.

Lemma step_SI sub acc s l s' : step cfg fp s l = Some s' -> SI sub acc s ->
  (forall o, l = LSubmit o -> uop_uid o = u ->
     sub = false /\ u <> 0 /\ (b = true -> is_q2 o = true)) ->
  (b = true -> l = LConnEnd (CoAccept false) -> acc = false) ->
  SI (sub || is_sub_u l) (acc || is_acc l) s'.
Proof.
  intros Hstep HI Hsub Hwipe. unfold SI in *.
  destruct l; cbn [step is_sub_u is_acc] in *.
  - (* LSubmit *)
    injection Hstep as <-. cbn [s_w s_taskq]. rewrite orb_false_r.
    destruct HI as [HW HN]. split; [|exact HN].
    rewrite flat_map_snoc, app_assoc, relq_app. cbn [task_entries].
    destruct (uop_uid o =? u) eqn:E.
    + apply Nat.eqb_eq in E. destruct (Hsub o eq_refl E) as (-> & U & Q).
      assert (Hr : relb (op_entry o) = true).
      { unfold relb. replace (entry_uid (op_entry o)) with (uop_uid o) by (destruct o; reflexivity).
        rewrite E, Nat.eqb_refl. apply Nat.eqb_neq in U. rewrite U. cbn. apply orb_true_r. }
      cbn [relq filter]. rewrite Hr.
      destruct (relq (w_retryq (s_w s) ++ flat_map task_entries (s_taskq s))) as [|a [|a2 R]].
      * destruct HW as [O [A B]]. split; [exact O|]. cbn [Datatypes.app orb].
        split; [reflexivity|]. split; [exact U|]. split; [exact A|].
        intros Eb. destruct (B Eb) as [B1 B2]. specialize (Q Eb).
        destruct o; cbn [is_q2] in Q; try discriminate. cbn [op_entry bok].
        apply N.eqb_eq in Q. auto.
      * destruct HW as [_ (HF & _)]. discriminate.
      * destruct HW as [_ []].
    + rewrite orb_false_r.
      assert (Hr : relb (op_entry o) = false).
      { unfold relb. replace (entry_uid (op_entry o)) with (uop_uid o) by (destruct o; reflexivity).
        rewrite E. reflexivity. }
      cbn [relq filter]. rewrite Hr, app_nil_r. exact HW.
  - (* LObserve *)
    destruct (s_tmode s); [|discriminate].
    destruct (_ && _); [|discriminate]. injection Hstep as <-. apply SIc_acc. exact HI.
  - (* LTask *)
    destruct (w_hung (s_w s)); [discriminate|].
    destruct (s_tmode s) as [|g]; [discriminate|].
    destruct (negb (g =? s_gen s)).
    { injection Hstep as <-. apply SIc_acc. exact HI. }
    destruct (s_taskq s) as [|t q]; [discriminate|].
    destruct (s_cur s) as [k|]; [|discriminate].
    destruct HI as [HW HN]. cbn [flat_map] in HW.
    destruct (exec_task_WI sub (s_w s) k t _ HW) as [H F].
    pose proof (NA_frame _ _ _ HN F) as HN'.
    destruct (w_nrbe (exec_task cfg fp (s_w s) k t)); injection Hstep as <-; apply SIc_acc;
      cbn [s_w s_taskq set_tmode set_w set_taskq].
    + apply (SIc_clients _ _ (exec_task cfg fp (s_w s) k t)); try reflexivity.
      * intros j. change (get_client (set_nrbe (upd_client (exec_task cfg fp (s_w s) k t) k kill) false) j)
          with (get_client (upd_client (exec_task cfg fp (s_w s) k t) k kill) j).
        apply acc_upd. reflexivity.
      * split; assumption.
    + split; assumption.
  - (* LDial *)
    destruct (s_pc s); try discriminate.
    destruct ok; injection Hstep as <-; apply SIc_acc; cbn [s_w s_taskq set_pc set_w]; [|exact HI].
    revert HI. apply SIc_clients; try reflexivity.
    intros j. unfold get_client. cbn [w_clients set_clients]. apply acc_app_new.
  - (* LSetClient *)
    destruct (s_pc s); try discriminate. injection Hstep as <-. apply SIc_acc. exact HI.
  - (* LConnBegin *)
    destruct (s_pc s); try discriminate. injection Hstep as <-. apply SIc_acc.
    cbn [s_w s_taskq set_pc set_w]. apply SIc_upd; [reflexivity | exact HI].
  - (* LConnEnd *)
    destruct (s_pc s); try discriminate.
    destruct o as [sp| | |].
    + destruct (cl_alive (get_client (s_w s) k)); [|discriminate].
      injection Hstep as <-. cbn [s_w s_taskq set_pc set_w set_cres]. rewrite orb_true_r, orb_false_r.
      destruct HI as [HW HN]. split; [|intros E; discriminate].
      destruct sp.
      * eapply WIr_same; [| |exact HW]; reflexivity.
      * cbn [w_retryq set_broker upd_client set_clients].
        destruct (bool_dec b true) as [Eb|Eb].
        -- destruct (HN (Hwipe Eb eq_refl)) as [_ B0].
           eapply WIr_same; [| |exact HW]; [reflexivity|].
           cbn [w_broker set_broker upd_client set_clients]. rewrite B0. reflexivity.
        -- eapply WIr_nob; [exact Eb| |exact HW]. reflexivity.
    + injection Hstep as <-. apply SIc_acc. cbn [s_w s_taskq set_pc set_w set_cres].
      apply SIc_upd; [reflexivity | exact HI].
    + injection Hstep as <-. apply SIc_acc. cbn [s_w s_taskq set_pc set_w set_cres].
      apply SIc_upd; [reflexivity | exact HI].
    + injection Hstep as <-. apply SIc_acc. exact HI.
  - (* LPushResub *)
    destruct (s_pc s); try discriminate.
    destruct (_ && _); injection Hstep as <-; apply SIc_acc; cbn [s_w s_taskq set_pc set_taskq]; [|exact HI].
    unfold SIc. rewrite flat_map_snoc. cbn [task_entries]. rewrite app_nil_r. exact HI.
  - (* LPushRetry *)
    destruct (s_pc s); try discriminate. injection Hstep as <-. apply SIc_acc. cbn [s_w s_taskq].
    unfold SIc. rewrite flat_map_snoc. cbn [task_entries]. rewrite app_nil_r. exact HI.
  - (* LDetectEnd *)
    destruct (s_pc s); try discriminate.
    destruct (cl_alive _); [discriminate|]. injection Hstep as <-. apply SIc_acc. exact HI.
  - (* LCloseFailed *)
    destruct (s_pc s); try discriminate. injection Hstep as <-. apply SIc_acc.
    cbn [s_w s_taskq set_pc set_w]. apply SIc_upd; [reflexivity | exact HI].
  - (* LBackoff *)
    destruct (s_pc s); try discriminate. injection Hstep as <-. apply SIc_acc. exact HI.
  - (* LIdleCut *)
    destruct (s_pc s); try discriminate.
    destruct (cl_alive _); [|discriminate]. injection Hstep as <-. apply SIc_acc.
    cbn [s_w s_taskq set_w]. apply SIc_upd; [reflexivity | exact HI].
Qed.

Definition subb (ls : list label) : bool := existsb (fun o => uop_uid o =? u) (submits ls).

Lemma subb_snoc ls l : subb (ls ++ [l]) = subb ls || is_sub_u l.
Proof.
  unfold subb. rewrite submits_app, existsb_app. f_equal.
  destruct l; try reflexivity. cbn [submits existsb is_sub_u]. apply orb_false_r.
Qed.

Lemma SI_init : SI false false sys0.
Proof.
  split.
  - cbn. split; [reflexivity|]. split; [reflexivity|]. intros _. split; reflexivity.
  - intros _. split; [|reflexivity]. intros j. unfold get_client. cbn. destruct j; reflexivity.
Qed.

Lemma reach_SI ls : forall s, run cfg fp sys0 ls = Some s -> wf_labels ls ->
  (b = true -> forall o, In o (submits ls) -> uop_uid o = u -> is_q2 o = true) ->
  (b = true -> session_kept_labels ls) ->
  SI (subb ls) (accb ls) s.
Proof.
  induction ls as [|l ls IH] using rev_ind; intros s Hrun Hwf Hq Hk.
  - injection Hrun as <-. exact SI_init.
  - rewrite run_snoc in Hrun. destruct (run cfg fp sys0 ls) as [s1|] eqn:E1; [|discriminate].
    destruct (wf_labels_snoc _ _ Hwf) as [Hwf1 Hnew].
    assert (Hq1 : b = true -> forall o, In o (submits ls) -> uop_uid o = u -> is_q2 o = true).
    { intros Eb o Ho. apply (Hq Eb). rewrite submits_app. apply in_or_app. left. exact Ho. }
    assert (Hk1 : b = true -> session_kept_labels ls).
    { intros Eb. apply (session_kept_snoc _ _ (Hk Eb)). }
    specialize (IH _ eq_refl Hwf1 Hq1 Hk1).
    rewrite subb_snoc, accb_snoc. apply (step_SI _ _ _ _ _ Hrun IH).
    + intros o -> Hu. destruct (Hnew o eq_refl) as [Hpos Hlt]. split; [|split].
      * unfold subb. destruct (existsb _ (submits ls)) eqn:Ex; [|reflexivity].
        apply existsb_exists in Ex as (o' & Ho' & Eo'). apply Nat.eqb_eq in Eo'.
        specialize (Hlt _ Ho'). lia.
      * lia.
      * intros Eb. apply (Hq Eb); [|exact Hu]. rewrite submits_app. apply in_or_app. right. left. reflexivity.
    + intros Eb ->. apply (session_kept_snoc _ _ (Hk Eb)). reflexivity.
Qed.

End U.

(* ---------- the three statements ---------- *)
Lemma C02_silent_after_pubcomp : C02_silent_after_pubcomp_stmt.
Proof.
  unfold C02_silent_after_pubcomp_stmt. intros cfg fp ls s Hrun Hwf u.
  assert (Hb0 : false = true -> u <> 0) by discriminate.
  assert (H := reach_SI cfg fp u false Hb0 ls s Hrun Hwf).
  destruct H as [[_ H] _]; try discriminate.
  unfold wire_of.
  destruct (relq u _) as [|e [|e2 R]].
  - destruct (subb u ls).
    + apply H.
    + apply silent_unacked. apply H.
  - apply silent_unacked. apply H.
  - destruct H.
Qed.

Lemma q2_setup cfg fp ls s u : run cfg fp sys0 ls = Some s -> wf_labels ls -> q2_submitted s u ->
  u <> 0 /\ forall o, In o (submits ls) -> uop_uid o = u -> is_q2 o = true.
Proof.
  intros Hrun Hwf (m & Hin & Hu & Hq).
  rewrite (run_submitted _ _ _ _ _ Hrun) in Hin. cbn [s_submitted sys0 Datatypes.app] in Hin.
  split.
  - pose proof (incr_lower _ _ Hwf (uop_uid (UPub m)) (in_map uop_uid _ _ Hin)) as L.
    cbn [uop_uid] in L. lia.
  - intros o Ho Eo. assert (o = UPub m).
    { apply (incr_inj uop_uid _ _ Hwf); [exact Ho | exact Hin | cbn [uop_uid]; congruence]. }
    subst o. cbn [is_q2]. apply N.eqb_eq. exact Hq.
Qed.

Lemma C02_at_most_once : C02_at_most_once_stmt.
Proof.
  unfold C02_at_most_once_stmt. intros cfg fp ls s Hrun Hwf Hk u Hq2.
  destruct (q2_setup _ _ _ _ _ Hrun Hwf Hq2) as [U Q].
  assert (Hb0 : true = true -> u <> 0) by (intros _; exact U).
  assert (H := reach_SI cfg fp u true Hb0 ls s Hrun Hwf (fun _ => Q) (fun _ => Hk)).
  destruct H as [[_ H] _]. unfold broker_of.
  destruct (relq u _) as [|e [|e2 R]].
  - destruct (subb u ls).
    + apply H. reflexivity.
    + destruct H as [_ H]. destruct (H eq_refl) as [_ ->]. lia.
  - destruct H as (_ & _ & _ & H). exact (bok_le1 cfg u true Hb0 _ _ _ (H eq_refl)).
  - destruct H.
Qed.

Lemma C02_exactly_once_when_acked : C02_exactly_once_when_acked_stmt.
Proof.
  unfold C02_exactly_once_when_acked_stmt. intros cfg fp ls s Hrun Hwf Hk u Hq2 Hacked.
  destruct (q2_setup _ _ _ _ _ Hrun Hwf Hq2) as [U Q].
  assert (Hb0 : true = true -> u <> 0) by (intros _; exact U).
  assert (H := reach_SI cfg fp u true Hb0 ls s Hrun Hwf (fun _ => Q) (fun _ => Hk)).
  destruct H as [[O H] _]. unfold broker_of. unfold wire_of in Hacked.
  pose proof (okw_final_acked u _ (O eq_refl) Hacked) as A.
  destruct (relq u _) as [|e [|e2 R]].
  - destruct (subb u ls).
    + apply H; [reflexivity | exact A].
    + destruct H as [H _]. rewrite H in A. discriminate.
  - destruct H as (_ & _ & H & _). rewrite H in A. discriminate.
  - destruct H.
Qed.

(* ---------- non-vacuity: a concrete run satisfying the hypotheses of the three theorems ----------
   A QoS 2 publish (uid 1) and a QoS 1 publish (uid 2) on three connections. Connection 0 is cut
   after the broker processed the PUBLISH and before its PUBREC (FAckLost); on connection 1 the
   PUBLISH is re-sent with DUP, PUBREC arrives, and the PUBREL is lost with the connection
   (FLostAfter); on connection 2 only the PUBREL is re-sent, PUBCOMP arrives, then the QoS 1 publish
   that had been queued behind goes out. The first CONNACK says "no session" (nothing stored yet),
   the later ones "session present". Both receiver methods. *)
Definition ex_m1 : pubreq :=
  {| p_uid := 1; p_qos := 2%N; p_retain := false; p_topic := [116%N]; p_payload := [1%N] |}.
Definition ex_m2 : pubreq :=
  {| p_uid := 2; p_qos := 1%N; p_retain := false; p_topic := [116%N]; p_payload := [2%N] |}.
Definition ex_cfg (method_b : bool) : config :=
  {| c_method_b := method_b; c_always_resub := false; c_timeout := true |}.
Definition ex_fp : fplan := fp_of_list [(0, 0, FAckLost); (1, 1, FLostAfter)].
Definition ex_ls : list label :=
  [LDial true; LSetClient; LConnBegin; LConnEnd (CoAccept false); LPushResub; LPushRetry;
   LSubmit (UPub ex_m1); LSubmit (UPub ex_m2); LObserve 1; LTask; LTask;
   LDetectEnd; LBackoff; LDial true; LSetClient; LConnBegin; LConnEnd (CoAccept true); LPushResub; LPushRetry;
   LObserve 2; LTask; LTask;
   LDetectEnd; LBackoff; LDial true; LSetClient; LConnBegin; LConnEnd (CoAccept true); LPushResub; LPushRetry;
   LObserve 3; LTask].

Example C02_hypotheses_satisfiable : forall method_b, exists s,
  run (ex_cfg method_b) ex_fp sys0 ex_ls = Some s
  /\ wf_labels ex_ls /\ session_kept_labels ex_ls
  /\ q2_submitted s 1 /\ In 1 (final_acked (wire_of s))
  /\ wire_of s = [(0, PPublish ex_m1 false, WOk); (1, PPublish ex_m1 true, WAck); (1, PPubRel 1, WOk);
                  (2, PPubRel 1, WAck); (2, PPublish ex_m2 false, WAck)]
  /\ b_delivered (broker_of s) = [1; 2].
Proof.
  intros [|]; eexists; (split; [vm_compute; reflexivity|]);
    (split; [reflexivity|]); (split; [reflexivity|]);
    (split; [exists ex_m1; split; [left; reflexivity | split; reflexivity]|]);
    (split; [vm_compute; auto|]); split; reflexivity.
Qed.

(* an intermediate moment of the same run (after the second cut): the request sits in the retry queue
   as RPubRel, not yet acknowledged, and has already been delivered (method A) or is held (method B) *)
Example C02_mid_exchange : forall method_b, exists s,
  run (ex_cfg method_b) ex_fp sys0 (firstn 22 ex_ls) = Some s
  /\ w_retryq (s_w s) = [RPubRel ex_m1; DPublish ex_m2]
  /\ ~ In 1 (final_acked (wire_of s))
  /\ count 1 (b_delivered (broker_of s)) = (if method_b then 0 else 1).
Proof.
  intros [|]; eexists; (split; [vm_compute; reflexivity|]); (split; [reflexivity|]);
    (split; [vm_compute; tauto | reflexivity]).
Qed.
