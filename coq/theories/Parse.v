(* Parse.v — model of the inbound byte path: readPacket (serve.go:21-43), unpackString
   (packet.go:156-173, with the Go runtime's UTF-8 conversions), the nine Parse functions and the
   dispatch of BaseClient.serve. A Go run-time panic (index / slice out of range, makeslice) is the
   explicit outcome [Panic]; C06 proves it unreachable. The model is the code AFTER the repairs
   "fix: reject a fifth remaining-length byte" and "fix: check SUBACK body length". *)
From MQ Require Import Base Codec Inbound.
Open Scope N_scope.

Inductive perr :=
| EEOF                    (* io.EOF *)
| EUnexpectedEOF          (* io.ErrUnexpectedEOF *)
| EInvalidPacket
| EInvalidPacketLength
| EInvalidRune.

Definition perr_eqb (a b : perr) : bool :=
  match a, b with
  | EEOF, EEOF | EUnexpectedEOF, EUnexpectedEOF | EInvalidPacket, EInvalidPacket
  | EInvalidPacketLength, EInvalidPacketLength | EInvalidRune, EInvalidRune => true
  | _, _ => false
  end.

Definition res (A : Type) := outcome A perr.

Definition rbind {A B} (o : res A) (f : A -> res B) : res B :=
  match o with Ok a => f a | Err e => Err e | Panic => Panic end.
Notation "x <-- e ;; k" := (rbind e (fun x => k)) (at level 61, e at next level, right associativity).

(* ---------- Go primitives that can panic ---------- *)
Definition index (b : list N) (i : nat) : res N :=
  match nth_error b i with Some x => Ok x | None => Panic end.           (* b[i] *)

Definition slice_from (b : list N) (a : nat) : res (list N) :=
  if Nat.leb a (length b) then Ok (skipn a b) else Panic.                  (* b[a:] *)

Definition slice (b : list N) (a z : nat) : res (list N) :=
  if Nat.leb a z && Nat.leb z (length b) then Ok (firstn (z - a) (skipn a b)) else Panic.  (* b[a:z] *)

(* unpackUint16: uint16(b[0])<<8 | uint16(b[1]) *)
Definition unpack_uint16 (b : list N) : res N :=
  hi <-- index b 0 ;; lo <-- index b 1 ;; Ok (hi * 256 + lo).

(* ---------- the Go runtime's string <-> []rune conversions ---------- *)
Definition cont (b : N) : bool := (128 <=? b) && (b <=? 191).
Definition RuneError : N := 65533.

(* []rune(string(bytes)) — runtime.decoderune; an invalid byte yields U+FFFD and advances by one *)
Fixpoint decode_runes (s : list N) : list N :=
  match s with
  | [] => []
  | b0 :: r =>
      if b0 <? 128 then b0 :: decode_runes r else
      let err := RuneError :: decode_runes r in
      match r with
      | [] => err
      | b1 :: r1 =>
          if (192 <=? b0) && (b0 <? 224) then
            if cont b1 then
              let rn := (b0 mod 32) * 64 + b1 mod 64 in
              if 127 <? rn then rn :: decode_runes r1 else err
            else err
          else if (224 <=? b0) && (b0 <? 240) then
            match r1 with
            | [] => err
            | b2 :: r2 =>
                if cont b1 && cont b2 then
                  let rn := (b0 mod 16) * 4096 + (b1 mod 64) * 64 + b2 mod 64 in
                  if (2047 <? rn) && negb ((55296 <=? rn) && (rn <=? 57343)) then rn :: decode_runes r2 else err
                else err
            end
          else if (240 <=? b0) && (b0 <? 248) then
            match r1 with
            | b2 :: b3 :: r3 =>
                if cont b1 && cont b2 && cont b3 then
                  let rn := (b0 mod 8) * 262144 + (b1 mod 64) * 4096 + (b2 mod 64) * 64 + b3 mod 64 in
                  if (65535 <? rn) && (rn <=? 1114111) then rn :: decode_runes r3 else err
                else err
            | _ => err
            end
          else err
      end
  end.

(* string([]rune) — runtime.encoderune *)
Definition encode_rune (r : N) : list N :=
  if r <=? 127 then [r]
  else if r <=? 2047 then [192 + r / 64; 128 + r mod 64]
  else if (1114111 <? r) || ((55296 <=? r) && (r <=? 57343)) then [239; 191; 189]
  else if r <=? 65535 then [224 + r / 4096; 128 + (r / 64) mod 64; 128 + r mod 64]
  else [240 + r / 262144; 128 + (r / 4096) mod 64; 128 + (r / 64) mod 64; 128 + r mod 64].

Definition encode_runes (rs : list N) : list N := flat_map encode_rune rs.

Definition bad_rune (r : N) : bool := (r =? 0) || ((55296 <=? r) && (r <=? 57343)).

(* unpackString: (bytes consumed, string) *)
Definition unpack_string (b : list N) : res (nat * str) :=
  if Nat.ltb (length b) 2 then Err EInvalidPacketLength else
  n <-- unpack_uint16 b ;;
  let n := N.to_nat n in
  if Nat.ltb (length b) (n + 2) then Err EInvalidPacketLength else
  raw <-- slice b 2 (n + 2) ;;
  let rs := decode_runes raw in
  if existsb bad_rune rs then Err EInvalidRune else Ok ((n + 2)%nat, encode_runes rs).

(* ---------- the Parse functions ---------- *)
Definition parse_connack (flag : N) (body : list N) : res (bool * N) :=
  if negb (flag =? 0) then Err EInvalidPacket else
  if negb (Nat.eqb (length body) 2) then Err EInvalidPacketLength else
  a <-- index body 0 ;; c <-- index body 1 ;; Ok (N.odd a, c).

Definition parse_publish (flag : N) (body : list N) : res message :=
  let dup := N.odd (flag / 8) in
  let retain := N.odd flag in
  let q := (flag / 2) mod 4 in
  if q =? 3 then Err EInvalidPacket else
  ts <-- unpack_string body ;;
  let '(n, topic) := ts in
  if q =? 0 then
    payload <-- slice_from body n ;;
    Ok {| m_topic := topic; m_id := 0; m_qos := q; m_retain := retain; m_dup := dup; m_payload := payload |}
  else
    if Nat.ltb (length body - n) 2 then Err EInvalidPacketLength else
    idb <-- slice_from body n ;;
    id <-- unpack_uint16 idb ;;
    payload <-- slice_from body (n + 2) ;;
    Ok {| m_topic := topic; m_id := id; m_qos := q; m_retain := retain; m_dup := dup; m_payload := payload |}.

Definition parse_id_only (want_flag : N) (flag : N) (body : list N) : res N :=
  if negb (flag =? want_flag) then Err EInvalidPacket else
  if Nat.ltb (length body) 2 then Err EInvalidPacketLength else
  unpack_uint16 body.

Definition parse_puback := parse_id_only 0.
Definition parse_pubrec := parse_id_only 0.
Definition parse_pubrel := parse_id_only 2.
Definition parse_pubcomp := parse_id_only 0.
Definition parse_unsuback := parse_id_only 0.

(* suback.go after the repair: the length is checked before indexing *)
Definition parse_suback (flag : N) (body : list N) : res (N * list N) :=
  if negb (flag =? 0) then Err EInvalidPacket else
  if Nat.ltb (length body) 2 then Err EInvalidPacketLength else
  id <-- unpack_uint16 body ;;
  codes <-- slice_from body 2 ;;
  Ok (id, codes).

Definition parse_pingresp (flag : N) (body : list N) : res unit :=
  if negb (flag =? 0) then Err EInvalidPacket else Ok tt.

(* ---------- readPacket ---------- *)
Inductive rp :=
| RP_ok (typ flag : N) (body rest : list N)
| RP_err (e : perr)
| RP_panic.

(* the length loop: [cur] is buf[1], [k] the number of continuation bytes read so far (shift = 7k).
   After the repair a continuation bit on the fourth length byte is ErrInvalidPacketLength. *)
Fixpoint read_len (k : N) (acc cur : N) (rest : list N) : res (N * list N) :=
  let acc' := acc + (cur mod 128) * 2 ^ (7 * k) in
  if cur <? 128 then Ok (acc', rest)
  else if 3 <=? k then Err EInvalidPacketLength
  else match rest with
       | [] => Err EEOF
       | b :: r => read_len (k + 1) acc' b r
       end.

Definition max_packet : N := 268435455.

(* io.ReadFull(r, make([]byte, n)) on what is left of the stream; make panics on absurd sizes *)
Definition read_full (n : N) (s : list N) : res (list N * list N) :=
  if 2 ^ 47 <? n then Panic                                (* makeslice: len out of range *)
  else if n =? 0 then Ok ([], s)
  else match s with
       | [] => Err EEOF
       | _ => if N.of_nat (length s) <? n then Err EUnexpectedEOF
              else Ok (firstn (N.to_nat n) s, skipn (N.to_nat n) s)
       end.

(* result plus the size of the body buffer that was requested from make() *)
Definition read_packet (s : list N) : rp * option N :=
  match s with
  | [] => (RP_err EEOF, None)
  | [_] => (RP_err EUnexpectedEOF, None)
  | h :: l0 :: r =>
      match read_len 0 0 l0 r with
      | Ok (n, r1) =>
          match read_full n r1 with
          | Ok (body, rest) => (RP_ok (h / 16) (h mod 16) body rest, Some n)
          | Err e => (RP_err e, Some n)
          | Panic => (RP_panic, Some n)
          end
      | Err e => (RP_err e, None)
      | Panic => (RP_panic, None)
      end
  end.

(* ---------- the serve loop ---------- *)
Inductive sv_event :=
| EvIn (e : in_event)            (* hand-over to the handler / acknowledgement written *)
| EvAlloc (n : N)                (* make([]byte, n) for a packet body *)
| EvAck (typ : N) (id : N).      (* an acknowledgement was routed to the waiter table: CONNACK 2, PUBACK 4, ... *)

Inductive ending := EndErr (e : perr) | EndPanic | EndFuel.

Definition lift_in (es : list in_event) : list sv_event := map EvIn es.

(* one dispatch of serve(): new subBuffer and events, or the error that ends the loop *)
Definition dispatch (handler : bool) (sb : subbuf) (typ flag : N) (body : list N)
  : res (subbuf * list sv_event) :=
  match typ with
  | 2 => p <-- parse_connack flag body ;; Ok (sb, [EvAck 2 0])
  | 3 => m <-- parse_publish flag body ;;
         let '(sb', ev) := serve_in_step handler sb (InPublish m) in Ok (sb', lift_in ev)
  | 4 => id <-- parse_puback flag body ;; Ok (sb, [EvAck 4 id])
  | 5 => id <-- parse_pubrec flag body ;; Ok (sb, [EvAck 5 id])
  | 6 => id <-- parse_pubrel flag body ;;
         let '(sb', ev) := serve_in_step handler sb (InPubRel id) in Ok (sb', lift_in ev)
  | 7 => id <-- parse_pubcomp flag body ;; Ok (sb, [EvAck 7 id])
  | 9 => p <-- parse_suback flag body ;; Ok (sb, [EvAck 9 (fst p)])
  | 11 => id <-- parse_unsuback flag body ;; Ok (sb, [EvAck 11 id])
  | 13 => p <-- parse_pingresp flag body ;; Ok (sb, [EvAck 13 0])
  | _ => Err EInvalidPacket
  end.

Fixpoint serve_stream (fuel : nat) (handler : bool) (sb : subbuf) (s : list N) : list sv_event * ending :=
  match fuel with
  | O => ([], EndFuel)
  | S f =>
      let '(r, alloc) := read_packet s in
      let al := match alloc with Some n => [EvAlloc n] | None => [] end in
      match r with
      | RP_err e => (al, EndErr e)
      | RP_panic => (al, EndPanic)
      | RP_ok typ flag body rest =>
          match dispatch handler sb typ flag body with
          | Ok (sb', ev) => let '(evs, e) := serve_stream f handler sb' rest in (al ++ ev ++ evs, e)
          | Err e => (al, EndErr e)
          | Panic => (al, EndPanic)
          end
      end
  end.

Definition serve (handler : bool) (s : list N) : list sv_event * ending :=
  serve_stream (S (length s)) handler [] s.
