(* ParseResub.v — what a RetryClient remembers of its subscriptions and asks for again after a
   reconnection, as far as C06 needs it: the bytes of a SUBACK (return codes 0x80, reserved values,
   any count) never reach the SUBSCRIBE encoder, whose Pack panics for a QoS outside 0..2.
     RetryClient.subscribe   retryclient.go:177-199: subscriptions(subs).applyTo(&c.subEstablished)
                             BEFORE the request, from the application's arguments; the slice
                             returned by cli.Subscribe (which carries the SUBACK codes,
                             subscribe.go:105-107) is discarded
     subscriptions.applyTo   subscriptions.go:23-29: a filter is remembered once, latest QoS, at the end
     RetryClient.Resubscribe retryclient.go:452-467: one Subscribe per remembered entry, in order
     pktSubscribe.Pack       subscribe.go:40-55: default: panic("invalid QoS") *)
From MQ Require Import Base Codec.
Open Scope N_scope.

Definition subreq := (str * N)%type.

Definition est_remove (t : str) (est : list subreq) : list subreq :=
  filter (fun e => negb (str_eqb (fst e) t)) est.

Fixpoint est_apply (subs est : list subreq) : list subreq :=
  match subs with
  | [] => est
  | (t, q) :: r => est_apply r (est_remove t est ++ [(t, q)])
  end.

(* one Subscribe through the RetryClient, answered with [codes] (any bytes, any number of them) *)
Definition rc_subscribe (est subs : list subreq) (codes : list N) : list subreq := est_apply subs est.

Fixpoint rc_history (est : list subreq) (ops : list (list subreq * list N)) : list subreq :=
  match ops with
  | [] => est
  | (subs, codes) :: r => rc_history (rc_subscribe est subs codes) r
  end.

(* pktSubscribe.Pack: panics on a QoS outside 0..2; [Err tt]: not encodable for size reasons *)
Definition sub_pack (id : N) (subs : list subreq) : outcome (list N) unit :=
  if forallb (fun s => snd s <=? 2) subs then
    match pack_subscribe id subs with Some b => Ok b | None => Err tt end
  else Panic.

(* the requests of Resubscribe on the next connection *)
Definition resubscribe (est : list subreq) : list (list subreq) := map (fun s => [s]) est.
