(* RetryProps.v — the statements of C01 C02 C03 C08 C12 C18 about the retry / reconnect system
   model (RetrySys.step), as Props. No proofs here: props/Cxx.v closes each with a lemma from a
   RetryInv_*.v file. The executable predicates (faithful, no_publish_after_rel, silent_after_comp,
   nondecreasing_from, ...) are the SAME functions that CheckRetry evaluates on what the
   implementation did (V_* results), so "proved of the model for every label sequence" and "checked on
   the implementation's observations" speak about one definition. *)
From MQ Require Import Base RetryCore RetrySys CheckRetry.
Open Scope nat_scope.

(* ---------- histories ---------- *)
Fixpoint submits (ls : list label) : list uop :=
  match ls with
  | [] => []
  | LSubmit o :: r => o :: submits r
  | _ :: r => submits r
  end.

(* ghost numbering: request uids are positive and strictly increasing in submission order
   (the uid of a publish stands for its packet identifier, assumed not to collide: C15) *)
Definition wf_labels (ls : list label) : Prop := increasing_from 0 (map uop_uid (submits ls)) = true.

(* the broker keeps the session: every accepting CONNACK after the first says "session present" *)
Fixpoint accepts (ls : list label) : list bool :=
  match ls with
  | [] => []
  | LConnEnd (CoAccept sp) :: r => sp :: accepts r
  | _ :: r => accepts r
  end.
Definition session_kept_labels (ls : list label) : Prop := forallb (fun sp => sp) (tl (accepts ls)) = true.

(* fault plans *)
Definition closing_only (fp : fplan) : Prop :=
  forall k i, fp k i <> FSilentReq /\ fp k i <> FSilentAck.
(* the broker eventually stays reachable: connections numbered K and above are fault-free *)
Definition reliable_from (fp : fplan) (K : nat) : Prop := forall k i, K <= k -> fp k i = FNone.

Definition no_submit (ls : list label) : Prop := submits ls = [].

(* requests accepted but not yet acknowledged, oldest first: retry queue, then task queue *)
Definition task_uids (t : task) : list nat := match t with TOp o => [uop_uid o] | _ => [] end.
Definition nonzero (l : list nat) : list nat := filter (fun u => negb (u =? 0)) l.
Definition pending_uids (s : sys) : list nat :=
  nonzero (map entry_uid (w_retryq (s_w s))) ++ flat_map task_uids (s_taskq s).

Definition wire_of (s : sys) := w_wire (s_w s).
Definition broker_of (s : sys) := w_broker (s_w s).

(* idle on a stable connection: the reconnect loop has queued its tasks for the current, live
   connection and everything queued has been processed *)
Definition quiescent (s : sys) : Prop :=
  w_retryq (s_w s) = [] /\ s_taskq s = [] /\ cur_alive s = true /\ w_hung (s_w s) = false
  /\ exists k, s_pc s = RRun k /\ s_cur s = Some k.

(* ---------- C01 ---------- *)
(* safety: an accepted request that needs an acknowledgement is, at every moment, either acknowledged
   or still held (exactly once) in the queues; nothing needing an acknowledgement is ever given up.
   (A task goroutine that waits for ever on a silent broker without ResponseTimeout holds its
   request inside the call: excluded here, it is C18's subject.) *)
Definition C01_no_loss_stmt : Prop :=
  forall cfg fp ls s, run cfg fp sys0 ls = Some s -> wf_labels ls -> w_hung (s_w s) = false ->
    (forall o, In o (s_submitted s) -> needs_ack o = true ->
       In (uop_uid o) (final_acked (wire_of s)) \/ In (uop_uid o) (pending_uids s))
    /\ increasing_from 0 (pending_uids s) = true
    /\ (forall o, In o (s_submitted s) -> needs_ack o = true -> ~ In (uop_uid o) (w_dropped (s_w s))).

(* liveness: from every reachable, not hung state, once the broker stays reachable there is a
   continuation without further submissions after which every accepted request is acknowledged and
   the client is idle on a live connection *)
Definition C01_eventually_acked_stmt : Prop :=
  forall cfg fp ls s K, run cfg fp sys0 ls = Some s -> wf_labels ls -> reliable_from fp K ->
    w_hung (s_w s) = false ->
    exists ls' s', no_submit ls' /\ run cfg fp s ls' = Some s' /\ quiescent s' /\
      s_submitted s' = s_submitted s /\
      forall o, In o (s_submitted s) -> needs_ack o = true -> In (uop_uid o) (final_acked (wire_of s')).

(* ---------- C02 ---------- *)
Definition q2_submitted (s : sys) (u : nat) : Prop :=
  exists m, In (UPub m) (s_submitted s) /\ p_uid m = u /\ p_qos m = 2%N.

Definition C02_at_most_once_stmt : Prop :=
  forall cfg fp ls s, run cfg fp sys0 ls = Some s -> wf_labels ls -> session_kept_labels ls ->
    forall u, q2_submitted s u -> count u (b_delivered (broker_of s)) <= 1.

Definition C02_exactly_once_when_acked_stmt : Prop :=
  forall cfg fp ls s, run cfg fp sys0 ls = Some s -> wf_labels ls -> session_kept_labels ls ->
    forall u, q2_submitted s u -> In u (final_acked (wire_of s)) ->
      count u (b_delivered (broker_of s)) = 1.

Definition C02_silent_after_pubcomp_stmt : Prop :=
  forall cfg fp ls s, run cfg fp sys0 ls = Some s -> wf_labels ls ->
    forall u, silent_after_comp u (wire_of s) = true.

(* ---------- C03 ---------- *)
Definition q1plus_submitted (s : sys) : list nat := map uop_uid (filter is_q1plus_pub (s_submitted s)).

Definition C03_conn_order_stmt : Prop :=
  forall cfg fp ls s, run cfg fp sys0 ls = Some s -> wf_labels ls ->
    forall k, nondecreasing_from 0 (publishes_on k (wire_of s)) = true.

Definition C03_first_tx_order_stmt : Prop :=
  forall cfg fp ls s, run cfg fp sys0 ls = Some s -> wf_labels ls ->
    increasing_from 0 (first_occurrences [] (request_tx (wire_of s))) = true.

Definition C03_first_delivery_order_stmt : Prop :=
  forall cfg fp ls s, run cfg fp sys0 ls = Some s -> wf_labels ls -> closing_only fp ->
    increasing_from 0 (first_occurrences []
      (filter (fun u => mem u (q1plus_submitted s)) (b_delivered (broker_of s)))) = true.

(* ---------- C08 ---------- *)
(* at quiescence the broker's table is the net effect of the application's calls *)
Definition C08_converges_stmt : Prop :=
  forall cfg fp ls s, run cfg fp sys0 ls = Some s -> wf_labels ls -> closing_only fp -> quiescent s ->
    subs_equiv (b_subs (broker_of s)) (net_effect (s_submitted s)) = true.

(* the client's own view agrees as well (this is what a later re-subscription would send) *)
Definition C08_established_view_stmt : Prop :=
  forall cfg fp ls s, run cfg fp sys0 ls = Some s -> wf_labels ls -> closing_only fp -> quiescent s ->
    subs_equiv (w_subest (s_w s)) (net_effect (s_submitted s)) = true.

(* a Resubscribe task is queued exactly when a connection other than the first is accepted without
   session (or AlwaysResubscribe is set) *)
Definition C08_resub_condition_stmt : Prop :=
  forall cfg fp s sp k, s_pc s = RPushResub k sp ->
    exists s', step cfg fp s LPushResub = Some s' /\
      s_taskq s' = s_taskq s ++ (if s_initialized s && (negb sp || c_always_resub cfg) then [TResub] else []).

(* a re-subscription packet (uid 0) only ever names a filter that the application subscribed, and never
   appears on the first accepted connection *)
Definition C08_resub_only_subscribed_stmt : Prop :=
  forall cfg fp ls s, run cfg fp sys0 ls = Some s -> wf_labels ls ->
    forall k ss r, In (k, PSubscribe 0 ss, r) (wire_of s) ->
      s_initialized s = true /\
      forall x, In x ss -> ever_subscribed (fst x) (s_submitted s) = true.

(* ---------- C12 ---------- *)
Definition C12_faithful_stmt : Prop :=
  forall cfg fp ls s, run cfg fp sys0 ls = Some s -> wf_labels ls ->
    forall u, faithful (pub_entries u (wire_of s)) = true.

Definition C12_no_publish_after_pubrel_stmt : Prop :=
  forall cfg fp ls s, run cfg fp sys0 ls = Some s -> wf_labels ls ->
    forall u, no_publish_after_rel u (wire_of s) = true.

Definition C12_submitted_message_stmt : Prop :=
  forall cfg fp ls s, run cfg fp sys0 ls = Some s -> wf_labels ls ->
    forall k m d r, In (k, PPublish m d, r) (wire_of s) -> In (UPub m) (s_submitted s).

(* the retry handle of the base client in isolation: whatever state it is run in, the handle of an
   interrupted publish re-sends that PUBLISH with DUP=1 first, the handle obtained after PUBREC only PUBREL *)
Definition C12_retry_handle_stmt : Prop :=
  forall cfg fp w k m d w' e cls,
    attempt_publish cfg fp w k m d = (w', AFail e cls) ->
    (e = RPublish m \/ e = RPubRel m) /\
    forall w2 k2 w3 r, run_entry cfg fp w2 k2 e = (w3, r) -> cl_inited (get_client w2 k2) = true ->
      exists rest,
        w_wire w3 = w_wire w2 ++ rest /\
        match e with
        | RPublish _ => exists res rest', rest = (k2, PPublish m true, res) :: rest'
                        /\ forall x, In x rest' -> exists res', x = (k2, PPubRel (p_uid m), res')
        | _ => forall x, In x rest -> exists res', x = (k2, PPubRel (p_uid m), res')
        end.

(* ---------- C18 ---------- *)
Definition C18_no_hang_stmt : Prop :=
  forall cfg fp ls s, c_timeout cfg = true -> run cfg fp sys0 ls = Some s -> w_hung (s_w s) = false.

(* a request whose acknowledgement does not arrive in time: RequestTimeoutError through OnError, the
   request is kept, and the connection is closed when the task ends *)
Definition C18_timeout_reaction_stmt : Prop :=
  forall cfg fp s s', c_timeout cfg = true -> step cfg fp s LTask = Some s' ->
    count_timeouts (w_errs (s_w s)) < count_timeouts (w_errs (s_w s')) ->
    s_tmode s' = TWaiting /\ cur_alive s' = false /\ w_retryq (s_w s') <> [].

