(* ConnState.v — model of what a BaseClient reports about its connection (C16):
   connState / err / connClosed and the ConnState callback log, under ALL interleavings of the
   goroutines that touch them, on first and on re-established connections.

   Code modelled (file:line of /repo):
     conn.go:25-31     SetErrorOnce              -> [set_err_once]
     conn.go:33-47     connStateUpdate           -> [update]   (no transition out of Disconnected,
                                                                callback only on change, error read under the lock)
     conn.go:55-59     Done()                    -> [c_done]
     conn.go:62-66     Err()                     -> [c_err]
     connect.go:98-104 init                      -> part of [LConnStart]
     connect.go:107-164 Connect                  -> thread [conn_pc], labels LConn*
     connect.go:120-132 goroutine run when serve() returns -> thread [serve_pc], labels LServeFail, LExit*
     serve.go:50-199   serve (only: CONNACK hand-over at 62-66 and "returns a non-nil error") -> LPeerConnAck, LServeFail
     disconnect.go:22-33 Disconnect              -> thread [disc_pc], labels LDisc*
     reconnclient.go:109-133 keep-alive goroutine of one connection -> thread [ka_pc], labels LKA*
     reconnclient.go:134-150 the reconnect loop cancelling the keep-alive context -> LCtxCancel
     reconnclient.go:82-84   dial + SetClient    -> SDial
     reconnclient.go:192-193 ReconnectClient.Disconnect closes c.disconnected first -> SDiscRequest

   Concurrency is an explicit schedule: a list of labels, one per atomic step of one goroutine
   (or of the environment: the peer, the transport, a timer). A label that is not enabled in
   the current state leaves the state unchanged, so EVERY list of labels is a schedule and the
   theorems quantify over all of them.  The ConnState callback is modelled as atomic with the
   state update (the window between mu.Unlock and the callback is NOT exhibited, see notes). *)
From MQ Require Import Base.
Open Scope N_scope.

Inductive cstate := SNew | SActive | SClosed | SDisconnected.   (* mqtt.go:80-85 *)

(* error classes (what errors.Is can tell apart) *)
Inductive errc :=
| EEOF | EUnexpectedEOF | EInvalidPacket | EInvalidLength   (* read / parse errors returned by serve *)
| ELocalClosed        (* Read on a transport that was closed locally *)
| EWriteFail          (* Transport.Write failed *)
| EPingTimeout | EClosedTransport | ECtxCanceled | EOther.

Definition cstate_eqb (a b : cstate) : bool :=
  match a, b with
  | SNew, SNew | SActive, SActive | SClosed, SClosed | SDisconnected, SDisconnected => true
  | _, _ => false
  end.

Definition errc_eqb (a b : errc) : bool :=
  match a, b with
  | EEOF, EEOF | EUnexpectedEOF, EUnexpectedEOF | EInvalidPacket, EInvalidPacket
  | EInvalidLength, EInvalidLength | ELocalClosed, ELocalClosed | EWriteFail, EWriteFail
  | EPingTimeout, EPingTimeout | EClosedTransport, EClosedTransport | ECtxCanceled, ECtxCanceled
  | EOther, EOther => true
  | _, _ => false
  end.

(* what Connect returned *)
Inductive conn_result := ROk | RRefused (code : N) | RWriteErr | RClosedTransport | RCtx.

(* program counters of the goroutines of ONE BaseClient *)
Inductive conn_pc :=
| CNotStarted
| CWriting                    (* init done, muConnecting held, serve goroutine started; about to write CONNECT (connect.go:147) *)
| CWaiting                    (* in the select of connect.go:150 *)
| CGotAck                     (* received an accepting CONNACK, about to connStateUpdate(StateActive) (connect.go:162) *)
| CReturned (r : conn_result).

Inductive serve_pc :=
| SvNotStarted
| SvReading                   (* inside serve(), blocked in / between reads *)
| SvReturned (e : errc)       (* serve() returned e (never nil: every return of serve.go is guarded by err != nil) *)
| SvClosedT (e : errc)        (* c.Close() done (connect.go:122) *)
| SvStored                    (* error stored unless Disconnected (connect.go:125-129) *)
| SvUpdated                   (* connStateUpdate(StateClosed) done (connect.go:130) *)
| SvFinished.                 (* close(c.connClosed) done (connect.go:131) *)

Inductive disc_pc :=
| DNotStarted
| DWriting                    (* connStateUpdate(StateDisconnected) done, about to write DISCONNECT (disconnect.go:28) *)
| DClosing                    (* DISCONNECT written, about to Transport.Close (disconnect.go:31) *)
| DReturned (ok : bool).

Inductive ka_pc :=
| KNotStarted
| KRunning                    (* inside KeepAlive *)
| KFailed (e : errc)          (* KeepAlive returned e, about to look at the contexts (reconnclient.go:118-127) *)
| KStoring (e : errc)         (* about to SetErrorOnce(e) (reconnclient.go:128) *)
| KClosing                    (* about to baseCli.Close() (reconnclient.go:131) *)
| KReturned.

Record client := mkClient {
  c_managed : bool;           (* created by the reconnecting client's dialer (has a keep-alive goroutine) *)
  c_state : cstate;           (* client.go:41 *)
  c_err : option errc;        (* client.go:42 ; Err() *)
  c_done : bool;              (* connClosed is closed ; Done() *)
  c_log : list (cstate * option errc);   (* ConnState callback invocations, oldest first *)
  c_tclosed : bool;           (* Transport.Close has been called by this side *)
  c_ack : option N;           (* sig.chConnAck (capacity 1): return code of a buffered CONNACK *)
  c_conn : conn_pc;
  c_serve : serve_pc;
  c_disc : disc_pc;
  c_ka : ka_pc;
  c_ctx : bool                (* the keep-alive context of this connection is still alive *)
}.

Definition fresh (managed : bool) : client :=
  mkClient managed SNew None false [] false None CNotStarted SvNotStarted DNotStarted KNotStarted true.

(* field updates *)
Definition set_state c v := mkClient (c_managed c) v (c_err c) (c_done c) (c_log c) (c_tclosed c) (c_ack c) (c_conn c) (c_serve c) (c_disc c) (c_ka c) (c_ctx c).
Definition set_err c v := mkClient (c_managed c) (c_state c) v (c_done c) (c_log c) (c_tclosed c) (c_ack c) (c_conn c) (c_serve c) (c_disc c) (c_ka c) (c_ctx c).
Definition set_done c v := mkClient (c_managed c) (c_state c) (c_err c) v (c_log c) (c_tclosed c) (c_ack c) (c_conn c) (c_serve c) (c_disc c) (c_ka c) (c_ctx c).
Definition set_log c v := mkClient (c_managed c) (c_state c) (c_err c) (c_done c) v (c_tclosed c) (c_ack c) (c_conn c) (c_serve c) (c_disc c) (c_ka c) (c_ctx c).
Definition set_tclosed c v := mkClient (c_managed c) (c_state c) (c_err c) (c_done c) (c_log c) v (c_ack c) (c_conn c) (c_serve c) (c_disc c) (c_ka c) (c_ctx c).
Definition set_ack c v := mkClient (c_managed c) (c_state c) (c_err c) (c_done c) (c_log c) (c_tclosed c) v (c_conn c) (c_serve c) (c_disc c) (c_ka c) (c_ctx c).
Definition set_conn c v := mkClient (c_managed c) (c_state c) (c_err c) (c_done c) (c_log c) (c_tclosed c) (c_ack c) v (c_serve c) (c_disc c) (c_ka c) (c_ctx c).
Definition set_serve c v := mkClient (c_managed c) (c_state c) (c_err c) (c_done c) (c_log c) (c_tclosed c) (c_ack c) (c_conn c) v (c_disc c) (c_ka c) (c_ctx c).
Definition set_disc c v := mkClient (c_managed c) (c_state c) (c_err c) (c_done c) (c_log c) (c_tclosed c) (c_ack c) (c_conn c) (c_serve c) v (c_ka c) (c_ctx c).
Definition set_ka c v := mkClient (c_managed c) (c_state c) (c_err c) (c_done c) (c_log c) (c_tclosed c) (c_ack c) (c_conn c) (c_serve c) (c_disc c) v (c_ctx c).
Definition set_ctx c v := mkClient (c_managed c) (c_state c) (c_err c) (c_done c) (c_log c) (c_tclosed c) (c_ack c) (c_conn c) (c_serve c) (c_disc c) (c_ka c) v.

(* conn.go:25-31 *)
Definition set_err_once (c : client) (e : errc) : client :=
  match c_err c with
  | None => set_err c (Some e)
  | Some _ => c
  end.

(* conn.go:33-47: the state is not changed once Disconnected; the callback is invoked only
   when the state changed, with the new state and the error read under the same lock *)
Definition update (c : client) (ns : cstate) : client :=
  let last := c_state c in
  let st := if cstate_eqb last SDisconnected then last else ns in
  let c1 := set_state c st in
  if cstate_eqb last st then c1 else set_log c1 (c_log c ++ [(st, c_err c)]).

(* ---------- labels: one atomic step of one goroutine / of the environment ---------- *)
Inductive label :=
(* Connect (connect.go:107-164) *)
| LConnStart                  (* init, muConnecting.Lock, go serve-goroutine *)
| LConnWrite (ok : bool)      (* c.write(CONNECT): the transport accepts it or fails *)
| LConnSeeClosed              (* select: <-c.connClosed *)
| LConnSeeCtx                 (* select: <-ctx.Done() *)
| LConnSeeAck                 (* select: connAck := <-chConnAck *)
| LConnActive                 (* connStateUpdate(StateActive); return *)
(* the reader: serve() *)
| LPeerConnAck (code : N)     (* serve read a well-formed CONNACK and offered it to chConnAck (serve.go:57-66) *)
| LServeFail (e : errc)       (* serve() returns e: peer closed, malformed packet, read on closed transport, ack write failed *)
| LExitClose | LExitStore | LExitUpdate | LExitDone     (* connect.go:122, 124-129, 130, 131 *)
(* anybody calls BaseClient.Close() (conn.go:50-52) *)
| LLocalClose
(* Disconnect (disconnect.go:22-33) *)
| LDiscUpdate | LDiscWrite (ok : bool) | LDiscClose
| LXDiscUpdate                (* a FURTHER call of Disconnect (sequential or from another goroutine) performs its
                                 connStateUpdate(StateDisconnected); its write has no effect on this state and its
                                 Transport.Close is LLocalClose *)
(* keep-alive goroutine of this connection (reconnclient.go:109-133) and its context *)
| LKAStart | LKAFail (e : errc) | LKACheck | LKASet | LKAClose
| LCtxCancel.

(* three versions of reconnclient.go's keep-alive goroutine:
   VOld = before fix 525edac (stores any error, on c.Client(), the CURRENT client),
   VMid = 525edac, before fix 15562c2 (own client, only while the keep-alive context is alive),
   VCur = the current tree (additionally not after ReconnectClient.Disconnect was requested) *)
Inductive variant := VOld | VMid | VCur.

Definition conn_idle (c : client) : bool :=       (* muConnecting is not write-locked by Connect *)
  match c_conn c with CNotStarted | CReturned _ => true | _ => false end.
Definition disc_idle (c : client) : bool :=       (* muConnecting is not read-locked by Disconnect *)
  match c_disc c with DNotStarted | DReturned _ => true | _ => false end.

(* One step of client [c]; [dr] = ReconnectClient.Disconnect has been requested (c.disconnected
   is closed). None = the label is not enabled. For VOld the error of LKASet is stored by the
   system-level step (on the current client), not here. *)
Definition cstep (v : variant) (dr : bool) (c : client) (l : label) : option client :=
  match l with
  | LConnStart =>
      match c_conn c, c_serve c with
      | CNotStarted, SvNotStarted =>
          if disc_idle c then Some (set_serve (set_conn c CWriting) SvReading) else None
      | _, _ => None
      end
  | LConnWrite ok =>
      match c_conn c with
      | CWriting =>
          if ok then (if c_tclosed c then None else Some (set_conn c CWaiting))
          else Some (set_conn c (CReturned RWriteErr))
      | _ => None
      end
  | LConnSeeClosed =>
      match c_conn c with
      | CWaiting => if c_done c then Some (set_conn c (CReturned RClosedTransport)) else None
      | _ => None
      end
  | LConnSeeCtx =>
      match c_conn c with
      | CWaiting => Some (set_conn c (CReturned RCtx))
      | _ => None
      end
  | LConnSeeAck =>
      match c_conn c, c_ack c with
      | CWaiting, Some code =>
          let c1 := set_ack c None in
          if code =? 0 then Some (set_conn c1 CGotAck) else Some (set_conn c1 (CReturned (RRefused code)))
      | _, _ => None
      end
  | LConnActive =>
      match c_conn c with
      | CGotAck => Some (set_conn (update c SActive) (CReturned ROk))
      | _ => None
      end
  | LPeerConnAck code =>
      match c_serve c with
      | SvReading => Some (match c_ack c with None => set_ack c (Some code) | Some _ => c end)
      | _ => None
      end
  | LServeFail e =>
      match c_serve c with
      | SvReading =>
          match e with
          | ELocalClosed => if c_tclosed c then Some (set_serve c (SvReturned e)) else None
          | _ => Some (set_serve c (SvReturned e))
          end
      | _ => None
      end
  | LExitClose =>
      match c_serve c with
      | SvReturned e => Some (set_serve (set_tclosed c true) (SvClosedT e))
      | _ => None
      end
  | LExitStore =>
      match c_serve c with
      | SvClosedT e =>
          let c1 := if cstate_eqb (c_state c) SDisconnected then c else set_err_once c e in
          Some (set_serve c1 SvStored)
      | _ => None
      end
  | LExitUpdate =>
      match c_serve c with
      | SvStored => Some (set_serve (update c SClosed) SvUpdated)
      | _ => None
      end
  | LExitDone =>
      match c_serve c with
      | SvUpdated => Some (set_serve (set_done c true) SvFinished)
      | _ => None
      end
  | LLocalClose => Some (set_tclosed c true)
  | LDiscUpdate =>
      match c_disc c with
      | DNotStarted => if conn_idle c then Some (set_disc (update c SDisconnected) DWriting) else None
      | _ => None
      end
  | LXDiscUpdate =>
      (* by definition the first Disconnect to update the state is the thread c_disc *)
      match c_disc c with
      | DNotStarted => None
      | _ => if conn_idle c then Some (update c SDisconnected) else None
      end
  | LDiscWrite ok =>
      match c_disc c with
      | DWriting =>
          if ok then (if c_tclosed c then None else Some (set_disc c DClosing))
          else Some (set_disc c (DReturned false))
      | _ => None
      end
  | LDiscClose =>
      match c_disc c with
      | DClosing => Some (set_disc (set_tclosed c true) (DReturned true))
      | _ => None
      end
  | LKAStart =>
      match c_ka c, c_conn c with
      | KNotStarted, CReturned ROk => if c_managed c then Some (set_ka c KRunning) else None
      | _, _ => None
      end
  | LKAFail e =>
      (* keepalive.go:36-52: the context's error iff the context is cancelled, otherwise
         ErrPingTimeout or the error of Ping *)
      match c_ka c with
      | KRunning =>
          if Bool.eqb (errc_eqb e ECtxCanceled) (negb (c_ctx c)) then Some (set_ka c (KFailed e)) else None
      | _ => None
      end
  | LKACheck =>
      match c_ka c with
      | KFailed e =>
          let stop := match v with
                      | VOld => false
                      | VMid => negb (c_ctx c)
                      | VCur => negb (c_ctx c) || dr
                      end in
          Some (set_ka c (if stop then KReturned else KStoring e))
      | _ => None
      end
  | LKASet =>
      match c_ka c with
      | KStoring e =>
          match v with
          | VOld => Some (set_ka c KClosing)
          | _ => Some (set_ka (set_err_once c e) KClosing)
          end
      | _ => None
      end
  | LKAClose =>
      match c_ka c with
      | KClosing => Some (set_ka (set_tclosed c true) KReturned)
      | _ => None
      end
  | LCtxCancel => Some (set_ctx c false)
  end.

(* ---------- the system: the connections of one (reconnecting) client ---------- *)
Record sys := mkSys {
  cls : list client;          (* one BaseClient per dial, oldest first *)
  cur : nat;                  (* RetryClient.cli = the client of the latest SetClient *)
  disc_req : bool             (* c.disconnected is closed *)
}.

Inductive slabel :=
| On (k : nat) (l : label)    (* step of a goroutine of connection k *)
| SDial                       (* DialContext + SetClient: a fresh managed BaseClient becomes current *)
| SDiscRequest.               (* ReconnectClient.Disconnect: close(c.disconnected) *)

Fixpoint replace_nth {A} (k : nat) (x : A) (l : list A) : list A :=
  match l, k with
  | [], _ => []
  | _ :: r, O => x :: r
  | y :: r, S k' => y :: replace_nth k' x r
  end.

Definition init_sys (managed : bool) : sys := mkSys [fresh managed] 0 false.

Definition store_on (s : sys) (k : nat) (e : errc) : sys :=
  match nth_error (cls s) k with
  | Some c => mkSys (replace_nth k (set_err_once c e) (cls s)) (cur s) (disc_req s)
  | None => s
  end.

Definition step (v : variant) (s : sys) (sl : slabel) : sys :=
  match sl with
  | On k l =>
      match nth_error (cls s) k with
      | None => s
      | Some c =>
          match cstep v (disc_req s) c l with
          | None => s
          | Some c' =>
              let s' := mkSys (replace_nth k c' (cls s)) (cur s) (disc_req s) in
              match v, l, c_ka c with
              | VOld, LKASet, KStoring e => store_on s' (cur s') e     (* c.Client().SetErrorOnce(err) *)
              | _, _, _ => s'
              end
          end
      end
  | SDial => mkSys (cls s ++ [fresh true]) (length (cls s)) (disc_req s)
  | SDiscRequest => mkSys (cls s) (cur s) true
  end.

Definition run (v : variant) (s : sys) (sched : list slabel) : sys := fold_left (step v) sched s.

(* what the reader does with a CONNACK packet: connack.go:56-68 (Parse) then serve.go:57-66.
   hflag = low nibble of the fixed header, contents = the variable header. Any return code byte
   and any acknowledge-flags byte are accepted by the parser; session present = bit 0 of the flags
   byte (the other seven bits are ignored); ONLY return code 0 accepts (connect.go:155). *)
Definition connack_parse (hflag : N) (contents : list N) : errc + (bool * N) :=
  if negb (hflag =? 0) then inl EInvalidPacket
  else match contents with
       | [f; code] => inr (N.odd f, code)
       | _ => inl EInvalidLength
       end.

Definition connack_label (hflag : N) (contents : list N) : label :=
  match connack_parse hflag contents with
  | inl e => LServeFail e
  | inr (_, code) => LPeerConnAck code
  end.

(* was the label enabled? (used by the correspondence: every label the harness claims to have
   realised must be enabled in the model) *)
Definition enabled (v : variant) (s : sys) (sl : slabel) : bool :=
  match sl with
  | On k l =>
      match nth_error (cls s) k with
      | None => false
      | Some c => match cstep v (disc_req s) c l with Some _ => true | None => false end
      end
  | _ => true
  end.

Definition client_at (s : sys) (k : nat) : client := nth k (cls s) (fresh false).

(* ---------- observables and the vocabulary of the statements ---------- *)
Definition count_state (st : cstate) (log : list (cstate * option errc)) : nat :=
  length (filter (fun p => cstate_eqb (fst p) st) log).

Definition entries_of (st : cstate) (log : list (cstate * option errc)) : list (cstate * option errc) :=
  filter (fun p => cstate_eqb (fst p) st) log.

(* no cause that ends the connection has occurred: the transport was not closed on this side,
   serve() has not returned, and the keep-alive goroutine has not failed other than by being
   cancelled *)
Definition ka_quiet (c : client) : bool :=
  match c_ka c with
  | KNotStarted | KRunning | KReturned => true
  | KFailed e => errc_eqb e ECtxCanceled
  | KStoring _ | KClosing => false
  end.

Definition serve_alive (c : client) : bool :=
  match c_serve c with SvNotStarted | SvReading => true | _ => false end.

Definition healthy (c : client) : bool := negb (c_tclosed c) && serve_alive c && ka_quiet c.

(* label k l occurs in the schedule *)
Definition is_label (k : nat) (l : label -> bool) (sl : slabel) : bool :=
  match sl with On j x => Nat.eqb j k && l x | _ => false end.

Definition is_accept (l : label) : bool := match l with LPeerConnAck 0 => true | _ => false end.
Definition is_ka_start (l : label) : bool := match l with LKAStart => true | _ => false end.

Fixpoint all_enabled (v : variant) (s : sys) (sched : list slabel) : bool :=
  match sched with
  | [] => true
  | sl :: r => enabled v s sl && all_enabled v (step v s sl) r
  end.

(* building blocks of example schedules *)
Definition sched_connect (k : nat) : list slabel :=
  [On k LConnStart; On k (LConnWrite true); On k (LPeerConnAck 0); On k LConnSeeAck; On k LConnActive].
Definition sched_exit (k : nat) : list slabel :=
  [On k LExitClose; On k LExitStore; On k LExitUpdate; On k LExitDone].
