(* RetryInv_WireT.v — part 4: first transmissions happen in the order of the pending list. *)
From MQ Require Import Base RetryCore RetrySys CheckRetry RetryProps RetryInv_Wire RetryInv_WireBase.
Open Scope nat_scope.

Definition tx_of (p : pkt) : list nat :=
  match p with
  | PPublish m _ => [p_uid m]
  | PPubRel _ => []
  | PSubscribe u _ | PUnsubscribe u _ => if u =? 0 then [] else [u]
  end.

Lemma request_tx_snoc W k p r : request_tx (W ++ [(k, p, r)]) = request_tx W ++ tx_of p.
Proof.
  unfold request_tx. rewrite flat_map_app. cbn [flat_map]. rewrite app_nil_r. reflexivity.
Qed.

Lemma request_tx_In x W : In x (request_tx W) -> exists j p r, In (j, p, r) W /\ wire_uid p = x.
Proof.
  unfold request_tx. rewrite in_flat_map. intros ([[j p] r] & Hin & Hx).
  exists j, p, r. split; [exact Hin|].
  destruct p; cbn [wire_uid] in *.
  - destruct Hx as [<-|[]]. reflexivity.
  - destruct Hx.
  - destruct (uid =? 0); [destruct Hx|destruct Hx as [<-|[]]; reflexivity].
  - destruct (uid =? 0); [destruct Hx|destruct Hx as [<-|[]]; reflexivity].
Qed.

Record KT (w : world) (Pd Pt : list rentry) : Prop := {
  kt_inc : increasing_from 0 (first_occurrences [] (request_tx (w_wire w))) = true;
  kt_D : forall e, In e (Pd ++ Pt) -> is_raw e = false -> entry_uid e <> 0 ->
         forall x, In x (request_tx (w_wire w)) -> x < entry_uid e;
  kt_R : forall e, In e (Pd ++ Pt) -> is_raw e = true -> entry_uid e <> 0 ->
         In (entry_uid e) (request_tx (w_wire w));
  kt_pd : forall e, In e Pd -> entry_uid e <> 0 -> is_raw e = true
}.

Lemma KT_rearr w Pd Pt w' Pd' Pt' :
  KT w Pd Pt -> w_wire w' = w_wire w ->
  (forall e, In e (Pd' ++ Pt') -> entry_uid e <> 0 -> In e (Pd ++ Pt)) ->
  (forall e, In e Pd' -> entry_uid e <> 0 -> is_raw e = true) ->
  KT w' Pd' Pt'.
Proof. intros [] E H1 H2. split; rewrite ?E; auto. Qed.

Lemma tx_of_allowed S w P e p e' :
  KB S w P -> In e P -> allowed e p e' ->
  (tx_of p = [] /\ (is_raw e = false -> entry_uid e = 0)) \/ (tx_of p = [entry_uid e] /\ entry_uid e <> 0).
Proof.
  intros B He Al. inversion Al; subst; cbn [tx_of entry_uid is_raw].
  - right. split; [reflexivity|]. exact (proj2 (kb_sub _ _ _ B _ _ He eq_refl)).
  - right. split; [reflexivity|]. exact (proj2 (kb_sub _ _ _ B _ _ He eq_refl)).
  - right. split; [reflexivity|]. exact (proj2 (kb_sub _ _ _ B _ _ He eq_refl)).
  - left. split; [reflexivity|discriminate].
  - left. split; [reflexivity|discriminate].
  - destruct (u =? 0) eqn:E; [left|right]; (split; [reflexivity|]); [apply Nat.eqb_eq in E; auto|apply Nat.eqb_neq in E; auto].
  - destruct (u =? 0) eqn:E; [left|right]; (split; [reflexivity|]); [discriminate|apply Nat.eqb_neq in E; auto].
  - destruct (u =? 0) eqn:E; [left|right]; (split; [reflexivity|]); [apply Nat.eqb_eq in E; auto|apply Nat.eqb_neq in E; auto].
  - destruct (u =? 0) eqn:E; [left|right]; (split; [reflexivity|]); [discriminate|apply Nat.eqb_neq in E; auto].
Qed.

Lemma KT_send S w Pd e Pt p e' k w1 res :
  KB S w (Pd ++ e :: Pt) -> KT w Pd (e :: Pt) -> allowed e p e' ->
  w_wire w1 = w_wire w ++ [(k, p, res)] ->
  KT w1 Pd (e' :: Pt).
Proof.
  intros B [] Al EW.
  assert (He : In e (Pd ++ e :: Pt)) by (apply in_mid; left; reflexivity).
  destruct (allowed_uid _ _ _ Al) as [U1 U2]. pose proof (allowed_raw _ _ _ Al) as Rw.
  assert (Hin : forall x, In x (Pd ++ e' :: Pt) -> x = e' \/ (In x (Pd ++ e :: Pt) /\ In x (Pd ++ Pt))).
  { intros x Hx. apply in_mid in Hx as [->|Hx]; [left; reflexivity|right; split; [apply in_mid; right|]; exact Hx]. }
  assert (ER : request_tx (w_wire w1) = request_tx (w_wire w) ++ tx_of p)
    by (rewrite EW; apply request_tx_snoc).
  destruct (tx_of_allowed _ _ _ _ _ _ B He Al) as [[T Z]|[T N]]; rewrite T, ?app_nil_r in ER.
  - split; rewrite ?ER; auto.
    + intros x Hx Rx Nx. destruct (Hin x Hx) as [->|[H _]]; [congruence|auto].
    + intros x Hx Rx Nx. destruct (Hin x Hx) as [->|[H _]]; [|auto].
      rewrite U1 in *. destruct (is_raw e) eqn:Re; [auto|]. specialize (Z eq_refl). contradiction.
  - destruct (ord_mid _ _ _ (kb_inc _ _ _ B) N) as [O1 O2].
    split; rewrite ?ER; auto.
    + apply fo_inc_snoc; [exact kt_inc0|].
      destruct (is_raw e) eqn:Re; [left; auto|right]. split; [lia|]. intros y Hy. eapply kt_D0; eauto.
    + intros x Hx Rx Nx y Hy. destruct (Hin x Hx) as [->|[H H']]; [congruence|].
      apply in_app_or in Hy as [Hy|[<-|[]]]; [eapply kt_D0; eauto|].
      apply in_app_or in H' as [H'|H']; [|auto].
      specialize (kt_pd0 _ H' Nx). congruence.
    + intros x Hx Rx Nx. apply in_or_app. destruct (Hin x Hx) as [->|[H _]]; [|left; auto].
      right. rewrite U1. left; reflexivity.
Qed.

Lemma KT_submit S w P o :
  KB S w P -> KT w [] P -> (forall x, In x (uids S) -> x < uop_uid o) -> 0 < uop_uid o ->
  KT w [] (P ++ [op_entry o]).
Proof.
  intros B [] Hlt Hpos. cbn [List.app] in *. split; auto.
  - intros e He Re Ne x Hx. cbn [List.app] in He. apply in_app_or in He as [He|[<-|[]]]; [eauto|].
    rewrite op_entry_uid. apply request_tx_In in Hx as (j & p & r & Hin & <-).
    destruct (kb_wuid _ _ _ B _ _ _ Hin) as [Z|Z]; [lia|auto].
  - intros e He Re Ne. cbn [List.app] in He. apply in_app_or in He as [He|[<-|[]]]; [eauto|].
    destruct o; discriminate.
Qed.
