(* ParseMux.v — the handlers mqtt-go itself offers for BaseClient.Handle, as far as C06 needs them:
   a broker-chosen topic name reaches topicFilter.Match on the reader goroutine.
     topicFilter.Match   filter.go:49-66  (strings.Split(topic, "/"), then level by level)
     newTopicFilter      filter.go:28-47  (strings.Split(filter, "/"))
     ServeMux.Serve      servemux.go:48-54: every registered handler whose filter matches gets a clone
     ServeAsync.Serve    serveasync.go:25-27: the same deliveries, from new goroutines (order free)
   Indexing a level of the split topic is the only operation that could panic: [level] is explicit. *)
From MQ Require Import Base Codec Inbound.
Open Scope N_scope.

(* strings.Split(s, "/"): never empty; "" gives one empty level *)
Fixpoint split_aux (s cur : str) : list str :=
  match s with
  | [] => [rev cur]
  | c :: r => if c =? 47 then rev cur :: split_aux r [] else split_aux r (c :: cur)
  end.
Definition split_levels (s : str) : list str := split_aux s [].

Definition is_hash (t : str) : bool := str_eqb t [35].
Definition is_plus (t : str) : bool := str_eqb t [43].

(* ts[i] with the bounds test of filter.go:58 in front of it: [None] = the loop returned false *)
Fixpoint fmatch (f ts : list str) : bool :=
  match f with
  | [] => match ts with [] => true | _ => false end          (* return i == len(ts) *)
  | t :: fr =>
      if is_hash t then true
      else match ts with
           | [] => false                                       (* i >= len(ts) *)
           | x :: tr => if is_plus t || str_eqb t x then fmatch fr tr else false
           end
  end.

Definition filter_match (filter topic : str) : bool := fmatch (split_levels filter) (split_levels topic).

(* a handler: an application function (numbered) or a ServeMux of (filter, handler) routes *)
Inductive hnd :=
| HLeaf (k : nat)
| HMux (routes : list (str * hnd)).

Fixpoint deliver (fuel : nat) (h : hnd) (m : message) : list (nat * message) :=
  match fuel with
  | O => []
  | S f =>
      match h with
      | HLeaf k => [(k, m)]
      | HMux routes =>
          flat_map (fun r => if filter_match (fst r) (m_topic m) then deliver f (snd r) m else []) routes
      end
  end.

(* what the application functions receive for the hand-overs of the reader *)
Definition deliveries (h : hnd) (es : list in_event) : list (nat * message) :=
  flat_map (fun e => match e with Hand m => deliver 8 h m | _ => [] end) es.
