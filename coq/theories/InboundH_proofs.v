(* InboundH_proofs.v — replacing the handler does not disturb the inbound flows *)
From MQ Require Import Base Codec Inbound Inbound_proofs InboundH.
Open Scope N_scope.

Lemma serve_sb_snd h ps : forall sb, snd (serve_sb h sb ps) = serve_in h sb ps.
Proof.
  induction ps as [|p r IH]; intros sb; cbn [serve_sb serve_in]; [reflexivity|].
  destruct (serve_in_step h sb p) as [sb' ev]. specialize (IH sb').
  destruct (serve_sb h sb' r) as [sb'' ev']. cbn [snd] in *. now rewrite IH.
Qed.

Lemma serve_in_app h a : forall sb b,
  serve_in h sb (a ++ b) = serve_in h sb a ++ serve_in h (fst (serve_sb h sb a)) b.
Proof.
  induction a as [|p r IH]; intros sb b; cbn [app serve_in serve_sb fst]; [reflexivity|].
  destruct (serve_in_step h sb p) as [sb' ev]. rewrite IH.
  destruct (serve_sb h sb' r) as [sb'' ev']. cbn [fst]. now rewrite app_assoc.
Qed.

Lemma map_snd_tag h ev : map snd (map (tag_ev h) ev) = ev.
Proof. induction ev as [|e r IH]; cbn; [reflexivity|]. now rewrite IH. Qed.

(* with some handler registered throughout, WHAT the reader does (hand-overs and acknowledgements, in
   order) is what it does for the concatenated stream with one handler: every C04 theorem about
   [serve_in true] holds for histories that replace the handler any number of times *)
Theorem replacing_handler_is_invisible segs : forall sb,
  Forall (fun s => has_handler (fst s) = true) segs ->
  map snd (concat (serve_segs sb segs)) = serve_in true sb (flat_map snd segs).
Proof.
  induction segs as [|[h ps] r IH]; intros sb H; cbn [serve_segs concat flat_map map snd]; [reflexivity|].
  inversion H as [|x l Hh Hr]; subst. cbn [fst] in Hh. rewrite Hh.
  rewrite serve_in_app. pose proof (serve_sb_snd true ps sb) as E.
  destruct (serve_sb true sb ps) as [sb' ev]. cbn [snd fst concat] in *.
  rewrite map_app, map_snd_tag, IH by exact Hr. now rewrite E.
Qed.

(* every hand-over goes to the handler registered at the time of the hand-over — for a QoS 2 message
   that is the time of the PUBREL, not of the PUBLISH *)

Lemma no_hand_without_handler ps : forall sb m, ~ In (Hand m) (serve_in false sb ps).
Proof.
  induction ps as [|p r IH]; intros sb m; cbn [serve_in]; [tauto|].
  destruct (serve_in_step false sb p) as [sb' ev] eqn:E. intros Hin. apply in_app_or in Hin.
  destruct Hin as [Hin|Hin]; [|exact (IH _ _ Hin)].
  unfold serve_in_step, hand in E. destruct p as [x|id].
  - destruct (m_qos x =? 0); [inversion E; subst; exact Hin|].
    destruct (m_qos x =? 1); inversion E; subst; cbn in Hin; destruct Hin as [Hin|Hin]; try discriminate; tauto.
  - destruct (sb_get sb id); inversion E; subst; cbn in Hin; [destruct Hin as [Hin|Hin]; try discriminate|]; tauto.
Qed.

Theorem hand_over_goes_to_current_handler segs : forall sb k i m,
  In (i, Hand m) (nth k (serve_segs sb segs) []) ->
  exists ps, nth_error segs k = Some (Some i, ps).
Proof.
  induction segs as [|[h ps] r IH]; intros sb k i m Hin; cbn [serve_segs] in Hin.
  - destruct k; cbn in Hin; tauto.
  - pose proof (serve_sb_snd (has_handler h) ps sb) as E.
    destruct (serve_sb (has_handler h) sb ps) as [sb' ev]. cbn [snd] in E.
    destruct k as [|k]; cbn [nth nth_error] in *.
    + exists ps. f_equal. f_equal. apply in_map_iff in Hin. destruct Hin as (e & Ht & He).
      unfold tag_ev in Ht. destruct e; try discriminate. destruct h as [j|].
      * inversion Ht; reflexivity.
      * exfalso. inversion Ht; subst. cbn [has_handler] in He. exact (no_hand_without_handler _ _ _ He).
    + exact (IH sb' k i m Hin).
Qed.

(* a QoS 2 message stored while no handler is registered is released to the handler registered when its
   PUBREL arrives (the message is kept by the connection, not by a handler) *)
Theorem q2_stored_without_handler_released_to_later_handler m i :
  m_qos m = 2 ->
  serve_segs [] [(None, [InPublish m]); (Some i, [InPubRel (m_id m)])]
  = [[(0%nat, WPubRec (m_id m))]; [(i, Hand m); (0%nat, WPubComp (m_id m))]].
Proof.
  intros Hq. cbn [serve_segs serve_sb serve_in_step has_handler]. rewrite Hq. cbn [N.eqb Pos.eqb].
  unfold sb_set. cbn [sb_del sb_get]. rewrite N.eqb_refl. reflexivity.
Qed.

(* and symmetrically: a handler replaced between PUBLISH and PUBREL does not get the message *)
Theorem q2_released_to_replacing_handler m i j :
  m_qos m = 2 ->
  serve_segs [] [(Some i, [InPublish m]); (Some j, [InPubRel (m_id m)])]
  = [[(0%nat, WPubRec (m_id m))]; [(j, Hand m); (0%nat, WPubComp (m_id m))]].
Proof.
  intros Hq. cbn [serve_segs serve_sb serve_in_step has_handler]. rewrite Hq. cbn [N.eqb Pos.eqb].
  unfold sb_set. cbn [sb_del sb_get]. rewrite N.eqb_refl. reflexivity.
Qed.

(* the serve loop refines the abstract receiver on segmented histories too *)
Lemma sb_refines h ps : forall sb o, sb_rel sb o ->
  snd (serve_sb h sb ps) = snd (spec_sb h o ps) /\ sb_rel (fst (serve_sb h sb ps)) (fst (spec_sb h o ps)).
Proof.
  induction ps as [|p r IH]; intros sb o H; cbn [serve_sb spec_sb]; [split; [reflexivity|exact H]|].
  destruct (step_refines h sb o p H) as [He Hr].
  destruct (serve_in_step h sb p) as [sb' ev]. destruct (spec_step h o p) as [o' ev'].
  cbn [fst snd] in *. subst ev'. destruct (IH sb' o' Hr) as [He' Hr'].
  destruct (serve_sb h sb' r) as [sb'' e1]. destruct (spec_sb h o' r) as [o'' e2].
  cbn [fst snd] in *. subst e2. split; [reflexivity|exact Hr'].
Qed.

Theorem segs_refine_gen segs : forall sb o, sb_rel sb o -> serve_segs sb segs = spec_segs o segs.
Proof.
  induction segs as [|[h ps] r IH]; intros sb o H; cbn [serve_segs spec_segs]; [reflexivity|].
  destruct (sb_refines (has_handler h) ps sb o H) as [He Hr].
  destruct (serve_sb (has_handler h) sb ps) as [sb' ev]. destruct (spec_sb (has_handler h) o ps) as [o' ev'].
  cbn [fst snd] in *. subst ev'. f_equal. apply IH; exact Hr.
Qed.

Theorem segs_refine segs : serve_segs [] segs = spec_segs os_empty segs.
Proof. apply segs_refine_gen. intros id; reflexivity. Qed.
