(* Codec.v — model of the packet encoders: packet.go (pack, remainingLength, append...),
   connect.go / publish.go / subscribe.go / unsubscribe.go / pub*.go Pack, ValidateMessage.
   A Go panic ("remaining length overflow", "string length overflow", "invalid QoS") is [None]. *)
From MQ Require Import Base.
Open Scope N_scope.

(* ---------- Go integer conversions used by the encoder ---------- *)
Definition go_byte (n : N) : N := n mod 256.                 (* byte(n) *)

(* remainingLength (packet.go:92-116), with the shifts and masks of the source *)
Definition remaining_length_go (n : N) : option (list N) :=
  if n <=? 127 then Some [go_byte n]
  else if n <=? 16383 then
    Some [N.lor (go_byte n) 128; N.land (go_byte (N.shiftr n 7)) 127]
  else if n <=? 2097151 then
    Some [N.lor (go_byte n) 128; N.lor (go_byte (N.shiftr n 7)) 128; N.land (go_byte (N.shiftr n 14)) 127]
  else if n <=? 268435455 then
    Some [N.lor (go_byte n) 128; N.lor (go_byte (N.shiftr n 7)) 128;
          N.lor (go_byte (N.shiftr n 14)) 128; N.land (go_byte (N.shiftr n 21)) 127]
  else None.

(* the same function in arithmetic form (proved equal in Codec_proofs.v) *)
Definition remaining_length (n : N) : option (list N) :=
  if n <=? 127 then Some [n]
  else if n <=? 16383 then Some [n mod 128 + 128; (n / 128) mod 128]
  else if n <=? 2097151 then Some [n mod 128 + 128; (n / 128) mod 128 + 128; (n / 16384) mod 128]
  else if n <=? 268435455 then
    Some [n mod 128 + 128; (n / 128) mod 128 + 128; (n / 16384) mod 128 + 128; (n / 2097152) mod 128]
  else None.

Definition len (s : list N) : N := N.of_nat (length s).

(* pack (packet.go:79-90) on the already concatenated contents *)
Definition pack (typ : N) (body : list N) : option (list N) :=
  match remaining_length_go (len body) with
  | Some rl => Some (typ :: rl ++ body)
  | None => None
  end.

Definition uint16_bytes (v : N) : list N := [go_byte (N.shiftr v 8); go_byte v].   (* appendUint16 *)

(* appendBytes / appendString: panics above 0xFFFF *)
Definition pack_bytes (s : str) : option (list N) :=
  if len s <=? 65535 then Some (uint16_bytes (len s) ++ s) else None.

Definition bind {A B} (o : option A) (f : A -> option B) : option B :=
  match o with Some a => f a | None => None end.
Notation "x <- e ;; k" := (bind e (fun x => k)) (at level 61, e at next level, right associativity).

(* ---------- CONNECT ---------- *)
Record will := { w_topic : str; w_payload : str; w_qos : N; w_retain : bool }.
Record connect := {
  c_level : N; c_clean : bool; c_keepalive : N; c_client_id : str;
  c_user : str; c_pass : str; c_will : option will }.

Definition b2n (b : bool) (v : N) : N := if b then v else 0.
Definition nonempty (s : str) : bool := match s with [] => false | _ => true end.

(* the flag byte is built with |= of pairwise disjoint bits: the sum is the same number *)
Definition connect_flags (c : connect) : N :=
  b2n (c_clean c) 2
  + match c_will c with
    | None => 0
    | Some w => 4 + (if w_qos w =? 1 then 8 else if w_qos w =? 2 then 16 else 0) + b2n (w_retain w) 32
    end
  + b2n (nonempty (c_user c)) 128
  + b2n (nonempty (c_pass c)) 64.

Definition pack_connect (c : connect) : option (list N) :=
  cid <- pack_bytes (c_client_id c) ;;
  wl <- match c_will c with
        | None => Some []
        | Some w => t <- pack_bytes (w_topic w) ;; p <- pack_bytes (w_payload w) ;; Some (t ++ p)
        end ;;
  us <- (if nonempty (c_user c) then pack_bytes (c_user c) else Some []) ;;
  pw <- (if nonempty (c_pass c) then pack_bytes (c_pass c) else Some []) ;;
  pack 16 ([0; 4; 77; 81; 84; 84; go_byte (c_level c); connect_flags c]
           ++ uint16_bytes (c_keepalive c) ++ cid ++ wl ++ us ++ pw).

(* ---------- PUBLISH ---------- *)
Record message := { m_topic : str; m_id : N; m_qos : N; m_retain : bool; m_dup : bool; m_payload : str }.

Definition publish_header_byte (m : message) : option N :=
  if m_qos m <=? 2 then Some (48 + b2n (m_retain m) 1 + 2 * m_qos m + b2n (m_dup m) 8) else None.

Definition pack_publish (m : message) : option (list N) :=
  h <- publish_header_byte m ;;
  t <- pack_bytes (m_topic m) ;;
  pack h (t ++ (if m_qos m =? 0 then [] else uint16_bytes (m_id m)) ++ m_payload m).

(* ValidateMessage (publish.go:112-120): 0 = ok, 1 = ErrPayloadLenExceeded, 2 = ErrInvalidQoS *)
Definition validate_message (max_payload : N) (m : message) : N :=
  if negb (max_payload =? 0) && (max_payload <=? len (m_payload m)) then 1
  else if 2 <? m_qos m then 2 else 0.

(* ---------- SUBSCRIBE / UNSUBSCRIBE ---------- *)
Fixpoint sub_payload (subs : list (str * N)) : option (list N) :=
  match subs with
  | [] => Some []
  | (t, q) :: r =>
      tb <- pack_bytes t ;;
      (if q <=? 2 then
         rest <- sub_payload r ;; Some (tb ++ q :: rest)
       else None)
  end.

Definition pack_subscribe (id : N) (subs : list (str * N)) : option (list N) :=
  p <- sub_payload subs ;; pack 130 (uint16_bytes id ++ p).

Fixpoint unsub_payload (topics : list str) : option (list N) :=
  match topics with
  | [] => Some []
  | t :: r => tb <- pack_bytes t ;; rest <- unsub_payload r ;; Some (tb ++ rest)
  end.

Definition pack_unsubscribe (id : N) (topics : list str) : option (list N) :=
  p <- unsub_payload topics ;; pack 162 (uint16_bytes id ++ p).

(* ---------- the two-byte-id packets and the empty ones ---------- *)
Definition pack_puback (id : N) := pack 64 (uint16_bytes id).
Definition pack_pubrec (id : N) := pack 80 (uint16_bytes id).
Definition pack_pubrel (id : N) := pack 98 (uint16_bytes id).
Definition pack_pubcomp (id : N) := pack 112 (uint16_bytes id).
Definition pack_pingreq := pack 192 [].
Definition pack_disconnect := pack 224 [].
