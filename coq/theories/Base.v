(* Base.v — shared vocabulary of the mqtt-go models.
   Bytes are N (< 256 where it matters), Go strings and []byte are lists of bytes. *)
From Coq Require Export List NArith ZArith Bool Lia.
From Coq Require Export ZifyN ZifyNat ZifyBool.
Export ListNotations.

Ltac Zify.zify_post_hook ::= Z.div_mod_to_equations.

Definition byte := N.
Definition str := list N.

Definition is_byte (b : N) : bool := N.ltb b 256.
Definition bytes_ok (s : str) : bool := forallb is_byte s.

(* ---------- decidable equality on byte strings ---------- *)
Fixpoint str_eqb (a b : str) : bool :=
  match a, b with
  | [], [] => true
  | x :: a', y :: b' => N.eqb x y && str_eqb a' b'
  | _, _ => false
  end.

Lemma str_eqb_eq a b : str_eqb a b = true <-> a = b.
Proof.
  revert b; induction a as [|x a IH]; intros [|y b]; cbn [str_eqb]; split; intros H;
    try reflexivity; try discriminate.
  - apply andb_true_iff in H as [H1 H2]. apply N.eqb_eq in H1. apply IH in H2. congruence.
  - injection H as -> ->. rewrite N.eqb_refl. apply IH. reflexivity.
Qed.

Lemma str_eqb_refl a : str_eqb a a = true.
Proof. apply str_eqb_eq; reflexivity. Qed.

Lemma str_eqb_neq a b : str_eqb a b = false <-> a <> b.
Proof.
  split; intros H.
  - intros ->. rewrite str_eqb_refl in H. discriminate.
  - destruct (str_eqb a b) eqn:E; [apply str_eqb_eq in E; contradiction | reflexivity].
Qed.

Definition str_eq_dec (a b : str) : {a = b} + {a <> b}.
Proof. destruct (str_eqb a b) eqn:E; [left; apply str_eqb_eq; exact E | right; apply str_eqb_neq; exact E]. Defined.

(* ---------- generic list equality by a boolean test ---------- *)
Fixpoint list_eqb {A} (eqb : A -> A -> bool) (a b : list A) : bool :=
  match a, b with
  | [], [] => true
  | x :: a', y :: b' => eqb x y && list_eqb eqb a' b'
  | _, _ => false
  end.

Lemma list_eqb_eq {A} (eqb : A -> A -> bool) :
  (forall x y, eqb x y = true <-> x = y) ->
  forall a b, list_eqb eqb a b = true <-> a = b.
Proof.
  intros Heq a; induction a as [|x a IH]; intros [|y b]; cbn [list_eqb]; split; intros H;
    try reflexivity; try discriminate.
  - apply andb_true_iff in H as [H1 H2]. apply Heq in H1. apply IH in H2. congruence.
  - injection H as -> ->. apply andb_true_iff; split; [apply Heq; reflexivity | apply IH; reflexivity].
Qed.

Definition option_eqb {A} (eqb : A -> A -> bool) (a b : option A) : bool :=
  match a, b with
  | None, None => true
  | Some x, Some y => eqb x y
  | _, _ => false
  end.

(* ---------- indices of the cases on which a boolean test holds ---------- *)
Fixpoint indices_where_from {A} (k : nat) (p : A -> bool) (l : list A) : list nat :=
  match l with
  | [] => []
  | x :: r => if p x then k :: indices_where_from (S k) p r else indices_where_from (S k) p r
  end.
Definition indices_where {A} (p : A -> bool) (l : list A) : list nat := indices_where_from 0 p l.

(* ---------- outcome of a Go function that may panic ---------- *)
Inductive outcome (A E : Type) : Type :=
| Ok (a : A)
| Err (e : E)
| Panic.
Arguments Ok {A E} a.
Arguments Err {A E} e.
Arguments Panic {A E}.

(* ---------- small list facts used in several proof files ---------- *)
Lemma forallb_app_iff {A} (p : A -> bool) a b :
  forallb p (a ++ b) = true <-> forallb p a = true /\ forallb p b = true.
Proof. rewrite forallb_app, andb_true_iff. tauto. Qed.

Fixpoint count_occ_b {A} (eqb : A -> A -> bool) (x : A) (l : list A) : nat :=
  match l with
  | [] => 0
  | y :: r => (if eqb x y then 1 else 0) + count_occ_b eqb x r
  end.
