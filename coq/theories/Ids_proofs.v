(* Ids_proofs.v — proofs about the identifier model Ids.v (property C15). *)
From MQ Require Import Base Ids.
Open Scope N_scope.

(* ================= arithmetic of the counter ================= *)

(* 2^32 is a multiple of 2^16: the 32-bit wrap does not touch the low half *)
Lemma lo_mod32 x : (x mod M32) mod M16 = x mod M16.
Proof. unfold M32, M16. lia. Qed.

Lemma lo_add1 c : add1 c mod M16 = (c mod M16 + 1) mod M16.
Proof. unfold add1. rewrite lo_mod32. unfold M16. lia. Qed.

Lemma add1_lt c : add1 c < M32.
Proof. unfold add1, M32. lia. Qed.

Lemma issued_range s n : 1 <= issued s n <= P16.
Proof. unfold issued, P16, M16. lia. Qed.

(* two identifiers fewer than 65,535 choices apart differ (arithmetic, no enumeration) *)
Lemma issued_inj_window s i j : i < j -> j - i < P16 -> issued s i <> issued s j.
Proof. unfold issued, P16, M16. intros H1 H2. lia. Qed.

(* ... and exactly 65,535 choices later the same identifier comes back *)
Lemma issued_period s n : issued s (n + P16) = issued s n.
Proof. unfold issued, P16, M16. lia. Qed.

Definition nxt (a : N) : N := if a =? P16 then 1 else a + 1.

Lemma issued_succ s n : issued s (n + 1) = nxt (issued s n).
Proof. unfold nxt, issued, P16, M16. destruct (_ =? _) eqn:E; lia. Qed.

Lemma issued_first s : issued s 0 = nxt (s mod M16).
Proof. unfold nxt, issued, P16, M16. destruct (_ =? _) eqn:E; lia. Qed.

(* the start value matters only through its low half *)
Lemma issued_low_half s n : issued s n = issued (s mod M16) n.
Proof. unfold issued, P16, M16. lia. Qed.

(* an increment that lands on a zero low half is invisible in the sequence *)
Lemma tick_zero c n : add1 c mod M16 = 0 -> issued (add1 c) n = issued c n.
Proof. rewrite lo_add1. unfold issued. rewrite lo_add1. unfold P16, M16. intros H. lia. Qed.

(* any other increment yields the next identifier *)
Lemma tick_nonzero c : add1 c mod M16 <> 0 ->
  add1 c mod M16 = issued c 0 /\ forall n, issued (add1 c) n = issued c (n + 1).
Proof.
  rewrite lo_add1. unfold issued. rewrite lo_add1. unfold P16, M16. intros H.
  split; [|intros n]; lia.
Qed.

Lemma tick_after_zero c : add1 c mod M16 = 0 -> add1 (add1 c) mod M16 <> 0.
Proof. rewrite (lo_add1 (add1 c)). unfold M16. intros H. lia. Qed.

Lemma idx_of_issued s n : n < P16 -> idx_of s (issued s n) = n.
Proof. unfold idx_of, issued, P16, M16. intros H. lia. Qed.

Lemma issued_idx_of s x : 1 <= x <= P16 -> issued s (idx_of s x) = x /\ idx_of s x < P16.
Proof. unfold idx_of, issued, P16, M16. intros H. lia. Qed.

(* ================= newID, sequentially ================= *)

(* the recursion of uniqid.go:31-37 ends after at most one retry, for every counter value: fuel 2
   is enough and more fuel changes nothing *)
Lemma new_id_fuel_enough fuel last : (2 <= fuel)%nat -> new_id_fuel fuel last = Some (new_id last).
Proof.
  intros Hf. destruct fuel as [|[|f]]; [lia|lia|]. clear Hf.
  cbn [new_id_fuel]. unfold new_id.
  destruct (add1 last mod M16 =? 0) eqn:E; [|reflexivity].
  apply N.eqb_eq in E. apply tick_after_zero in E. apply N.eqb_neq in E.
  destruct f as [|f]; cbn [new_id_fuel]; rewrite E; reflexivity.
Qed.

(* one unit of fuel is not enough exactly when the first increment lands on a zero low half *)
Lemma new_id_fuel_one last : new_id_fuel 1 last = None <-> add1 last mod M16 = 0.
Proof.
  cbn [new_id_fuel]. destruct (add1 last mod M16 =? 0) eqn:E.
  - apply N.eqb_eq in E. tauto.
  - apply N.eqb_neq in E. split; [discriminate | tauto].
Qed.

Lemma new_id_spec c : forall c' id, new_id c = (c', id) ->
  id = issued c 0 /\ (forall n, issued c' n = issued c (n + 1)) /\ c' < M32 /\ c' mod M16 = id.
Proof.
  intros c' id. unfold new_id. destruct (add1 c mod M16 =? 0) eqn:E; intros H; injection H as <- <-.
  - apply N.eqb_eq in E. pose proof (tick_after_zero c E) as E2.
    destruct (tick_nonzero (add1 c) E2) as [H1 H2].
    split; [rewrite H1; apply tick_zero; exact E|].
    split; [intros n; rewrite H2; apply tick_zero; exact E|].
    split; [apply add1_lt | reflexivity].
  - apply N.eqb_neq in E. destruct (tick_nonzero c E) as [H1 H2].
    split; [exact H1|]. split; [exact H2|]. split; [apply add1_lt | reflexivity].
Qed.

(* ================= runs produce the canonical sequence ================= *)

Lemma issued_list_shift c c' : (forall n, issued c' n = issued c (n + 1)) ->
  forall m n0, issued_list c' n0 m = issued_list c (n0 + 1) m.
Proof.
  intros H m; induction m as [|m IH]; intros n0; cbn [issued_list]; [reflexivity|].
  rewrite H, IH. reflexivity.
Qed.

Lemma issued_list_same c c' : (forall n, issued c' n = issued c n) ->
  forall m n0, issued_list c' n0 m = issued_list c n0 m.
Proof.
  intros H m; induction m as [|m IH]; intros n0; cbn [issued_list]; [reflexivity|].
  rewrite H, IH. reflexivity.
Qed.

(* the identifiers chosen by the library, in order, are issued s 0, issued s 1, ... *)
Definition canonical (s : N) (l : list obs) : Prop :=
  auto_ids l = issued_list s 0 (length (auto_ids l)).

Lemma run_seq_canonical c h : canonical c (run_seq c h).
Proof.
  unfold canonical. revert c; induction h as [|e h IH]; intros c; [reflexivity|].
  destruct e as [r|j|q i]; cbn [run_seq].
  - unfold issue1. destruct (is_auto r) eqn:Ea.
    + destruct (new_id c) as [c' id] eqn:En. cbn [auto_ids]. rewrite Ea. cbn [length issued_list].
      destruct (new_id_spec c c' id En) as (H1 & H2 & _ & _).
      rewrite IH at 1. rewrite (issued_list_shift c c' H2). rewrite H1. reflexivity.
    + cbn [auto_ids]. rewrite Ea. apply IH.
  - cbn [auto_ids]. apply IH.
  - apply IH.
Qed.

Lemma run_conc_canonical c progs sched : canonical c (run_conc c progs sched).
Proof.
  unfold canonical. revert c progs; induction sched as [|e sched IH]; intros c progs; [reflexivity|].
  destruct e as [k|j|q i]; cbn [run_conc]; [|cbn [auto_ids]; apply IH|apply IH].
  unfold step_caller. destruct (nth_error progs k) as [[|r rest]|]; [apply IH| |apply IH].
  destruct (is_auto r) eqn:Ea.
  - destruct (add1 c mod M16 =? 0) eqn:E.
    + apply N.eqb_eq in E. rewrite IH at 1.
      apply issued_list_same. intros n. apply tick_zero. exact E.
    + apply N.eqb_neq in E. destruct (tick_nonzero c E) as [H1 H2].
      cbn [auto_ids]. rewrite Ea. cbn [length issued_list].
      rewrite IH at 1. rewrite (issued_list_shift c (add1 c) H2). rewrite H1. reflexivity.
  - cbn [auto_ids]. rewrite Ea. apply IH.
Qed.

(* the increments being atomic, WHO performs them does not matter: any two executions — any number
   of callers, any programs, any schedules — that choose the same number of identifiers choose the
   same identifiers in the same (linearisation) order *)
Lemma schedule_independent s progs1 sched1 progs2 sched2 :
  length (auto_ids (run_conc s progs1 sched1)) = length (auto_ids (run_conc s progs2 sched2)) ->
  auto_ids (run_conc s progs1 sched1) = auto_ids (run_conc s progs2 sched2).
Proof.
  intros H. rewrite (run_conc_canonical s progs1 sched1), (run_conc_canonical s progs2 sched2), H.
  reflexivity.
Qed.

(* ... and they are the identifiers a single sequential caller gets *)
Lemma conc_agrees_with_seq s progs sched h :
  length (auto_ids (run_conc s progs sched)) = length (auto_ids (run_seq s h)) ->
  auto_ids (run_conc s progs sched) = auto_ids (run_seq s h).
Proof.
  intros H. rewrite (run_conc_canonical s progs sched), (run_seq_canonical s h), H. reflexivity.
Qed.

Lemma final_counter_lt c h : c < M32 -> final_counter c h < M32.
Proof.
  revert c; induction h as [|e h IH]; intros c Hc; [exact Hc|].
  destruct e as [r|j|q i]; cbn [final_counter]; [|apply IH; exact Hc|apply IH; exact Hc].
  apply IH. unfold issue1. destruct (is_auto r); [|exact Hc].
  destruct (new_id c) as [c' id] eqn:En. destruct (new_id_spec c c' id En) as (_ & _ & H & _). exact H.
Qed.

(* ================= properties of every canonical history ================= *)

Lemma nonzero_ok_auto_ids l :
  nonzero_ok l = forallb (fun id => (0 <? id) && (id <? M16)) (auto_ids l).
Proof.
  unfold nonzero_ok. induction l as [|o l IH]; [reflexivity|].
  destruct o as [k r id|j]; cbn [forallb auto_ids]; [|exact IH].
  destruct (is_auto r); cbn [forallb]; rewrite IH; reflexivity.
Qed.

Lemma issued_list_forall (P : N -> bool) s : (forall n, P (issued s n) = true) ->
  forall m n0, forallb P (issued_list s n0 m) = true.
Proof.
  intros H m; induction m as [|m IH]; intros n0; cbn [issued_list forallb]; [reflexivity|].
  rewrite H, IH. reflexivity.
Qed.

Lemma canonical_nonzero s l : canonical s l -> nonzero_ok l = true.
Proof.
  intros H. rewrite nonzero_ok_auto_ids, H. apply issued_list_forall.
  intros n. pose proof (issued_range s n). unfold P16, M16 in *. lia.
Qed.

Lemma In_issued_list s x m : forall n0, In x (issued_list s n0 m) ->
  exists i, n0 <= i /\ i < n0 + N.of_nat m /\ x = issued s i.
Proof.
  induction m as [|m IH]; intros n0 H; cbn [issued_list] in H; [contradiction|].
  destruct H as [H|H].
  - exists n0. split; [lia|]. split; [lia | symmetry; exact H].
  - destruct (IH _ H) as (i & H1 & H2 & H3). exists i. split; [lia|]. split; [lia | exact H3].
Qed.

(* up to 65,535 identifiers chosen back to back are pairwise different *)
Lemma issued_list_NoDup s m : N.of_nat m <= P16 -> forall n0, NoDup (issued_list s n0 m).
Proof.
  induction m as [|m IH]; intros Hm n0; cbn [issued_list]; constructor.
  - intros H. apply In_issued_list in H as (i & H1 & H2 & H3).
    apply (issued_inj_window s n0 i); [lia | lia | exact H3].
  - apply IH. lia.
Qed.

(* the invariant behind [young_ok]: outstanding entries carry the identifier of their position *)
Lemma scan_young s : forall l tot na outs,
  auto_ids l = issued_list s na (length (auto_ids l)) ->
  (forall e, In e outs -> e_id e = issued s (e_idx e) /\ e_idx e < na) ->
  scan chk_young tot na outs l = true.
Proof.
  induction l as [|o l IH]; intros tot na outs Hc Hinv; [reflexivity|].
  destruct o as [k r id|j]; cbn [scan].
  - cbn [auto_ids] in Hc. destruct (is_auto r) eqn:Ea.
    + cbn [length issued_list] in Hc. injection Hc as Hid Hc.
      destruct (tracked r).
      * apply andb_true_iff. split.
        -- unfold chk_young. apply negb_true_iff. apply not_true_iff_false. intros Hex.
           apply existsb_exists in Hex as (e & He & Hb).
           apply andb_true_iff in Hb as [Hb1 Hb2].
           apply N.eqb_eq in Hb1. apply N.ltb_lt in Hb2.
           destruct (Hinv e He) as [Hi1 Hi2].
           apply (issued_inj_window s (e_idx e) na Hi2 Hb2). congruence.
        -- apply IH; [exact Hc|]. intros e [<-|He].
           ++ unfold e_id, e_idx. cbn [fst snd]. split; [exact Hid | lia].
           ++ destruct (Hinv e He). split; [assumption | lia].
      * apply IH; [exact Hc|]. intros e He. destruct (Hinv e He). split; [assumption | lia].
    + apply IH; assumption.
  - cbn [auto_ids] in Hc. apply IH; [exact Hc|].
    intros e He. apply filter_In in He as [He _]. apply Hinv. exact He.
Qed.

Lemma canonical_young s l : canonical s l -> young_ok l = true.
Proof. intros H. apply (scan_young s); [exact H | intros e []]. Qed.

(* pointwise combination of scans *)
Lemma scan_imp (c1 c2 c3 : N -> N -> list entry -> bool) :
  (forall id na outs, c1 id na outs = true -> c2 id na outs = true -> c3 id na outs = true) ->
  forall l tot na outs, scan c1 tot na outs l = true -> scan c2 tot na outs l = true ->
                        scan c3 tot na outs l = true.
Proof.
  intros Himp. induction l as [|o l IH]; intros tot na outs H1 H2; [reflexivity|].
  destruct o as [k r id|j]; cbn [scan] in *.
  - destruct (is_auto r); [|apply IH; assumption].
    destruct (tracked r); [|apply IH; assumption].
    apply andb_true_iff in H1 as [H1a H1b]. apply andb_true_iff in H2 as [H2a H2b].
    apply andb_true_iff. split; [apply Himp; assumption | apply IH; assumption].
  - apply IH; assumption.
Qed.

Lemma window_young_strict id na outs :
  chk_window id na outs = true -> chk_young id na outs = true -> chk_strict id na outs = true.
Proof.
  unfold chk_window, chk_young, chk_strict. intros Hw Hy.
  apply negb_true_iff. apply not_true_iff_false. intros Hex.
  apply existsb_exists in Hex as (e & He & Hb).
  apply negb_true_iff in Hy. apply not_true_iff_false in Hy. apply Hy.
  apply existsb_exists. exists e. split; [exact He|].
  rewrite Hb. rewrite forallb_forall in Hw. rewrite (Hw e He). reflexivity.
Qed.

Lemma window_strict l : window_ok l = true -> young_ok l = true -> strict_ok l = true.
Proof. unfold window_ok, young_ok, strict_ok. apply scan_imp. exact window_young_strict. Qed.

(* the identifiers follow each other by +1, and 1 follows 65535 *)
Fixpoint chain_from (a : N) (l : list N) : Prop :=
  match l with
  | [] => True
  | x :: r => x = nxt a /\ chain_from x r
  end.

Lemma issued_list_chain s m : forall n0 a, issued s n0 = nxt a -> chain_from a (issued_list s n0 m).
Proof.
  induction m as [|m IH]; intros n0 a H; cbn [issued_list chain_from]; [exact I|].
  split; [exact H|]. apply IH. apply issued_succ.
Qed.

Lemma canonical_chain s l : canonical s l -> chain_from (s mod M16) (auto_ids l).
Proof. intros H. rewrite H. apply issued_list_chain. apply issued_first. Qed.

(* caller-provided identifiers *)
Lemma run_seq_given_kept c h : given_kept (run_seq c h) = true.
Proof.
  unfold given_kept. revert c; induction h as [|e h IH]; intros c; [reflexivity|].
  destruct e as [r|j|q i]; cbn [run_seq]; [|cbn [forallb]; apply IH|apply IH].
  unfold issue1. destruct (is_auto r) eqn:Ea.
  - destruct (new_id c) as [c' id]. cbn [forallb]. rewrite Ea, IH. reflexivity.
  - cbn [forallb]. rewrite Ea, N.eqb_refl, IH. reflexivity.
Qed.

Lemma run_conc_given_kept c progs sched : given_kept (run_conc c progs sched) = true.
Proof.
  unfold given_kept. revert c progs; induction sched as [|e sched IH]; intros c progs; [reflexivity|].
  destruct e as [k|j|q i]; cbn [run_conc]; [|cbn [forallb]; apply IH|apply IH].
  unfold step_caller. destruct (nth_error progs k) as [[|r rest]|]; [apply IH| |apply IH].
  destruct (is_auto r) eqn:Ea.
  - destruct (add1 c mod M16 =? 0); [apply IH|]. cbn [forallb]. rewrite Ea, IH. reflexivity.
  - cbn [forallb]. rewrite Ea, N.eqb_refl, IH. reflexivity.
Qed.

Definition not_given (e : hev) : bool := match e with HReq r => is_auto r | _ => true end.

(* requests that carry their own identifier do not move the counter: the identifiers chosen for
   the other requests are the same with or without them *)
Lemma run_seq_given_transparent c h :
  auto_ids (run_seq c h) = auto_ids (run_seq c (filter not_given h)) /\
  final_counter c h = final_counter c (filter not_given h).
Proof.
  revert c; induction h as [|e h IH]; intros c; [split; reflexivity|].
  destruct e as [r|j|q i]; cbn [filter not_given].
  - destruct (is_auto r) eqn:Ea; cbn [run_seq final_counter]; unfold issue1; rewrite Ea.
    + destruct (new_id c) as [c' id]. cbn [auto_ids fst]. rewrite Ea.
      destruct (IH c') as [H1 H2]. rewrite H1, H2. split; reflexivity.
    + cbn [auto_ids fst]. rewrite Ea. apply IH.
  - cbn [run_seq final_counter auto_ids]. apply IH.
  - cbn [run_seq final_counter]. apply IH.
Qed.

(* ================= the strict reading fails: finding F13 ================= *)

(* one request that is never acknowledged followed by 65,535 requests acknowledged at once:
   never more than two outstanding, yet the last one gets the identifier of the first *)
Lemma f13_witness :
  atmost_ok 2 (run_seq 100 (f13_history P16)) = true /\
  strict_ok (run_seq 100 (f13_history P16)) = false.
Proof. split; vm_compute; reflexivity. Qed.

(* the same across the 32-bit wrap *)
Lemma f13_witness_wrap32 :
  atmost_ok 2 (run_seq (M32 - 7) (f13_history P16)) = true /\
  strict_ok (run_seq (M32 - 7) (f13_history P16)) = false.
Proof. split; vm_compute; reflexivity. Qed.

(* one request fewer and nothing is shared (the bound of the window theorem is tight) *)
Lemma f13_one_less : strict_ok (run_seq 100 (f13_history (P16 - 1))) = true.
Proof. vm_compute; reflexivity. Qed.

(* ================= non-vacuity / boundary examples ================= *)

Example ex_wrap16 : auto_ids (run_seq 65533 [HReq RSub; HReq (RPub 1 0); HReq RUnsub; HReq (RPub 2 0)])
                    = [65534; 65535; 1; 2].
Proof. vm_compute; reflexivity. Qed.

Example ex_wrap32 : auto_ids (run_seq (M32 - 3) [HReq RSub; HReq (RPub 1 0); HReq RUnsub; HReq (RPub 0 0)])
                    = [65534; 65535; 1; 2]
                    /\ final_counter (M32 - 3) [HReq RSub; HReq (RPub 1 0); HReq RUnsub; HReq (RPub 0 0)] = 2.
Proof. split; vm_compute; reflexivity. Qed.

(* fuel 1 would not do at the wrap, fuel 2 does: the retry really happens *)
Example ex_retry : new_id_fuel 1 65535 = None /\ new_id_fuel 2 65535 = Some (65537, 1)
                   /\ new_id_fuel 1 (M32 - 1) = None /\ new_id_fuel 2 (M32 - 1) = Some (1, 1).
Proof. repeat split; vm_compute; reflexivity. Qed.

(* three callers across the wrap; caller 1 hits the zero low half and is overtaken by caller 2
   before it retries *)
Example ex_conc :
  run_conc 65533 [[RSub; RSub]; [RPub 1 0]; [RUnsub; RPub 2 777]]
           [LStep 0; LStep 0; LStep 1; LStep 2; LStep 1; LStep 2; LAck 0]
  = [OIssue 0 RSub 65534; OIssue 0 RSub 65535; OIssue 2 RUnsub 1; OIssue 1 (RPub 1 0) 2;
     OIssue 2 (RPub 2 777) 777; OAck 0].
Proof. vm_compute; reflexivity. Qed.

(* a history that satisfies the hypothesis of the window theorem with several requests
   outstanding across the wrap *)
Example ex_window :
  window_ok (run_seq 65534 [HReq RSub; HReq (RPub 2 0); HReq RUnsub; HAck 1; HReq (RPub 1 0)]) = true
  /\ strict_ok (run_seq 65534 [HReq RSub; HReq (RPub 2 0); HReq RUnsub; HAck 1; HReq (RPub 1 0)]) = true.
Proof. split; vm_compute; reflexivity. Qed.

(* the hypothesis of the window theorem is what fails in the F13 history *)
Example ex_window_f13 : window_ok (run_seq 100 (f13_history P16)) = false.
Proof. vm_compute; reflexivity. Qed.

(* ================= the identifier field through the retrying client ================= *)

Definition kept (m : rmsg) : Prop := r_given m = 0 \/ r_id m = r_given m.
Definition qinv (q : list qent) : Prop := Forall (fun e => kept (ent_msg e)) q.
Definition tinv (ts : list rtask) : Prop :=
  Forall (fun t => match t with TPub m => kept m | TRetry => True end) ts.
Definition wire_ok (w : wire) : Prop := Forall (fun x => sent_ok (snd x) = true) w.

Lemma new_id_nonzero c : snd (new_id c) <> 0.
Proof.
  destruct (new_id c) as [c' id] eqn:E. destruct (new_id_spec c c' id E) as (H & _).
  cbn [snd]. pose proof (issued_range c 0). lia.
Qed.

Lemma submitted_kept tag qos g : kept (submitted tag qos g).
Proof. right. reflexivity. Qed.

Lemma fill_ok c m : kept m -> kept (snd (fill c m)) /\ sent_ok (snd (fill c m)) = true.
Proof.
  intros Hk. unfold fill. destruct (r_id m =? 0) eqn:E.
  - apply N.eqb_eq in E. pose proof (new_id_nonzero c) as Hn.
    destruct (new_id c) as [c' id]. cbn [snd] in *.
    assert (Hg : r_given m = 0) by (destruct Hk as [Hk|Hk]; congruence).
    split; [left; exact Hg|]. unfold sent_ok. cbn [r_id r_given]. rewrite Hg.
    apply N.eqb_neq in Hn. rewrite Hn. reflexivity.
  - cbn [snd]. split; [exact Hk|]. unfold sent_ok. rewrite E. cbn [negb andb].
    destruct Hk as [Hk|Hk]; rewrite Hk; [reflexivity|]. rewrite N.eqb_refl. apply orb_true_r.
Qed.

Lemma transmit_spec st m st' ok m' : transmit st m = (st', ok, m') -> kept m ->
  rs_q st' = rs_q st /\ kept m' /\ sent_ok m' = true.
Proof.
  unfold transmit. intros H Hk. pose proof (fill_ok (rs_c st) m Hk) as [H1 H2].
  destruct (fill (rs_c st) m) as [c' mf]. cbn [snd] in *.
  destruct (rs_alive st); [destruct (rs_cut st) as [|[|k]]|]; injection H as <- <- <-;
    cbn [rs_q]; auto.
Qed.

Lemma qinv_app a b : qinv a -> qinv b -> qinv (a ++ b).
Proof. unfold qinv. intros. apply Forall_app. split; assumption. Qed.

Lemma publish_task_ok st m st' w : publish_task st m = (st', w) -> qinv (rs_q st) -> kept m ->
  qinv (rs_q st') /\ wire_ok w.
Proof.
  unfold publish_task. intros H Hq Hk. destruct (rs_q st) as [|e q] eqn:Eq.
  - destruct (transmit st m) as [[st1 ok] m1] eqn:Et.
    destruct (transmit_spec _ _ _ _ _ Et Hk) as (Hq1 & Hk1 & Hs1). injection H as <- <-.
    split; [|constructor; [exact Hs1 | constructor]].
    destruct ok; [rewrite Hq1, Eq; constructor|]. cbn [set_q rs_q]. constructor; [exact Hk1 | constructor].
  - injection H as <- <-. split; [|constructor].
    destruct (0 <? r_qos m); [|rewrite Eq; exact Hq]. cbn [set_q rs_q].
    apply (qinv_app (e :: q) [QDeferred (defer_copy m)]); [exact Hq|]. constructor; [exact Hk | constructor].
Qed.

Lemma retry_loop_ok old : forall st st' w, retry_loop st old = (st', w) -> qinv (rs_q st) -> qinv old ->
  qinv (rs_q st') /\ wire_ok w.
Proof.
  induction old as [|e rest IH]; intros st st' w H Hq Ho; cbn [retry_loop] in H.
  - injection H as <- <-. split; [exact Hq | constructor].
  - inversion Ho as [|? ? Hke Hrest]; subst. destruct e as [m|m]; cbn [ent_msg] in Hke.
    + destruct (transmit st m) as [[st1 ok] m1] eqn:Et.
      destruct (transmit_spec _ _ _ _ _ Et Hke) as (Hq1 & Hk1 & Hs1). destruct ok.
      * destruct (retry_loop st1 rest) as [st2 w2] eqn:Er. injection H as <- <-.
        destruct (IH _ _ _ Er) as [Ha Hb]; [rewrite Hq1; exact Hq | exact Hrest|].
        split; [exact Ha | constructor; [exact Hs1 | exact Hb]].
      * injection H as <- <-. cbn [set_q rs_q]. split; [|constructor; [exact Hs1 | constructor]].
        apply qinv_app; [rewrite Hq1; exact Hq|]. constructor; [exact Hk1 | exact Hrest].
    + destruct (transmit st m) as [[st1 ok] m1] eqn:Et.
      destruct (transmit_spec _ _ _ _ _ Et Hke) as (Hq1 & Hk1 & Hs1).
      destruct (retry_loop (if ok then st1 else set_q st1 (rs_q st1 ++ [QRetry m1])) rest) as [st2 w2] eqn:Er.
      injection H as <- <-.
      destruct (IH _ _ _ Er) as [Ha Hb]; [|exact Hrest|].
      * destruct ok; [rewrite Hq1; exact Hq|]. cbn [set_q rs_q].
        apply qinv_app; [rewrite Hq1; exact Hq|]. constructor; [exact Hk1 | constructor].
      * split; [exact Ha | constructor; [exact Hs1 | exact Hb]].
Qed.

Lemma run_task_ok st t st' w : run_task st t = (st', w) -> qinv (rs_q st) ->
  match t with TPub m => kept m | TRetry => True end -> qinv (rs_q st') /\ wire_ok w.
Proof.
  destruct t as [m|]; cbn [run_task]; intros H Hq Hk.
  - exact (publish_task_ok _ _ _ _ H Hq Hk).
  - apply (retry_loop_ok _ _ _ _ H); [constructor | exact Hq].
Qed.

Lemma drain_ok ts : forall st st' lft w, drain st ts = (st', lft, w) -> qinv (rs_q st) -> tinv ts ->
  qinv (rs_q st') /\ tinv lft /\ wire_ok w.
Proof.
  induction ts as [|t rest IH]; intros st st' lft w H Hq Ht; cbn [drain] in H.
  - injection H as <- <- <-. repeat split; [exact Hq | constructor | constructor].
  - destruct (rs_alive st).
    + inversion Ht as [|? ? Hkt Hrest]; subst.
      destruct (run_task st t) as [st1 w1] eqn:Er.
      destruct (drain st1 rest) as [[st2 l2] w2] eqn:Ed. injection H as <- <- <-.
      destruct (run_task_ok _ _ _ _ Er Hq Hkt) as [Ha Hb].
      destruct (IH _ _ _ _ Ed Ha Hrest) as (Hc & Hd & He).
      repeat split; [exact Hc | exact Hd |]. apply Forall_app. split; assumption.
    + injection H as <- <- <-. repeat split; [exact Hq | exact Ht | constructor].
Qed.

Lemma run_retry_from_ok ops : forall st pend, qinv (rs_q st) -> tinv pend ->
  wire_ok (run_retry_from st pend ops).
Proof.
  induction ops as [|o ops IH]; intros st pend Hq Hp; cbn [run_retry_from]; [constructor|].
  destruct o as [tag qos g|s cut].
  - destruct (drain st (pend ++ [TPub (submitted tag qos g)])) as [[st1 l1] w1] eqn:Ed.
    destruct (drain_ok _ _ _ _ _ Ed Hq) as (Ha & Hb & Hc).
    + apply Forall_app. split; [exact Hp|]. constructor; [apply submitted_kept | constructor].
    + apply Forall_app. split; [exact Hc | apply IH; assumption].
  - destruct (drain (RS s (rs_conn st + 1) true cut (rs_q st)) (pend ++ [TRetry])) as [[st1 l1] w1] eqn:Ed.
    destruct (drain_ok _ _ _ _ _ Ed) as (Ha & Hb & Hc); [exact Hq| |].
    + apply Forall_app. split; [exact Hp|]. constructor; [exact I | constructor].
    + apply Forall_app. split; [exact Hc | apply IH; assumption].
Qed.

(* every transmission, first or repeated, direct or deferred behind a pending retry, on whatever
   connection with whatever counter and however the connections are cut, carries a non-zero
   identifier, and the caller's own whenever the caller provided one *)
Lemma retry_sent_ok ops : wire_ok (run_retry ops).
Proof. apply run_retry_from_ok; constructor. Qed.

(* the deferred path really is exercised, with a second cut and later retransmissions *)
Example ex_retry_deferred :
  map (fun w => (fst w, r_tag (snd w), r_id (snd w)))
      (run_retry [XConn 100 1; XPub 1 1 0; XPub 2 1 40001; XPub 3 2 40002; XPub 4 1 0;
                  XConn 256 2; XPub 5 2 0; XConn 1000 0; XPub 6 1 0])
  = [(1, 1, 101); (2, 1, 101); (2, 2, 40001); (2, 3, 40002); (2, 4, 257);
     (3, 2, 40001); (3, 3, 40002); (3, 4, 257); (3, 5, 1001); (3, 6, 1002)].
Proof. vm_compute; reflexivity. Qed.

(* ================= retry handles run on another client ================= *)

(* the retransmission of an interrupted SUBSCRIBE / UNSUBSCRIBE is an ordinary new request of the
   client it runs on: nothing of client A (its counter a in particular) enters *)
Lemma handle_sub_fresh a b hB :
  run_handle_on a RSub b hB = run_seq b (hB ++ [HReq RSub]) /\
  run_handle_on a RUnsub b hB = run_seq b (hB ++ [HReq RUnsub]).
Proof. split; reflexivity. Qed.

(* a retransmitted publish carries the identifier it had on client A, and does not move B's counter *)
Lemma handle_pub_keeps a q g b hB :
  final_counter b (hB ++ [HReq (handle_req (interrupt a (RPub q g)))]) = final_counter b hB /\
  snd (issue1 a (RPub q g)) <> 0.
Proof.
  assert (Hnz : snd (issue1 a (RPub q g)) <> 0).
  { unfold issue1. destruct (is_auto (RPub q g)) eqn:E; [apply new_id_nonzero|].
    cbn [is_auto] in E. cbn [snd given_of]. apply N.eqb_neq. exact E. }
  split; [|exact Hnz].
  cbn [interrupt handle_req]. revert b. induction hB as [|e h IH]; intros b.
  - cbn [app final_counter]. unfold issue1 at 1. cbn [is_auto].
    apply N.eqb_neq in Hnz. rewrite Hnz. reflexivity.
  - destruct e as [r|j|q0 i]; cbn [app final_counter]; apply IH.
Qed.

Example ex_handle : (* A at 100: SUBSCRIBE took 101; B at 100 holds 101 and 102; the retransmission takes 103 from B *)
  run_handle_on 100 RSub 100 [HReq (RPub 1 0); HReq (RPub 1 0)]
  = [OIssue 0 (RPub 1 0) 101; OIssue 0 (RPub 1 0) 102; OIssue 0 RSub 103].
Proof. vm_compute; reflexivity. Qed.

(* ================= identifiers are never stepped back ================= *)

Definition is_hreq (e : hev) : bool := match e with HReq _ => true | _ => false end.

(* the identifiers handed out are a function of the number of newID calls only: how and when
   requests END — acknowledged, abandoned by the caller, or failed because their write was rejected
   — never moves the counter. Removing every end-of-request event from a history changes neither
   the identifiers chosen nor the counter. (A change that "gives an identifier back" on an error
   path breaks exactly this.) *)
Lemma ids_ignore_ends s h :
  auto_ids (run_seq s h) = auto_ids (run_seq s (filter is_hreq h)) /\
  final_counter s h = final_counter s (filter is_hreq h).
Proof.
  revert s; induction h as [|e h IH]; intros s; [split; reflexivity|].
  destruct e as [r|j|q i]; cbn [filter is_hreq run_seq final_counter].
  - destruct (issue1 s r) as [s' id] eqn:E. cbn [auto_ids fst].
    destruct (IH s') as [H1 H2]. rewrite H1, H2. split; reflexivity.
  - cbn [auto_ids]. apply IH.
  - apply IH.
Qed.

(* the same for the concurrent model: inbound packets and acknowledgements can be dropped from a
   schedule without changing the identifiers *)
Definition is_lstep (l : label) : bool := match l with LStep _ => true | _ => false end.

Lemma conc_ignores_inbound c progs sched :
  auto_ids (run_conc c progs sched) = auto_ids (run_conc c progs (filter is_lstep sched)).
Proof.
  revert c progs; induction sched as [|e sched IH]; intros c progs; [reflexivity|].
  destruct e as [k|j|q i]; cbn [filter is_lstep run_conc].
  - destruct (step_caller c progs k) as [[c' progs'] o]. destruct o as [e|]; [|apply IH].
    destruct e as [k' r id|j']; cbn [auto_ids]; rewrite IH; reflexivity.
  - cbn [auto_ids]. apply IH.
  - apply IH.
Qed.
