(* CheckRetry.v — executable comparison between what the real ReconnectClient did on a scenario
   (observations written by harness/lib_retrysys.go) and (a) the model RetrySys.run_scenario,
   (b) the property predicates of C01 C02 C03 C08 C12 C18 evaluated directly on the observations. *)
From MQ Require Import Base RetryCore RetrySys.
Open Scope nat_scope.

Record scenario := {
  sc_cfg : config;
  sc_faults : list (nat * nat * fkind);     (* connection, packet index on it, fault; first match wins *)
  sc_phases : list phase
}.

Fixpoint fp_of_list (l : list (nat * nat * fkind)) (k i : nat) : fkind :=
  match l with
  | [] => FNone
  | (k', i', f) :: r => if (k =? k') && (i =? i') then f else fp_of_list r k i
  end.

Record obs := {
  o_wire : list (nat * pkt * wres);
  o_delivered : list nat;
  o_acked : list nat;
  o_subs : list sub;
  o_subest : list sub;
  o_retryq : nat;
  o_taskq : nat;
  o_errs : list errclass;
  o_hung : bool;
  o_stuck : bool
}.

(* ---------- decidable equalities ---------- *)
Definition sub_eqb (a b : sub) : bool := str_eqb (fst a) (fst b) && N.eqb (snd a) (snd b).
Definition pubreq_eqb (a b : pubreq) : bool :=
  (p_uid a =? p_uid b) && N.eqb (p_qos a) (p_qos b) && Bool.eqb (p_retain a) (p_retain b)
  && str_eqb (p_topic a) (p_topic b) && str_eqb (p_payload a) (p_payload b).
Definition pkt_eqb (a b : pkt) : bool :=
  match a, b with
  | PPublish m d, PPublish m' d' => pubreq_eqb m m' && Bool.eqb d d'
  | PPubRel u, PPubRel u' => u =? u'
  | PSubscribe u ss, PSubscribe u' ss' => (u =? u') && list_eqb sub_eqb ss ss'
  | PUnsubscribe u ts, PUnsubscribe u' ts' => (u =? u') && list_eqb str_eqb ts ts'
  | _, _ => false
  end.
Definition wres_eqb (a b : wres) : bool :=
  match a, b with WAck, WAck | WOk, WOk | WFail, WFail | WDead, WDead => true | _, _ => false end.
Definition wire_eqb (a b : nat * pkt * wres) : bool :=
  let '(k, p, r) := a in let '(k', p', r') := b in (k =? k') && pkt_eqb p p' && wres_eqb r r'.
Definition errclass_eqb (a b : errclass) : bool :=
  match a, b with ETimeout, ETimeout | EConn, EConn | ENotConnected, ENotConnected => true | _, _ => false end.

Definition subs_incl (a b : list sub) : bool :=
  forallb (fun s => match subs_get (fst s) b with Some q => N.eqb q (snd s) | None => false end) a.
Definition subs_equiv (a b : list sub) : bool := subs_incl a b && subs_incl b a.

(* ---------- the model's observations ---------- *)
Definition final_acked (w : list (nat * pkt * wres)) : list nat :=
  flat_map (fun e => let '(_, p, r) := e in
    match r, p with
    | WAck, PPublish m _ => if N.eqb (p_qos m) 1 then [p_uid m] else []
    | WAck, PPubRel u => [u]
    | WAck, PSubscribe u _ => [u]
    | WAck, PUnsubscribe u _ => [u]
    | _, _ => []
    end) w.

Definition model_run (sc : scenario) : sys * nat :=
  run_scenario (sc_cfg sc) (fp_of_list (sc_faults sc)) (sc_phases sc).

Definition model_ok (c : scenario * obs) : bool :=
  let '(sc, o) := c in
  let '(s, bad) := model_run sc in
  let w := s_w s in
  (bad =? 0) && negb (o_stuck o)
  && list_eqb wire_eqb (o_wire o) (w_wire w)
  && list_eqb Nat.eqb (o_delivered o) (b_delivered (w_broker w))
  && list_eqb Nat.eqb (o_acked o) (final_acked (w_wire w))
  && Bool.eqb (o_hung o) (w_hung w)
  && list_eqb errclass_eqb (o_errs o) (w_errs w)
  && (w_hung w ||
      (subs_equiv (o_subs o) (b_subs (w_broker w))
       && list_eqb sub_eqb (o_subest o) (w_subest w)
       && (o_retryq o =? length (w_retryq w))
       && (o_taskq o =? length (s_taskq s)))).

(* ---------- what was submitted ---------- *)
Definition phase_ops (p : phase) : list uop := flat_map at_mid (ph_attempts p) ++ ph_ops p.
Definition scenario_ops (sc : scenario) : list uop := flat_map phase_ops (sc_phases sc).

Definition uop_uid (o : uop) : nat :=
  match o with UPub m => p_uid m | USub u _ => u | UUnsub u _ => u end.
Definition needs_ack (o : uop) : bool := match o with UPub m => N.ltb 0 (p_qos m) | _ => true end.
Definition is_q2 (o : uop) : bool := match o with UPub m => N.eqb (p_qos m) 2 | _ => false end.
Definition is_q1plus_pub (o : uop) : bool := match o with UPub m => N.ltb 0 (p_qos m) | _ => false end.

Definition mem (x : nat) (l : list nat) : bool := existsb (Nat.eqb x) l.
Definition count (x : nat) (l : list nat) : nat := length (filter (Nat.eqb x) l).

(* uids must be positive, pairwise distinct and increasing in submission order *)
Fixpoint increasing_from (lo : nat) (l : list nat) : bool :=
  match l with [] => true | x :: r => (lo <? x) && increasing_from x r end.
Definition uids_wf (sc : scenario) : bool := increasing_from 0 (map uop_uid (scenario_ops sc)).

Definition session_kept (sc : scenario) : bool :=
  forallb (fun a => match at_kind a with AConn (CoAccept false) => false | _ => true end)
          (tl (flat_map ph_attempts (sc_phases sc)))
  && match flat_map ph_attempts (sc_phases sc) with
     | a :: _ => match at_kind a with AConn (CoAccept _) => true | _ => false end | [] => true end.
(* The first successful connection may say session-not-present (nothing was stored yet);
   [session_kept] requires that the very first attempt is that accept and all later accepts keep the session. *)

Definition only_closing_faults (sc : scenario) : bool :=
  forallb (fun e => match snd e with FSilentReq | FSilentAck => false | _ => true end) (sc_faults sc).
Definition no_silent := only_closing_faults.

(* the scenario ends on a fault-free accepted connection *)
Definition last_conn (sc : scenario) : nat :=
  length (filter (fun a => match at_kind a with AConn _ => true | _ => false end) (flat_map ph_attempts (sc_phases sc))) - 1.
Definition ends_stable (sc : scenario) : bool :=
  match rev (sc_phases sc) with
  | p :: _ =>
      negb (ph_idle_cut p)
      && match rev (ph_attempts p) with
         | a :: _ => match at_kind a with AConn (CoAccept _) => true | _ => false end
         | [] => false
         end
      && forallb (fun e => negb (fst (fst e) =? last_conn sc)) (sc_faults sc)
  | [] => false
  end.

(* ---------- C01 ---------- *)
(* every accepted QoS>=1 publish / subscribe / unsubscribe was acknowledged; nothing is left queued *)
Definition c01_ok (c : scenario * obs) : bool :=
  let '(sc, o) := c in
  negb (ends_stable sc && uids_wf sc && (no_silent sc || c_timeout (sc_cfg sc))) ||
  (negb (o_stuck o) && negb (o_hung o)
   && forallb (fun op => negb (needs_ack op) || mem (uop_uid op) (o_acked o)) (scenario_ops sc)
   && (o_retryq o =? 0) && (o_taskq o =? 0)).

(* ---------- C02 ---------- *)
Definition wire_uid (p : pkt) : nat :=
  match p with PPublish m _ => p_uid m | PPubRel u => u | PSubscribe u _ => u | PUnsubscribe u _ => u end.

(* nothing is written for u after the PUBREL whose PUBCOMP arrived *)
Fixpoint silent_after_comp (u : nat) (w : list (nat * pkt * wres)) : bool :=
  match w with
  | [] => true
  | (_, PPubRel u', WAck) :: r =>
      if u =? u' then forallb (fun e => negb (wire_uid (snd (fst e)) =? u)) r else silent_after_comp u r
  | _ :: r => silent_after_comp u r
  end.

Definition c02_ok (c : scenario * obs) : bool :=
  let '(sc, o) := c in
  negb (ends_stable sc && uids_wf sc && session_kept sc && (no_silent sc || c_timeout (sc_cfg sc))) ||
  (negb (o_stuck o)
   && forallb (fun op => negb (is_q2 op) ||
        ((count (uop_uid op) (o_delivered o) =? 1) && silent_after_comp (uop_uid op) (o_wire o)))
      (scenario_ops sc)).

(* ---------- C03 ---------- *)
Fixpoint nondecreasing_from (lo : nat) (l : list nat) : bool :=
  match l with [] => true | x :: r => (lo <=? x) && nondecreasing_from x r end.

Definition conns_of (w : list (nat * pkt * wres)) : list nat :=
  fold_left (fun acc e => if mem (fst (fst e)) acc then acc else acc ++ [fst (fst e)]) w [].

(* PUBLISH packets handed to connection k while its transport was open (a Write on a transport that
   is already closed puts nothing on the wire) *)
Definition publishes_on (k : nat) (w : list (nat * pkt * wres)) : list nat :=
  flat_map (fun e => let '(k', p, r) := e in
    match p, r with
    | PPublish m _, WDead => []
    | PPublish m _, _ => if k =? k' then [p_uid m] else []
    | _, _ => []
    end) w.

Fixpoint first_occurrences (seen : list nat) (l : list nat) : list nat :=
  match l with
  | [] => []
  | x :: r => if mem x seen then first_occurrences seen r else x :: first_occurrences (x :: seen) r
  end.

(* uids of the requests' own packets, in wire order (re-subscriptions carry uid 0 and are skipped;
   PUBREL is part of its PUBLISH's request) *)
Definition request_tx (w : list (nat * pkt * wres)) : list nat :=
  flat_map (fun e => let '(_, p, _) := e in
    match p with
    | PPublish m _ => [p_uid m]
    | PPubRel _ => []
    | PSubscribe u _ | PUnsubscribe u _ => if u =? 0 then [] else [u]
    end) w.

Definition q1plus_uids (sc : scenario) : list nat :=
  map uop_uid (filter is_q1plus_pub (scenario_ops sc)).

Definition c03_ok (c : scenario * obs) : bool :=
  let '(sc, o) := c in
  negb (uids_wf sc) ||
  (forallb (fun k => nondecreasing_from 0 (publishes_on k (o_wire o))) (conns_of (o_wire o))
   && increasing_from 0 (first_occurrences [] (request_tx (o_wire o)))
   && (negb (only_closing_faults sc) ||
       increasing_from 0 (first_occurrences [] (filter (fun u => mem u (q1plus_uids sc)) (o_delivered o))))).

(* ---------- C08 ---------- *)
Definition net_step (t : list sub) (o : uop) : list sub :=
  match o with
  | UPub _ => t
  | USub _ ss => fold_left subs_set ss t
  | UUnsub _ ts => fold_left (fun l x => subs_remove x l) ts t
  end.
Definition net_effect (ops : list uop) : list sub := fold_left net_step ops [].

Definition ever_subscribed (t : str) (ops : list uop) : bool :=
  existsb (fun o => match o with USub _ ss => existsb (fun s => str_eqb (fst s) t) ss | _ => false end) ops.

Definition first_conn (w : list (nat * pkt * wres)) : option nat :=
  match w with [] => None | e :: _ => Some (fst (fst e)) end.

Definition c08_ok (c : scenario * obs) : bool :=
  let '(sc, o) := c in
  negb (uids_wf sc && no_silent sc) ||
  ((negb (ends_stable sc) ||
    (negb (o_stuck o) && negb (o_hung o) && subs_equiv (o_subs o) (net_effect (scenario_ops sc))))
   (* a re-subscription only names filters the application subscribed at some time *)
   && forallb (fun e => match snd (fst e) with
                        | PSubscribe 0 ss => forallb (fun s => ever_subscribed (fst s) (scenario_ops sc)) ss
                        | _ => true end) (o_wire o)
   (* never on the first connection *)
   && forallb (fun e => match snd (fst e) with
                        | PSubscribe 0 _ => negb (fst (fst e) =? 0)
                        | _ => true end) (o_wire o)).

(* ---------- C12 ---------- *)
Definition pub_entries (u : nat) (w : list (nat * pkt * wres)) : list (pubreq * bool) :=
  flat_map (fun e => match snd (fst e) with PPublish m d => if p_uid m =? u then [(m, d)] else [] | _ => [] end) w.

Definition faithful (l : list (pubreq * bool)) : bool :=
  match l with
  | [] => true
  | (m0, d0) :: r =>
      negb d0
      && forallb (fun e => pubreq_eqb (fst e) m0 && snd e) r
      && (negb (N.eqb (p_qos m0) 0) || match r with [] => true | _ => false end)
  end.

(* no PUBLISH for u after a PUBREL for u was handed to the transport successfully *)
Fixpoint no_publish_after_rel (u : nat) (w : list (nat * pkt * wres)) : bool :=
  match w with
  | [] => true
  | (_, PPubRel u', r) :: rest =>
      if (u =? u') && match r with WAck | WOk => true | _ => false end
      then forallb (fun e => match snd (fst e) with PPublish m _ => negb (p_uid m =? u) | _ => true end) rest
      else no_publish_after_rel u rest
  | _ :: rest => no_publish_after_rel u rest
  end.

Definition wire_pub_uids (w : list (nat * pkt * wres)) : list nat :=
  first_occurrences [] (flat_map (fun e => match snd (fst e) with PPublish m _ => [p_uid m] | PPubRel u => [u] | _ => [] end) w).

Definition find_pub (u : nat) (ops : list uop) : option pubreq :=
  match filter (fun o => match o with UPub m => p_uid m =? u | _ => false end) ops with
  | UPub m :: _ => Some m
  | _ => None
  end.

Definition c12_ok (c : scenario * obs) : bool :=
  let '(sc, o) := c in
  negb (uids_wf sc) ||
  forallb (fun u =>
     faithful (pub_entries u (o_wire o))
     && no_publish_after_rel u (o_wire o)
     (* and it is the message the application submitted *)
     && match find_pub u (scenario_ops sc), pub_entries u (o_wire o) with
        | Some m, (m', _) :: _ => pubreq_eqb m m'
        | None, _ => false
        | _, [] => true
        end)
    (wire_pub_uids (o_wire o)).

(* ---------- C18 ---------- *)
(* the silent faults that fired: the packet with that index was written on that connection *)
Definition nth_on_conn (k i : nat) (w : list (nat * pkt * wres)) : option (nat * pkt * wres) :=
  nth_error (filter (fun e => (fst (fst e) =? k) && match snd e with WDead => false | _ => true end) w) i.

Fixpoint fired_silent (fs : list (nat * nat * fkind)) (seen : list (nat * nat)) (w : list (nat * pkt * wres)) : nat :=
  match fs with
  | [] => 0
  | (k, i, f) :: r =>
      if existsb (fun x => (fst x =? k) && (snd x =? i)) seen then fired_silent r seen w
      else
        (match f, nth_on_conn k i w with
         | FSilentReq, Some (_, p, _) | FSilentAck, Some (_, p, _) =>
             match p with PPublish m _ => if N.eqb (p_qos m) 0 then 0 else 1 | _ => 1 end
         | _, _ => 0
         end) + fired_silent r ((k, i) :: seen) w
  end.

Definition count_timeouts (l : list errclass) : nat :=
  length (filter (fun e => match e with ETimeout => true | _ => false end) l).

Definition c18_ok (c : scenario * obs) : bool :=
  let '(sc, o) := c in
  negb (c_timeout (sc_cfg sc) && uids_wf sc) ||
  (negb (o_hung o) && negb (o_stuck o)
   && (count_timeouts (o_errs o) =? fired_silent (sc_faults sc) [] (o_wire o))
   && (negb (ends_stable sc) ||
       (forallb (fun op => negb (needs_ack op) || mem (uop_uid op) (o_acked o)) (scenario_ops sc)
        && (o_retryq o =? 0)))).

(* without an OnError callback the error classes cannot be observed: everything else of c18_ok *)
Definition c18_ok_noerr (c : scenario * obs) : bool :=
  let '(sc, o) := c in
  negb (c_timeout (sc_cfg sc) && uids_wf sc) ||
  (negb (o_hung o) && negb (o_stuck o)
   && (negb (ends_stable sc) ||
       (forallb (fun op => negb (needs_ack op) || mem (uop_uid op) (o_acked o)) (scenario_ops sc)
        && (o_retryq o =? 0)))).

(* ---------- re-subscriptions only name filters whose Subscribe was transmitted before ---------- *)
(* The harness gives every Subscribe request u a marker filter "#u" as its first filter. A uid-0 SUBSCRIBE
   (re-subscription) naming "#u" before request u's own SUBSCRIBE was first written would transmit part
   of a request ahead of older, never transmitted requests. *)
Fixpoint digits_to_nat (acc : nat) (l : str) : option nat :=
  match l with
  | [] => Some acc
  | d :: r => if (N.leb 48 d && N.leb d 57)%bool
              then digits_to_nat (10 * acc + N.to_nat (d - 48)%N) r else None
  end.
Definition marker_uid (t : str) : option nat :=
  match t with
  | 35%N :: (_ :: _) as ds => digits_to_nat 0 ds
  | _ => None
  end.

Fixpoint resub_after_own_tx (seen : list nat) (w : list (nat * pkt * wres)) : bool :=
  match w with
  | [] => true
  | (_, PSubscribe 0 ss, _) :: r =>
      forallb (fun x => match marker_uid (fst x) with Some u => mem u seen | None => true end) ss
      && resub_after_own_tx seen r
  | (_, PSubscribe u _, _) :: r => resub_after_own_tx (u :: seen) r
  | _ :: r => resub_after_own_tx seen r
  end.

Definition c03_ok' (c : scenario * obs) : bool :=
  c03_ok c && (negb (uids_wf (fst c)) || resub_after_own_tx [] (o_wire (snd c))).
Definition c08_ok' (c : scenario * obs) : bool :=
  c08_ok c && (negb (uids_wf (fst c)) || resub_after_own_tx [] (o_wire (snd c))).

(* ---------- an abandoned re-subscription is kept for retransmission ---------- *)
(* every re-subscription SUBSCRIBE that was not acknowledged is written again later (as a retransmission
   or by a later Resubscribe), once the scenario has ended idle on a stable connection *)
Fixpoint resubs_kept (w : list (nat * pkt * wres)) : bool :=
  match w with
  | [] => true
  | (_, PSubscribe 0 ss, r) :: rest =>
      (match r with
       | WAck => true
       | _ => existsb (fun e => match snd (fst e) with
                                | PSubscribe 0 ss' => list_eqb sub_eqb ss ss'
                                | _ => false end) rest
       end) && resubs_kept rest
  | _ :: rest => resubs_kept rest
  end.

Definition c18_ok' (c : scenario * obs) : bool :=
  c18_ok c &&
  (negb (c_timeout (sc_cfg (fst c)) && uids_wf (fst c) && ends_stable (fst c)) || o_stuck (snd c) || o_hung (snd c)
   || resubs_kept (o_wire (snd c))).

(* ---------- result lists ---------- *)
Definition failing (p : scenario * obs -> bool) (cs : list (scenario * obs)) : list nat :=
  indices_where (fun c => negb (p c)) cs.

(* ---------- scenarios given as explicit label lists (fine-grained schedules realised with gates) ---------- *)
Record lscenario := {
  ls_cfg : config;
  ls_faults : list (nat * nat * fkind);
  ls_labels : list label
}.

Definition lmodel_ok (c : lscenario * obs) : bool :=
  let '(sc, o) := c in
  match run (ls_cfg sc) (fp_of_list (ls_faults sc)) sys0 (ls_labels sc) with
  | None => false
  | Some s =>
      let w := s_w s in
      negb (o_stuck o)
      && list_eqb wire_eqb (o_wire o) (w_wire w)
      && list_eqb Nat.eqb (o_delivered o) (b_delivered (w_broker w))
      && list_eqb Nat.eqb (o_acked o) (final_acked (w_wire w))
      && Bool.eqb (o_hung o) (w_hung w)
      && list_eqb errclass_eqb (o_errs o) (w_errs w)
      && (o_retryq o =? length (w_retryq w))
      && (o_taskq o =? length (s_taskq s))
  end.

Fixpoint label_submits (ls : list label) : list uop :=
  match ls with
  | [] => []
  | LSubmit o :: r => o :: label_submits r
  | _ :: r => label_submits r
  end.

(* C01 on a fine-grained schedule that ends idle on a fault-free connection *)
Definition lc01_ok (c : lscenario * obs) : bool :=
  let '(sc, o) := c in
  negb (o_stuck o) && negb (o_hung o)
  && forallb (fun op => negb (needs_ack op) || mem (uop_uid op) (o_acked o)) (label_submits (ls_labels sc))
  && (o_retryq o =? 0) && (o_taskq o =? 0).

(* C08 on a fine-grained schedule that ends idle on a fault-free connection: the broker's table is the net
   effect of the application's calls *)
Definition lc08_ok (c : lscenario * obs) : bool :=
  let '(sc, o) := c in
  negb (o_stuck o) && negb (o_hung o)
  && subs_equiv (o_subs o) (net_effect (label_submits (ls_labels sc))).

Definition lfailing (p : lscenario * obs -> bool) (cs : list (lscenario * obs)) : list nat :=
  indices_where (fun c => negb (p c)) cs.

(* C03 on a fine-grained schedule: every connection's PUBLISH packets in submission order, first
   transmissions in submission order, first deliveries in submission order *)
Definition lc03_ok (c : lscenario * obs) : bool :=
  let '(sc, o) := c in
  negb (o_stuck o)
  && forallb (fun k => nondecreasing_from 0 (publishes_on k (o_wire o))) (conns_of (o_wire o))
  && increasing_from 0 (first_occurrences [] (request_tx (o_wire o)))
  (* closing faults only: first deliveries of QoS >= 1 messages in submission order *)
  && (negb (forallb (fun e => match snd e with FSilentReq | FSilentAck => false | _ => true end) (ls_faults sc)) ||
      increasing_from 0 (first_occurrences []
        (filter (fun u => mem u (map uop_uid (filter is_q1plus_pub (label_submits (ls_labels sc))))) (o_delivered o)))).
