(* KeepAlive_proofs.v — proofs about the keep-alive model (KeepAlive.v). *)
From MQ Require Import Base KeepAlive.
Open Scope N_scope.

Arguments N.mul : simpl never.
Arguments N.add : simpl never.
Arguments N.div : simpl never.
Arguments N.max : simpl never.
Arguments N.leb : simpl never.

Definition answered (ds : list N) : list ping_outcome := map Answered ds.

(* ---------- result, number of pings and context state do not depend on the clock ---------- *)
Lemma ka_loop_indep T s : forall I now nxt I' now' nxt' pd,
  ko_result (ka_loop I T now nxt pd s) = ko_result (ka_loop I' T now' nxt' pd s) /\
  pings (ka_loop I T now nxt pd s) = pings (ka_loop I' T now' nxt' pd s) /\
  ko_parent (ka_loop I T now nxt pd s) = ko_parent (ka_loop I' T now' nxt' pd s) /\
  map snd (ko_pings (ka_loop I T now nxt pd s)) = map snd (ko_pings (ka_loop I' T now' nxt' pd s)).
Proof.
  induction s as [|e r IH]; intros I now nxt I' now' nxt' pd; cbn [ka_loop].
  - repeat split; reflexivity.
  - destruct (po_ret (ping_run T pd e)) as [err|].
    + repeat split; reflexivity.
    + specialize (IH I (N.max now (nxt * I) + po_dur (ping_run T pd e)) (N.max now (nxt * I) / I + 1)
                     I' (N.max now' (nxt' * I') + po_dur (ping_run T pd e)) (N.max now' (nxt' * I') / I' + 1)
                     (po_parent (ping_run T pd e))).
      destruct IH as (H1 & H2 & H3 & H4). unfold pings in *. cbn [ko_push ko_result ko_pings ko_parent length map snd].
      repeat split; congruence.
Qed.

(* ---------- an answered ping keeps the loop running ---------- *)
Lemma ka_loop_answered T ds s : forall I now nxt pd,
  ko_result (ka_loop I T now nxt pd (map env_of (answered ds ++ s))) =
    ko_result (ka_loop I T now nxt pd (map env_of s)) /\
  pings (ka_loop I T now nxt pd (map env_of (answered ds ++ s))) =
    (length ds + pings (ka_loop I T now nxt pd (map env_of s)))%nat /\
  ko_parent (ka_loop I T now nxt pd (map env_of (answered ds ++ s))) =
    ko_parent (ka_loop I T now nxt pd (map env_of s)).
Proof.
  induction ds as [|d ds IH]; intros I now nxt pd.
  - cbn [answered map app length]. repeat split; reflexivity.
  - cbn [answered map app length env_of ka_loop ping_run pe_before pe_beh pe_during po_ret po_dur po_parent].
    fold (answered ds).
    replace (or_else (or_else pd None) None) with pd by (destruct pd; reflexivity).
    destruct (IH I (N.max now (nxt * I) + d) (N.max now (nxt * I) / I + 1) pd) as (H1 & H2 & H3).
    destruct (ka_loop_indep T (map env_of s) I (N.max now (nxt * I) + d) (N.max now (nxt * I) / I + 1) I now nxt pd)
      as (G1 & G2 & G3 & _).
    unfold pings in *. cbn [ko_push ko_result ko_pings ko_parent length].
    repeat split; try congruence. rewrite H2, G2. reflexivity.
Qed.

(* the loop never returns while every ping is answered, and has sent one ping per answer *)
Theorem runs_while_answered I T ds s : 0 < I ->
  ko_result (keepalive I T (answered ds ++ s)) = ko_result (keepalive I T s) /\
  pings (keepalive I T (answered ds ++ s)) = (length ds + pings (keepalive I T s))%nat.
Proof.
  intros HI. unfold keepalive, ka_env. destruct (I =? 0) eqn:E; [lia|].
  destruct (ka_loop_answered T ds s I 0 1 None) as (H1 & H2 & _). split; assumption.
Qed.

Corollary never_returns_while_answered I T ds : 0 < I ->
  ko_result (keepalive I T (answered ds)) = KA_running /\ pings (keepalive I T (answered ds)) = length ds.
Proof.
  intros HI. destruct (runs_while_answered I T ds [] HI) as (H1 & H2).
  rewrite app_nil_r in *. rewrite H1, H2. unfold keepalive, ka_env. destruct (I =? 0) eqn:E; [lia|].
  cbn. split; [reflexivity | lia].
Qed.

(* ---------- the outcome after the answered prefix decides ---------- *)
Lemma first_failure_answered ds o s : is_answered o = false ->
  first_failure (answered ds ++ o :: s) = Some (length ds, o).
Proof.
  intros Ho. induction ds as [|d ds IH]; cbn [answered map app first_failure length].
  - destruct o; try reflexivity. discriminate.
  - fold (answered ds). rewrite IH. reflexivity.
Qed.

Lemma first_failure_all_answered ds : first_failure (answered ds) = None.
Proof. induction ds as [|d ds IH]; cbn [answered map first_failure]; [reflexivity|]. fold (answered ds). rewrite IH. reflexivity. Qed.

Lemma first_failure_split s :
  (exists ds, s = answered ds) \/ (exists ds o r, s = answered ds ++ o :: r /\ is_answered o = false).
Proof.
  induction s as [|o s IH].
  - left. exists []. reflexivity.
  - destruct o as [d| |e|k|k].
    + destruct IH as [(ds & ->) | (ds & o & r & -> & Ho)].
      * left. exists (d :: ds). reflexivity.
      * right. exists (d :: ds), o, r. split; [reflexivity | exact Ho].
    + right. exists [], Never, s. split; reflexivity.
    + right. exists [], (FailsNow e), s. split; reflexivity.
    + right. exists [], (ParentCancelledBefore k), s. split; reflexivity.
    + right. exists [], (ParentCancelledDuring k), s. split; reflexivity.
Qed.

(* one failing outcome at the head of the script *)
Lemma head_never I T s : 0 < I ->
  ko_result (keepalive I T (Never :: s)) = KA_returned EPingTimeout /\ pings (keepalive I T (Never :: s)) = 1%nat.
Proof. intros HI. unfold keepalive, ka_env. destruct (I =? 0) eqn:E; [lia|]. cbn. split; reflexivity. Qed.

Lemma head_fails I T e s : 0 < I -> 0 < T ->
  ko_result (keepalive I T (FailsNow e :: s)) = KA_returned (EOwn e) /\ pings (keepalive I T (FailsNow e :: s)) = 1%nat.
Proof.
  intros HI HT. unfold keepalive, ka_env. destruct (I =? 0) eqn:E; [lia|].
  cbn [map env_of ka_loop ping_run pe_before pe_beh pe_during or_else po_ret po_parent po_to is_some orb classify].
  destruct (T <=? 0) eqn:E2; [lia|]. cbn. split; reflexivity.
Qed.

Lemma head_before I T k s : 0 < I ->
  ko_result (keepalive I T (ParentCancelledBefore k :: s)) = KA_returned (ECtx k) /\
  pings (keepalive I T (ParentCancelledBefore k :: s)) = 1%nat.
Proof. intros HI. unfold keepalive, ka_env. destruct (I =? 0) eqn:E; [lia|]. cbn. split; reflexivity. Qed.

Lemma head_during I T k s : 0 < I ->
  ko_result (keepalive I T (ParentCancelledDuring k :: s)) = KA_returned (ECtx k) /\
  pings (keepalive I T (ParentCancelledDuring k :: s)) = 1%nat.
Proof. intros HI. unfold keepalive, ka_env. destruct (I =? 0) eqn:E; [lia|]. cbn. split; reflexivity. Qed.

(* If a response does not arrive within the timeout: ErrPingTimeout, after exactly one more ping *)
Theorem timeout_reported I T ds s : 0 < I ->
  ko_result (keepalive I T (answered ds ++ Never :: s)) = KA_returned EPingTimeout /\
  pings (keepalive I T (answered ds ++ Never :: s)) = S (length ds).
Proof.
  intros HI. destruct (runs_while_answered I T ds (Never :: s) HI) as (H1 & H2).
  destruct (head_never I T s HI) as (G1 & G2). rewrite H1, H2, G1, G2. split; [reflexivity | lia].
Qed.

(* the parent context ends before or during a ping: the context's error, never ErrPingTimeout *)
Theorem cancel_wins I T ds k s o : 0 < I ->
  o = ParentCancelledBefore k \/ o = ParentCancelledDuring k ->
  ko_result (keepalive I T (answered ds ++ o :: s)) = KA_returned (ECtx k) /\
  ko_result (keepalive I T (answered ds ++ o :: s)) <> KA_returned EPingTimeout /\
  pings (keepalive I T (answered ds ++ o :: s)) = S (length ds).
Proof.
  intros HI Ho. destruct (runs_while_answered I T ds (o :: s) HI) as (H1 & H2).
  assert (G : ko_result (keepalive I T (o :: s)) = KA_returned (ECtx k) /\ pings (keepalive I T (o :: s)) = 1%nat).
  { destruct Ho as [-> | ->]; [apply head_before | apply head_during]; exact HI. }
  destruct G as (G1 & G2). rewrite H1, H2, G1, G2. repeat split; [discriminate | lia].
Qed.

(* a ping that fails at once: its own error is returned as it is *)
Theorem ping_error_passthrough I T ds e s : 0 < I -> 0 < T ->
  ko_result (keepalive I T (answered ds ++ FailsNow e :: s)) = KA_returned (EOwn e) /\
  pings (keepalive I T (answered ds ++ FailsNow e :: s)) = S (length ds).
Proof.
  intros HI HT. destruct (runs_while_answered I T ds (FailsNow e :: s) HI) as (H1 & H2).
  destruct (head_fails I T e s HI HT) as (G1 & G2). rewrite H1, H2, G1, G2. split; [reflexivity | lia].
Qed.

(* the model is the specification "the first outcome that is not an answer decides" *)
Theorem keepalive_meets_spec I T s : 0 < I -> 0 < T ->
  (ko_result (keepalive I T s), pings (keepalive I T s)) = spec_result s.
Proof.
  intros HI HT. unfold spec_result.
  destruct (first_failure_split s) as [(ds & ->) | (ds & o & r & -> & Ho)].
  - rewrite first_failure_all_answered. destruct (never_returns_while_answered I T ds HI) as (H1 & H2).
    rewrite H1, H2. unfold answered. rewrite map_length. reflexivity.
  - rewrite (first_failure_answered ds o r Ho). destruct o as [d| |e|k|k]; try discriminate.
    + destruct (timeout_reported I T ds r HI) as (H1 & H2). rewrite H1, H2. reflexivity.
    + destruct (ping_error_passthrough I T ds e r HI HT) as (H1 & H2). rewrite H1, H2. reflexivity.
    + destruct (cancel_wins I T ds k r _ HI (or_introl eq_refl)) as (H1 & _ & H2). rewrite H1, H2. reflexivity.
    + destruct (cancel_wins I T ds k r _ HI (or_intror eq_refl)) as (H1 & _ & H2). rewrite H1, H2. reflexivity.
Qed.

(* "only a silent peer": ErrPingTimeout is reported exactly when the first outcome that is not
   an answer is a ping that is never answered *)
Theorem timeout_iff_silent I T s : 0 < I -> 0 < T ->
  (ko_result (keepalive I T s) = KA_returned EPingTimeout <->
   exists ds r, s = answered ds ++ Never :: r).
Proof.
  intros HI HT. split.
  - intros H. destruct (first_failure_split s) as [(ds & ->) | (ds & o & r & -> & Ho)].
    + destruct (never_returns_while_answered I T ds HI) as (H1 & _). congruence.
    + destruct o as [d| |e|k|k]; try discriminate.
      * exists ds, r. reflexivity.
      * destruct (ping_error_passthrough I T ds e r HI HT) as (H1 & _). congruence.
      * destruct (cancel_wins I T ds k r _ HI (or_introl eq_refl)) as (H1 & _). congruence.
      * destruct (cancel_wins I T ds k r _ HI (or_intror eq_refl)) as (H1 & _). congruence.
  - intros (ds & r & ->). apply timeout_reported. exact HI.
Qed.

(* ---------- general scripts (any Ping behaviour, cancellation at any point) ---------- *)

(* whatever the pings do: a result computed while the parent context is done is never
   ErrPingTimeout, it is the context's error; and ErrPingTimeout means that the last ping was
   still unanswered when its timeout had passed and the parent context was alive *)
Lemma ka_loop_classes I T s : forall now nxt pd,
  let o := ka_loop I T now nxt pd s in
  (forall k, ko_parent o = Some k -> ko_result o = KA_running \/ ko_result o = KA_returned (ECtx k)) /\
  (ko_result o = KA_returned EPingTimeout ->
     ko_parent o = None /\ exists pre t d, ko_pings o = pre ++ [(t, d)] /\ T <= d) /\
  (forall k, ko_result o = KA_returned (ECtx k) -> ko_parent o = Some k) /\
  ko_result o <> KA_panic.
Proof.
  induction s as [|e r IH]; intros now nxt pd; cbn zeta; cbn [ka_loop].
  - cbn. repeat split; try discriminate. intros k _. left; reflexivity.
  - destruct (po_ret (ping_run T pd e)) as [err|] eqn:Er.
    + cbn [ko_parent ko_result ko_pings]. unfold classify.
      destruct (po_parent (ping_run T pd e)) as [k|] eqn:Ep.
      * repeat split; try discriminate.
        -- intros k' [= <-]. right; reflexivity.
        -- intros k' [= <-]. reflexivity.
      * destruct (po_to (ping_run T pd e)) eqn:Et.
        -- repeat split; try discriminate.
           exists [], (N.max now (nxt * I)), (po_dur (ping_run T pd e)). split; [reflexivity|].
           revert Er Ep Et. unfold ping_run. destruct (pe_beh e) as [d ret | ret].
           ++ cbn [po_ret po_parent po_to po_dur]. intros _ -> Et. cbn in Et. lia.
           ++ destruct (or_else pd (pe_before e)); [cbn; discriminate|].
              destruct (pe_during e); cbn; [discriminate|]. intros _ _ _. lia.
        -- repeat split; discriminate.
    + specialize (IH (N.max now (nxt * I) + po_dur (ping_run T pd e)) (N.max now (nxt * I) / I + 1)
                     (po_parent (ping_run T pd e))).
      cbn zeta in IH. destruct IH as (H1 & H2 & H3 & H4).
      cbn [ko_push ko_result ko_pings ko_parent]. repeat split.
      * exact H1.
      * apply H2; assumption.
      * destruct (H2 H) as (_ & pre & t & d & Hp & Hd).
        exists ((N.max now (nxt * I), po_dur (ping_run T pd e)) :: pre), t, d. rewrite Hp. split; [reflexivity | exact Hd].
      * exact H3.
      * exact H4.
Qed.

Theorem timeout_only_if_silent I T s : 0 < I ->
  ko_result (ka_env I T s) = KA_returned EPingTimeout ->
  ko_parent (ka_env I T s) = None /\ exists pre t d, ko_pings (ka_env I T s) = pre ++ [(t, d)] /\ T <= d.
Proof.
  intros HI. unfold ka_env. destruct (I =? 0) eqn:E; [lia|].
  destruct (ka_loop_classes I T s 0 1 None) as (_ & H & _). exact H.
Qed.

Theorem cancelled_never_timeout I T s k : 0 < I ->
  ko_parent (ka_env I T s) = Some k ->
  ko_result (ka_env I T s) = KA_running \/ ko_result (ka_env I T s) = KA_returned (ECtx k).
Proof.
  intros HI. unfold ka_env. destruct (I =? 0) eqn:E; [lia|].
  destruct (ka_loop_classes I T s 0 1 None) as (H & _). apply H.
Qed.

(* the loop is the one-scan specification *)
Lemma ka_loop_scan I T s : forall now nxt pd n,
  (ko_result (ka_loop I T now nxt pd s), (n + pings (ka_loop I T now nxt pd s))%nat) = scan_env T pd n s.
Proof.
  induction s as [|e r IH]; intros now nxt pd n; cbn [ka_loop scan_env].
  - unfold pings. cbn. f_equal. lia.
  - unfold ping_run. destruct (pe_beh e) as [d [x|] | x].
    + cbn [po_ret po_parent po_to po_dur]. unfold pings, classify. cbn [ko_result ko_pings length].
      destruct (or_else (or_else pd (pe_before e)) (pe_during e)); cbn [is_some orb]; f_equal; lia.
    + cbn [po_ret po_parent po_to po_dur].
      rewrite <- (IH (N.max now (nxt * I) + d) (N.max now (nxt * I) / I + 1) (or_else (or_else pd (pe_before e)) (pe_during e)) (S n)).
      unfold pings. cbn [ko_push ko_result ko_pings length]. f_equal. lia.
    + destruct (or_else pd (pe_before e)) as [k|] eqn:E1.
      * cbn [or_else po_ret po_parent po_to po_dur]. unfold pings, classify. cbn [ko_result ko_pings length]. f_equal. lia.
      * cbn [or_else]. destruct (pe_during e) as [k|]; cbn [po_ret po_parent po_to po_dur]; unfold pings, classify;
          cbn [ko_result ko_pings length]; f_equal; lia.
Qed.

Theorem ka_env_meets_spec I T s : (ko_result (ka_env I T s), pings (ka_env I T s)) = spec_env I T s.
Proof.
  unfold ka_env, spec_env. destruct (I =? 0); [reflexivity|].
  rewrite <- (ka_loop_scan I T s 0 1 None O). reflexivity.
Qed.

(* the parent context stays done once it is done, so a cancelled loop can only go on while its
   pings keep returning nil: the first ping that fails ends it with the context's error *)
Lemma ka_loop_cancelled I T s : forall now nxt k,
  ko_parent (ka_loop I T now nxt (Some k) s) = Some k.
Proof.
  induction s as [|e r IH]; intros now nxt k; cbn [ka_loop]; [reflexivity|].
  assert (Hp : po_parent (ping_run T (Some k) e) = Some k).
  { unfold ping_run. cbn [or_else]. destruct (pe_beh e); reflexivity. }
  destruct (po_ret (ping_run T (Some k) e)).
  - cbn [ko_parent]. exact Hp.
  - cbn [ko_push ko_parent]. rewrite Hp. apply IH.
Qed.

(* ---------- one ping per tick ---------- *)
Fixpoint tick_times (I k : N) (n : nat) : list N :=
  match n with O => [] | S m => k * I :: tick_times I (k + 1) m end.

Lemma ka_loop_prompt I T ds s : 0 < I -> Forall (fun d => d <= I) ds -> forall now nxt pd,
  now <= nxt * I ->
  exists now', now' <= (nxt + N.of_nat (length ds)) * I /\
    ko_starts (ka_loop I T now nxt pd (map env_of (answered ds ++ s))) =
      tick_times I nxt (length ds) ++
      ko_starts (ka_loop I T now' (nxt + N.of_nat (length ds)) pd (map env_of s)).
Proof.
  intros HI Hds. induction Hds as [|d ds Hd Hds IH]; intros now nxt pd Hnow.
  - exists now. cbn [length N.of_nat answered map app tick_times]. rewrite N.add_0_r. split; [exact Hnow | reflexivity].
  - cbn [answered map app length env_of ka_loop ping_run pe_before pe_beh pe_during po_ret po_dur po_parent tick_times].
    fold (answered ds).
    replace (or_else (or_else pd None) None) with pd by (destruct pd; reflexivity).
    assert (Hmax : N.max now (nxt * I) = nxt * I) by lia. rewrite Hmax.
    assert (Hdiv : nxt * I / I = nxt) by (apply N.div_mul; lia). rewrite Hdiv.
    destruct (IH (nxt * I + d) (nxt + 1) pd) as (now' & Hn' & Heq); [lia|].
    exists now'. split; [lia|].
    unfold ko_starts in *. cbn [ko_push ko_pings map fst]. rewrite Heq.
    replace (nxt + 1 + N.of_nat (length ds)) with (nxt + N.of_nat (S (length ds))) by lia. reflexivity.
Qed.

(* while every response arrives within one interval, ping number j is sent exactly at j*interval,
   for every number of pings; the next ping (whatever happens to it) too *)
Theorem ping_per_tick I T ds o s : 0 < I -> Forall (fun d => d <= I) ds ->
  ko_starts (keepalive I T (answered ds)) = tick_times I 1 (length ds) /\
  firstn (S (length ds)) (ko_starts (keepalive I T (answered ds ++ o :: s))) = tick_times I 1 (S (length ds)).
Proof.
  intros HI Hds. unfold keepalive, ka_env. destruct (I =? 0) eqn:E; [lia|]. split.
  - destruct (ka_loop_prompt I T ds [] HI Hds 0 1 None) as (now' & _ & Heq); [lia|].
    rewrite app_nil_r in Heq. rewrite Heq. cbn. apply app_nil_r.
  - destruct (ka_loop_prompt I T ds (o :: s) HI Hds 0 1 None) as (now' & Hn & Heq); [lia|].
    rewrite Heq. clear Heq.
    assert (Hlen : forall k n, length (tick_times I k n) = n).
    { intros k n; revert k; induction n as [|n IHn]; intros k; cbn; [reflexivity | rewrite IHn; reflexivity]. }
    assert (Hsnoc : forall n k, tick_times I k (S n) = tick_times I k n ++ [(k + N.of_nat n) * I]).
    { induction n as [|n IHn]; intros k.
      - cbn. rewrite N.add_0_r. reflexivity.
      - change (tick_times I k (S (S n))) with (k * I :: tick_times I (k + 1) (S n)).
        rewrite IHn. cbn [tick_times app]. do 3 f_equal. lia. }
    rewrite Hsnoc.
    assert (Hhd : exists rest, ko_starts (ka_loop I T now' (1 + N.of_nat (length ds)) None (map env_of (o :: s)))
                    = (1 + N.of_nat (length ds)) * I :: rest).
    { cbn [map ka_loop]. assert (Hmax : N.max now' ((1 + N.of_nat (length ds)) * I) = (1 + N.of_nat (length ds)) * I) by lia.
      rewrite Hmax. destruct (po_ret (ping_run T None (env_of o))); unfold ko_starts; cbn [ko_push ko_pings map fst]; eexists; reflexivity. }
    destruct Hhd as (rest & ->).
    replace (S (length ds)) with (length (tick_times I 1 (length ds)) + 1)%nat by (rewrite Hlen; lia).
    rewrite firstn_app_2. cbn [firstn]. reflexivity.
Qed.

Lemma tick_times_nth I n : forall k j, (j < n)%nat -> nth_error (tick_times I k n) j = Some ((k + N.of_nat j) * I).
Proof.
  induction n as [|n IH]; intros k j Hj; [lia|]. cbn [tick_times]. destruct j as [|j]; cbn [nth_error].
  - f_equal. lia.
  - rewrite IH by lia. f_equal. lia.
Qed.

(* the ticker is anchored: as long as each response arrives within one interval, ping number j
   is sent at j*I whatever the response delays are, so the period between any two pings is an
   exact multiple of I — it does not drift with the round-trip time *)
Theorem ping_period_independent_of_delay I T ds : 0 < I -> Forall (fun d => d <= I) ds ->
  (forall j, (j < length ds)%nat ->
     nth_error (ko_starts (keepalive I T (answered ds))) j = Some (N.of_nat (S j) * I)) /\
  (forall j k tj tk, (j <= k)%nat ->
     nth_error (ko_starts (keepalive I T (answered ds))) j = Some tj ->
     nth_error (ko_starts (keepalive I T (answered ds))) k = Some tk ->
     tk - tj = N.of_nat (k - j) * I).
Proof.
  intros HI Hds.
  destruct (ping_per_tick I T ds (Answered 0) [] HI Hds) as (H & _).
  assert (A : forall j, (j < length ds)%nat ->
     nth_error (ko_starts (keepalive I T (answered ds))) j = Some (N.of_nat (S j) * I)).
  { intros j Hj. rewrite H, tick_times_nth by exact Hj. f_equal. lia. }
  split; [exact A|].
  intros j k tj tk Hjk Hj Hk.
  assert (L : forall k0 n, length (tick_times I k0 n) = n).
  { intros k0 n; revert k0; induction n as [|n IHn]; intros k0; cbn; [reflexivity | rewrite IHn; reflexivity]. }
  assert (Lk' : (k < length ds)%nat).
  { assert (Hs : nth_error (ko_starts (keepalive I T (answered ds))) k <> None) by (rewrite Hk; discriminate).
    apply nth_error_Some in Hs. rewrite H, L in Hs. exact Hs. }
  rewrite (A j) in Hj by lia. rewrite (A k) in Hk by lia.
  injection Hj as <-. injection Hk as <-. nia.
Qed.

(* in every run, whatever the pings do: ping number j (from 1) is not sent before j*interval,
   and a ping is sent at most one interval after the previous one returned *)
Lemma ka_loop_lower I T s : 0 < I -> forall now nxt pd j t,
  nth_error (ko_starts (ka_loop I T now nxt pd s)) j = Some t -> (nxt + N.of_nat j) * I <= t.
Proof.
  intros HI. induction s as [|e r IH]; intros now nxt pd j t; cbn [ka_loop].
  - unfold ko_starts. cbn. destruct j; discriminate.
  - assert (Hs : nxt * I <= N.max now (nxt * I)) by lia.
    assert (Hq : nxt <= N.max now (nxt * I) / I).
    { apply N.div_le_lower_bound; lia. }
    destruct (po_ret (ping_run T pd e)).
    + unfold ko_starts. cbn [ko_pings map fst]. destruct j as [|j]; cbn [nth_error].
      * intros [= <-]. lia.
      * destruct j; discriminate.
    + unfold ko_starts. cbn [ko_push ko_pings map fst]. destruct j as [|j]; cbn [nth_error].
      * intros [= <-]. lia.
      * intros H. apply IH in H. nia.
Qed.

Theorem no_ping_before_its_tick I T s j t : 0 < I ->
  nth_error (ko_starts (ka_env I T s)) j = Some t -> N.of_nat (S j) * I <= t.
Proof.
  intros HI. unfold ka_env. destruct (I =? 0) eqn:E; [lia|]. intros H.
  apply (ka_loop_lower I T s HI) in H. lia.
Qed.

Fixpoint gaps_ok (I : N) (l : list (N * N)) : Prop :=
  match l with
  | (t1, d1) :: (((t2, _) :: _) as r) => t1 + d1 <= t2 /\ t2 <= t1 + d1 + I /\ gaps_ok I r
  | _ => True
  end.

Lemma ka_loop_gaps I T s : 0 < I -> forall now nxt pd,
  gaps_ok I (ko_pings (ka_loop I T now nxt pd s)) /\
  match ko_pings (ka_loop I T now nxt pd s) with
  | (t, _) :: _ => t = N.max now (nxt * I)
  | [] => True
  end.
Proof.
  intros HI. induction s as [|e r IH]; intros now nxt pd; cbn [ka_loop].
  - cbn. split; exact Logic.I.
  - destruct (po_ret (ping_run T pd e)).
    + cbn. split; [exact Logic.I | reflexivity].
    + cbn [ko_push ko_pings].
      specialize (IH (N.max now (nxt * I) + po_dur (ping_run T pd e)) (N.max now (nxt * I) / I + 1) (po_parent (ping_run T pd e))).
      destruct IH as (Hg & Hh). split; [|reflexivity].
      destruct (ko_pings (ka_loop I T (N.max now (nxt * I) + po_dur (ping_run T pd e)) (N.max now (nxt * I) / I + 1)
                            (po_parent (ping_run T pd e)) r)) as [|[t2 d2] rest] eqn:Ep.
      * cbn. exact Logic.I.
      * cbn [gaps_ok]. split; [|split; [|exact Hg]]; subst t2.
        -- lia.
        -- set (st := N.max now (nxt * I)).
           assert (Hm : (st / I + 1) * I <= st + I).
           { pose proof (N.mul_div_le st I). nia. }
           lia.
Qed.

Theorem next_ping_within_interval I T s : 0 < I -> gaps_ok I (ko_pings (ka_env I T s)).
Proof.
  intros HI. unfold ka_env. destruct (I =? 0) eqn:E; [lia|]. apply ka_loop_gaps. exact HI.
Qed.

(* elapsed time when a timeout is reported after n answered pings: at least (n+1) intervals and
   one timeout *)
Lemma ka_loop_end_lower I T s : forall now nxt pd,
  now <= ko_end (ka_loop I T now nxt pd s) /\
  match rev (ko_pings (ka_loop I T now nxt pd s)) with
  | (t, d) :: _ => ko_end (ka_loop I T now nxt pd s) = t + d
  | [] => True
  end.
Proof.
  induction s as [|e r IH]; intros now nxt pd; cbn [ka_loop].
  - cbn. split; [lia | exact Logic.I].
  - destruct (po_ret (ping_run T pd e)).
    + cbn. split; [lia | reflexivity].
    + cbn [ko_push ko_pings ko_end].
      specialize (IH (N.max now (nxt * I) + po_dur (ping_run T pd e)) (N.max now (nxt * I) / I + 1) (po_parent (ping_run T pd e))).
      destruct IH as (H1 & H2). split; [lia|].
      cbn [rev].
      destruct (rev (ko_pings (ka_loop I T (N.max now (nxt * I) + po_dur (ping_run T pd e)) (N.max now (nxt * I) / I + 1)
                                 (po_parent (ping_run T pd e)) r))) as [|[t d] rest] eqn:Er.
      * cbn [app]. apply (f_equal (@rev _)) in Er. rewrite rev_involutive in Er. cbn in Er.
        (* no further ping: the script ended here *)
        destruct r as [|e' r']; [cbn; reflexivity|].
        exfalso. cbn [ka_loop] in Er. destruct (po_ret _) in Er; cbn in Er; discriminate.
      * cbn [app]. exact H2.
Qed.

Theorem timeout_elapsed I T ds s : 0 < I ->
  (N.of_nat (S (length ds))) * I + T <= ko_end (keepalive I T (answered ds ++ Never :: s)).
Proof.
  intros HI.
  pose proof (timeout_reported I T ds s HI) as (Hr & Hp).
  unfold keepalive in *. rewrite map_app in *. cbn [map env_of] in *.
  pose proof (timeout_only_if_silent I T _ HI Hr) as (_ & pre & t & d & Hpre & Hd).
  assert (Hj : nth_error (ko_starts (ka_env I T (map env_of (answered ds) ++ mk_env None (PBlock blocked_err) None :: map env_of s))) (length ds) = Some t).
  { unfold ko_starts. rewrite Hpre. unfold pings in Hp. rewrite Hpre, app_length in Hp. cbn in Hp.
    rewrite map_app. rewrite nth_error_app2; rewrite map_length; [|lia].
    replace (length ds - length pre)%nat with O by lia. reflexivity. }
  apply (no_ping_before_its_tick I T _ _ _ HI) in Hj.
  unfold ka_env in *. destruct (I =? 0) eqn:E; [lia|].
  destruct (ka_loop_end_lower I T (map env_of (answered ds) ++ mk_env None (PBlock blocked_err) None :: map env_of s) 0 1 None) as (_ & He).
  rewrite Hpre, rev_app_distr in He. cbn in He. lia.
Qed.

(* ---------- the reconnecting client's reaction ---------- *)
Definition fresh (st : clients) (i : nat) : Prop := cs_err (st i) = None /\ cs_closed (st i) = false.

Lemma upd_same i c st : upd i c st i = c.
Proof. unfold upd. rewrite Nat.eqb_refl. reflexivity. Qed.
Lemma upd_other i j c st : j <> i -> upd i c st j = st j.
Proof. intros H. unfold upd. destruct (Nat.eqb j i) eqn:E; [apply Nat.eqb_eq in E; contradiction | reflexivity]. Qed.

(* a result reported while the keep-alive context is alive: the error is stored on THAT
   client (and is the one Err() reports), its transport is closed, every other client is left
   alone, and the reconnect loop dials again *)
Lemma react_live me o e st : ko_result o = KA_returned e -> ko_parent o = None -> fresh st me ->
  let st' := ka_react me o false false st in
  cs_err (st' me) = Some e /\ cs_closed (st' me) = true /\ (forall j, j <> me -> st' j = st j) /\
  loop_react me st' = LRedial.
Proof.
  intros Hr Hp (He & Hc). cbn zeta. unfold ka_react. rewrite Hr, Hp. cbn [is_some orb].
  unfold close_cli, set_error_once, loop_react. rewrite He. rewrite !upd_same. cbn [cs_err cs_closed].
  repeat split. intros j Hj. rewrite !upd_other by exact Hj. reflexivity.
Qed.

(* keep-alive context cancelled (before KeepAlive returned, or just after), or Disconnect
   requested: nothing is stored, nothing is closed, on no client *)
Lemma react_cancelled me o late disc st :
  is_some (ko_parent o) || late || disc = true -> ka_react me o late disc st = st.
Proof. intros H. unfold ka_react. destruct (ko_result o); try reflexivity. rewrite H. reflexivity. Qed.

Theorem reconnects_on_timeout I T ds s me st : 0 < I -> fresh st me ->
  exists o, rc_keepalive I T (answered ds ++ Never :: s) = Some o /\
  let st' := ka_react me o false false st in
  cs_err (st' me) = Some EPingTimeout /\ cs_closed (st' me) = true /\
  (forall j, j <> me -> st' j = st j) /\ loop_react me st' = LRedial.
Proof.
  intros HI Hf. unfold rc_keepalive. destruct (0 <? I) eqn:E; [|lia].
  eexists; split; [reflexivity|].
  destruct (timeout_reported I T ds s HI) as (Hr & _).
  apply react_live; [exact Hr | | exact Hf].
  unfold keepalive in *. apply (timeout_only_if_silent I T _ HI Hr).
Qed.

Theorem cancelled_keepalive_stores_nothing I T ds k o s me late disc st : 0 < I ->
  o = ParentCancelledBefore k \/ o = ParentCancelledDuring k ->
  exists out, rc_keepalive I T (answered ds ++ o :: s) = Some out /\ ka_react me out late disc st = st.
Proof.
  intros HI Ho. unfold rc_keepalive. destruct (0 <? I) eqn:E; [|lia].
  eexists; split; [reflexivity|].
  destruct (cancel_wins I T ds k s o HI Ho) as (Hr & _).
  apply react_cancelled.
  unfold keepalive in *. unfold ka_env in *. destruct (I =? 0) eqn:E0; [lia|].
  destruct (ka_loop_classes I T (map env_of (answered ds ++ o :: s)) 0 1 None) as (_ & _ & H3 & _).
  rewrite (H3 k Hr). reflexivity.
Qed.

(* a result that the loop no longer wants (context cancelled in the window after KeepAlive
   returned, or a Disconnect in progress): ignored as well *)
Theorem late_cancel_ignored me o late disc st : late || disc = true -> ka_react me o late disc st = st.
Proof.
  intros H. apply react_cancelled. destruct (is_some (ko_parent o)); cbn [orb]; [reflexivity | exact H].
Qed.

(* the reaction writes nothing: it reaches the same state whether or not the peer still takes
   bytes — a peer that is silent because it is hung is closed and replaced all the same *)
Theorem reaction_independent_of_peer accepts me o late disc st :
  run_ops accepts me (react_ops o late disc) st = Some (ka_react me o late disc st) /\
  existsb op_is_write (react_ops o late disc) = false.
Proof.
  unfold react_ops, ka_react. destruct (ko_result o) as [|e|]; try (split; reflexivity).
  destruct (is_some (ko_parent o) || late || disc); split; reflexivity.
Qed.

(* what it excludes: a reaction that first writes a packet (say DISCONNECT, 0xE0) never closes
   the connection of a peer that has stopped reading *)
Example ex_write_before_close_hangs :
  run_ops false 1%nat [OpSetError EPingTimeout; OpWrite 224; OpClose] (fun _ => mk_cli None false) = None.
Proof. reflexivity. Qed.

(* the keep-alive goroutine is never started with an interval NewTicker would reject *)
Theorem rc_keepalive_no_panic I T s o : rc_keepalive I T s = Some o -> ko_result o <> KA_panic.
Proof.
  unfold rc_keepalive. destruct (0 <? I) eqn:E; [|discriminate]. intros [= <-].
  unfold keepalive, ka_env. destruct (I =? 0) eqn:E0; [lia|].
  apply (ka_loop_classes I T (map env_of s) 0 1 None).
Qed.

Theorem nonpositive_interval_panics T s : ko_result (ka_env 0 T s) = KA_panic.
Proof. reflexivity. Qed.

(* ---------- which duration is the interval and which the timeout ---------- *)
(* The reconnecting client's keep-alive pings every PingInterval and allows Timeout for each
   answer: a peer that answers every ping within Timeout (however much longer than PingInterval
   that is) is never dropped, for any number of pings; ping j is not sent before
   j*PingInterval, the first one exactly then; a peer that needs Timeout or longer is reported. *)
Theorem reconnect_interval_then_timeout o ds : 0 < ro_ping_interval o ->
  let I := ro_ping_interval o in let T := ro_timeout o in
  rc_keepalive_peer o (map Some ds) = Some (keepalive I T (map (peer_outcome T) (map Some ds))) /\
  (Forall (fun d => d < T) ds ->
     forall out, rc_keepalive_peer o (map Some ds) = Some out ->
     ko_result out = KA_running /\ pings out = length ds /\
     (forall j t, nth_error (ko_starts out) j = Some t -> N.of_nat (S j) * I <= t) /\
     (ds <> [] -> nth_error (ko_starts out) 0 = Some I)) /\
  (forall pre d post, Forall (fun d => d < T) pre -> T <= d ->
     forall out, rc_keepalive_peer o (map Some (pre ++ d :: post)) = Some out ->
     ko_result out = KA_returned EPingTimeout /\ pings out = S (length pre)).
Proof.
  intros HI. cbn zeta. unfold rc_keepalive_peer, rc_keepalive.
  destruct (0 <? ro_ping_interval o) eqn:E; [|lia]. split; [reflexivity|]. split.
  - intros Hds out [= <-].
    assert (Hm : map (peer_outcome (ro_timeout o)) (map Some ds) = answered ds).
    { induction Hds as [|d ds Hd Hds IH]; cbn [map answered]; [reflexivity|].
      fold (answered ds). rewrite IH. unfold peer_outcome. destruct (d <? ro_timeout o) eqn:Ed; [reflexivity | lia]. }
    rewrite Hm. destruct (never_returns_while_answered (ro_ping_interval o) (ro_timeout o) ds HI) as (H1 & H2).
    repeat split; [exact H1 | exact H2 | |].
    + intros j t. unfold keepalive. apply no_ping_before_its_tick. exact HI.
    + intros Hne. destruct ds as [|d ds]; [contradiction|].
      unfold keepalive, ka_env. destruct (ro_ping_interval o =? 0) eqn:E0; [lia|].
      cbn [answered map env_of ka_loop ping_run pe_beh pe_before pe_during po_ret]. unfold ko_starts.
      cbn [ko_push ko_pings map fst nth_error]. f_equal. lia.
  - intros pre d post Hpre Hd out [= <-].
    assert (Hm : map (peer_outcome (ro_timeout o)) (map Some (pre ++ d :: post))
                 = answered pre ++ Never :: map (peer_outcome (ro_timeout o)) (map Some post)).
    { rewrite !map_app. cbn [map]. f_equal.
      - induction Hpre as [|x pre Hx Hpre IH]; cbn [map answered]; [reflexivity|].
        fold (answered pre). rewrite IH. unfold peer_outcome. destruct (x <? ro_timeout o) eqn:Ex; [reflexivity | lia].
      - unfold peer_outcome at 1. destruct (d <? ro_timeout o) eqn:Ed; [lia | reflexivity]. }
    rewrite Hm. apply timeout_reported. exact HI.
Qed.

(* the documented defaulting rule (reconnclient.go:70-75; 0 = option not given): PingInterval
   defaults to the CONNECT keep-alive, Timeout defaults to PINGINTERVAL (not to the keep-alive) *)
Theorem rc_effective_rule p t ka :
  ro_ping_interval (rc_effective (mk_ro p t) ka) = (if p =? 0 then ka else p) /\
  ro_timeout (rc_effective (mk_ro p t) ka) = (if t =? 0 then (if p =? 0 then ka else p) else t) /\
  (0 < p -> t = 0 -> rc_effective (mk_ro p t) ka = mk_ro p p).
Proof.
  unfold rc_effective. cbn [ro_ping_interval ro_timeout]. repeat split.
  intros Hp ->. destruct (p =? 0) eqn:E; [lia | reflexivity].
Qed.

(* hence: only a ping interval configured (keep-alive absent or much longer): a peer answering
   within that interval is kept for any number of pings, and a silent one is reported with the
   timeout p, i.e. not before and (in the model) exactly at 2p after the connection *)
Theorem reconnect_timeout_defaults_to_interval p ka ds : 0 < p ->
  let o := rc_effective (mk_ro p 0) ka in
  (Forall (fun d => d < p) ds -> forall out, rc_keepalive_peer o (map Some ds) = Some out ->
     ko_result out = KA_running /\ pings out = length ds) /\
  (forall out, rc_keepalive_peer o [None] = Some out ->
     ko_result out = KA_returned EPingTimeout /\ ko_end out = p + p).
Proof.
  intros Hp. cbn zeta.
  destruct (rc_effective_rule p 0 ka) as (_ & _ & E). rewrite (E Hp eq_refl). split.
  - intros Hds out Ho.
    destruct (reconnect_interval_then_timeout (mk_ro p p) ds Hp) as (_ & H & _).
    destruct (H Hds out Ho) as (H1 & H2 & _). split; assumption.
  - intros out. unfold rc_keepalive_peer, rc_keepalive, keepalive, ka_env. cbn [ro_ping_interval ro_timeout].
    destruct (0 <? p) eqn:E1; [|lia]. destruct (p =? 0) eqn:E2; [lia|]. intros [= <-].
    cbn [map peer_outcome env_of ka_loop ping_run pe_before pe_beh pe_during or_else po_ret po_dur po_parent po_to classify
         ko_result ko_end]. split; [reflexivity | lia].
Qed.

(* the defaults (reconnclient.go:70-75) *)
Lemma rc_effective_defaults ka : rc_effective (mk_ro 0 0) ka = mk_ro ka ka.
Proof. unfold rc_effective. cbn. destruct (ka =? 0) eqn:E; [apply N.eqb_eq in E; subst; reflexivity | reflexivity]. Qed.

(* non-vacuity, and what the argument order excludes: interval 30, timeout 2000, a peer that
   answers after 200: kept; with the two durations swapped it is dropped at its first ping,
   which moreover goes out at 2000 instead of 30 *)
Example ex_slow_peer_kept :
  option_map ko_result (rc_keepalive_peer (mk_ro 30 2000) (map Some [200; 200; 200])) = Some KA_running /\
  option_map ko_starts (rc_keepalive_peer (mk_ro 30 2000) (map Some [200; 200; 200])) = Some [30; 230; 430] /\
  option_map ko_result (rc_keepalive_peer (mk_ro 2000 30) (map Some [200; 200; 200])) = Some (KA_returned EPingTimeout) /\
  option_map ko_starts (rc_keepalive_peer (mk_ro 2000 30) (map Some [200; 200; 200])) = Some [2000].
Proof. vm_compute. repeat split; reflexivity. Qed.

(* ---------- the caller's Connect context and the keep-alive context ---------- *)
Lemma conn_script_background cc peer : forall j, conn_script_from CtxBackground cc j peer = map env_of peer.
Proof. induction peer as [|o r IH]; intros j; cbn [conn_script_from map]; [reflexivity | rewrite IH; reflexivity]. Qed.

(* whenever and however the caller ends the context it passed to Connect (after Connect
   succeeded), the keep-alive of the connection, the first one included, runs as if it had not *)
Theorem caller_cancel_after_connect_irrelevant I T cc peer : 0 < I ->
  rc_conn_keepalive I T cc peer = rc_keepalive I T peer.
Proof.
  intros HI. unfold rc_conn_keepalive, rc_keepalive, ka_parent_ctx, after_connect_success, keepalive.
  rewrite conn_script_background. reflexivity.
Qed.

(* non-vacuity / what the statement excludes: were the keep-alive context a child of the
   caller's context, cancelling it would stop the keep-alive silently and a silent peer would
   go undetected *)
Example ex_keepalive_under_caller_ctx :
  let o := ka_env 1000 5000 (conn_script_from CtxCaller (fun _ => Some Canceled) O [Answered 0; Never]) in
  ko_result o = KA_returned (ECtx Canceled) /\
  ka_react 1%nat o false false (fun _ => mk_cli None false) 1%nat = mk_cli None false.
Proof. vm_compute. split; reflexivity. Qed.

(* ---------- the PINGRESP slot ---------- *)
Definition slot_after (st : slot_st) (es : list slot_ev) : slot_st :=
  fold_left (fun s e => fst (slot_step s e)) es st.

Lemma slot_run_app st a b : slot_run st (a ++ b) = slot_run st a ++ slot_run (slot_after st a) b.
Proof.
  unfold slot_after. revert st; induction a as [|e a IH]; intros st; cbn [app slot_run fold_left]; [reflexivity|].
  destruct (slot_step st e) as [st' out] eqn:E. cbn [fst]. rewrite IH, app_assoc. reflexivity.
Qed.

Lemma slot_after_app st a b : slot_after st (a ++ b) = slot_after (slot_after st a) b.
Proof. unfold slot_after. apply fold_left_app. Qed.

(* PINGRESPs that arrive while no Ping waits produce nothing and leave nobody waiting *)
Lemma slot_idle_resps u : forall st, sl_wait st = false ->
  slot_run st (repeat SResp u) = [] /\ sl_wait (slot_after st (repeat SResp u)) = false.
Proof.
  unfold slot_after.
  induction u as [|u IH]; intros st Hw; cbn [repeat slot_run fold_left]; [split; [reflexivity | exact Hw]|].
  unfold slot_step at 1 3. destruct (sl_chan st) as [[|]|]; cbn [fst app]; try (apply IH; exact Hw).
  rewrite Hw. cbn [fst app]. apply IH. reflexivity.
Qed.

(* ... and after the channel was installed, the first of them fills it *)
Lemma slot_fill z : forall st, sl_chan st = Some false -> sl_wait st = false ->
  slot_run st (repeat SResp z) = [] /\
  slot_after st (repeat SResp z) = mk_slot (Some (negb (Nat.eqb z 0))) false.
Proof.
  destruct z as [|z]; intros [c w] Hc Hw; cbn [sl_chan sl_wait] in *; subst.
  - cbn. split; reflexivity.
  - cbn [repeat slot_run slot_step sl_chan sl_wait app]. unfold slot_after. cbn [fold_left slot_step sl_chan sl_wait fst].
    split.
    + apply (slot_idle_resps z (mk_slot (Some true) false) eq_refl).
    + clear. induction z as [|z IH]; cbn [repeat fold_left slot_step sl_chan fst]; [reflexivity | exact IH].
Qed.

(* one ping: whatever the slot held before, the Ping is answered iff a PINGRESP is dispatched
   after its PINGREQ was handed to the transport — before or after the Ping reaches its select *)
Lemma slot_one_ping uzr : forall st, sl_wait st = false ->
  slot_run st (ping_events uzr) = [if peer_answers uzr then SAnswered else SGaveUp] /\
  sl_wait (slot_after st (ping_events uzr)) = false.
Proof.
  destruct uzr as [[u z] r]. intros st Hw. unfold ping_events, peer_answers.
  destruct (slot_idle_resps u st Hw) as (H1 & H2).
  rewrite slot_run_app, H1, slot_after_app. cbn [app].
  set (st1 := slot_after st (repeat SResp u)) in *.
  change (SInstall :: SWrite :: repeat SResp z ++ SSelect :: match (z + r)%nat with O => [SGiveUp] | S _ => repeat SResp r end)
    with ([SInstall; SWrite] ++ repeat SResp z ++ SSelect :: match (z + r)%nat with O => [SGiveUp] | S _ => repeat SResp r end).
  rewrite slot_run_app, slot_after_app.
  assert (E2 : slot_after st1 [SInstall; SWrite] = mk_slot (Some false) false) by reflexivity.
  assert (R2 : slot_run st1 [SInstall; SWrite] = []) by reflexivity.
  rewrite E2, R2. cbn [app].
  destruct (slot_fill z (mk_slot (Some false) false) eq_refl eq_refl) as (F1 & F2).
  rewrite slot_run_app, slot_after_app, F1, F2. cbn [app].
  destruct z as [|z].
  - cbn [Nat.eqb negb plus]. cbn [slot_run slot_step sl_chan sl_wait app].
    unfold slot_after at 1. cbn [fold_left slot_step sl_chan sl_wait fst].
    destruct r as [|r].
    + cbn. split; reflexivity.
    + cbn [Nat.eqb negb repeat slot_run slot_step sl_chan sl_wait app].
      unfold slot_after. cbn [fold_left slot_step sl_chan sl_wait fst].
      destruct (slot_idle_resps r (mk_slot (Some false) false) eq_refl) as (G1 & G2).
      rewrite G1. split; [reflexivity | exact G2].
  - cbn [Nat.eqb negb plus]. cbn [slot_run slot_step sl_chan sl_wait app].
    unfold slot_after at 1. cbn [fold_left slot_step sl_chan sl_wait fst].
    destruct (slot_idle_resps r (mk_slot (Some false) false) eq_refl) as (G1 & G2).
    rewrite G1. split; [reflexivity | exact G2].
Qed.

Lemma slot_pings uzrs : forall st, sl_wait st = false ->
  slot_run st (flat_map ping_events uzrs) = map (fun x => if peer_answers x then SAnswered else SGaveUp) uzrs.
Proof.
  induction uzrs as [|x uzrs IH]; intros st Hw; cbn [flat_map map]; [reflexivity|].
  destruct (slot_one_ping x st Hw) as (H1 & H2).
  rewrite slot_run_app, H1. cbn [app]. f_equal. apply IH. exact H2.
Qed.

Lemma wire_outcomes_eq uzrs :
  wire_outcomes uzrs = map (fun x => if peer_answers x then Answered 0 else Never) uzrs.
Proof.
  unfold wire_outcomes. rewrite (slot_pings uzrs slot_init eq_refl), map_map.
  apply map_ext. intros x. destruct (peer_answers x); reflexivity.
Qed.

Lemma wire_outcomes_answered pre : Forall (fun x => peer_answers x = true) pre ->
  wire_outcomes pre = answered (repeat 0 (length pre)).
Proof.
  intros H. rewrite wire_outcomes_eq.
  induction H as [|x pre Hx Hpre IH]; cbn [map length repeat answered]; [reflexivity|].
  fold (answered (repeat 0 (length pre))). rewrite IH, Hx. reflexivity.
Qed.

Lemma wire_outcomes_app a b : wire_outcomes (a ++ b) = wire_outcomes a ++ wire_outcomes b.
Proof. rewrite !wire_outcomes_eq. apply map_app. Qed.

(* surplus PINGRESPs (unsolicited ones between pings, duplicates of an answer) are inert: each
   ping is answered iff the peer answered THAT ping; so a peer that answered n pings (however
   many times each, with however many unsolicited PINGRESPs in between) and then stays silent is
   reported after exactly n+1 PINGREQs *)
Theorem stale_pingresp_inert I T pre u post : 0 < I ->
  Forall (fun x => peer_answers x = true) pre ->
  wire_outcomes (pre ++ (u, O, O) :: post) = answered (repeat 0 (length pre)) ++ Never :: wire_outcomes post /\
  ko_result (keepalive I T (wire_outcomes (pre ++ (u, O, O) :: post))) = KA_returned EPingTimeout /\
  pings (keepalive I T (wire_outcomes (pre ++ (u, O, O) :: post))) = S (length pre).
Proof.
  intros HI Hpre.
  assert (E : wire_outcomes (pre ++ (u, O, O) :: post) = answered (repeat 0 (length pre)) ++ Never :: wire_outcomes post).
  { rewrite wire_outcomes_app, (wire_outcomes_answered pre Hpre). f_equal.
    change ((u, O, O) :: post) with ([(u, O, O)] ++ post). rewrite wire_outcomes_app, (wire_outcomes_eq [(u, O, O)]). reflexivity. }
  split; [exact E|]. rewrite E.
  destruct (timeout_reported I T (repeat 0 (length pre)) (wire_outcomes post) HI) as (H1 & H2).
  rewrite repeat_length in H2. split; assumption.
Qed.

(* a PINGRESP dispatched at ANY time after the PINGREQ was handed to the transport answers the
   ping, a zero-delay one (dispatched before the Ping reaches its select) included: whatever the
   slot held, a ping with z + r >= 1 responses is answered; so the loop keeps running through
   any number of pings answered with zero delay *)
Theorem zero_delay_pingresp_answers I T uzrs : 0 < I ->
  (forall st u z r, sl_wait st = false -> (0 < z + r)%nat -> slot_run st (ping_events (u, z, r)) = [SAnswered]) /\
  (Forall (fun x => peer_answers x = true) uzrs ->
   ko_result (keepalive I T (wire_outcomes uzrs)) = KA_running /\
   pings (keepalive I T (wire_outcomes uzrs)) = length uzrs).
Proof.
  intros HI. split.
  - intros st u z r Hw Hzr. destruct (slot_one_ping (u, z, r) st Hw) as (H & _). rewrite H.
    unfold peer_answers. destruct (z + r)%nat eqn:E; [lia | reflexivity].
  - intros H. rewrite (wire_outcomes_answered uzrs H).
    destruct (never_returns_while_answered I T (repeat 0 (length uzrs)) HI) as (H1 & H2).
    rewrite repeat_length in H2. split; assumption.
Qed.

Example ex_duplicate_then_silent : (* ping 1 answered twice, an unsolicited PINGRESP, then silence *)
  wire_outcomes [(O, O, 2%nat); (1%nat, O, O)] = [Answered 0; Never]
  /\ pings (keepalive 1000 5000 (wire_outcomes [(O, O, 2%nat); (1%nat, O, O)])) = 2%nat.
Proof. vm_compute. split; reflexivity. Qed.

Example ex_zero_delay : wire_outcomes [(O, 1%nat, O); (O, 1%nat, O); (O, O, O)] = [Answered 0; Answered 0; Never].
Proof. vm_compute. reflexivity. Qed.

(* what the order install-before-write excludes: were the channel installed after the write, a
   zero-delay PINGRESP would be dropped (first ping) or parked in the previous ping's channel,
   and the answered ping would give up *)
Example ex_install_after_write_loses_response :
  slot_run slot_init [SWrite; SResp; SInstall; SSelect; SGiveUp] = [SGaveUp] /\
  slot_run (mk_slot (Some false) false) [SWrite; SResp; SInstall; SSelect; SGiveUp] = [SGaveUp].
Proof. vm_compute. split; reflexivity. Qed.

(* ---------- only a PINGRESP completes a ping ---------- *)
(* whatever else the reader handles, at any point: the ping waiter's results are those of the
   same history with all other packets removed *)
Theorem other_packets_ignored es : forall st,
  slot_run st es = slot_run st (filter (fun e => negb (is_other e)) es).
Proof.
  induction es as [|e es IH]; intros st; [reflexivity|].
  destruct e; cbn [filter is_other negb]; try (cbn [slot_run]; destruct (slot_step st _) as [st' out]; rewrite IH; reflexivity).
  cbn [slot_run slot_step app]. apply IH.
Qed.

Lemma filter_repeat_other o : filter (fun e => negb (is_other e)) (repeat SOther o) = [].
Proof. induction o as [|o IH]; [reflexivity | exact IH]. Qed.

Lemma filter_repeat_resp n : filter (fun e => negb (is_other e)) (repeat SResp n) = repeat SResp n.
Proof. induction n as [|n IH]; [reflexivity | cbn [repeat filter is_other negb]; rewrite IH; reflexivity]. Qed.

Lemma ping_events_talk_filter u z r o :
  filter (fun e => negb (is_other e)) (ping_events_talk (u, z, r, o)) = ping_events (u, z, r).
Proof.
  unfold ping_events_talk, ping_events.
  rewrite filter_app, filter_repeat_resp. cbn [filter is_other negb].
  rewrite filter_app, filter_repeat_other, filter_app, filter_repeat_resp. cbn [app filter is_other negb].
  rewrite filter_app, filter_repeat_other. cbn [app].
  destruct (z + r)%nat; [reflexivity | rewrite filter_repeat_resp; reflexivity].
Qed.

Lemma wire_outcomes_talk_eq xs : wire_outcomes_talk xs = wire_outcomes (map fst xs).
Proof.
  unfold wire_outcomes_talk, wire_outcomes. rewrite other_packets_ignored. f_equal. f_equal.
  induction xs as [|[[[u z] r] o] xs IH]; [reflexivity|].
  cbn [flat_map map fst]. rewrite filter_app, ping_events_talk_filter, IH. reflexivity.
Qed.

(* a peer that is mute to pings but otherwise talking (any number of PUBLISH / PUBREL / acks after
   every PINGREQ) is reported exactly like a fully silent one: after n answered pings,
   ErrPingTimeout at PINGREQ n+1 *)
Theorem only_pingresp_completes_ping I T pre u o post : 0 < I ->
  Forall (fun x => peer_answers (fst x) = true) pre ->
  wire_outcomes_talk (pre ++ (u, O, O, o) :: post) =
    answered (repeat 0 (length pre)) ++ Never :: wire_outcomes_talk post /\
  ko_result (keepalive I T (wire_outcomes_talk (pre ++ (u, O, O, o) :: post))) = KA_returned EPingTimeout /\
  pings (keepalive I T (wire_outcomes_talk (pre ++ (u, O, O, o) :: post))) = S (length pre).
Proof.
  intros HI Hpre.
  assert (Hpre' : Forall (fun x => peer_answers x = true) (map fst pre)).
  { induction Hpre as [|x pre Hx Hpre IH]; cbn [map]; constructor; assumption. }
  destruct (stale_pingresp_inert I T (map fst pre) u (map fst post) HI Hpre') as (E & H1 & H2).
  rewrite !wire_outcomes_talk_eq, map_app. cbn [map fst]. rewrite map_length in *.
  repeat split; assumption.
Qed.

Example ex_talking_but_mute :
  wire_outcomes_talk [(O, O, 1%nat, 2%nat); (O, O, O, 9%nat); (O, O, 1%nat, O)] = [Answered 0; Never; Answered 0].
Proof. vm_compute. reflexivity. Qed.

(* ---------- the keep-alive's deadline is Timeout only ---------- *)
Theorem keepalive_ignores_response_timeout o rt delays :
  rc_keepalive_cfg o rt delays = rc_keepalive_peer o delays.
Proof. reflexivity. Qed.

(* what pinging through the RetryClient would do: ResponseTimeout 50, Timeout 3000, a peer that
   answers after 200 is treated as silent *)
Example ex_ping_via_retry_client :
  peer_outcome (ping_deadline PingRetryClient 3000 50) (Some 200) = Never /\
  peer_outcome (ping_deadline rc_pinger 3000 50) (Some 200) = Answered 200.
Proof. vm_compute. split; reflexivity. Qed.

(* ---------- the model's times are lower bounds ---------- *)
(* An execution with arbitrary extra latencies in every iteration: [l0] between the moment the
   tick is due and the moment the loop receives it, [l1] between that and the start of the Ping
   call, [l2] added to the ping's duration (including the time to get back to <-ticker.C). *)
Fixpoint ka_loop_lat (I T now nxt : N) (pd : option ctx_err) (s : list (ping_env * (N * N * N))) : ka_out :=
  match s with
  | [] => mk_out [] KA_running now pd
  | (e, (l0, l1, l2)) :: r =>
      let tick := N.max now (nxt * I) + l0 in
      let start := tick + l1 in
      let o := ping_run T pd e in
      let fin := start + po_dur o + l2 in
      match po_ret o with
      | None => ko_push (start, po_dur o + l2) (ka_loop_lat I T fin (tick / I + 1) (po_parent o) r)
      | Some err => mk_out [(start, po_dur o + l2)] (KA_returned (classify (po_parent o) (po_to o) err)) fin (po_parent o)
      end
  end.

(* same results, and every time of the latency-free model is a lower bound *)
Lemma ka_loop_mono I T s : 0 < I -> forall now nxt now' nxt' pd,
  now <= now' -> nxt <= nxt' ->
  let a := ka_loop I T now nxt pd (map fst s) in
  let b := ka_loop_lat I T now' nxt' pd s in
  ko_result a = ko_result b /\ Forall2 N.le (ko_starts a) (ko_starts b) /\ ko_end a <= ko_end b.
Proof.
  intros HI. induction s as [|[e [[l0 l1] l2]] r IH]; intros now nxt now' nxt' pd Hn Hx; cbn zeta;
    cbn [map fst ka_loop ka_loop_lat].
  - unfold ko_starts. cbn. repeat split; [constructor | exact Hn].
  - assert (Hm : N.max now (nxt * I) <= N.max now' (nxt' * I) + l0) by nia.
    assert (Hd : N.max now (nxt * I) / I <= (N.max now' (nxt' * I) + l0) / I) by (apply N.div_le_mono; lia).
    destruct (po_ret (ping_run T pd e)).
    + unfold ko_starts. cbn. repeat split; [constructor; [lia | constructor] | lia].
    + specialize (IH (N.max now (nxt * I) + po_dur (ping_run T pd e)) (N.max now (nxt * I) / I + 1)
                     (N.max now' (nxt' * I) + l0 + l1 + po_dur (ping_run T pd e) + l2) ((N.max now' (nxt' * I) + l0) / I + 1)
                     (po_parent (ping_run T pd e))).
      cbn zeta in IH. destruct IH as (H1 & H2 & H3); [lia | lia |].
      unfold ko_starts in *. cbn [ko_push ko_result ko_pings ko_end map fst].
      repeat split; [exact H1 | constructor; [lia | exact H2] | exact H3].
Qed.

Theorem model_times_are_lower_bounds I T s : 0 < I ->
  let a := ka_env I T (map fst s) in
  let b := ka_loop_lat I T 0 1 None s in
  ko_result a = ko_result b /\ Forall2 N.le (ko_starts a) (ko_starts b) /\ ko_end a <= ko_end b.
Proof.
  intros HI. unfold ka_env. destruct (I =? 0) eqn:E; [lia|]. apply ka_loop_mono; [exact HI | lia | lia].
Qed.

(* ---------- non-vacuity ---------- *)
Example ex_runs : ko_result (keepalive 1000 5000 (answered [10; 0; 999; 20])) = KA_running
  /\ ko_starts (keepalive 1000 5000 (answered [10; 0; 999; 20])) = [1000; 2000; 3000; 4000].
Proof. vm_compute. split; reflexivity. Qed.

Example ex_slow_answer : (* a response slower than the interval delays, but does not stop, the loop *)
  ko_starts (keepalive 1000 5000 (answered [1900; 0; 0])) = [1000; 2900; 3000].
Proof. vm_compute. reflexivity. Qed.

Example ex_timeout : keepalive 1000 5000 (answered [10; 20] ++ [Never; Answered 0])
  = mk_out [(1000, 10); (2000, 20); (3000, 5000)] (KA_returned EPingTimeout) 8000 None.
Proof. vm_compute. reflexivity. Qed.

Example ex_cancel_before : keepalive 1000 5000 (answered [10] ++ [ParentCancelledBefore Canceled])
  = mk_out [(1000, 10); (2000, 0)] (KA_returned (ECtx Canceled)) 2000 (Some Canceled).
Proof. vm_compute. reflexivity. Qed.

Example ex_cancel_during : ko_result (keepalive 1000 5000 [ParentCancelledDuring DeadlineExceeded])
  = KA_returned (ECtx DeadlineExceeded).
Proof. vm_compute. reflexivity. Qed.

Example ex_passthrough : ko_result (keepalive 1000 5000 (answered [1; 2; 3] ++ [FailsNow 7; Never])) = KA_returned (EOwn 7).
Proof. vm_compute. reflexivity. Qed.

(* hypotheses of the theorems are satisfiable and matter: with a non-positive timeout a ping
   that fails at once IS reported as a timeout (ctxTo is born done) *)
Example ex_zero_timeout : ko_result (keepalive 1000 0 [FailsNow 7]) = KA_returned EPingTimeout.
Proof. vm_compute. reflexivity. Qed.

(* a Ping that ignores its cancelled context and returns nil keeps the loop running: stopping
   on cancellation relies on Ping honouring its context (BaseClient.Ping does, pingreq.go:45) *)
Example ex_cancel_ignored_by_ping :
  ko_result (ka_env 1000 5000 [mk_env (Some Canceled) (PRet 0 None) None; mk_env None (PRet 0 None) None]) = KA_running.
Proof. vm_compute. reflexivity. Qed.

(* a ping error that arrives together with a cancellation is reported as the cancellation *)
Example ex_cancel_beats_own_error :
  ko_result (ka_env 1000 5000 [mk_env None (PRet 0 (Some 7)) (Some Canceled)]) = KA_returned (ECtx Canceled).
Proof. vm_compute. reflexivity. Qed.

Definition st0 : clients := fun _ => mk_cli None false.

Example ex_react_timeout :
  let st' := ka_react 2%nat (keepalive 1000 5000 [Answered 3; Never]) false false st0 in
  (st' 2%nat = mk_cli (Some EPingTimeout) true) /\ st' 1%nat = mk_cli None false /\ st' 3%nat = mk_cli None false
  /\ loop_react 2%nat st' = LRedial /\ loop_react 3%nat st' = LWait.
Proof. vm_compute. repeat split; reflexivity. Qed.

Example ex_react_cancelled :
  ka_react 2%nat (keepalive 1000 5000 [Answered 3; ParentCancelledBefore Canceled]) false false st0 2%nat = mk_cli None false.
Proof. vm_compute. reflexivity. Qed.

Example ex_fresh : fresh st0 2%nat.
Proof. split; reflexivity. Qed.
