(* CheckC10.v — executable comparisons used by the generated cases of C10, and the hand-written
   facts about mqtt-go that the lock-discipline decision uses (checked against the generated
   access table as far as they can be). *)
From Coq Require Import String.
From MQ Require Import Base SpecDecode WriteLock Lockset.
Open Scope N_scope.

(* ================= (a) wire atomicity ================= *)

(* Independent framer: the stream must be a sequence of packets each of which the independent
   MQTT decoder (SpecDecode.v) accepts. A frame is returned as header byte :: body; the packet
   identifier of SUBSCRIBE / UNSUBSCRIBE (chosen by the library at random) is blanked. *)
Definition norm_frame (h : N) (body : list N) : list N :=
  if (h / 16 =? 8) || (h / 16 =? 10) then h :: 0 :: 0 :: skipn 2 body else h :: body.

Fixpoint frames_of (fuel : nat) (bs : list N) : option (list (list N)) :=
  match fuel with
  | O => None
  | S f =>
    match bs with
    | [] => Some []
    | h :: r0 =>
      match spec_decode bs with
      | None => None
      | Some (_, rest) =>
        match decode_varint 4 1 0 r0 with
        | None => None
        | Some (n, r1) =>
          match take_n n r1 with
          | None => None
          | Some (body, _) =>
            match frames_of f rest with
            | Some fs => Some (norm_frame h body :: fs)
            | None => None
            end
          end
        end
      end
    end
  end.

Definition frames (bs : list N) : option (list (list N)) := frames_of (S (length bs)) bs.

Definition ms_eqb (a b : list (list N)) : bool :=
  Nat.eqb (length a) (length b) &&
  forallb (fun x => Nat.eqb (count_occ_b str_eqb x a) (count_occ_b str_eqb x b)) a.

(* one observed run: what the transport put on the wire (in emission order, each Write call is
   logged in two halves), the argument of every Write call, the packets the harness expects *)
Definition c10_run := (list (list N) * list (list N) * list (list N))%type.

(* V: the wire parses into exactly the expected multiset of whole packets *)
Definition c10_wire_ok (r : c10_run) : bool :=
  let '(emitted, _, expected) := r in
  match frames (concat emitted), frames (concat expected) with
  | Some fs, Some es => ms_eqb fs es
  | _, _ => false
  end.
Definition c10_wire_violations (rs : list c10_run) : list nat := indices_where (fun r => negb (c10_wire_ok r)) rs.

(* M: the model, run on the observed linearisation (threads = Write calls in call order, serial
   schedule), reproduces the wire byte for byte, makes the same Transport.Write calls, and every
   call carried exactly one expected packet (one_write_per_packet) *)
Definition c10_model_ok (limit : nat) (r : c10_run) : bool :=
  let '(emitted, calls, expected) := r in
  let calls' := firstn limit calls in
  let order := seq 0 (length calls') in
  let g := run true true (init calls') (serial_schedule calls' order) in
  list_eqb str_eqb (g_calls g) calls' &&
  str_eqb (g_out g) (concat calls') &&
  list_eqb Nat.eqb (whole_writers g) order &&
  str_eqb (concat emitted) (concat calls) &&
  match frames (concat expected) with
  | Some es => forallb (fun c => match frames c with
                                 | Some [f] => negb (Nat.eqb (count_occ_b str_eqb f es) 0)
                                 | _ => false end) calls
  | None => false
  end.
Definition c10_model_mismatches (limit : nat) (rs : list c10_run) : list nat :=
  indices_where (fun r => negb (c10_model_ok limit r)) rs.

(* V: what C10_one_write_per_packet states, evaluated on the logged Transport.Write calls (full
   bytes of every call): each call carries exactly one whole packet, and the calls are exactly the
   expected packets. A PUBLISH sent as header-Write then payload-Write fails here on every run,
   whether or not another writer happened to get in between. *)
Definition c10_calls_ok (r : c10_run) : bool :=
  let '(_, calls, expected) := r in
  match frames (concat expected) with
  | Some es =>
      forallb (fun c => match frames c with Some [_] => true | _ => false end) calls &&
      match frames (concat calls) with Some cs => ms_eqb cs es | None => false end
  | None => false
  end.
Definition c10_call_violations (rs : list c10_run) : list nat := indices_where (fun r => negb (c10_calls_ok r)) rs.

(* large packets cross the boundary run-length encoded (payloads are constant fills) *)
Definition rle := list (N * N).
Definition unrle (l : rle) : list N := flat_map (fun bn => N.iter (snd bn) (cons (fst bn)) []) l.
Definition c10_big_run := (list rle * list rle * list rle)%type.
Definition c10_unbig (r : c10_big_run) : c10_run :=
  let '(e, c, x) := r in (map unrle e, map unrle c, map unrle x).
Definition c10_big_wire_violations (rs : list c10_big_run) : list nat :=
  indices_where (fun r => negb (c10_wire_ok (c10_unbig r))) rs.
Definition c10_big_call_violations (rs : list c10_big_run) : list nat :=
  indices_where (fun r => negb (c10_calls_ok (c10_unbig r))) rs.

(* Disconnect racing producers: outcome of every call of a trial, 0 = nil, 1 = ErrClosedClient (the
   documented answer after Disconnect), 2 = any other error, 3 = panic (e.g. send on closed channel) *)
Definition c10_trial_ok (codes : list N) : bool := forallb (fun c => c <=? 1) codes.
Definition c10_trial_violations (ts : list (list N)) : list nat := indices_where (fun t => negb (c10_trial_ok t)) ts.

(* two live connections of one RetryClient session receiving QoS 2 traffic at the same time:
   how often each message was handed to the handler *)
Definition c10_handover_violations (counts : list (list N)) : list nat :=
  indices_where (fun cs : list N => negb (forallb (fun c => c =? 1) cs)) counts.

(* overlap probes: a writer is held inside Transport.Write while another packet becomes due;
   observed: the largest number of goroutines inside Write at the same time, and the wire *)
Definition c10_probe := (nat * c10_run)%type.
Definition c10_probe_ok (p : c10_probe) : bool := Nat.leb (fst p) 1 && c10_wire_ok (snd p).
Definition c10_probe_violations (ps : list c10_probe) : list nat := indices_where (fun p => negb (c10_probe_ok p)) ps.

(* ================= (b) lock discipline: facts about mqtt-go ================= *)
Open Scope string_scope.

Inductive fclass :=
| Guarded                                   (* decided by the pairwise discipline alone *)
| Confined (r : role)                       (* declared: only ever touched by this single goroutine *)
| Config (setup : list string)              (* set by the application (or these setup functions) before the object is used *)
| InitOnce (lock : string) (inits readers : list string) (reader_roles : list role).
  (* written only by [inits] (called once per object, under [lock] held exclusively) before the
     object is published; read afterwards under [lock], or after a successful signaller() check,
     or by [readers] (the initialising call itself), or by goroutines started after the initialisation *)

Definition c10_policy : list (string * string * fclass) :=
  [ ("BaseClient", "Transport", Config ["DialOptions.dial"]);
    ("BaseClient", "ConnState", Config ["DialOptions.dial"]);
    ("BaseClient", "MaxPayloadLen", Config ["DialOptions.dial"]);
    ("BaseClient", "sig", InitOnce "mu" ["BaseClient.init"] ["BaseClient.Connect"] [RReader]);
    ("BaseClient", "connClosed", InitOnce "mu" ["BaseClient.init"] ["BaseClient.Connect"] [RReader]);
    ("RetryClient", "retryQueue", Confined RTask);
    ("RetryClient", "subEstablished", Confined RTask);
    ("RetryClient", "newRetryByError", Confined RTask);
    ("RetryClient", "ResponseTimeout", Config []);
    ("RetryClient", "DirectlyPublishQoS0", Config []);
    ("RetryClient", "OnError", Config []);
    ("ReconnectOptions", "*", Config ["WithTimeout"; "WithReconnectWait"; "WithPingInterval"; "WithRetryClient";
                                       "WithAlwaysResubscribe"; "reconnectClient.Connect"]);
    ("BaseClientStoreDialer", "Dialer", Config []);
    (* send-vs-close ordering of channel fields (pseudo-field "<field><-close()": send = read,
       close = write). chTask is Guarded: pushTask's send and Disconnect's close must share c.mu.
       chConnectErr is made by SetClient for exactly one Connect call, which sends and then closes
       it in program order: declared, checked only as "nobody else sends or closes it". *)
    ("RetryClient", "chConnectErr<-close()", Config ["RetryClient.Connect"]);
    ("ServeMux", "handlers", Config ["ServeMux.Handle"]);
    ("ServeAsync", "Handler", Config []) ].

Fixpoint class_lookup (p : list (string * string * fclass)) (s f : string) : fclass :=
  match p with
  | [] => Guarded
  | (s', f', c) :: r => if String.eqb s s' && (String.eqb f f' || String.eqb f' "*") then c else class_lookup r s f
  end.
Definition class_of (a : access) : fclass := class_lookup c10_policy (a_struct a) (a_field a).

Definition mem_str (x : string) (l : list string) : bool := existsb (String.eqb x) l.
Definition is_write (a : access) : bool := match a_kind a with KRead => false | _ => true end.
Definition holds_excl (a : access) (lock : string) : bool :=
  existsb (fun l => String.eqb (fst l) lock && snd l) (a_locks a).

Definition init_write (a : access) (lock : string) (inits : list string) : bool :=
  is_write a && mem_str (a_fn a) inits && holds_excl a lock.
Definition published_read (a : access) (readers : list string) (rroles : list role) : bool :=
  negb (is_write a) &&
  (a_aftersig a || mem_str (a_fn a) readers || forallb (fun r => existsb (role_eqb r) rroles) (a_roles a)).

(* pairs the discipline leaves to the declared ordering facts *)
Definition c10_exempt (a b : access) : bool :=
  match class_of a with
  | Config setup =>
      (negb (is_write a) || mem_str (a_fn a) setup) && (negb (is_write b) || mem_str (a_fn b) setup)
  | InitOnce lock inits readers rroles => init_write a lock inits && published_read b readers rroles
  | _ => false
  end.

(* the declared facts, checked access by access against the generated table *)
Definition c10_fact_ok (a : access) : bool :=
  match class_of a with
  | Guarded => true
  | Confined r => forallb (role_eqb r) (a_roles a) && negb (role_multi r)
  | Config setup => negb (is_write a) || mem_str (a_fn a) setup
  | InitOnce lock inits _ _ => negb (is_write a) || init_write a lock inits
  end.
Definition c10_fact_violations (tbl : list access) : list nat := indices_where (fun a => negb (c10_fact_ok a)) tbl.

Definition c10_discipline_ok (tbl : list access) : bool := discipline_ok c10_exempt tbl && forallb c10_fact_ok tbl.
Definition c10_pair_violations (tbl : list access) (pairs : list (nat * nat)) : list nat := bad_pairs c10_exempt tbl pairs.
Definition c10_decision_mismatch (tbl : list access) (pairs : list (nat * nat)) : list nat :=
  decision_mismatch c10_exempt tbl pairs.

(* A map / slice / pointer-to-lockless held in a field of one lock-owning struct and stored into a
   field of another lock-owning object is then protected by two different lock OBJECTS, although
   the table — which names locks by struct and field — shows "mu" on both sides. The translator
   lists every such hand-over (from, to); none is allowed unless declared here. *)
Definition c10_share_allowed : list (string * string) := [].
Definition c10_share_ok (ft : string * string) : bool :=
  existsb (fun a => String.eqb (fst a) (fst ft) && String.eqb (snd a) (snd ft)) c10_share_allowed.
Definition c10_share_violations (l : list (string * string)) : list nat := indices_where (fun ft => negb (c10_share_ok ft)) l.

(* the table must cover the code the property is anchored in: a translator that silently stops
   seeing write(), the signaller or the task goroutine would make the decision vacuous *)
Definition c10_required : list (string * string) :=
  [ ("BaseClient", "Transport.Write()"); ("BaseClient", "sig"); ("BaseClient", "connClosed"); ("BaseClient", "handler");
    ("BaseClient", "connState"); ("BaseClient", "err"); ("BaseClient", "idLast"); ("BaseClient", "stats");
    ("signaller", "chPubAck"); ("signaller", "chPubRec"); ("signaller", "chPubComp"); ("signaller", "chSubAck");
    ("signaller", "chUnsubAck"); ("signaller", "chPingResp");
    ("RetryClient", "cli"); ("RetryClient", "taskQueue"); ("RetryClient", "retryQueue"); ("RetryClient", "chTask");
    ("RetryClient", "stats"); ("RetryClient", "stopped"); ("RetryClient", "subEstablished"); ("firstError", "err");
    ("RetryClient", "chTask<-close()") ].
Definition c10_coverage_gaps (tbl : list access) : list nat :=
  indices_where (fun sf => negb (existsb (fun a => String.eqb (a_struct a) (fst sf) && String.eqb (a_field a) (snd sf) && is_write a) tbl))
                c10_required.

(* fields whose class is Guarded or Confined are never exempt: for them the soundness theorem
   gives plain race freedom *)
Definition lock_decided (a : access) : Prop := match class_of a with Guarded | Confined _ => True | _ => False end.
Lemma c10_lock_decided_not_exempt a b :
  conflicting a b = true -> lock_decided a -> c10_exempt a b = false /\ c10_exempt b a = false.
Proof.
  intros C G. unfold lock_decided in G.
  assert (SL : class_of b = class_of a).
  { unfold conflicting in C. apply andb_true_iff in C as [C _]. unfold same_loc in C.
    apply andb_true_iff in C as [C1 C2]. apply String.eqb_eq in C1, C2. unfold class_of. now rewrite C1, C2. }
  unfold c10_exempt. rewrite SL. destruct (class_of a); try contradiction; auto.
Qed.
