(* ParseSpec.v — the property's side of C06, written from the property text and independent of the
   parsers of Parse.v: which (type, flags, body) is malformed, which errors are protocol errors,
   and — for whole streams — where the first malformed packet of a byte stream is. Used by the
   statements (Parse_proofs.v, props/C06.v) and by the executable predicates evaluated on what the
   implementation did (CheckC06.v). No proofs here. *)
From MQ Require Import Base Codec Inbound Parse.
Open Scope N_scope.

(* the length-prefixed topic at the front of a PUBLISH body, if the body is long enough *)
Definition topic_of (body : list N) : option (list N * list N) :=
  match body with
  | hi :: lo :: r =>
      let n := N.to_nat (hi * 256 + lo) in
      if Nat.leb n (length r) then Some (firstn n r, skipn n r) else None
  | _ => None
  end.

(* U+0000 in a string of bytes: the byte 0x00 wherever it stands. In UTF-8 (well-formed or not, as
   Go's []rune(string) conversion reads it) the code point U+0000 is produced by the byte 00 and
   by nothing else, and every byte 00 produces it: Parse_proofs.decode_runes_bad. *)
Definition has_nul (t : list N) : bool := existsb (N.eqb 0) t.

Definition malformed (typ flag : N) (body : list N) : bool :=
  match typ with
  | 2 => negb (flag =? 0) || negb (Nat.eqb (length body) 2)             (* CONNACK: flags 0, length 2 *)
  | 3 => let q := (flag / 2) mod 4 in
         (q =? 3)                                                        (* QoS 3 *)
         || match topic_of body with
            | None => true                                               (* body shorter than its topic *)
            | Some (t, r) => existsb (N.eqb 0) t                         (* U+0000 in the topic *)
                             || (negb (q =? 0) && Nat.ltb (length r) 2)  (* no room for the identifier *)
            end
  | 4 | 5 | 7 | 9 | 11 => negb (flag =? 0) || Nat.ltb (length body) 2    (* illegal flags / short body *)
  | 6 => negb (flag =? 2) || Nat.ltb (length body) 2
  | 13 => negb (flag =? 0)
  | _ => true                                                            (* unknown or client-to-server type *)
  end.

Definition protocol_error (e : perr) : Prop :=
  e = EInvalidPacket \/ e = EInvalidPacketLength \/ e = EInvalidRune.

Definition is_protocol_error (e : perr) : bool :=
  match e with EInvalidPacket | EInvalidPacketLength | EInvalidRune => true | _ => false end.

(* does the stream, cut into frames by the protocol's framing (fixed header, remaining length,
   body), contain a malformed packet or an over-long length field before it ends? *)
Fixpoint stream_malformed (fuel : nat) (s : list N) : bool :=
  match fuel with
  | O => false
  | S f =>
      match fst (read_packet s) with
      | RP_ok typ flag body rest => malformed typ flag body || stream_malformed f rest
      | RP_err EInvalidPacketLength => true          (* fifth length byte *)
      | _ => false                                   (* the stream ended: truncation is EOF *)
      end
  end.

Definition has_malformed (s : list N) : bool := stream_malformed (S (length s)) s.

(* ---------- "well-formed packets that preceded it are processed normally" ---------- *)
(* what the reader did with inbound PUBLISH / PUBREL: hand-overs (with the message) and the
   acknowledgements it wrote, in program order *)
Definition sv_in_events (es : list sv_event) : list in_event :=
  flat_map (fun e => match e with EvIn x => [x] | _ => [] end) es.

(* the PUBLISH and PUBREL packets among the well-formed packets of the stream, up to the first
   malformed packet or the end of the stream, as the peer sent them (topic, identifier, QoS,
   flags and payload BYTES) *)
Fixpoint prefix_pkts (fuel : nat) (s : list N) : list in_pkt :=
  match fuel with
  | O => []
  | S f =>
      match fst (read_packet s) with
      | RP_ok typ flag body rest =>
          if malformed typ flag body then []
          else match typ with
               | 3 => match parse_publish flag body with Ok m => [InPublish m] | _ => [] end
               | 6 => match body with hi :: lo :: _ => [InPubRel (hi * 256 + lo)] | _ => [] end
               | _ => []
               end ++ prefix_pkts f rest
      | _ => []
      end
  end.

(* normal processing = what the abstract receiver of MQTT 3.1.1 section 4.3 (Inbound.spec_run, the
   specification C04 is proved against) prescribes for exactly these packets: every message is
   handed over with the content it was sent with — for QoS 2 at its PUBREL, whatever arrived in
   between *)
Definition expected_events (handler : bool) (s : list N) : list in_event :=
  spec_run handler os_empty (prefix_pkts (S (length s)) s).
