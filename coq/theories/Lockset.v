(* Lockset.v — C10 (b): lock discipline over an access table, and the abstract interleaving
   semantics in which the discipline is shown to exclude data races (Lockset_proofs.v).

   The table is REGENERATED from the Go source on every run by harness/c10_lockset.go: one record
   per syntactic read/write of a field of BaseClient, signaller, RetryClient, reconnectClient,
   firstError, … with the locks of the same object held at that point, the goroutine roles that can
   execute it, and a flag saying that a successful c.signaller() call precedes it. This file is
   generic; the facts about mqtt-go (which fields are configuration, which are initialised once
   before publication) are in CheckC10.v. Model/decision procedure only, no proofs. *)
From Coq Require Import String.
From MQ Require Import Base.

Inductive role := RUser | RReader | RTask | RReconn | RKeepAlive | ROther.
(* RUser: any goroutine of the application calling the exported API (any number of them);
   RReader: the goroutine started by BaseClient.Connect (serve loop and its exit path), one per client;
   RTask: the task goroutine started by the first RetryClient.SetClient, one per RetryClient;
   RReconn: the reconnect loop started by reconnectClient.Connect, one per ReconnectClient;
   RKeepAlive: keep-alive goroutines (one per connection, stale ones may overlap: many);
   ROther: any goroutine the translator has no declaration for (many, concurrent with everything). *)

Inductive akind := KRead | KWrite | KAtomic.

Record access := mkAcc {
  a_struct : string; a_field : string; a_fn : string; a_kind : akind;
  a_locks : list (string * bool);     (* lock field of the same object, held exclusively? *)
  a_roles : list role;
  a_aftersig : bool }.

Definition role_eqb (a b : role) : bool :=
  match a, b with
  | RUser, RUser | RReader, RReader | RTask, RTask | RReconn, RReconn | RKeepAlive, RKeepAlive | ROther, ROther => true
  | _, _ => false
  end.

(* roles of which several threads may work on one object at the same time *)
Definition role_multi (r : role) : bool :=
  match r with RUser | RKeepAlive | ROther => true | RReader | RTask | RReconn => false end.

(* two accesses executed under these roles can belong to two different threads *)
Definition may_concur (r1 r2 : role) : bool := negb (role_eqb r1 r2) || role_multi r1.
Definition roles_concur (l1 l2 : list role) : bool :=
  existsb (fun r1 => existsb (fun r2 => may_concur r1 r2) l2) l1.

Definition same_loc (a b : access) : bool :=
  String.eqb (a_struct a) (a_struct b) && String.eqb (a_field a) (a_field b).

(* same location and not (both reads) and not (both sync/atomic operations) *)
Definition kinds_conflict (k1 k2 : akind) : bool :=
  match k1, k2 with
  | KRead, KRead => false
  | KAtomic, KAtomic => false
  | _, _ => true
  end.
Definition conflicting (a b : access) : bool := same_loc a b && kinds_conflict (a_kind a) (a_kind b).

(* a lock of the object held by both, by at least one of them exclusively: a sync.RWMutex then
   excludes the two critical regions from each other (also when the WRITER holds only RLock
   and every other accessor holds Lock — the signaller getters delete under RLock) *)
Definition common_lock (a b : access) : bool :=
  existsb (fun la => existsb (fun lb => String.eqb (fst la) (fst lb) && (snd la || snd lb)) (a_locks b)) (a_locks a).

Section Discipline.
  (* pairs the discipline does not decide: ordered by publication / configuration-before-use
     (declared in CheckC10.v, checked against the table as far as it goes, otherwise assumed) *)
  Variable exempt : access -> access -> bool.

  Definition pair_ok (a b : access) : bool :=
    negb (conflicting a b) || negb (roles_concur (a_roles a) (a_roles b)) || common_lock a b
    || exempt a b || exempt b a.

  Definition discipline_ok (tbl : list access) : bool :=
    forallb (fun a => forallb (fun b => pair_ok a b) tbl) tbl.

  (* itemised form for replays: candidate pairs (i, j) enumerated by the harness *)
  Definition pair_bad (tbl : list access) (ij : nat * nat) : bool :=
    match nth_error tbl (fst ij), nth_error tbl (snd ij) with
    | Some a, Some b => negb (pair_ok a b)
    | _, _ => true
    end.
  Definition bad_pairs (tbl : list access) (pairs : list (nat * nat)) : list nat :=
    indices_where (pair_bad tbl) pairs.
  (* the harness's enumeration must not have missed an offending pair *)
  Definition decision_mismatch (tbl : list access) (pairs : list (nat * nat)) : list nat :=
    if Bool.eqb (discipline_ok tbl) (forallb (fun ij => negb (pair_bad tbl ij)) pairs) then [] else [0%nat].
End Discipline.

(* ------------------------------------------------------------------------------------------
   Abstract interleaving semantics (one object of each struct; well-formed locks).
   A thread has a role, the locks it holds and possibly an access it is in the middle of. Threads
   are arbitrary programs: any sequence of acquire / release / begin-access / end-access steps is
   allowed as long as
     - a lock is only granted when compatible (sync.RWMutex: exclusive excludes everyone,
       shared excludes exclusive) — mutual exclusion is the only thing assumed about locks;
     - the table is right about the program: access i is only begun by a thread whose role is
       listed for i and which holds the locks listed for i (the translator is trusted for this);
     - a thread does nothing else while it is inside an access (program order). *)
Definition lockid := (string * string)%type.            (* struct, lock field *)
Definition lockid_eqb (a b : lockid) : bool := String.eqb (fst a) (fst b) && String.eqb (snd a) (snd b).

Record lthread := mkLT { lt_role : role; lt_held : list (lockid * bool); lt_in : option nat }.
Definition lstate := list lthread.

Inductive lop := OAcq (m : lockid) (excl : bool) | ORel (m : lockid) | OBegin (i : nat) | OEnd.

(* may a lock (m, excl) be granted while a thread holding [held] exists? *)
Definition held_compat (held : list (lockid * bool)) (m : lockid) (excl : bool) : bool :=
  forallb (fun h => negb (lockid_eqb (fst h) m) || (negb excl && negb (snd h))) held.

Fixpoint compat_from (k : nat) (s : lstate) (t : nat) (m : lockid) (excl : bool) : bool :=
  match s with
  | [] => true
  | th :: r => (Nat.eqb k t || held_compat (lt_held th) m excl) && compat_from (S k) r t m excl
  end.

Definition holds (held : list (lockid * bool)) (s : string) (l : string * bool) : bool :=
  existsb (fun h => lockid_eqb (fst h) (s, fst l) && implb (snd l) (snd h)) held.

Fixpoint ls_set {A} (n : nat) (x : A) (l : list A) : list A :=
  match l, n with
  | [], _ => []
  | _ :: r, O => x :: r
  | y :: r, S n' => y :: ls_set n' x r
  end.

Definition lstep (tbl : list access) (s : lstate) (t : nat) (o : lop) : option lstate :=
  match nth_error s t with
  | None => None
  | Some th =>
    match lt_in th, o with
    | None, OAcq m e =>
        if compat_from 0 s t m e then Some (ls_set t (mkLT (lt_role th) ((m, e) :: lt_held th) None) s) else None
    | None, ORel m =>
        Some (ls_set t (mkLT (lt_role th) (filter (fun h => negb (lockid_eqb (fst h) m)) (lt_held th)) None) s)
    | None, OBegin i =>
        match nth_error tbl i with
        | Some a =>
            if existsb (role_eqb (lt_role th)) (a_roles a) && forallb (holds (lt_held th) (a_struct a)) (a_locks a)
            then Some (ls_set t (mkLT (lt_role th) (lt_held th) (Some i)) s) else None
        | None => None
        end
    | Some _, OEnd => Some (ls_set t (mkLT (lt_role th) (lt_held th) None) s)
    | _, _ => None
    end
  end.

Fixpoint lrun (tbl : list access) (s : lstate) (tr : list (nat * lop)) : lstate :=
  match tr with
  | [] => s
  | (t, o) :: r => lrun tbl (match lstep tbl s t o with Some s' => s' | None => s end) r
  end.

(* initial states: nobody holds a lock or is inside an access; of a single-instance role there is
   at most one thread *)
Definition lt_idle (th : lthread) : bool := match lt_held th, lt_in th with [], None => true | _, _ => false end.
Definition roles_wf (s : lstate) : Prop :=
  forall t u th1 th2, nth_error s t = Some th1 -> nth_error s u = Some th2 -> t <> u ->
    lt_role th1 = lt_role th2 -> role_multi (lt_role th1) = true.

(* a data race of the abstract semantics: two different threads inside conflicting accesses *)
Definition racing (tbl : list access) (s : lstate) (a b : access) : Prop :=
  exists t u th1 th2 i j, t <> u /\ nth_error s t = Some th1 /\ nth_error s u = Some th2 /\
    lt_in th1 = Some i /\ lt_in th2 = Some j /\ nth_error tbl i = Some a /\ nth_error tbl j = Some b /\
    conflicting a b = true.
