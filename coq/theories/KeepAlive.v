(* KeepAlive.v — model of the keep-alive loop (keepalive.go:34-60), of what a Ping can do to it
   (pingreq.go:23-54 seen from the caller), and of the reconnecting client's reaction to the
   loop's result (reconnclient.go:120-161).  Model and specification only; proofs are in
   KeepAlive_proofs.v.

   Environment = an explicit script: one [ping_env] per loop iteration says when the parent
   context ends (before the ping / while it is in flight) and how the Ping call behaves.
   Time is a number (any unit; the harness uses microseconds); the model has zero scheduling
   latency, so every time it computes is a LOWER bound for the implementation (monotonicity is
   proved: [ka_loop_mono]).  Trusted, not verified: time.Ticker (ticks at k*interval, at most
   one tick pending, later ones dropped), context.WithTimeout (a derived context is done when
   its parent is done or its own timeout has passed), select-with-default. *)
From MQ Require Import Base.
Open Scope N_scope.

(* ctx.Err() of a finished context *)
Inductive ctx_err := Canceled | DeadlineExceeded.

(* what KeepAlive returns (always non-nil) *)
Inductive ka_err :=
| EPingTimeout            (* wrapError(ErrPingTimeout, "keeping alive")   keepalive.go:53 *)
| ECtx (k : ctx_err)      (* wrapError(ctx.Err(), "keeping alive")        keepalive.go:48 *)
| EOwn (e : N).           (* the error the Ping returned, unchanged       keepalive.go:56;
                             errors are opaque tags *)

Inductive ka_result :=
| KA_running              (* script exhausted: the loop is blocked on <-ticker.C *)
| KA_returned (e : ka_err)
| KA_panic.               (* time.NewTicker panics on a non-positive interval *)

(* ---------- one Ping call as seen by the loop ---------- *)
Inductive ping_beh :=
| PRet (d : N) (r : option N)   (* returns r (None = nil) after d, without looking at its context *)
| PBlock (r : N).               (* the PINGRESP never comes: returns error r when its context is
                                   done (pingreq.go:45-47), not earlier *)

Record ping_env := mk_env {
  pe_before : option ctx_err;   (* the parent context ends after the previous ping returned and
                                   before this one starts (e.g. while the loop waits for the tick) *)
  pe_beh : ping_beh;
  pe_during : option ctx_err    (* the parent context ends while this ping is in flight *)
}.

Definition or_else {A} (a b : option A) : option A := match a with Some _ => a | None => b end.
Definition is_some {A} (a : option A) : bool := match a with Some _ => true | None => false end.

(* what the loop can observe after cli.Ping(ctxTo) returned *)
Record ping_obs := mk_obs {
  po_ret : option N;            (* the returned error *)
  po_dur : N;                   (* how long the call took (lower bound) *)
  po_parent : option ctx_err;   (* state of the parent context when the result is classified *)
  po_to : bool                  (* ctxTo.Done() is closed when the result is classified *)
}.

(* [T] is the timeout (0 stands for any non-positive duration: ctxTo is born done);
   [pd] the state of the parent context after the previous iteration *)
Definition ping_run (T : N) (pd : option ctx_err) (e : ping_env) : ping_obs :=
  let p1 := or_else pd (pe_before e) in
  match pe_beh e with
  | PRet d r =>
      let p2 := or_else p1 (pe_during e) in
      mk_obs r d p2 (is_some p2 || (T <=? d))
  | PBlock r =>
      match p1 with
      | Some _ => mk_obs (Some r) 0 p1 true                 (* context done on entry *)
      | None =>
          match pe_during e with
          | Some k => mk_obs (Some r) 0 (Some k) true       (* parent ends while waiting *)
          | None => mk_obs (Some r) T None true             (* own timeout expires *)
          end
      end
  end.

(* keepalive.go:45-56: parent context first, then the per-ping timeout, then the ping's error *)
Definition classify (parent : option ctx_err) (to_done : bool) (err : N) : ka_err :=
  match parent with
  | Some k => ECtx k
  | None => if to_done then EPingTimeout else EOwn err
  end.

(* ---------- the loop ---------- *)
Record ka_out := mk_out {
  ko_pings : list (N * N);      (* (start, duration) of each Ping call, times since KeepAlive was called *)
  ko_result : ka_result;
  ko_end : N;                   (* when KeepAlive returned / the script ended *)
  ko_parent : option ctx_err    (* parent context at that moment *)
}.

Definition ko_push (p : N * N) (o : ka_out) : ka_out :=
  mk_out (p :: ko_pings o) (ko_result o) (ko_end o) (ko_parent o).

Definition ko_starts (o : ka_out) : list N := map fst (ko_pings o).

(* [now]: current time; [nxt]: index of the first tick that has been neither consumed nor
   dropped (tick k fires at k*I; the channel holds at most one).  <-ticker.C therefore returns
   at max now (nxt*I), and the ticks up to that moment are gone. *)
Fixpoint ka_loop (I T now nxt : N) (pd : option ctx_err) (s : list ping_env) : ka_out :=
  match s with
  | [] => mk_out [] KA_running now pd
  | e :: r =>
      let start := N.max now (nxt * I) in                       (* keepalive.go:39 *)
      let o := ping_run T pd e in                               (* :41-42 *)
      let fin := start + po_dur o in
      match po_ret o with
      | None => ko_push (start, po_dur o) (ka_loop I T fin (start / I + 1) (po_parent o) r)   (* :58 *)
      | Some err =>
          mk_out [(start, po_dur o)] (KA_returned (classify (po_parent o) (po_to o) err)) fin (po_parent o)
      end
  end.

(* [I] = interval (0 stands for any non-positive duration) *)
Definition ka_env (I T : N) (s : list ping_env) : ka_out :=
  if I =? 0 then mk_out [] KA_panic 0 None               (* keepalive.go:35 *)
  else ka_loop I T 0 1 None s.

(* ---------- the five outcomes the property names ---------- *)
Inductive ping_outcome :=
| Answered (d : N)                     (* PINGRESP arrives after d: Ping returns nil *)
| Never                                (* no PINGRESP: Ping blocks until its timeout context expires *)
| FailsNow (e : N)                     (* Ping returns error e at once, no context is done *)
| ParentCancelledBefore (k : ctx_err)  (* parent ends while waiting for the tick / before the ping *)
| ParentCancelledDuring (k : ctx_err). (* parent ends while the ping waits for its response *)

Definition blocked_err : N := 0.       (* what a blocked Ping returns; never reaches the caller *)

Definition env_of (o : ping_outcome) : ping_env :=
  match o with
  | Answered d => mk_env None (PRet d None) None
  | Never => mk_env None (PBlock blocked_err) None
  | FailsNow e => mk_env None (PRet 0 (Some e)) None
  | ParentCancelledBefore k => mk_env (Some k) (PBlock blocked_err) None
  | ParentCancelledDuring k => mk_env None (PBlock blocked_err) (Some k)
  end.

Definition keepalive (I T : N) (s : list ping_outcome) : ka_out := ka_env I T (map env_of s).

Definition pings (o : ka_out) : nat := length (ko_pings o).

(* ---------- specification at the level of outcomes: the first outcome that is not
   "answered" decides ---------- *)
Definition is_answered (o : ping_outcome) : bool := match o with Answered _ => true | _ => false end.

Fixpoint first_failure (s : list ping_outcome) : option (nat * ping_outcome) :=
  match s with
  | [] => None
  | Answered _ :: r => match first_failure r with Some (n, o) => Some (S n, o) | None => None end
  | o :: _ => Some (O, o)
  end.

(* expected result and number of pings, for a positive interval and timeout *)
Definition spec_result (s : list ping_outcome) : ka_result * nat :=
  match first_failure s with
  | None => (KA_running, length s)
  | Some (n, Never) => (KA_returned EPingTimeout, S n)
  | Some (n, FailsNow e) => (KA_returned (EOwn e), S n)
  | Some (n, ParentCancelledBefore k) => (KA_returned (ECtx k), S n)
  | Some (n, ParentCancelledDuring k) => (KA_returned (ECtx k), S n)
  | Some (n, Answered _) => (KA_running, length s)   (* unreachable *)
  end.

(* ---------- specification for general scripts, written as one scan: the first ping that
   returns an error ends the loop; it is reported as the context's error if the parent context
   has ended by then, else as ErrPingTimeout if the ping was still unanswered when its timeout
   passed, else as it is ---------- *)
Fixpoint scan_env (T : N) (pd : option ctx_err) (n : nat) (s : list ping_env) : ka_result * nat :=
  match s with
  | [] => (KA_running, n)
  | e :: r =>
      let pd' := or_else (or_else pd (pe_before e)) (pe_during e) in
      match pe_beh e with
      | PRet _ None => scan_env T pd' (S n) r
      | PRet d (Some x) =>
          (KA_returned (match pd' with Some k => ECtx k | None => if T <=? d then EPingTimeout else EOwn x end), S n)
      | PBlock _ =>
          (KA_returned (match pd' with Some k => ECtx k | None => EPingTimeout end), S n)
      end
  end.

Definition spec_env (I T : N) (s : list ping_env) : ka_result * nat :=
  if I =? 0 then (KA_panic, O) else scan_env T None O s.

(* ---------- the reconnecting client's reaction (reconnclient.go:120-161, at 124205a) ---------- *)
Record cli_state := mk_cli { cs_err : option ka_err; cs_closed : bool }.
Definition clients := nat -> cli_state.        (* one BaseClient per connection number *)

Definition upd (i : nat) (c : cli_state) (st : clients) : clients :=
  fun j => if Nat.eqb j i then c else st j.

(* conn.go:25-31 *)
Definition set_error_once (i : nat) (e : ka_err) (st : clients) : clients :=
  match cs_err (st i) with
  | None => upd i (mk_cli (Some e) (cs_closed (st i))) st
  | Some _ => st
  end.

(* conn.go:49-51 *)
Definition close_cli (i : nat) (st : clients) : clients := upd i (mk_cli (cs_err (st i)) true) st.

(* The keep-alive goroutine of connection [me] (reconnclient.go:121-144).  [late_cancel]: the
   reconnect loop cancelled ctxKeepAlive between KeepAlive's return and the goroutine's select;
   [disconnecting]: Disconnect has been requested (c.disconnected is closed) by then. *)
Definition ka_react (me : nat) (o : ka_out) (late_cancel disconnecting : bool) (st : clients) : clients :=
  match ko_result o with
  | KA_returned e =>
      if is_some (ko_parent o) || late_cancel || disconnecting then st   (* :129-137 *)
      else close_cli me (set_error_once me e st)                         (* :138-141 *)
  | _ => st
  end.

(* The same reaction as the sequence of operations the goroutine performs on the client, to make
   explicit what it asks of the peer: nothing.  A Transport.Write has no deadline; it returns only
   if the peer (or the link) takes the bytes.  [accepts = false]: the peer has stopped reading. *)
Inductive react_op :=
| OpSetError (e : ka_err)     (* baseCli.SetErrorOnce(err) *)
| OpWrite (pkt : N)           (* a packet written to the transport (first byte) *)
| OpClose.                    (* baseCli.Close(): closes the transport locally *)

Definition react_ops (o : ka_out) (late_cancel disconnecting : bool) : list react_op :=
  match ko_result o with
  | KA_returned e =>
      if is_some (ko_parent o) || late_cancel || disconnecting then [] else [OpSetError e; OpClose]
  | _ => []
  end.

(* None = blocked for ever in Transport.Write *)
Fixpoint run_ops (accepts : bool) (me : nat) (ops : list react_op) (st : clients) : option clients :=
  match ops with
  | [] => Some st
  | OpSetError e :: r => run_ops accepts me r (set_error_once me e st)
  | OpWrite _ :: r => if accepts then run_ops accepts me r st else None
  | OpClose :: r => run_ops accepts me r (close_cli me st)
  end.

Definition op_is_write (x : react_op) : bool := match x with OpWrite _ => true | _ => false end.

(* the keep-alive goroutine is only started for a positive interval (reconnclient.go:121) *)
Definition rc_keepalive (I T : N) (s : list ping_outcome) : option ka_out :=
  if 0 <? I then Some (keepalive I T s) else None.

(* The settings the reconnecting client hands to KeepAlive (reconnclient.go:70-75, 124-128):
   PingInterval defaults to the CONNECT keep-alive value, Timeout to PingInterval; the call is
   KeepAlive(ctxKeepAlive, baseCli, PingInterval, Timeout) — interval first, timeout second. *)
Record rc_options := mk_ro { ro_ping_interval : N; ro_timeout : N }.

Definition rc_effective (o : rc_options) (connect_keepalive : N) : rc_options :=
  let i := if ro_ping_interval o =? 0 then connect_keepalive else ro_ping_interval o in
  mk_ro i (if ro_timeout o =? 0 then i else ro_timeout o).

(* a peer described by how long it takes to answer each PINGREQ (None: never): whether that is
   an answer or silence is decided by the TIMEOUT in force *)
Definition peer_outcome (T : N) (d : option N) : ping_outcome :=
  match d with
  | Some x => if x <? T then Answered x else Never
  | None => Never
  end.

Definition rc_keepalive_peer (o : rc_options) (delays : list (option N)) : option ka_out :=
  rc_keepalive (ro_ping_interval o) (ro_timeout o)                     (* :126-127, in this order *)
               (map (peer_outcome (ro_timeout o)) delays).

(* Which context the keep-alive context of a connection is derived from (reconnclient.go:81-120).
   The loop starts with the context the caller passed to Connect; the first successful CONNECT
   replaces it by context.Background() (doneOnce, :108-112) BEFORE ctxKeepAlive is created from it
   (:120), on the first connection as on every later one. *)
Inductive loop_ctx := CtxCaller | CtxBackground.
Definition after_connect_success (c : loop_ctx) : loop_ctx := CtxBackground.      (* :108-112 *)
Definition ka_parent_ctx (c : loop_ctx) : loop_ctx := after_connect_success c.    (* :120 *)

(* The script the keep-alive of a connection runs against: the peer decides the outcomes; the
   caller may end the context it gave to Connect before any ping ([caller_cancel j] = it ends
   before ping j); that reaches the keep-alive only if its context descends from the caller's. *)
Fixpoint conn_script_from (lc : loop_ctx) (caller_cancel : nat -> option ctx_err) (j : nat)
                          (peer : list ping_outcome) : list ping_env :=
  match peer with
  | [] => []
  | o :: r =>
      let e := env_of o in
      (match lc with
       | CtxCaller => mk_env (or_else (caller_cancel j) (pe_before e)) (pe_beh e) (pe_during e)
       | CtxBackground => e
       end) :: conn_script_from lc caller_cancel (S j) r
  end.

Definition rc_conn_keepalive (I T : N) (caller_cancel : nat -> option ctx_err) (peer : list ping_outcome)
  : option ka_out :=
  if 0 <? I then Some (ka_env I T (conn_script_from (ka_parent_ctx CtxCaller) caller_cancel O peer)) else None.

(* The reconnect loop waiting on the connection (reconnclient.go:145-161).  A closed transport
   ends the reader, which closes Done(); the error stored first is the one Err() reports. *)
Inductive loop_action := LWait | LRedial | LStop.
Definition loop_react (me : nat) (st : clients) : loop_action :=
  if cs_closed (st me) then match cs_err (st me) with Some _ => LRedial | None => LStop end
  else LWait.

(* ---------- the PINGRESP slot of one connection (pingreq.go:31-51, serve.go:177-185) ----------
   Every Ping installs a FRESH one-slot channel (pingreq.go:31-34) BEFORE it writes its PINGREQ
   (:36-41) and only then waits on it (:42-51); the reader offers each PINGRESP to the channel
   installed at that moment with a non-blocking send.  The peer can answer from the moment the
   write starts, so a PINGRESP may be dispatched before the Ping has reached its select: it then
   sits in the (already installed, buffered) channel of that very Ping. *)
Inductive slot_ev :=
| SInstall    (* pingreq.go:31-34: new channel registered *)
| SWrite      (* :36-41: PINGREQ handed to the transport; from here on the peer may answer *)
| SSelect     (* :42: the Ping starts waiting; a buffered PINGRESP is taken at once *)
| SResp       (* the reader receives a PINGRESP *)
| SOther      (* the reader receives and handles any other packet (PUBLISH, PUBREL, an ack, ...) *)
| SGiveUp.    (* the waiting Ping's context is done *)

Inductive slot_res := SAnswered | SGaveUp.

Record slot_st := mk_slot {
  sl_chan : option bool;   (* None: no channel yet (nil: a send is never ready); Some full *)
  sl_wait : bool           (* a Ping is waiting in its select *)
}.
Definition slot_init : slot_st := mk_slot None false.

Definition slot_step (st : slot_st) (e : slot_ev) : slot_st * list slot_res :=
  match e with
  | SInstall => (mk_slot (Some false) false, [])
  | SWrite => (st, [])
  | SSelect =>
      match sl_chan st with
      | Some true => (mk_slot (Some false) false, [SAnswered])   (* already there *)
      | _ => (mk_slot (sl_chan st) true, [])
      end
  | SResp =>
      match sl_chan st with
      | None => (st, [])                                   (* dropped *)
      | Some true => (st, [])                              (* buffer full: dropped *)
      | Some false =>
          if sl_wait st then (mk_slot (Some false) false, [SAnswered])   (* taken by the waiting Ping *)
          else (mk_slot (Some true) false, [])             (* buffered in the channel installed last *)
      end
  | SOther => (st, [])                                     (* serve.go:66-176: not the ping waiter's business *)
  | SGiveUp => if sl_wait st then (mk_slot (sl_chan st) false, [SGaveUp]) else (st, [])
  end.

Fixpoint slot_run (st : slot_st) (es : list slot_ev) : list slot_res :=
  match es with
  | [] => []
  | e :: r => let '(st', out) := slot_step st e in out ++ slot_run st' r
  end.

(* what the peer does around ping j: [u] unsolicited PINGRESPs while no Ping is in progress;
   then the Ping: install, write, [z] PINGRESPs dispatched before the Ping reaches its select
   (a zero-delay peer), select, [r] PINGRESPs later; with none at all the Ping gives up when its
   context is done *)
Definition ping_events (uzr : nat * nat * nat) : list slot_ev :=
  let '(u, z, r) := uzr in
  repeat SResp u ++ SInstall :: SWrite :: repeat SResp z ++ SSelect ::
  (match (z + r)%nat with O => [SGiveUp] | _ => repeat SResp r end).

Definition peer_answers (uzr : nat * nat * nat) : bool :=
  let '(_, z, r) := uzr in negb (Nat.eqb (z + r) 0).

Definition outcome_of_slot (r : slot_res) : ping_outcome :=
  match r with SAnswered => Answered 0 | SGaveUp => Never end.

Definition wire_outcomes (uzrs : list (nat * nat * nat)) : list ping_outcome :=
  map outcome_of_slot (slot_run slot_init (flat_map ping_events uzrs)).

(* the same with a peer that talks: [o] other packets (PUBLISH, PUBREL, stray acks) handled by the
   reader after the PINGREQ was written and again while the Ping waits *)
Definition ping_events_talk (x : nat * nat * nat * nat) : list slot_ev :=
  let '(u, z, r, o) := x in
  repeat SResp u ++ SInstall :: SWrite :: repeat SOther o ++ repeat SResp z ++ SSelect :: repeat SOther o ++
  (match (z + r)%nat with O => [SGiveUp] | _ => repeat SResp r end).

Definition wire_outcomes_talk (xs : list (nat * nat * nat * nat)) : list ping_outcome :=
  map outcome_of_slot (slot_run slot_init (flat_map ping_events_talk xs)).

Definition is_other (e : slot_ev) : bool := match e with SOther => true | _ => false end.

(* Which deadline a keep-alive ping of the reconnecting client runs under.  KeepAlive is given
   baseCli (reconnclient.go:125), and BaseClient.Ping knows only the context it is handed (ctxTo:
   the Timeout).  RetryClient.Ping would add RetryClient.ResponseTimeout (retryclient.go:257-264,
   381-387; 0 = none), the deadline meant for PUBACK/SUBACK. *)
Inductive pinger := PingBaseClient | PingRetryClient.
Definition rc_pinger : pinger := PingBaseClient.                            (* reconnclient.go:125 *)
Definition ping_deadline (who : pinger) (T response_timeout : N) : N :=
  match who with
  | PingBaseClient => T
  | PingRetryClient => if response_timeout =? 0 then T else N.min response_timeout T
  end.

Definition rc_keepalive_cfg (o : rc_options) (response_timeout : N) (delays : list (option N)) : option ka_out :=
  rc_keepalive (ro_ping_interval o) (ro_timeout o)
               (map (peer_outcome (ping_deadline rc_pinger (ro_timeout o) response_timeout)) delays).
