(* RetryInv_SubsEx.v — C08: non-vacuity examples and the counterexample under silent faults. *)
From MQ Require Import Base RetryCore RetrySys CheckRetry RetryProps RetryInv_Subs RetryInv_SubsResub RetryInv_SubsResubContent.
Open Scope nat_scope.

Lemma closing_only_fp_of_list l :
  forallb (fun e => match snd e with FSilentReq | FSilentAck => false | _ => true end) l = true ->
  closing_only (fp_of_list l).
Proof.
  intros H k i. induction l as [|[[k' i'] f] r IH]; cbn [fp_of_list].
  - split; discriminate.
  - cbn [forallb snd] in H. apply andb_true_iff in H as [H1 H2].
    destruct ((k =? k') && (i =? i')); [|apply IH, H2].
    destruct f; try discriminate; split; discriminate.
Qed.

Definition ta : str := [97%N].
Definition tb : str := [98%N].
Definition cfgT : config := {| c_method_b := false; c_always_resub := false; c_timeout := true |}.
Definition connect (o : conn_outcome) : list label :=
  [LDial true; LSetClient; LConnBegin; LConnEnd o; LPushResub; LPushRetry].

(* Three calls (subscribe a@1,b@0; unsubscribe b; subscribe a@2). The first SUBSCRIBE is processed but
   its SUBACK is lost with the connection; the two other calls are queued behind it; a dial failure,
   a refused CONNECT, then a connection without session: the client re-subscribes a@1 and b@0
   (uid 0, on connection 2), retransmits call 1, then sends calls 2 and 3. *)
Definition ls_pos : list label :=
  connect (CoAccept false) ++
  [LObserve 1; LTask; LSubmit (USub 1 [(ta, 1%N); (tb, 0%N)]); LTask;
   LSubmit (UUnsub 2 [tb]); LSubmit (USub 3 [(ta, 2%N)]); LObserve 1; LTask; LTask; LDetectEnd; LBackoff] ++
  [LDial false; LBackoff; LDial true; LSetClient; LConnBegin; LConnEnd CoRefused; LCloseFailed; LBackoff] ++
  connect (CoAccept false) ++ [LTask; LObserve 3; LTask; LTask].
Definition fl_pos : list (nat * nat * fkind) := [(0, 0, FAckLost)].

Example C08_example :
  exists s, run cfgT (fp_of_list fl_pos) sys0 ls_pos = Some s /\ wf_labels ls_pos /\
            closing_only (fp_of_list fl_pos) /\ quiescent s /\
            b_subs (broker_of s) = [(ta, 2%N)] /\ w_subest (s_w s) = [(ta, 2%N)] /\
            net_effect (s_submitted s) = [(ta, 2%N)] /\
            In (2, PSubscribe 0 [(tb, 0%N)], WAck) (wire_of s) /\
            In (0, PSubscribe 1 [(ta, 1%N); (tb, 0%N)], WOk) (wire_of s).
Proof.
  eexists. split; [vm_compute; reflexivity|].
  split; [vm_compute; reflexivity|].
  split; [apply closing_only_fp_of_list; reflexivity|].
  split.
  { unfold quiescent. cbn. repeat split. exists 2. split; reflexivity. }
  repeat split; try reflexivity; cbn; auto 10.
Qed.

(* the hypothesis of C08_resub_condition is satisfiable, and both outcomes occur *)
Example C08_resub_condition_example :
  exists s1 s2, s_pc s1 = RPushResub 1 false /\ s_initialized s1 = true /\
                s_pc s2 = RPushResub 0 false /\ s_initialized s2 = false.
Proof.
  exists {| s_w := world0; s_cur := Some 1; s_gen := 2; s_cres := CrOk; s_taskq := []; s_tmode := TWaiting;
            s_pc := RPushResub 1 false; s_initialized := true; s_submitted := []; s_waits := 1 |}.
  exists (set_pc sys0 (RPushResub 0 false)). repeat split.
Qed.

(* ---------- without [closing_only] convergence fails ---------- *)
(* PUBLISH 1 is lost with connection 0; Subscribe a@0 (2) and Subscribe a@1 (3) are queued behind it.
   On connection 1 the retry loop re-sends PUBLISH 1, then SUBSCRIBE 2 is dropped silently (the request
   times out, its retry handle is queued) and the loop goes on: SUBSCRIBE 3 is acknowledged.
   On connection 2 SUBSCRIBE 2 is retransmitted after SUBSCRIBE 3: the broker ends with a@0. *)
Definition m1 : pubreq := {| p_uid := 1; p_qos := 1%N; p_retain := false; p_topic := ta; p_payload := [] |}.
Definition ls_silent : list label :=
  connect (CoAccept false) ++
  [LObserve 1; LTask; LSubmit (UPub m1); LTask;
   LSubmit (USub 2 [(ta, 0%N)]); LSubmit (USub 3 [(ta, 1%N)]); LDetectEnd; LBackoff] ++
  connect (CoAccept true) ++ [LObserve 2; LTask; LTask; LTask; LDetectEnd; LBackoff] ++
  connect (CoAccept true) ++ [LObserve 3; LTask].
Definition fl_silent : list (nat * nat * fkind) := [(0, 0, FLostAfter); (1, 1, FSilentReq)].

Example C08_silent_counterexample :
  exists s, run cfgT (fp_of_list fl_silent) sys0 ls_silent = Some s /\ wf_labels ls_silent /\ quiescent s /\
            b_subs (broker_of s) = [(ta, 0%N)] /\ net_effect (s_submitted s) = [(ta, 1%N)] /\
            w_subest (s_w s) = [(ta, 1%N)] /\
            subs_equiv (b_subs (broker_of s)) (net_effect (s_submitted s)) = false.
Proof.
  eexists. split; [vm_compute; reflexivity|].
  split; [vm_compute; reflexivity|].
  split.
  { unfold quiescent. cbn. repeat split. exists 2. split; reflexivity. }
  repeat split; reflexivity.
Qed.

Theorem C08_converges_silent_refuted :
  ~ (forall cfg fp ls s, run cfg fp sys0 ls = Some s -> wf_labels ls -> quiescent s ->
       subs_equiv (b_subs (broker_of s)) (net_effect (s_submitted s)) = true).
Proof.
  intros H. destruct C08_silent_counterexample as (s & Hrun & Hwf & Hq & _ & _ & _ & Hne).
  rewrite (H _ _ _ _ Hrun Hwf Hq) in Hne. discriminate.
Qed.

(* ---------- re-subscription content ---------- *)
Definition isresub (e : nat * pkt * wres) : bool := match snd (fst e) with PSubscribe 0 _ => true | _ => false end.

(* Sub a, Sub b, Unsub a (all acknowledged), the connection is cut, the session is lost: the only
   re-subscription packet of the whole run names b (with its QoS), not a. *)
Definition ls_b : list label :=
  connect (CoAccept false) ++
  [LObserve 1; LTask; LSubmit (USub 1 [(ta, 1%N)]); LTask; LSubmit (USub 2 [(tb, 1%N)]); LTask;
   LSubmit (UUnsub 3 [ta]); LTask; LIdleCut; LDetectEnd; LBackoff] ++
  connect (CoAccept false) ++ [LTask; LObserve 2; LTask; LTask].

Example C08_resub_names_current_example :
  exists s, run cfgT (fun _ _ => FNone) sys0 ls_b = Some s /\ wf_labels ls_b /\ w_hung (s_w s) = false /\
            quiescent s /\
            filter isresub (wire_of s) = [(1, PSubscribe 0 [(tb, 1%N)], WAck)] /\
            b_subs (broker_of s) = [(tb, 1%N)] /\ pending_calls s = [].
Proof.
  eexists. split; [vm_compute; reflexivity|]. split; [vm_compute; reflexivity|]. split; [reflexivity|].
  split.
  { unfold quiescent. cbn. repeat split. exists 1. split; reflexivity. }
  repeat split; reflexivity.
Qed.

(* Sub a acknowledged; SUBSCRIBE b lost with connection 0; Unsub a submitted and deferred behind it.
   Session lost. State after the Resubscribe task (second re-subscription lost as well):
   executed = [Sub a; Sub b], pending = [Unsub a]; the re-subscriptions name a and b, the filters the
   executed calls leave subscribed; Unsub a is still waiting behind them. *)
Definition ls_c : list label :=
  connect (CoAccept false) ++
  [LObserve 1; LTask; LSubmit (USub 1 [(ta, 1%N)]); LTask; LSubmit (USub 2 [(tb, 1%N)]); LTask;
   LSubmit (UUnsub 3 [ta]); LObserve 1; LTask; LDetectEnd; LBackoff] ++
  connect (CoAccept false) ++ [LTask; LObserve 2; LTask].
Definition fl_c : list (nat * nat * fkind) := [(0, 1, FLostAfter); (1, 1, FLostAfter)].

Example C08_executed_example :
  exists s, run cfgT (fp_of_list fl_c) sys0 ls_c = Some s /\ wf_labels ls_c /\ w_hung (s_w s) = false /\
            pending_calls s = [UUnsub 3 [ta]] /\
            subcalls (s_submitted s) = [USub 1 [(ta, 1%N)]; USub 2 [(tb, 1%N)]] ++ pending_calls s /\
            w_subest (s_w s) = [(ta, 1%N); (tb, 1%N)] /\
            w_retryq (s_w s) = [RSubscribe 0 [(tb, 1%N)]; RSubscribe 2 [(tb, 1%N)]; DUnsubscribe 3 [ta]] /\
            filter isresub (wire_of s) = [(1, PSubscribe 0 [(ta, 1%N)], WAck); (1, PSubscribe 0 [(tb, 1%N)], WOk)].
Proof.
  eexists. split; [vm_compute; reflexivity|]. split; [vm_compute; reflexivity|]. repeat split; reflexivity.
Qed.

(* one Resubscribe task on a world with subEstablished = [a@1; b@0; c@2] and a pending PUBLISH:
   a acknowledged, the SUBACK of b lost with the connection, c deferred, the old queue kept behind *)
Definition mq : pubreq := {| p_uid := 9; p_qos := 1%N; p_retain := false; p_topic := ta; p_payload := [] |}.
Definition tc : str := [99%N].
Definition wx : world :=
  {| w_clients := [{| cl_inited := true; cl_alive := true; cl_accepted := true; cl_sent := 0 |}];
     w_broker := broker0; w_wire := []; w_retryq := [RPublish mq];
     w_subest := [(ta, 1%N); (tb, 0%N); (tc, 2%N)]; w_nrbe := false;
     w_errs := []; w_acked := []; w_dropped := []; w_hung := false |}.

Example C08_resub_content_example :
  let w' := task_resubscribe cfgT (fp_of_list [(0, 1, FAckLost)]) wx 0 in
  cl_inited (get_client wx 0) = true /\ w_hung w' = false /\
  w_wire w' = [(0, PSubscribe 0 [(ta, 1%N)], WAck); (0, PSubscribe 0 [(tb, 0%N)], WOk)] /\
  w_retryq w' = [RSubscribe 0 [(tb, 0%N)]; DSubscribe 0 [(tc, 2%N)]; RPublish mq] /\
  w_subest w' = [(ta, 1%N); (tb, 0%N)].
Proof. cbv zeta. repeat split; reflexivity. Qed.
