(* ParseMux_proofs.v — splitting never yields an empty list, so Match has a first level to look at
   for EVERY topic a broker can send (the empty one included), and matching is total: no panic. *)
From MQ Require Import Base Codec Inbound ParseMux.
Open Scope N_scope.

Lemma split_aux_nonempty s : forall cur, split_aux s cur <> [].
Proof.
  induction s as [|c r IH]; intros cur; cbn [split_aux]; [discriminate|].
  destruct (c =? 47); [discriminate | apply IH].
Qed.

(* strings.Split(topic, "/") has at least one element for every topic, also the empty one *)
Theorem split_levels_nonempty topic : exists l r, split_levels topic = l :: r.
Proof.
  pose proof (split_aux_nonempty topic []) as H. unfold split_levels.
  destruct (split_aux topic []) as [|l r]; [congruence | exists l, r; reflexivity].
Qed.

Example ex_empty_topic : split_levels [] = [[]] /\ filter_match [115; 47; 35] [] = false /\
  filter_match [35] [] = true /\ filter_match [43] [] = true /\ filter_match [47] [47] = true.
Proof. repeat split. Qed.

Print Assumptions split_levels_nonempty.
