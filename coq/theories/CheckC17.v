(* CheckC17.v — executable comparison functions used by the generated cases of property C17 *)
From MQ Require Import Base HandlerSys.
Open Scope N_scope.

(* ---------- compact schedule notation of the harness (everything in N; handler 0 = nil) ---------- *)
Definition hv (h : N) : hval := if h =? 0 then None else Some h.
Definition uh (h : N) : label := U_handle (hv h).
Definition dl (h : N) : label := R_dial (hv h).
Definition sc (k : N) : label := R_set_client (N.to_nat k).
Definition cb : label := R_connect_begin.
Definition cs (k : N) : label := R_connect_start (N.to_nat k).
Definition csc (k : N) : label := R_connect_start_clean (N.to_nat k).   (* BaseClient.Connect with CleanSession *)
Definition ca (k : N) : label := R_connack (N.to_nat k).
Definition ib (k m : N) : label := B_inbound (N.to_nat k) m.
Definition ih (k m h : N) : label := B_inbound_handle (N.to_nat k) m (hv h).  (* the handler called for m calls Handle(h) *)
Definition qp (k m d : N) : label := B_q2_publish (N.to_nat k) m (negb (d =? 0)).  (* QoS 2 PUBLISH, d=1: DUP *)
Definition qr (k m : N) : label := B_q2_release (N.to_nat k) m.                   (* its PUBREL *)
Definition qu (k m : N) : label := B_pubrel_unknown (N.to_nat k) m.               (* a PUBREL for a message that is not stored *)
Definition cr (k : N) : label := R_connect_return (N.to_nat k).
Definition en (k : N) : label := R_end (N.to_nat k).

(* ---------- what the harness saw for one inbound message, in schedule order ---------- *)
Inductive obs :=
| oh (k m h : N)      (* exactly one handler call: instance h received message m of connection k *)
| od (k m : N)        (* processed by the reader (acknowledged / a later packet was), no handler call *)
| os (k m : N)        (* never processed within the time limit *)
| om (k m : N)        (* handed over more than once, or a hand-over nothing in the schedule stands for *)
| on (k m h : N).     (* handed over on PUBREL, but no PUBCOMP was written *)

Fixpoint obs_events (l : list obs) : option (list event) :=
  match l with
  | [] => Some []
  | oh k m h :: r => option_map (cons (Deliver (N.to_nat k) m (Some h))) (obs_events r)
  | od k m :: r => option_map (cons (Deliver (N.to_nat k) m None)) (obs_events r)
  | _ :: _ => None
  end.

Definition c17_case := (list label * list obs)%type.

(* M: the model, run on the schedule the harness forced, produces exactly the observed log *)
Definition c17_model_ok (c : c17_case) : bool :=
  let '(ls, o) := c in
  match run ls, obs_events o with
  | Next _ evs, Some evs' => list_eqb event_eqb evs evs'
  | _, _ => false
  end.

(* V: the delivery claim holds on the observed log (HandlerSys.spec_every): a message arriving on
   the connection that is current goes to the handler registered by the latest Handle call; a
   message arriving on a connection that SetClient has replaced but that is still open goes to the
   handler that connection was left with — it is never dropped because of the replacement *)
Definition c17_prop_ok (c : c17_case) : bool :=
  let '(ls, o) := c in
  match obs_events o with
  | Some evs' => list_eqb event_eqb (spec_every ls) evs'
  | None => false
  end.

(* schedules produced by the real reconnect loop: the loop's discipline holds in the model, and
   the claim is the full one (every message on every connection, HandlerSys.spec_events) *)
Definition c17_loop_model_ok (c : c17_case) : bool :=
  let '(ls, o) := c in
  match run_loop ls, obs_events o with
  | Next _ evs, Some evs' => list_eqb event_eqb evs evs'
  | _, _ => false
  end.

Definition c17_loop_prop_ok (c : c17_case) : bool :=
  let '(ls, o) := c in
  match obs_events o with
  | Some evs' => list_eqb event_eqb (spec_events ls) evs'
  | None => false
  end.

(* a Handle call racing with a window of steps: it took effect at one of the label boundaries *)
Definition c17_race_case := (list label * N * list label * list label * list obs)%type.

Fixpoint insertions (x : label) (w : list label) : list (list label) :=
  match w with
  | [] => [[x]]
  | y :: r => (x :: w) :: map (cons y) (insertions x r)
  end.

Definition race_candidates (c : c17_race_case) : list c17_case :=
  let '(pre, h, win, post, o) := c in
  map (fun w => (pre ++ w ++ post, o)) (insertions (uh h) win).

Definition c17_race_model_ok (c : c17_race_case) : bool := existsb c17_model_ok (race_candidates c).
Definition c17_race_prop_ok (c : c17_race_case) : bool := existsb c17_prop_ok (race_candidates c).

Definition c17_model_mismatches (cs : list c17_case) : list nat := indices_where (fun c => negb (c17_model_ok c)) cs.
Definition c17_prop_violations (cs : list c17_case) : list nat := indices_where (fun c => negb (c17_prop_ok c)) cs.
Definition c17_loop_model_mismatches (cs : list c17_case) : list nat := indices_where (fun c => negb (c17_loop_model_ok c)) cs.
Definition c17_loop_prop_violations (cs : list c17_case) : list nat := indices_where (fun c => negb (c17_loop_prop_ok c)) cs.
Definition c17_race_model_mismatches (cs : list c17_race_case) : list nat := indices_where (fun c => negb (c17_race_model_ok c)) cs.
Definition c17_race_prop_violations (cs : list c17_race_case) : list nat := indices_where (fun c => negb (c17_race_prop_ok c)) cs.

(* self-test of the notation on the example of HandlerSys_proofs *)
Example c17_check_selftest :
  c17_loop_model_ok ([uh 1; dl 0; sc 0; cb; cs 0; ca 0; ib 0 7; en 0; uh 0; dl 0; sc 1; cb; cs 1; ca 1; ib 1 8; uh 2; ib 1 9],
                     [oh 0 7 1; od 1 8; oh 1 9 2]) = true /\
  c17_prop_ok ([uh 1; dl 0; sc 0; cb; cs 0; ca 0; ib 0 7], [od 0 7]) = false /\
  (* make-before-break: the late message of the replaced connection 0 belongs to h1, not to nobody and not to h2 *)
  c17_prop_ok ([uh 1; dl 0; sc 0; cb; cs 0; ca 0; dl 0; sc 1; uh 2; ib 0 7; cb; cs 1; ca 1; ib 1 8; ib 0 9], [oh 0 7 1; oh 1 8 2; oh 0 9 1]) = true /\
  c17_prop_ok ([uh 1; dl 0; sc 0; cb; cs 0; ca 0; dl 0; sc 1; uh 2; ib 0 7], [od 0 7]) = false /\
  c17_prop_ok ([uh 1; dl 0; sc 0; cb; cs 0; ca 0; dl 0; sc 1; uh 2; ib 0 7], [oh 0 7 2]) = false /\
  c17_race_model_ok ([uh 1; dl 0; sc 0; cb; cs 0; ca 0], 2, [ib 0 7; ib 0 8], [ib 0 9], [oh 0 7 1; oh 0 8 2; oh 0 9 2]) = true /\
  c17_race_prop_ok ([uh 1; dl 0; sc 0; cb; cs 0; ca 0], 2, [ib 0 7; ib 0 8], [ib 0 9], [oh 0 7 2; oh 0 8 1; oh 0 9 2]) = false /\
  c17_loop_model_ok ([uh 1; dl 0; sc 0; cb; cs 0; ca 0; ih 0 7 2; ib 0 8; en 0; dl 0; sc 1; cb; cs 1; ca 1; ih 1 9 0; ib 1 10],
                     [oh 0 7 1; oh 0 8 2; oh 1 9 2; od 1 10]) = true /\
  c17_loop_prop_ok ([uh 1; dl 0; sc 0; cb; cs 0; ca 0; ih 0 7 2; ib 0 8], [oh 0 7 1; oh 0 8 1]) = false /\
  (* QoS 2: Handle between PUBLISH and PUBREL counts; DUP retransmission behind the next CONNACK is released *)
  c17_loop_model_ok ([dl 0; sc 0; cb; cs 0; ca 0; qp 0 7 0; uh 1; qr 0 7; ib 0 8; qp 0 9 0; en 0; dl 0; sc 1; cb; cs 1; ca 1; qp 1 9 1; qr 1 9; ib 1 10],
                     [oh 0 7 1; oh 0 8 1; oh 1 9 1; oh 1 10 1]) = true /\
  c17_loop_prop_ok ([dl 0; sc 0; cb; cs 0; ca 0; qp 0 7 0; uh 1; qr 0 7; ib 0 8], [od 0 7; oh 0 8 1]) = false /\
  c17_prop_ok ([uh 1; dl 0; sc 0; cb; cs 0; ca 0; qp 0 7 0; uh 2; qr 0 7; ib 0 8], [oh 0 7 1; oh 0 8 2]) = false /\
  (* received QoS 2 state is session state: PUBREL alone on the next connection releases; once *)
  c17_loop_model_ok ([uh 1; dl 0; sc 0; cb; cs 0; ca 0; qp 0 7 0; en 0; dl 0; sc 1; cb; cs 1; ca 1; uh 2; qr 1 7; ib 1 8],
                     [oh 1 7 2; oh 1 8 2]) = true /\
  c17_loop_prop_ok ([uh 1; dl 0; sc 0; cb; cs 0; ca 0; qp 0 7 0; en 0; dl 0; sc 1; cb; cs 1; ca 1; qr 1 7; ib 1 8], [od 1 7; oh 1 8 1]) = false /\
  (* Handle racing with Connect (stress family): whatever the interleaving, the message sent after both returned goes to h2 *)
  c17_race_prop_ok ([uh 1; dl 0; sc 0], 2, [cb; cs 0; ca 0; ib 0 1; cr 0], [ib 0 2], [oh 0 1 1; oh 0 2 2]) = true /\
  c17_race_prop_ok ([uh 1; dl 0; sc 0], 2, [cb; cs 0; ca 0; ib 0 1; cr 0], [ib 0 2], [oh 0 1 1; oh 0 2 1]) = false.
Proof. vm_compute. repeat split. Qed.
