(* RetryInv_SubsExec.v — what one task of the RetryClient goroutine does to the per-topic
   invariant of RetryInv_SubsMap ([WInv]), under closing faults only.

   [send_spec]: one Write. [attempt_req]/[do_req]: the common shape of subscribe and unsubscribe.
   [retry_loop_spec], [task_resub_spec], [exec_task_spec]: every task maps
   [WInv w (task :: tail)] to [WInv w' tail]. *)
From MQ Require Import Base RetryCore RetrySys CheckRetry RetryProps RetryInv_SubsMap.
Open Scope nat_scope.

Ltac wsimpl :=
  cbn [w_clients w_broker w_wire w_retryq w_subest w_nrbe w_errs w_acked w_dropped w_hung
       set_clients set_broker log_wire set_retryq set_subest set_nrbe on_error add_acked add_dropped set_hung
       upd_client process queue_retry] in *.

(* ---------- clients ---------- *)
Lemma length_upd_nth {A} (f : A -> A) l : forall k, length (upd_nth k f l) = length l.
Proof. induction l as [|x l IH]; intros [|k]; cbn [upd_nth length]; auto. Qed.

Lemma nth_upd_nth {A} (f : A -> A) d l : forall k j,
  nth j (upd_nth k f l) d = if (j =? k) && (k <? length l) then f (nth j l d) else nth j l d.
Proof.
  induction l as [|x l IH]; intros k j.
  - cbn [upd_nth length]. destruct k; rewrite andb_false_r; reflexivity.
  - destruct k as [|k], j as [|j]; cbn [upd_nth nth length]; try reflexivity.
    rewrite IH. reflexivity.
Qed.

Definition cframe (w w' : world) : Prop :=
  length (w_clients w') = length (w_clients w) /\
  (forall j, cl_inited (get_client w' j) = cl_inited (get_client w j)) /\
  (forall j, cl_accepted (get_client w' j) = cl_accepted (get_client w j)) /\
  (forall j, cl_alive (get_client w' j) = true -> cl_alive (get_client w j) = true).

Lemma cframe_refl w : cframe w w.
Proof. repeat split; auto. Qed.
Lemma cframe_trans w1 w2 w3 : cframe w1 w2 -> cframe w2 w3 -> cframe w1 w3.
Proof.
  intros (A1 & A2 & A3 & A4) (B1 & B2 & B3 & B4). repeat split.
  - congruence.
  - intros j. rewrite B2. apply A2.
  - intros j. rewrite B3. apply A3.
  - intros j H. apply A4, B4, H.
Qed.
Lemma cframe_same w w' : w_clients w' = w_clients w -> cframe w w'.
Proof. intros H. unfold cframe, get_client. rewrite H. repeat split; auto. Qed.

Definition cmono (f : client -> client) : Prop :=
  forall c, cl_inited (f c) = cl_inited c /\ cl_accepted (f c) = cl_accepted c /\ (cl_alive (f c) = true -> cl_alive c = true).
Lemma cmono_bump : cmono bump.
Proof. intros c. cbn. auto. Qed.
Lemma cmono_kill : cmono kill.
Proof. intros c. cbn. repeat split; auto. discriminate. Qed.

Lemma cframe_upd w k f : cmono f -> cframe w (upd_client w k f).
Proof.
  intros Hf. unfold cframe, get_client, upd_client. wsimpl. split; [apply length_upd_nth|].
  repeat split; intros j; rewrite nth_upd_nth; destruct ((j =? k) && (k <? length (w_clients w))); auto; apply Hf.
Qed.

Lemma get_client_upd_kill w k : cl_alive (get_client (upd_client w k kill) k) = false.
Proof.
  unfold get_client, upd_client. wsimpl. rewrite nth_upd_nth, Nat.eqb_refl. cbn [andb].
  destruct (k <? length (w_clients w)) eqn:E; [reflexivity|].
  rewrite nth_overflow; [reflexivity | lia].
Qed.

Definition alive (w : world) (k : nat) : bool := cl_alive (get_client w k).
Definition accepted (w : world) (k : nat) : bool := cl_accepted (get_client w k).
Definition inited (w : world) (k : nat) : bool := cl_inited (get_client w k).
Definition never_accepted (w : world) : Prop := forall j, accepted w j = false.

(* ---------- the broker's table ---------- *)
Definition pkt_subs (l : list sub) (p : pkt) : list sub :=
  match p with
  | PSubscribe _ ss => fold_left subs_set ss l
  | PUnsubscribe _ ts => fold_left (fun l t => subs_remove t l) ts l
  | _ => l
  end.
Lemma b_subs_step mb b p : b_subs (broker_step mb b p) = pkt_subs (b_subs b) p.
Proof.
  destruct p; unfold broker_step; cbn [pkt_subs];
    repeat match goal with |- context [if ?c then _ else _] => destruct c end; reflexivity.
Qed.
Definition pkt_kop (t : str) (p : pkt) : kop :=
  match p with PSubscribe _ ss => tsub t ss | PUnsubscribe _ ts => tunsub t ts | _ => None end.
Lemma get_pkt_subs t l p : subs_get t (pkt_subs l p) = ap (pkt_kop t p) (subs_get t l).
Proof. destruct p; cbn [pkt_subs pkt_kop ap]; try reflexivity; [apply get_fold_set | apply get_fold_remove]. Qed.
Lemma coh_pkt_subs l p : coh l -> coh (pkt_subs l p).
Proof. destruct p; cbn [pkt_subs]; auto; [apply coh_fold_set | apply coh_fold_remove]. Qed.

Definition bsubs (w : world) : list sub := b_subs (w_broker w).
Definition bget (w : world) (t : str) : option N := subs_get t (bsubs w).
Definition eget (w : world) (t : str) : option N := subs_get t (w_subest w).

(* ---------- abstraction of queues to key items ---------- *)
Definition kabs_e (t : str) (e : rentry) : list kitem :=
  match e with
  | RSubscribe _ ss => kmk KRaw (tsub t ss)
  | RUnsubscribe _ ts => kmk KRaw (tunsub t ts)
  | DSubscribe _ ss => kmk KBoth (tsub t ss)
  | DUnsubscribe _ ts => kmk KBoth (tunsub t ts)
  | _ => []
  end.
Definition kabs_q (t : str) (q : list rentry) : list kitem := flat_map (kabs_e t) q.
Definition kabs_task (t : str) (x : task) : list kitem :=
  match x with
  | TOp o => kmk KBoth (uop_kop t o)
  | TResub => [KResub]
  | TRetry => []
  end.
Definition kabs_tq (t : str) (q : list task) : list kitem := flat_map (kabs_task t) q.

Definition israw (e : rentry) : Prop :=
  match e with RPublish _ | RPubRel _ | RSubscribe _ _ | RUnsubscribe _ _ => True | _ => False end.

Lemma kabs_q_app t a b : kabs_q t (a ++ b) = kabs_q t a ++ kabs_q t b.
Proof. apply flat_map_app. Qed.
Lemma kabs_tq_app t a b : kabs_tq t (a ++ b) = kabs_tq t a ++ kabs_tq t b.
Proof. apply flat_map_app. Qed.

Lemma kmk_raw_is k : Forall is_kraw (kmk KRaw k).
Proof. destruct k; cbn; repeat constructor. Qed.
Lemma kmk_both_not k : Forall not_kraw (kmk KBoth k).
Proof. destruct k; cbn; repeat constructor. Qed.

Lemma kabs_q_raw t q : Forall israw q -> Forall is_kraw (kabs_q t q).
Proof.
  induction 1 as [|e q He _ IH]; [constructor|]. cbn [kabs_q flat_map]. apply Forall_app. split; [|exact IH].
  destruct e; cbn [kabs_e]; try contradiction; try constructor; apply kmk_raw_is.
Qed.
Lemma kabs_tq_noraw t q : Forall not_kraw (kabs_tq t q).
Proof.
  induction q as [|x q IH]; [constructor|]. cbn [kabs_tq flat_map]. apply Forall_app. split; [|exact IH].
  destruct x; cbn [kabs_task]; [apply kmk_both_not | repeat constructor | constructor].
Qed.

(* ---------- the invariant on worlds ---------- *)
Definition WInv (w : world) (tail : str -> list kitem) (n : str -> option N) : Prop :=
  forall t, kinv (bget w t) (eget w t) (kabs_q t (w_retryq w) ++ tail t) (n t).

Definition WSide (w : world) : Prop :=
  coh (bsubs w) /\ coh (w_subest w) /\ w_hung w = false /\ (never_accepted w -> bsubs w = []).

Definition J (w : world) (k : nat) : Prop :=
  Forall israw (w_retryq w) /\ (alive w k = true -> w_retryq w = []).

Lemma WInv_ext w w' tail tail' n :
  (forall t, bget w' t = bget w t) -> (forall t, eget w' t = eget w t) ->
  (forall t, kabs_q t (w_retryq w') ++ tail' t = kabs_q t (w_retryq w) ++ tail t) ->
  WInv w tail n -> WInv w' tail' n.
Proof. intros H1 H2 H3 H t. rewrite H1, H2, H3. apply H. Qed.

Lemma WSide_same_broker w w' :
  WSide w -> cframe w w' -> w_broker w' = w_broker w -> w_subest w' = w_subest w -> w_hung w' = w_hung w -> WSide w'.
Proof.
  intros (A & B & C & D) (_ & _ & F & _) Hb He Hh. unfold WSide, bsubs. rewrite Hb, He, Hh.
  repeat split; auto. intros Hn. apply D. intros j. unfold accepted. rewrite <- F. apply Hn.
Qed.

Section Exec.
Variable cfg : config.
Variable fp : fplan.
Hypothesis Hfp : closing_only fp.

(* ---------- one Write ---------- *)
Record send_spec (w : world) (k : nat) (p : pkt) (w' : world) (r : cres) : Prop := {
  ss_retryq : w_retryq w' = w_retryq w;
  ss_subest : w_subest w' = w_subest w;
  ss_nrbe : w_nrbe w' = w_nrbe w;
  ss_hung : w_hung w' = w_hung w;
  ss_frame : cframe w w';
  ss_broker : w_broker w' = w_broker w \/
              (alive w k = true /\ accepted w k = true /\
               w_broker w' = broker_step (c_method_b cfg) (w_broker w) p);
  ss_ack : r = CAck -> alive w k = true /\ accepted w k = true /\
                       w_broker w' = broker_step (c_method_b cfg) (w_broker w) p;
  ss_nack : r <> CAck -> alive w' k = false;
  ss_res : r = CAck \/ r = CWriteFail \/ r = CClosedWait
}.

Lemma cframe_bump_kill w k e :
  cframe w (upd_client (log_wire (upd_client w k bump) e) k kill).
Proof.
  eapply cframe_trans; [apply cframe_upd, cmono_bump|].
  eapply cframe_trans; [|apply cframe_upd, cmono_kill]. apply cframe_same; reflexivity.
Qed.
Lemma cframe_bump_kill_p w k e p :
  cframe w (upd_client (process cfg (log_wire (upd_client w k bump) e) p) k kill).
Proof.
  eapply cframe_trans; [apply cframe_upd, cmono_bump|].
  eapply cframe_trans; [|apply cframe_upd, cmono_kill]. apply cframe_same; reflexivity.
Qed.

Lemma send_ok w k p w' r : send cfg fp w k p = (w', r) -> send_spec w k p w' r.
Proof.
  unfold send. fold (alive w k). destruct (alive w k) eqn:Ea; cbn [negb].
  2:{ intros H; injection H as <- <-.
      constructor; try reflexivity.
      - apply cframe_same; reflexivity.
      - left; reflexivity.
      - discriminate.
      - intros _. exact Ea.
      - right; left; reflexivity. }
  fold (accepted w k). destruct (accepted w k) eqn:Ec.
  - pose proof (Hfp k (cl_sent (get_client w k))) as [N1 N2].
    destruct (fp k (cl_sent (get_client w k))) eqn:Ef; try congruence;
      intros H; injection H as <- <-.
    + (* FNone *)
      constructor; try reflexivity.
      * eapply cframe_trans; [apply cframe_upd, cmono_bump | apply cframe_same; reflexivity].
      * right. repeat split; auto.
      * intros _. repeat split; auto.
      * intros X. exfalso. apply X. reflexivity.
      * left; reflexivity.
    + (* FWriteFail *)
      constructor; try reflexivity.
      * apply cframe_bump_kill.
      * left; reflexivity.
      * discriminate.
      * intros _. apply get_client_upd_kill.
      * right; left; reflexivity.
    + (* FLostAfter *)
      constructor; try reflexivity.
      * apply cframe_bump_kill.
      * left; reflexivity.
      * discriminate.
      * intros _. apply get_client_upd_kill.
      * right; right; reflexivity.
    + (* FAckLost *)
      constructor; try reflexivity.
      * apply cframe_bump_kill_p.
      * right. repeat split; auto.
      * discriminate.
      * intros _. apply get_client_upd_kill.
      * right; right; reflexivity.
  - intros H; injection H as <- <-.
    constructor; try reflexivity.
    + apply cframe_bump_kill.
    + left; reflexivity.
    + discriminate.
    + intros _. apply get_client_upd_kill.
    + right; right; reflexivity.
Qed.

Lemma send_side w k p w' r : send_spec w k p w' r -> WSide w -> WSide w'.
Proof.
  intros S HW. destruct (ss_broker _ _ _ _ _ S) as [Hb | (Ha & Hc & Hb)].
  - eapply WSide_same_broker; eauto using ss_frame, ss_subest, ss_hung.
  - destruct HW as (A & B & C & D). unfold WSide, bsubs. rewrite Hb, (ss_subest _ _ _ _ _ S), (ss_hung _ _ _ _ _ S).
    rewrite b_subs_step. repeat split; auto.
    + apply coh_pkt_subs, A.
    + intros Hn. specialize (Hn k). destruct (ss_frame _ _ _ _ _ S) as (_ & _ & F & _).
      unfold accepted in *. rewrite F in Hn. congruence.
Qed.

Lemma send_bget w k p w' r : send_spec w k p w' r ->
  (forall t, bget w' t = bget w t) \/ (alive w k = true /\ forall t, bget w' t = ap (pkt_kop t p) (bget w t)).
Proof.
  intros S. destruct (ss_broker _ _ _ _ _ S) as [Hb | (Ha & Hc & Hb)].
  - left. intros t. unfold bget, bsubs. rewrite Hb. reflexivity.
  - right. split; [exact Ha|]. intros t. unfold bget, bsubs. rewrite Hb, b_subs_step. apply get_pkt_subs.
Qed.

Lemma send_alive_mono w k p w' r j : send_spec w k p w' r -> alive w' j = true -> alive w j = true.
Proof. intros S. destruct (ss_frame _ _ _ _ _ S) as (_ & _ & _ & F). apply F. Qed.

Lemma send_inited w k p w' r j : send_spec w k p w' r -> inited w' j = inited w j.
Proof. intros S. destruct (ss_frame _ _ _ _ _ S) as (_ & F & _). apply F. Qed.

(* ---------- subscribe / unsubscribe share one shape ---------- *)
Definition attempt_req (w : world) (k : nat) (p : pkt) (uid : nat) (e : rentry) : world * ares :=
  if negb (cl_inited (get_client w k)) then (w, ANoRetry ENotConnected)
  else
    let '(w, r) := send cfg fp w k p in
    match r with
    | CAck => (add_acked w uid, ADone)
    | CHang => (set_hung w, AHung)
    | _ => (w, AFail e (fail_class r))
    end.

Lemma attempt_subscribe_req w k uid ss :
  attempt_subscribe cfg fp w k uid ss = attempt_req w k (PSubscribe uid ss) uid (RSubscribe uid ss).
Proof. reflexivity. Qed.
Lemma attempt_unsubscribe_req w k uid ts :
  attempt_unsubscribe cfg fp w k uid ts = attempt_req w k (PUnsubscribe uid ts) uid (RUnsubscribe uid ts).
Proof. reflexivity. Qed.

(* outcome of a raw request *)
Record req_spec (w : world) (k : nat) (p : pkt) (e : rentry) (w' : world) (r : ares) : Prop := {
  rs_retryq : w_retryq w' = w_retryq w;
  rs_subest : w_subest w' = w_subest w;
  rs_frame : cframe w w';
  rs_side : WSide w -> WSide w';
  rs_out : (r = ADone /\ alive w k = true /\ forall t, bget w' t = ap (pkt_kop t p) (bget w t))
           \/ (exists cls, r = AFail e cls /\ alive w' k = false /\
               ((forall t, bget w' t = bget w t)
                \/ (alive w k = true /\ forall t, bget w' t = ap (pkt_kop t p) (bget w t))))
}.

Lemma WSide_add_acked w u : WSide w -> WSide (add_acked w u).
Proof. intros H. eapply WSide_same_broker; eauto. apply cframe_same; reflexivity. Qed.

Lemma attempt_req_ok w k p uid e w' r :
  inited w k = true -> attempt_req w k p uid e = (w', r) -> req_spec w k p e w' r.
Proof.
  unfold attempt_req, inited. intros Hi. rewrite Hi. cbn [negb].
  destruct (send cfg fp w k p) as [w1 c] eqn:Es. apply send_ok in Es.
  destruct (ss_res _ _ _ _ _ Es) as [-> | [-> | ->]]; intros H; injection H as <- <-.
  - destruct (ss_ack _ _ _ _ _ Es eq_refl) as (Ha & Hc & Hb).
    constructor; wsimpl; eauto using ss_retryq, ss_subest.
    + eapply cframe_trans; [apply (ss_frame _ _ _ _ _ Es) | apply cframe_same; reflexivity].
    + intros HW. apply WSide_add_acked. eapply send_side; eauto.
    + left. repeat split; auto. intros t. unfold bget, bsubs. wsimpl. rewrite Hb, b_subs_step. apply get_pkt_subs.
  - constructor; eauto using ss_retryq, ss_subest, ss_frame, send_side.
    right. eexists. split; [reflexivity|]. split; [apply (ss_nack _ _ _ _ _ Es); discriminate|].
    apply (send_bget _ _ _ _ _ Es).
  - constructor; eauto using ss_retryq, ss_subest, ss_frame, send_side.
    right. eexists. split; [reflexivity|]. split; [apply (ss_nack _ _ _ _ _ Es); discriminate|].
    apply (send_bget _ _ _ _ _ Es).
Qed.

(* a raw sub/unsub entry at the head of what is still to run *)
Lemma raw_entry_step w k p uid e w' r tail n :
  inited w k = true -> WSide w -> J w k ->
  (forall t, kabs_e t e = kmk KRaw (pkt_kop t p)) ->
  WInv w (fun t => kabs_e t e ++ tail t) n ->
  attempt_req w k p uid e = (w', r) ->
  WSide w' /\ cframe w w' /\ w_retryq w' = w_retryq w /\ w_subest w' = w_subest w /\
  ((r = ADone /\ WInv w' tail n)
   \/ (exists cls, r = AFail e cls /\ alive w' k = false /\ WInv w' (fun t => kabs_e t e ++ tail t) n)).
Proof.
  intros Hi HW [J1 J2] Hk HI Ha. apply attempt_req_ok in Ha; [|exact Hi].
  destruct Ha as [Rq Re Rf Rs Ro]. split; [auto|]. split; [exact Rf|]. split; [exact Rq|]. split; [exact Re|].
  assert (Heg : forall t, eget w' t = eget w t) by (intros t; unfold eget; rewrite Re; reflexivity).
  destruct Ro as [(-> & Hal & Hb) | (cls & -> & Hd & Hb)].
  - left. split; [reflexivity|]. intros t. specialize (HI t).
    rewrite Rq, Heg, Hb. rewrite (J2 Hal) in *. cbn [kabs_q flat_map Datatypes.app] in *.
    rewrite Hk in HI. apply K_raw_acked. exact HI.
  - right. exists cls. split; [reflexivity|]. split; [exact Hd|].
    destruct Hb as [Hb | [Hal Hb]].
    + eapply WInv_ext; [exact Hb | exact Heg | | exact HI]. intros t. rewrite Rq. reflexivity.
    + intros t. specialize (HI t). rewrite Rq, Heg, Hb. rewrite (J2 Hal) in *.
      cbn [kabs_q flat_map Datatypes.app] in *. rewrite Hk in *. apply K_raw_kept. exact HI.
Qed.

(* a deferred sub/unsub (or a task run directly): applied to the view, then attempted, then settled *)
Lemma deferred_step w k E' p uid e tail n :
  inited w k = true -> WSide w -> J w k -> israw e -> coh E' ->
  (forall t, kabs_e t e = kmk KRaw (pkt_kop t p)) ->
  (forall t, subs_get t E' = ap (pkt_kop t p) (eget w t)) ->
  WInv w (fun t => kmk KBoth (pkt_kop t p) ++ tail t) n ->
  let w' := settle uid (attempt_req (set_subest w E') k p uid e) in
  WSide w' /\ cframe w w' /\ J w' k /\ WInv w' tail n.
Proof.
  intros Hi HW [J1 J2] Hraw HcE Hk HE HI.
  set (w0 := set_subest w E').
  assert (HW0 : WSide w0).
  { destruct HW as (A & B & C & D). unfold WSide, w0, bsubs. wsimpl. repeat split; auto. }
  assert (F0 : cframe w w0) by (apply cframe_same; reflexivity).
  destruct (attempt_req w0 k p uid e) as [w1 r] eqn:Ea.
  apply attempt_req_ok in Ea; [|exact Hi]. destruct Ea as [Rq Re Rf Rs Ro].
  assert (Heg : forall t, eget w1 t = ap (pkt_kop t p) (eget w t)).
  { intros t. unfold eget at 1. rewrite Re. unfold w0. wsimpl. apply HE. }
  assert (Rq' : w_retryq w1 = w_retryq w) by (rewrite Rq; reflexivity).
  destruct Ro as [(-> & Hal & Hb) | (cls & -> & Hd & Hb)]; cbn [settle]; cbv zeta.
  - split; [apply Rs, HW0|]. split; [eapply cframe_trans; [exact F0 | exact Rf]|]. split.
    + rewrite <- Rq' in J1. split; [exact J1|]. intros _. rewrite Rq'. apply J2. exact Hal.
    + intros t. specialize (HI t). rewrite Rq', Heg, Hb. unfold bget at 1, w0, bsubs. wsimpl. fold (bsubs w) (bget w t).
      rewrite (J2 Hal) in *. cbn [kabs_q flat_map Datatypes.app] in *. apply K_run_acked. exact HI.
  - set (w2 := queue_retry (on_error w1 cls) e).
    assert (F2 : cframe w1 w2) by (apply cframe_same; reflexivity).
    split.
    { eapply WSide_same_broker; [apply Rs, HW0 | exact F2 | reflexivity | reflexivity | reflexivity]. }
    split; [eapply cframe_trans; [eapply cframe_trans; [exact F0 | exact Rf] | exact F2]|].
    split.
    { split.
      - unfold w2. wsimpl. rewrite Rq'. apply Forall_app. split; [exact J1 | repeat constructor; exact Hraw].
      - intros X. change (alive w2 k) with (alive w1 k) in X. congruence. }
    intros t. specialize (HI t). unfold w2, bget, eget, bsubs. wsimpl.
    fold (bsubs w1) (bget w1 t) (eget w1 t). rewrite Rq', Heg, kabs_q_app. cbn [kabs_q flat_map].
    rewrite app_nil_r, Hk, <- !app_assoc. fold (kabs_q t (w_retryq w)).
    apply K_run_failed with (b := bget w t); [apply kabs_q_raw, J1 | | exact HI].
    destruct Hb as [Hb | [Hal Hb]].
    + left. rewrite Hb. reflexivity.
    + right. rewrite (J2 Hal). split; [reflexivity|]. rewrite Hb. reflexivity.
Qed.

(* ---------- publishes do not touch subscriptions ---------- *)
Record pub_spec (w : world) (k : nat) (w' : world) (r : ares) : Prop := {
  ps_retryq : w_retryq w' = w_retryq w;
  ps_subest : w_subest w' = w_subest w;
  ps_bsubs : bsubs w' = bsubs w;
  ps_frame : cframe w w';
  ps_side : WSide w -> WSide w';
  ps_fail : forall e cls, r = AFail e cls -> alive w' k = false /\ israw e /\ forall t, kabs_e t e = [];
  ps_nohang : r <> AHung
}.

Lemma send_pub_bsubs w k p w' r :
  pkt_subs (bsubs w) p = bsubs w -> send_spec w k p w' r -> bsubs w' = bsubs w.
Proof.
  intros Hp S. unfold bsubs in *. destruct (ss_broker _ _ _ _ _ S) as [-> | (_ & _ & ->)]; [reflexivity|].
  rewrite b_subs_step. exact Hp.
Qed.

Lemma attempt_pubrel_ok w k m w' r :
  attempt_pubrel cfg fp w k m = (w', r) -> pub_spec w k w' r.
Proof.
  unfold attempt_pubrel. destruct (negb (cl_inited (get_client w k))).
  - intros H; injection H as <- <-. constructor; auto using cframe_refl; intros; discriminate.
  - destruct (send cfg fp w k (PPubRel (p_uid m))) as [w1 c] eqn:Es. apply send_ok in Es.
    pose proof (send_pub_bsubs w k (PPubRel (p_uid m)) w1 c eq_refl Es) as Hb.
    destruct (ss_res _ _ _ _ _ Es) as [-> | [-> | ->]]; intros H; injection H as <- <-.
    + constructor; wsimpl; eauto using ss_retryq, ss_subest.
      * eapply cframe_trans; [apply (ss_frame _ _ _ _ _ Es) | apply cframe_same; reflexivity].
      * intros HW. apply WSide_add_acked. eapply send_side; eauto.
      * intros; discriminate.
      * discriminate.
    + constructor; eauto using ss_retryq, ss_subest, ss_frame, send_side; [|discriminate].
      intros e cls H. injection H as <- <-. split; [apply (ss_nack _ _ _ _ _ Es); discriminate|]. split; [exact I | reflexivity].
    + constructor; eauto using ss_retryq, ss_subest, ss_frame, send_side; [|discriminate].
      intros e cls H. injection H as <- <-. split; [apply (ss_nack _ _ _ _ _ Es); discriminate|]. split; [exact I | reflexivity].
Qed.

Lemma pub_spec_trans w k w1 w' r :
  w_retryq w1 = w_retryq w -> w_subest w1 = w_subest w -> bsubs w1 = bsubs w -> cframe w w1 -> (WSide w -> WSide w1) ->
  pub_spec w1 k w' r -> pub_spec w k w' r.
Proof.
  intros A B C D E [P1 P2 P3 P4 P5 P6 P7]. constructor; try congruence; auto.
  eapply cframe_trans; eauto.
Qed.

Lemma attempt_publish_ok w k m d w' r :
  attempt_publish cfg fp w k m d = (w', r) -> pub_spec w k w' r.
Proof.
  unfold attempt_publish. destruct (negb (cl_inited (get_client w k))).
  - intros H; injection H as <- <-. constructor; auto using cframe_refl; intros; discriminate.
  - destruct (send cfg fp w k (PPublish m d)) as [w1 c] eqn:Es. apply send_ok in Es.
    pose proof (send_pub_bsubs w k (PPublish m d) w1 c eq_refl Es) as Hb.
    assert (Base : forall r0, (forall e cls, r0 = AFail e cls -> alive w1 k = false /\ israw e /\ forall t, kabs_e t e = []) ->
                   r0 <> AHung -> pub_spec w k w1 r0).
    { intros r0 H1 H2. constructor; eauto using ss_retryq, ss_subest, ss_frame, send_side. }
    assert (Fail : forall cls, c <> CAck -> pub_spec w k w1 (AFail (RPublish m) cls)).
    { intros cls Hc. apply Base; [|discriminate]. intros e cls' H. injection H as <- <-.
      split; [apply (ss_nack _ _ _ _ _ Es); exact Hc|]. split; [exact I | reflexivity]. }
    destruct (p_qos m =? 0)%N.
    { destruct (ss_res _ _ _ _ _ Es) as [-> | [-> | ->]]; intros H; injection H as <- <-;
        apply Base; intros; discriminate. }
    destruct (p_qos m =? 1)%N.
    { destruct (ss_res _ _ _ _ _ Es) as [-> | [-> | ->]]; intros H; injection H as <- <-.
      - constructor; wsimpl; eauto using ss_retryq, ss_subest.
        + eapply cframe_trans; [apply (ss_frame _ _ _ _ _ Es) | apply cframe_same; reflexivity].
        + intros HW. apply WSide_add_acked. eapply send_side; eauto.
        + intros; discriminate.
        + discriminate.
      - apply Fail; discriminate.
      - apply Fail; discriminate. }
    destruct (ss_res _ _ _ _ _ Es) as [-> | [-> | ->]].
    + intros H. apply attempt_pubrel_ok in H.
      eapply (pub_spec_trans w k w1);
        [apply (ss_retryq _ _ _ _ _ Es) | apply (ss_subest _ _ _ _ _ Es) | exact Hb | apply (ss_frame _ _ _ _ _ Es)
        | intros; eapply send_side; eauto | exact H].
    + intros H; injection H as <- <-. apply Fail; discriminate.
    + intros H; injection H as <- <-. apply Fail; discriminate.
Qed.

Lemma pub_settle w k uid w1 r tail n :
  pub_spec w k w1 r -> WSide w -> J w k -> WInv w tail n ->
  let w' := settle uid (w1, r) in
  WSide w' /\ cframe w w' /\ J w' k /\ WInv w' tail n.
Proof.
  intros [P1 P2 P3 P4 P5 P6 P7] HW [J1 J2] HI.
  assert (Hbg : forall t, bget w1 t = bget w t) by (intros; unfold bget; rewrite P3; reflexivity).
  assert (Heg : forall t, eget w1 t = eget w t) by (intros; unfold eget; rewrite P2; reflexivity).
  assert (J1w : J w1 k).
  { split; [rewrite P1; exact J1|]. intros X. rewrite P1. apply J2. destruct P4 as (_ & _ & _ & F). apply F, X. }
  assert (I1 : WInv w1 tail n).
  { eapply WInv_ext; [exact Hbg | exact Heg | | exact HI]. intros; rewrite P1; reflexivity. }
  destruct r as [|e cls|cls|]; cbn [settle].
  - auto.
  - destruct (P6 e cls eq_refl) as (Hd & Hr & Hk).
    set (w2 := queue_retry (on_error w1 cls) e).
    assert (F2 : cframe w1 w2) by (apply cframe_same; reflexivity).
    split; [eapply WSide_same_broker; [apply P5, HW | exact F2 | reflexivity | reflexivity | reflexivity]|].
    split; [eapply cframe_trans; eauto|]. split.
    + split.
      * unfold w2. wsimpl. apply Forall_app. split; [apply J1w | repeat constructor; exact Hr].
      * intros X. change (alive w2 k) with (alive w1 k) in X. congruence.
    + eapply WInv_ext; [| | | exact I1]; unfold w2, bget, eget, bsubs; wsimpl; try reflexivity.
      intros t. rewrite kabs_q_app. cbn [kabs_q flat_map]. rewrite Hk. cbn [Datatypes.app]. rewrite app_nil_r. reflexivity.
  - set (w2 := add_dropped (on_error w1 cls) uid).
    assert (F2 : cframe w1 w2) by (apply cframe_same; reflexivity).
    split; [eapply WSide_same_broker; [apply P5, HW | exact F2 | reflexivity | reflexivity | reflexivity]|].
    split; [eapply cframe_trans; eauto|]. split; [exact J1w | exact I1].
  - congruence.
Qed.

(* ---------- one entry of the retry queue ---------- *)
Definition loop_ok (w : world) (k : nat) (tail : str -> list kitem) (n : str -> option N) : Prop :=
  WSide w /\ J w k /\ WInv w tail n.

Lemma run_entry_step w k e w' r tail n :
  inited w k = true -> WSide w -> J w k ->
  WInv w (fun t => kabs_e t e ++ tail t) n ->
  run_entry cfg fp w k e = (w', r) ->
  cframe w w' /\
  match r with
  | AFail e' cls => israw e' /\ (forall t, kabs_e t e' = kabs_e t e) /\ alive w' k = false /\
                    w_retryq w' = w_retryq w /\ WSide w' /\ WInv w' (fun t => kabs_e t e ++ tail t) n
  | AHung => False
  | _ => loop_ok w' k tail n
  end.
Proof.
  intros Hi HW HJ HI. destruct e; cbn [run_entry].
  - (* RPublish *)
    intros H. apply attempt_publish_ok in H. destruct H as [P1 P2 P3 P4 P5 P6 P7]. split; [exact P4|].
    assert (I1 : WInv w' (fun t => kabs_e t (RPublish m) ++ tail t) n).
    { eapply WInv_ext; [| | | exact HI]; intros t; unfold bget, eget; rewrite ?P3, ?P2, ?P1; reflexivity. }
    assert (J1w : J w' k).
    { destruct HJ as [J1 J2]. split; [rewrite P1; exact J1|]. intros X. rewrite P1. apply J2. destruct P4 as (_ & _ & _ & F). apply F, X. }
    destruct r as [|e cls|cls|]; try (split; [apply P5, HW | split; [exact J1w | exact I1]]); [|congruence].
    destruct (P6 e cls eq_refl) as (Hd & Hr & Hk).
    split; [exact Hr|]. split; [intros t; rewrite Hk; reflexivity|]. split; [exact Hd|]. split; [exact P1|].
    split; [apply P5, HW | exact I1].
  - (* RPubRel *)
    intros H. apply attempt_pubrel_ok in H. destruct H as [P1 P2 P3 P4 P5 P6 P7]. split; [exact P4|].
    assert (I1 : WInv w' (fun t => kabs_e t (RPubRel m) ++ tail t) n).
    { eapply WInv_ext; [| | | exact HI]; intros t; unfold bget, eget; rewrite ?P3, ?P2, ?P1; reflexivity. }
    assert (J1w : J w' k).
    { destruct HJ as [J1 J2]. split; [rewrite P1; exact J1|]. intros X. rewrite P1. apply J2. destruct P4 as (_ & _ & _ & F). apply F, X. }
    destruct r as [|e cls|cls|]; try (split; [apply P5, HW | split; [exact J1w | exact I1]]); [|congruence].
    destruct (P6 e cls eq_refl) as (Hd & Hr & Hk).
    split; [exact Hr|]. split; [intros t; rewrite Hk; reflexivity|]. split; [exact Hd|]. split; [exact P1|].
    split; [apply P5, HW | exact I1].
  - (* RSubscribe *)
    rewrite attempt_subscribe_req. intros H.
    eapply raw_entry_step in H; eauto.
    destruct H as (S1 & F1 & Q1 & E1 & [(-> & I1) | (cls & -> & Hd & I1)]); split; auto.
    + split; [exact S1|]. split; [|exact I1]. destruct HJ as [J1 J2]. split; [rewrite Q1; exact J1|].
      intros X. rewrite Q1. apply J2. destruct F1 as (_ & _ & _ & F). apply F, X.
    + split; [exact I|]. split; [reflexivity|]. split; [exact Hd|]. split; [exact Q1|]. split; [exact S1 | exact I1].
  - (* RUnsubscribe *)
    rewrite attempt_unsubscribe_req. intros H.
    eapply raw_entry_step in H; eauto.
    destruct H as (S1 & F1 & Q1 & E1 & [(-> & I1) | (cls & -> & Hd & I1)]); split; auto.
    + split; [exact S1|]. split; [|exact I1]. destruct HJ as [J1 J2]. split; [rewrite Q1; exact J1|].
      intros X. rewrite Q1. apply J2. destruct F1 as (_ & _ & _ & F). apply F, X.
    + split; [exact I|]. split; [reflexivity|]. split; [exact Hd|]. split; [exact Q1|]. split; [exact S1 | exact I1].
  - (* DPublish *)
    intros H. injection H as <- <-. unfold do_publish.
    destruct (attempt_publish cfg fp w k m false) as [w1 r1] eqn:Ea. apply attempt_publish_ok in Ea.
    destruct (pub_settle w k (p_uid m) w1 r1 tail n Ea HW HJ) as (A & B & C & D); [exact HI|].
    split; [exact B|]. split; auto.
  - (* DSubscribe *)
    intros H. injection H as <- <-. unfold do_subscribe. rewrite attempt_subscribe_req.
    destruct (deferred_step w k (est_apply_subs (w_subest w) ss) (PSubscribe uid ss) uid (RSubscribe uid ss) tail n)
      as (A & B & C & D); auto.
    + exact I.
    + apply coh_est_apply_subs. apply HW.
    + intros t. apply get_est_apply_subs.
    + split; [exact B|]. split; auto.
  - (* DUnsubscribe *)
    intros H. injection H as <- <-. unfold do_unsubscribe. rewrite attempt_unsubscribe_req.
    destruct (deferred_step w k (est_apply_unsubs (w_subest w) ts) (PUnsubscribe uid ts) uid (RUnsubscribe uid ts) tail n)
      as (A & B & C & D); auto.
    + exact I.
    + apply coh_est_apply_unsubs. apply HW.
    + intros t. apply get_est_apply_unsubs.
    + split; [exact B|]. split; auto.
Qed.

Lemma inited_frame w w' k : cframe w w' -> inited w k = true -> inited w' k = true.
Proof. intros (_ & F & _) H. unfold inited in *. rewrite F. exact H. Qed.

(* ---------- Retry ---------- *)
Lemma retry_loop_spec old : forall w k tail n,
  inited w k = true -> WSide w -> J w k ->
  WInv w (fun t => kabs_q t old ++ tail t) n ->
  let w' := retry_loop cfg fp w k old in
  WSide w' /\ cframe w w' /\ WInv w' tail n.
Proof.
  induction old as [|e rest IH]; intros w k tail n Hi HW HJ HI.
  - cbn [retry_loop]. split; [exact HW|]. split; [apply cframe_refl | exact HI].
  - cbn [retry_loop]. destruct (run_entry cfg fp w k e) as [w1 r] eqn:Er.
    assert (HI' : WInv w (fun t => kabs_e t e ++ (kabs_q t rest ++ tail t)) n).
    { intros t. specialize (HI t). cbn [kabs_q flat_map] in HI. rewrite <- app_assoc in HI. exact HI. }
    destruct (run_entry_step w k e w1 r _ n Hi HW HJ HI' Er) as [F1 Hr].
    assert (Hi1 : inited w1 k = true) by (eapply inited_frame; eauto).
    destruct r as [|e' cls|cls|].
    + destruct Hr as (S1 & J1 & I1). destruct S1 as (Sa & Sb & Sc & Sd). rewrite Sc.
      destruct (IH w1 k tail n Hi1 (conj Sa (conj Sb (conj Sc Sd))) J1 I1) as (A & B & C).
      split; [exact A|]. split; [eapply cframe_trans; [exact F1 | exact B] | exact C].
    + destruct Hr as (Hraw & Hk & Hd & Q1 & S1 & I1). destruct S1 as (Sa & Sb & Sc & Sd). rewrite Sc.
      set (w2 := queue_retry (on_error w1 cls) e').
      assert (F2 : cframe w1 (set_retryq w2 (w_retryq w2 ++ rest))) by (apply cframe_same; reflexivity).
      split; [eapply WSide_same_broker; [exact (conj Sa (conj Sb (conj Sc Sd))) | exact F2 | reflexivity | reflexivity | reflexivity]|].
      split; [eapply cframe_trans; eauto|].
      intros t. specialize (I1 t). unfold w2, bget, eget, bsubs. wsimpl.
      fold (bsubs w1) (bget w1 t) (eget w1 t).
      rewrite !kabs_q_app. cbn [kabs_q flat_map]. rewrite app_nil_r, Hk, <- !app_assoc. exact I1.
    + destruct Hr as (S1 & J1 & I1). destruct S1 as (Sa & Sb & Sc & Sd). rewrite Sc.
      set (w2 := add_dropped w1 (entry_uid e)).
      assert (F2 : cframe w1 w2) by (apply cframe_same; reflexivity).
      assert (S2 : WSide w2) by (eapply WSide_same_broker; [exact (conj Sa (conj Sb (conj Sc Sd))) | exact F2 | reflexivity | reflexivity | reflexivity]).
      assert (J2 : J w2 k) by exact J1.
      assert (I2 : WInv w2 (fun t => kabs_q t rest ++ tail t) n) by exact I1.
      destruct (IH w2 k tail n (inited_frame _ _ _ F2 Hi1) S2 J2 I2) as (A & B & C).
      split; [exact A|]. split; [|exact C]. eapply cframe_trans; [exact F1|]. eapply cframe_trans; [exact F2 | exact B].
    + contradiction.
Qed.

Lemma task_retry_spec w k tail n :
  inited w k = true -> WSide w -> WInv w tail n ->
  let w' := task_retry cfg fp w k in
  WSide w' /\ cframe w w' /\ WInv w' tail n.
Proof.
  intros Hi HW HI. unfold task_retry.
  set (w0 := set_retryq w []).
  assert (F0 : cframe w w0) by (apply cframe_same; reflexivity).
  assert (S0 : WSide w0) by (eapply WSide_same_broker; eauto).
  assert (J0 : J w0 k) by (split; [constructor | reflexivity]).
  assert (I0 : WInv w0 (fun t => kabs_q t (w_retryq w) ++ tail t) n) by (intros t; apply HI).
  destruct (retry_loop_spec (w_retryq w) w0 k tail n (inited_frame _ _ _ F0 Hi) S0 J0 I0) as (A & B & C).
  split; [exact A|]. split; [eapply cframe_trans; [exact F0 | exact B] | exact C].
Qed.

(* ---------- a request run as a task ---------- *)
Lemma task_subscribe_spec w k uid ss tail n :
  inited w k = true -> WSide w ->
  WInv w (fun t => kmk KBoth (tsub t ss) ++ tail t) n ->
  let w' := task_subscribe cfg fp w k uid ss in
  WSide w' /\ cframe w w' /\ WInv w' tail n.
Proof.
  intros Hi HW HI. unfold task_subscribe. destruct (w_retryq w) eqn:Eq.
  - unfold do_subscribe. rewrite attempt_subscribe_req.
    destruct (deferred_step w k (est_apply_subs (w_subest w) ss) (PSubscribe uid ss) uid (RSubscribe uid ss) tail n)
      as (A & B & C & D); auto.
    + split; [rewrite Eq; constructor | auto].
    + exact I.
    + apply coh_est_apply_subs. apply HW.
    + intros t. apply get_est_apply_subs.
  - rewrite <- Eq. set (w' := set_retryq w _).
    assert (F : cframe w w') by (apply cframe_same; reflexivity).
    split; [eapply WSide_same_broker; eauto|]. split; [exact F|].
    eapply WInv_ext; [| | | exact HI]; try reflexivity.
    intros t. unfold w'. wsimpl. rewrite kabs_q_app. cbn [kabs_q flat_map kabs_e]. rewrite app_nil_r, <- app_assoc. reflexivity.
Qed.

Lemma task_unsubscribe_spec w k uid ts tail n :
  inited w k = true -> WSide w ->
  WInv w (fun t => kmk KBoth (tunsub t ts) ++ tail t) n ->
  let w' := task_unsubscribe cfg fp w k uid ts in
  WSide w' /\ cframe w w' /\ WInv w' tail n.
Proof.
  intros Hi HW HI. unfold task_unsubscribe. destruct (w_retryq w) eqn:Eq.
  - unfold do_unsubscribe. rewrite attempt_unsubscribe_req.
    destruct (deferred_step w k (est_apply_unsubs (w_subest w) ts) (PUnsubscribe uid ts) uid (RUnsubscribe uid ts) tail n)
      as (A & B & C & D); auto.
    + split; [rewrite Eq; constructor | auto].
    + exact I.
    + apply coh_est_apply_unsubs. apply HW.
    + intros t. apply get_est_apply_unsubs.
  - rewrite <- Eq. set (w' := set_retryq w _).
    assert (F : cframe w w') by (apply cframe_same; reflexivity).
    split; [eapply WSide_same_broker; eauto|]. split; [exact F|].
    eapply WInv_ext; [| | | exact HI]; try reflexivity.
    intros t. unfold w'. wsimpl. rewrite kabs_q_app. cbn [kabs_q flat_map kabs_e]. rewrite app_nil_r, <- app_assoc. reflexivity.
Qed.

Lemma task_publish_spec w k m tail n :
  WSide w -> WInv w tail n ->
  let w' := task_publish cfg fp w k m in
  WSide w' /\ cframe w w' /\ WInv w' tail n.
Proof.
  intros HW HI. unfold task_publish. destruct (w_retryq w) eqn:Eq.
  - unfold do_publish. destruct (attempt_publish cfg fp w k m false) as [w1 r1] eqn:Ea. apply attempt_publish_ok in Ea.
    assert (HJ : J w k) by (split; [rewrite Eq; constructor | auto]).
    destruct (pub_settle w k (p_uid m) w1 r1 tail n Ea HW HJ HI) as (A & B & C & D). auto.
  - rewrite <- Eq. destruct (0 <? p_qos m)%N.
    + set (w' := set_retryq w _).
      assert (F : cframe w w') by (apply cframe_same; reflexivity).
      split; [eapply WSide_same_broker; eauto|]. split; [exact F|].
      eapply WInv_ext; [| | | exact HI]; try reflexivity.
      intros t. unfold w'. wsimpl. rewrite kabs_q_app. cbn [kabs_q flat_map kabs_e]. rewrite app_nil_r. reflexivity.
    + split; [exact HW|]. split; [apply cframe_refl | exact HI].
Qed.

(* ---------- Resubscribe ---------- *)
Definition d0s (l : list sub) : list rentry := map (fun s => DSubscribe 0 [s]) l.

Lemma tsub_single t s : tsub t [s] = if str_eqb t (fst s) then Some (Some (snd s)) else None.
Proof. reflexivity. Qed.

Lemma resub_fold old : forall w k tail n,
  inited w k = true -> WSide w ->
  WInv w (fun t => kabs_q t (d0s old) ++ tail t) n ->
  let w' := fold_left (fun w s => if w_hung w then w else task_subscribe cfg fp w k 0 [s]) old w in
  WSide w' /\ cframe w w' /\ WInv w' tail n.
Proof.
  induction old as [|s rest IH]; intros w k tail n Hi HW HI.
  - cbn [fold_left]. split; [exact HW|]. split; [apply cframe_refl | exact HI].
  - cbn [fold_left]. assert (Hh : w_hung w = false) by apply HW. rewrite Hh.
    assert (HI' : WInv w (fun t => kmk KBoth (tsub t [s]) ++ (kabs_q t (d0s rest) ++ tail t)) n).
    { intros t. specialize (HI t). cbn [d0s map kabs_q flat_map kabs_e] in HI. rewrite <- app_assoc in HI. exact HI. }
    destruct (task_subscribe_spec w k 0 [s] _ n Hi HW HI') as (A & B & C).
    destruct (IH _ k tail n (inited_frame _ _ _ B Hi) A C) as (A' & B' & C').
    split; [exact A'|]. split; [eapply cframe_trans; [exact B | exact B'] | exact C'].
Qed.

Lemma d0s_restore t l : coh l -> forall b ok,
  krun (b, None, ok) (kabs_q t (d0s l)) = (resub b (subs_get t l), subs_get t l, ok).
Proof.
  intros Hc b ok.
  assert (Hall : forall x, In x (kabs_q t (d0s l)) -> x = KBoth (subs_get t l)).
  { intros x Hx. unfold kabs_q, d0s in Hx. apply in_flat_map in Hx as (e & He & Hx).
    apply in_map_iff in He as ([t' q] & <- & Hs). cbn [kabs_e] in Hx. rewrite tsub_single in Hx. cbn [fst snd] in Hx.
    sdestr t t'; [|destruct Hx]. subst t'. destruct Hx as [<- | []]. rewrite (Hc _ _ Hs). reflexivity. }
  rewrite (K_restore _ _ b None ok Hall).
  destruct (kabs_q t (d0s l)) as [|x r] eqn:Ek.
  - assert (subs_get t l = None) as ->; [|reflexivity].
    destruct (subs_get t l) as [q|] eqn:Eg; [|reflexivity]. exfalso.
    clear Hall Hc. revert Ek Eg. induction l as [|[t' q'] l IH]; cbn [subs_get d0s map kabs_q flat_map kabs_e]; [discriminate|].
    rewrite tsub_single. cbn [fst snd]. destruct (str_eqb t t'); [discriminate|]. cbn [kmk Datatypes.app]. exact IH.
  - specialize (Hall x (or_introl eq_refl)). destruct (subs_get t l) as [q|] eqn:Eg; [reflexivity|].
    exfalso. clear Hall Hc. revert x r Ek Eg.
    induction l as [|[t' q'] l IH]; cbn [subs_get d0s map kabs_q flat_map kabs_e]; [discriminate|].
    rewrite tsub_single. cbn [fst snd]. destruct (str_eqb t t'); [discriminate|]. cbn [kmk Datatypes.app]. exact IH.
Qed.

Lemma task_resub_spec w k tail n :
  inited w k = true -> WSide w -> (forall t, Forall not_kraw (tail t)) ->
  WInv w (fun t => KResub :: tail t) n ->
  let w' := task_resubscribe cfg fp w k in
  WSide w' /\ cframe w w' /\ WInv w' tail n.
Proof.
  intros Hi HW Ht HI. unfold task_resubscribe.
  set (w0 := set_retryq (set_subest w []) []).
  set (tail' := fun t => kabs_q t (w_retryq w) ++ tail t).
  assert (F0 : cframe w w0) by (apply cframe_same; reflexivity).
  assert (S0 : WSide w0).
  { destruct HW as (A & B & C & D). unfold WSide, w0, bsubs. wsimpl. repeat split; auto. apply coh_nil. }
  assert (I0 : WInv w0 (fun t => kabs_q t (d0s (w_subest w)) ++ tail' t) n).
  { intros t. specialize (HI t). unfold w0, bget, eget, bsubs. wsimpl. cbn [kabs_q flat_map Datatypes.app subs_get].
    fold (bsubs w) (bget w t). unfold kinv. rewrite krun_app, d0s_restore by apply HW.
    apply K_resub; [apply Ht|]. exact HI. }
  destruct (resub_fold (w_subest w) w0 k tail' n (inited_frame _ _ _ F0 Hi) S0 I0) as (A & B & C).
  set (w1 := fold_left _ _ w0) in *.
  assert (F1 : cframe w1 (set_retryq w1 (w_retryq w1 ++ w_retryq w))) by (apply cframe_same; reflexivity).
  split; [eapply WSide_same_broker; eauto|]. split; [eapply cframe_trans; [exact F0|]; eapply cframe_trans; eauto|].
  eapply WInv_ext; [| | | exact C]; try reflexivity.
  intros t. wsimpl. unfold tail'. rewrite kabs_q_app, <- app_assoc. reflexivity.
Qed.

(* ---------- any task ---------- *)
Lemma exec_task_spec w k x tail n :
  inited w k = true -> WSide w -> (forall t, Forall not_kraw (tail t)) ->
  WInv w (fun t => kabs_task t x ++ tail t) n ->
  let w' := exec_task cfg fp w k x in
  WSide w' /\ cframe w w' /\ WInv w' tail n.
Proof.
  intros Hi HW Ht HI. destruct x as [[m|uid ss|uid ts]| |]; cbn [exec_task].
  - apply task_publish_spec; auto.
  - apply task_subscribe_spec; auto.
  - apply task_unsubscribe_spec; auto.
  - apply task_resub_spec; auto.
  - apply task_retry_spec; auto.
Qed.

End Exec.
