(* CheckC14.v — executable comparison of observations of the implementation with Filter.v *)
From MQ Require Import Base Filter.
Open Scope N_scope.

Definition alpha_f : list N := [47; 43; 35; 97; 98].
Definition alpha_t : list N := [47; 97; 98].

Definition sig_model (fl tl : nat) : list N :=
  let topics := strings_upto alpha_t tl in
  map (filter_signature topics) (strings_upto alpha_f fl).

Fixpoint diff_indices_from (k : nat) (a b : list N) : list nat :=
  match a, b with
  | [], [] => []
  | x :: a', y :: b' => if N.eqb x y then diff_indices_from (S k) a' b' else k :: diff_indices_from (S k) a' b'
  | _, _ => [k]
  end.

Definition sig_mismatches (fl tl : nat) (obs : list N) : list nat :=
  diff_indices_from 0 (sig_model fl tl) obs.

Definition rand_ok (c : str * str * bool * bool) : bool :=
  let '(f, t, acc, mt) := c in
  match new_topic_filter f with
  | None => negb acc && negb mt
  | Some tf => acc && Bool.eqb mt (filter_match tf t)
  end.

Definition rand_mismatches (cs : list (str * str * bool * bool)) : list nat :=
  indices_where (fun c => negb (rand_ok c)) cs.

Definition mux_ok (c : list (str * nat) * str * list bool * list nat) : bool :=
  let '(regs, t, accs, called) := c in
  list_eqb Bool.eqb accs (map (fun r => match new_topic_filter (fst r) with Some _ => true | None => false end) regs)
  && list_eqb Nat.eqb called (mux_serve (mux_of regs) t).

Definition mux_mismatches (cs : list (list (str * nat) * str * list bool * list nat)) : list nat :=
  indices_where (fun c => negb (mux_ok c)) cs.
