(* CheckC14.v — executable comparison of observations of the implementation with Filter.v *)
From MQ Require Import Base Filter.
Open Scope N_scope.

Definition alpha_f : list N := [47; 43; 35; 97; 98].
Definition alpha_t : list N := [47; 97; 98].

Definition sig_model (fl tl : nat) : list N :=
  let topics := strings_upto alpha_t tl in
  map (filter_signature topics) (strings_upto alpha_f fl).

Fixpoint diff_indices_from (k : nat) (a b : list N) : list nat :=
  match a, b with
  | [], [] => []
  | x :: a', y :: b' => if N.eqb x y then diff_indices_from (S k) a' b' else k :: diff_indices_from (S k) a' b'
  | _, _ => [k]
  end.

(* at most [lim] indices: the driver reports the first few, and a result holding thousands of
   (unary) nat indices costs gigabytes when a change breaks most of an enumerated space *)
Fixpoint diff_indices_lim (lim k : nat) (a b : list N) {struct a} : list nat :=
  match lim with
  | O => []
  | S lim' =>
      match a, b with
      | [], [] => []
      | x :: a', y :: b' =>
          if N.eqb x y then diff_indices_lim lim (S k) a' b' else k :: diff_indices_lim lim' (S k) a' b'
      | _, _ => [k]
      end
  end.

Definition REPORT_MAX : nat := 8.

Definition sig_mismatches (fl tl : nat) (obs : list N) : list nat :=
  diff_indices_lim REPORT_MAX 0 (sig_model fl tl) obs.

Definition rand_ok (c : str * str * bool * bool) : bool :=
  let '(f, t, acc, mt) := c in
  match new_topic_filter f with
  | None => negb acc && negb mt
  | Some tf => acc && Bool.eqb mt (filter_match tf t)
  end.

Definition rand_mismatches (cs : list (str * str * bool * bool)) : list nat :=
  indices_where (fun c => negb (rand_ok c)) cs.

Definition mux_ok (c : list (str * nat) * str * list bool * list nat) : bool :=
  let '(regs, t, accs, called) := c in
  list_eqb Bool.eqb accs (map (fun r => match new_topic_filter (fst r) with Some _ => true | None => false end) regs)
  && list_eqb Nat.eqb called (mux_serve (mux_of regs) t).

Definition mux_mismatches (cs : list (list (str * nat) * str * list bool * list nat)) : list nat :=
  indices_where (fun c => negb (mux_ok c)) cs.

(* ---------- second exhaustive space: '$' in both alphabets; topics starting with '$' skipped
   (outside the property).  Enumerated identically by c14.go (stringsUpto + the same filter). ---------- *)
Definition alpha_fd : list N := [47; 43; 35; 97; 36].
Definition alpha_td : list N := [47; 97; 36].

Definition sigd_model (fl tl : nat) : list N :=
  let topics := topics_upto alpha_td tl in
  map (filter_signature topics) (strings_upto alpha_fd fl).

Definition sigd_mismatches (fl tl : nat) (obs : list N) : list nat :=
  diff_indices_lim REPORT_MAX 0 (sigd_model fl tl) obs.

(* ---------- histories of Handle / Serve operations on several ServeMux instances ---------- *)

Definition ev_eqb (a b : mux_ev) : bool :=
  match a, b with
  | EvHandle x, EvHandle y => Bool.eqb x y
  | EvServe x, EvServe y => list_eqb Nat.eqb x y
  | _, _ => false
  end.

(* V: the property predicate, position by position from the history (Filter.op_expected) *)
Definition ops_prop_ok (c : list mux_op * list mux_ev) : bool :=
  let '(ops, evs) := c in
  Nat.eqb (length evs) (length ops)
  && forallb (fun k => option_eqb ev_eqb (nth_error evs k) (op_expected ops k)) (seq 0 (length ops)).

Definition ops_violations (cs : list (list mux_op * list mux_ev)) : list nat :=
  indices_where (fun c => negb (ops_prop_ok c)) cs.

(* M: the state machine model *)
Definition ops_model_ok (c : list mux_op * list mux_ev) : bool :=
  let '(ops, evs) := c in list_eqb ev_eqb evs (muxes_run muxes_empty ops).

Definition ops_mismatches (cs : list (list mux_op * list mux_ev)) : list nat :=
  indices_where (fun c => negb (ops_model_ok c)) cs.

(* exhaustive histories: every sequence up to a length over 7 operations on 2 instances; the
   handler registered by the operation at position p is handler p.  c14.go: c14ExhOp. *)
Definition exh_alpha : list N := [0; 1; 2; 3; 4; 5; 6].

Definition exh_op (pos : nat) (c : N) : mux_op :=
  match c with
  | 0 => OpHandle 0 [97] pos            (* m0.Handle("a")  *)
  | 1 => OpHandle 0 [43] pos            (* m0.Handle("+")  *)
  | 2 => OpHandle 0 [97; 43] pos        (* m0.Handle("a+") rejected *)
  | 3 => OpServe 0 [97]                 (* m0.Serve("a")   *)
  | 4 => OpServe 0 [98]                 (* m0.Serve("b")   *)
  | 5 => OpHandle 1 [35] pos            (* m1.Handle("#")  *)
  | _ => OpServe 1 [97]                 (* m1.Serve("a")   *)
  end.

Fixpoint exh_ops_from (pos : nat) (cs : list N) : list mux_op :=
  match cs with
  | [] => []
  | c :: r => exh_op pos c :: exh_ops_from (S pos) r
  end.

(* one number per event (never 0), one number per history *)
Definition ev_code (e : mux_ev) : N :=
  match e with
  | EvHandle false => 1
  | EvHandle true => 2
  | EvServe hs => 3 + 4 * fold_right (fun h acc => N.of_nat (S h) + 8 * acc) 0 hs
  end.

(* The observation sent for a history is the code of its LAST event (0 for the empty history):
   every proper prefix of a history is itself in the enumeration and is run on fresh ServeMux
   values of its own, so every event of every history is compared once.  (Large numerals are slow
   to parse: one small number per history.)  c14.go additionally checks on the Go side that the
   earlier events of a history equal those recorded for its prefixes. *)
Definition last_code (evs : list mux_ev) : N :=
  match rev evs with
  | [] => 0
  | e :: _ => ev_code e
  end.

Definition exh_prop_last (cs : list N) : N :=
  let ops := exh_ops_from 0 cs in
  match op_expected ops (pred (length ops)) with
  | Some e => ev_code e
  | None => 0
  end.

Definition exh_prop_codes (n : nat) : list N := map exh_prop_last (strings_upto exh_alpha n).

Definition exh_model_codes (n : nat) : list N :=
  map (fun cs => last_code (muxes_run muxes_empty (exh_ops_from 0 cs))) (strings_upto exh_alpha n).

Definition exh_violations (n : nat) (obs : list N) : list nat := diff_indices_lim REPORT_MAX 0 (exh_prop_codes n) obs.
Definition exh_mismatches (n : nat) (obs : list N) : list nat := diff_indices_lim REPORT_MAX 0 (exh_model_codes n) obs.

(* ---------- deep topics and filters (round 4): levels are sent as codes, strings are the codes'
   levels joined by '/'.  One case = one ServeMux: all filters registered in order, the topic
   served once.  c14.go: c14DeepLevels. ---------- *)
Definition deep_level (c : N) : str :=
  match c with
  | 0 => []                 (* ""   *)
  | 1 => [97]               (* "a"  *)
  | 2 => [98]               (* "b"  *)
  | 3 => [36; 120]          (* "$x" *)
  | 4 => [97; 98]           (* "ab" *)
  | 5 => [43]               (* "+"  *)
  | 6 => [35]               (* "#"  *)
  | 7 => [97; 43]           (* "a+" *)
  | 8 => [35; 98]           (* "#b" *)
  | 10 => [32]              (* " "  (round 8: white space is an ordinary character) *)
  | 11 => [97; 32]          (* "a " *)
  | 12 => [9]               (* tab  *)
  | _ => [48]               (* "0"  *)
  end.

Definition deep_str (cs : list N) : str := join (map deep_level cs).

Definition deep_ok (c : list N * list (list N) * list bool * list nat) : bool :=
  let '(t, fs, accs, called) := c in
  mux_ok (combine (map deep_str fs) (seq 0 (length fs)), deep_str t, accs, called).

Definition deep_mismatches (cs : list (list N * list (list N) * list bool * list nat)) : list nat :=
  indices_where (fun c => negb (deep_ok c)) cs.

(* ---------- re-entrant histories (round 4) ---------- *)

Fixpoint acts_of (l : list (nat * (str * nat * str))) (h : nat) : hact :=
  match l with
  | [] => None
  | (h', a) :: r => if Nat.eqb h h' then Some a else acts_of r h
  end.

Definition inv_eqb (a b : nat * nat) : bool := Nat.eqb (fst a) (fst b) && Nat.eqb (snd a) (snd b).

Definition nev_eqb (a b : nmux_ev) : bool :=
  match a, b with
  | NvHandle x, NvHandle y => Bool.eqb x y
  | NvServe x, NvServe y => list_eqb inv_eqb x y
  | _, _ => false
  end.

Definition nest_case := (list (nat * (str * nat * str)) * nat * list mux_op * list nmux_ev)%type.

(* V: position by position from the history (Filter.nserve_expected, C14_mux_nested_decided) *)
Definition nest_prop_ok (c : nest_case) : bool :=
  let '(al, fuel, ops, evs) := c in
  Nat.eqb (length evs) (length ops)
  && forallb (fun k => option_eqb nev_eqb (nth_error evs k) (nserve_expected (acts_of al) fuel ops k))
             (seq 0 (length ops)).

Definition nest_violations (cs : list nest_case) : list nat :=
  indices_where (fun c => negb (nest_prop_ok c)) cs.

(* M: the state machine *)
Definition nest_model_ok (c : nest_case) : bool :=
  let '(al, fuel, ops, evs) := c in
  list_eqb nev_eqb evs (nmuxes_run (acts_of al) fuel muxes_empty ops).

Definition nest_mismatches (cs : list nest_case) : list nat :=
  indices_where (fun c => negb (nest_model_ok c)) cs.

(* exhaustive re-entrant histories: 7 operations on 2 instances, three of the registrations carry
   a re-dispatching handler; nesting depth bound 2.  c14.go: c14NexhOp. *)
Definition nexh_op (pos : nat) (c : N) : mux_op :=
  match c with
  | 0 => OpHandle 0 [97] pos            (* m0.Handle("a"), handler: given "a" -> m0.Serve("b") *)
  | 1 => OpHandle 0 [43] pos            (* m0.Handle("+")  *)
  | 2 => OpHandle 0 [98] pos            (* m0.Handle("b"), handler: given "b" -> m1.Serve("a") *)
  | 3 => OpServe 0 [97]                 (* m0.Serve("a")   *)
  | 4 => OpServe 0 [98]                 (* m0.Serve("b")   *)
  | 5 => OpHandle 1 [35] pos            (* m1.Handle("#"), handler: given "a" -> m0.Serve("b") *)
  | _ => OpServe 1 [97]                 (* m1.Serve("a")   *)
  end.

Definition nexh_act (c : N) : hact :=
  match c with
  | 0 => Some ([97], 0%nat, [98])
  | 2 => Some ([98], 1%nat, [97])
  | 5 => Some ([97], 0%nat, [98])
  | _ => None
  end.

Fixpoint nexh_ops_from (pos : nat) (cs : list N) : list mux_op :=
  match cs with
  | [] => []
  | c :: r => nexh_op pos c :: nexh_ops_from (S pos) r
  end.

(* handler ids are positions *)
Definition nexh_acts (cs : list N) (h : nat) : hact :=
  match nth_error cs h with Some c => nexh_act c | None => None end.

Definition NEXH_FUEL : nat := 2.

Definition nev_code (e : nmux_ev) : N :=
  match e with
  | NvHandle false => 1
  | NvHandle true => 2
  | NvServe tr => 3 + 4 * fold_right (fun e acc => N.of_nat (fst e * 8 + S (snd e)) + 32 * acc) 0 tr
  end.

Definition nexh_prop_last (cs : list N) : N :=
  let ops := nexh_ops_from 0 cs in
  match nserve_expected (nexh_acts cs) NEXH_FUEL ops (pred (length ops)) with
  | Some e => nev_code e
  | None => 0
  end.

Definition nexh_model_last (cs : list N) : N :=
  match rev (nmuxes_run (nexh_acts cs) NEXH_FUEL muxes_empty (nexh_ops_from 0 cs)) with
  | [] => 0
  | e :: _ => nev_code e
  end.

Definition nexh_violations (n : nat) (obs : list N) : list nat :=
  diff_indices_lim REPORT_MAX 0 (map nexh_prop_last (strings_upto exh_alpha n)) obs.
Definition nexh_mismatches (n : nat) (obs : list N) : list nat :=
  diff_indices_lim REPORT_MAX 0 (map nexh_model_last (strings_upto exh_alpha n)) obs.

(* ---------- round 8: third exhaustive space, with the space character in both alphabets
   (white space is an ordinary character of filters and topics) ---------- *)
Definition alpha_fw : list N := [47; 43; 35; 97; 32].
Definition alpha_tw : list N := [47; 97; 32].

Definition sigw_model (fl tl : nat) : list N :=
  let topics := strings_upto alpha_tw tl in
  map (filter_signature topics) (strings_upto alpha_fw fl).

Definition sigw_mismatches (fl tl : nat) (obs : list N) : list nat :=
  diff_indices_lim REPORT_MAX 0 (sigw_model fl tl) obs.

(* ---------- round 8: handlers that register and dispatch while being served ---------- *)

Fixpoint progs_of (l : list (nat * (str * list hstep))) (h : nat) : hprog :=
  match l with
  | [] => None
  | (h', p) :: r => if Nat.eqb h h' then Some p else progs_of r h
  end.

Definition titem_eqb (a b : titem) : bool :=
  match a, b with
  | TInv d h, TInv d' h' => Nat.eqb d d' && Nat.eqb h h'
  | TReg d x, TReg d' x' => Nat.eqb d d' && Bool.eqb x x'
  | _, _ => false
  end.

Definition rev_eqb (a b : rmux_ev) : bool :=
  match a, b with
  | RvHandle x, RvHandle y => Bool.eqb x y
  | RvServe x, RvServe y => list_eqb titem_eqb x y
  | _, _ => false                      (* RvStuck (a call that did not return) equals nothing *)
  end.

Definition reg_case := (list (nat * (str * list hstep)) * nat * list mux_op * list rmux_ev)%type.

(* observed history = what the spec determines (C14_mux_registering_decided) *)
Definition reg_ok (c : reg_case) : bool :=
  let '(pl, fuel, ops, evs) := c in
  list_eqb rev_eqb evs (rmuxes_run (progs_of pl) fuel muxes_empty ops).

Definition reg_violations (cs : list reg_case) : list nat :=
  indices_where (fun c => negb (reg_ok c)) cs.

(* exhaustive: 7 operations on 2 instances; handlers registered by a handler of the operation at
   position p are numbered 8+p and have no program.  Nesting bound 1 (keeps the codes small).  c14c.go: c14RexhOp. *)
Definition rexh_op (pos : nat) (c : N) : mux_op :=
  match c with
  | 0 => OpHandle 0 [97] pos     (* m0.Handle("a"); given "a": m0.Handle("a", h 8+p) *)
  | 1 => OpHandle 0 [43] pos     (* m0.Handle("+") *)
  | 2 => OpHandle 0 [97] pos     (* m0.Handle("a"); given "a": m0.Handle("+", h 8+p); m0.Serve("a") *)
  | 3 => OpServe 0 [97]          (* m0.Serve("a") *)
  | 4 => OpServe 0 [98]          (* m0.Serve("b") *)
  | 5 => OpHandle 1 [35] pos     (* m1.Handle("#"); given "a": m0.Handle("a", h 8+p)  (child registers on parent) *)
  | _ => OpServe 1 [97]          (* m1.Serve("a") *)
  end.

Definition rexh_prog (pos : nat) (c : N) : hprog :=
  match c with
  | 0 => Some ([97], [HsHandle 0 [97] (8 + pos)])
  | 2 => Some ([97], [HsHandle 0 [43] (8 + pos); HsServe 0 [97]])
  | 5 => Some ([97], [HsHandle 0 [97] (8 + pos)])
  | _ => None
  end.

Fixpoint rexh_ops_from (pos : nat) (cs : list N) : list mux_op :=
  match cs with
  | [] => []
  | c :: r => rexh_op pos c :: rexh_ops_from (S pos) r
  end.

Definition rexh_progs (cs : list N) (h : nat) : hprog :=
  match nth_error cs h with Some c => rexh_prog h c | None => None end.

Definition REXH_FUEL : nat := 1.

(* one number per event; 0 is reserved for "the call did not return" / the empty history *)
Definition titem_code (x : titem) : N :=
  match x with
  | TInv d h => N.of_nat (1 + d * 16 + h)            (* h < 16, d <= 2: 1..48 *)
  | TReg d b => N.of_nat (49 + d * 2 + (if b then 1 else 0))
  end.

Definition rev_code (e : rmux_ev) : N :=
  match e with
  | RvHandle false => 1
  | RvHandle true => 2
  | RvServe tr => 3 + 4 * fold_right (fun x acc => titem_code x + 64 * acc) 0 tr
  | RvStuck => 0
  end.

Definition rexh_last (cs : list N) : N :=
  match rev (rmuxes_run (rexh_progs cs) REXH_FUEL muxes_empty (rexh_ops_from 0 cs)) with
  | [] => 0
  | e :: _ => rev_code e
  end.

Definition rexh_violations (n : nat) (obs : list N) : list nat :=
  diff_indices_lim REPORT_MAX 0 (map rexh_last (strings_upto exh_alpha n)) obs.
