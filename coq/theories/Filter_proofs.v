(* Filter_proofs.v — the model of filter.go / servemux.go meets the §4.7 spec, for all strings. *)
From MQ Require Import Base Filter.
Open Scope N_scope.

(* ---------- split is the unique level decomposition ---------- *)

Lemma split_nonempty s : split s <> [].
Proof.
  destruct s as [|c r]; cbn [split]; [discriminate|].
  destruct (N.eqb c SLASH); [discriminate|]. destruct (split r); discriminate.
Qed.

Lemma split_cons_noslash c r : c <> SLASH ->
  exists l ls, split r = l :: ls /\ split (c :: r) = (c :: l) :: ls.
Proof.
  intros Hc. cbn [split]. apply N.eqb_neq in Hc. rewrite Hc.
  destruct (split r) as [|l ls] eqn:E; [exfalso; eapply split_nonempty; exact E|].
  exists l, ls. split; reflexivity.
Qed.

Lemma join_cons2 l a r : join (l :: a :: r) = l ++ SLASH :: join (a :: r).
Proof. reflexivity. Qed.

Lemma split_join s : join (split s) = s.
Proof.
  induction s as [|c r IH]; [reflexivity|].
  cbn [split]. destruct (N.eqb c SLASH) eqn:E.
  - apply N.eqb_eq in E; subst c.
    destruct (split r) as [|a ls] eqn:Er; [exfalso; eapply split_nonempty; exact Er|].
    rewrite join_cons2, IH. reflexivity.
  - destruct (split r) as [|l ls] eqn:Er; [exfalso; eapply split_nonempty; exact Er|].
    destruct ls as [|a ls].
    + cbn [join] in *. congruence.
    + rewrite join_cons2 in *. cbn [app]. congruence.
Qed.

Lemma split_noslash s : Forall (fun l => ~ In SLASH l) (split s).
Proof.
  induction s as [|c r IH]; cbn [split].
  - constructor; [intros []|constructor].
  - destruct (N.eqb c SLASH) eqn:E.
    + constructor; [intros []|exact IH].
    + destruct (split r) as [|l ls]; [constructor; [|constructor]|].
      * intros [H|[]]. apply N.eqb_neq in E. congruence.
      * inversion IH as [|? ? Hl Hls]; subst. constructor; [|exact Hls].
        intros [H|H]; [apply N.eqb_neq in E; congruence | exact (Hl H)].
Qed.

Lemma split_single l : ~ In SLASH l -> split l = [l].
Proof.
  induction l as [|c l IH]; intros H; [reflexivity|].
  cbn [split]. destruct (N.eqb c SLASH) eqn:E.
  - apply N.eqb_eq in E. exfalso; apply H; left; congruence.
  - rewrite IH; [reflexivity|]. intros H'; apply H; right; exact H'.
Qed.

Lemma split_app l t : ~ In SLASH l -> split (l ++ SLASH :: t) = l :: split t.
Proof.
  induction l as [|c l IH]; intros H.
  - cbn [app split]. rewrite N.eqb_refl. reflexivity.
  - cbn [app split]. destruct (N.eqb c SLASH) eqn:E.
    + apply N.eqb_eq in E. exfalso; apply H; left; congruence.
    + rewrite IH; [reflexivity|]. intros H'; apply H; right; exact H'.
Qed.

Lemma split_of_join ls : ls <> [] -> Forall (fun l => ~ In SLASH l) ls -> split (join ls) = ls.
Proof.
  induction ls as [|l r IH]; intros Hne Hall; [congruence|].
  inversion Hall as [|? ? Hl Hr]; subst.
  destruct r as [|a r].
  - cbn [join]. apply split_single; exact Hl.
  - rewrite join_cons2, split_app by exact Hl. f_equal. apply IH; [discriminate|exact Hr].
Qed.

Theorem split_levels_of s : levels_of s (split s).
Proof. split; [apply split_nonempty|]. split; [apply split_join|apply split_noslash]. Qed.

Theorem levels_of_unique s ls : levels_of s ls -> ls = split s.
Proof. intros (Hne & Hj & Hall). subst s. symmetry. apply split_of_join; assumption. Qed.

(* ---------- validation ---------- *)

Lemma contains_In c s : contains c s = true <-> In c s.
Proof.
  unfold contains. rewrite existsb_exists. split.
  - intros (x & Hin & Heq). apply N.eqb_eq in Heq. subst; exact Hin.
  - intros H. exists c. split; [exact H|apply N.eqb_refl].
Qed.

Lemma whole_level c f : (if contains c f then Nat.eqb (length f) 1 else true) = true <-> (In c f -> f = [c]).
Proof.
  destruct (contains c f) eqn:E.
  - apply contains_In in E. rewrite Nat.eqb_eq. split.
    + intros Hlen _. destruct f as [|x [|y f]]; cbn in Hlen; try discriminate.
      destruct E as [E|[]]. congruence.
    + intros H. rewrite (H E). reflexivity.
  - split; [|reflexivity]. intros _ Hin. apply contains_In in Hin. congruence.
Qed.

Definition levels_spec (tf : list str) : Prop :=
  (forall i l, nth_error tf i = Some l -> In PLUS l -> l = [PLUS]) /\
  (forall i l, nth_error tf i = Some l -> In HASH l -> l = [HASH] /\ S i = length tf).

Lemma levels_ok_spec tf : levels_ok tf = true <-> levels_spec tf.
Proof.
  induction tf as [|f r IH].
  - cbn [levels_ok]. split; [|reflexivity]. intros _. split; intros [|i] l H; discriminate.
  - cbn [levels_ok]. rewrite !andb_true_iff, IH, whole_level. unfold levels_spec. split.
    + intros [[Hp Hh] [Rp Rh]]. split.
      * intros [|i] l Hn Hin; cbn [nth_error] in Hn; [injection Hn as <-; auto | eauto].
      * intros [|i] l Hn Hin; cbn [nth_error] in Hn.
        -- injection Hn as <-. apply contains_In in Hin. rewrite Hin in Hh.
           apply andb_true_iff in Hh as [Hl Hr]. apply Nat.eqb_eq in Hl.
           destruct r; [|discriminate]. split; [|reflexivity].
           apply contains_In in Hin. destruct f as [|x [|y f]]; cbn in Hl; try discriminate.
           destruct Hin as [Hin|[]]. congruence.
        -- destruct (Rh i l Hn Hin) as [E1 E2]. split; [exact E1|]. cbn [length]. congruence.
    + intros [Hp Hh]. split; [split|split].
      * intros Hin. apply (Hp O f eq_refl Hin).
      * destruct (contains HASH f) eqn:E; [|reflexivity]. apply contains_In in E.
        destruct (Hh O f eq_refl E) as [E1 E2]. subst f. cbn [length] in *.
        destruct r; [reflexivity|discriminate].
      * intros i l Hn Hin. apply (Hp (S i) l Hn Hin).
      * intros i l Hn Hin. destruct (Hh (S i) l Hn Hin) as [E1 E2]. split; [exact E1|].
        cbn [length] in E2. congruence.
Qed.

Theorem accept_iff_valid s : (exists tf, new_topic_filter s = Some tf) <-> valid_filter s.
Proof.
  unfold new_topic_filter, valid_filter. destruct s as [|c r].
  - split; [intros [tf H]; discriminate | intros [H _]; congruence].
  - set (s := c :: r). split.
    + intros [tf H]. split; [discriminate|]. intros ls Hls.
      apply levels_of_unique in Hls. subst ls.
      destruct (levels_ok (split s)) eqn:E; [|discriminate]. apply levels_ok_spec in E. exact E.
    + intros [_ H]. specialize (H (split s) (split_levels_of s)).
      apply levels_ok_spec in H. rewrite H. eexists; reflexivity.
Qed.

Lemma accept_split s tf : new_topic_filter s = Some tf -> tf = split s /\ levels_ok tf = true.
Proof.
  unfold new_topic_filter. destruct s as [|c r]; [discriminate|].
  destruct (levels_ok (split (c :: r))) eqn:E; [|discriminate]. intros H; injection H as <-. auto.
Qed.

(* ---------- matching ---------- *)

Lemma levels_ok_tail f r : levels_ok (f :: r) = true -> levels_ok r = true.
Proof. cbn [levels_ok]. rewrite !andb_true_iff. tauto. Qed.

Lemma levels_ok_hash_last r : levels_ok ([HASH] :: r) = true -> r = [].
Proof.
  cbn [levels_ok]. rewrite !andb_true_iff. intros [[_ H] _].
  change (contains HASH [HASH]) with true in H. cbn [length] in H.
  destruct r; [reflexivity|discriminate].
Qed.

Theorem match_iff_spec f ts : levels_ok f = true -> (tf_match f ts = true <-> matches f ts).
Proof.
  revert ts; induction f as [|t f IH]; intros ts Hok; cbn [tf_match].
  - destruct ts; cbn [is_nil]; split; intros H; try constructor; try discriminate; inversion H.
  - pose proof (levels_ok_tail _ _ Hok) as Hok'.
    destruct (str_eqb t [HASH]) eqn:EH.
    + apply str_eqb_eq in EH; subst t. apply levels_ok_hash_last in Hok. subst f.
      split; intros _; [constructor | reflexivity].
    + apply str_eqb_neq in EH.
      destruct ts as [|x ts].
      * split; [discriminate|]. intros H; inversion H; subst; congruence.
      * destruct (str_eqb t [PLUS]) eqn:EP; cbn [negb andb].
        -- apply str_eqb_eq in EP; subst t. rewrite (IH ts Hok'). split; intros H.
           ++ constructor; exact H.
           ++ inversion H; subst; try congruence; assumption.
        -- apply str_eqb_neq in EP.
           destruct (str_eqb t x) eqn:EX; cbn [negb].
           ++ apply str_eqb_eq in EX; subst x. rewrite (IH ts Hok'). split; intros H.
              ** apply M_lit; assumption.
              ** inversion H; subst; try congruence; assumption.
           ++ apply str_eqb_neq in EX. split; [discriminate|].
              intros H; inversion H; subst; congruence.
Qed.

Theorem filter_match_iff_spec s tf topic : new_topic_filter s = Some tf ->
  (filter_match tf topic = true <-> filter_matches_topic s topic).
Proof.
  intros Hacc. apply accept_split in Hacc as [-> Hok]. unfold filter_match, filter_matches_topic.
  rewrite (match_iff_spec _ _ Hok). split.
  - intros H fl tl Hf Ht. apply levels_of_unique in Hf, Ht. subst. exact H.
  - intros H. apply H; apply split_levels_of.
Qed.

(* ---------- ServeMux ---------- *)

Lemma mux_of_app regs m : fold_left mux_handle regs m = m ++ mux_of regs.
Proof.
  unfold mux_of. revert m; induction regs as [|r regs IH]; intros m; cbn [fold_left].
  - rewrite app_nil_r; reflexivity.
  - rewrite IH. rewrite (IH (mux_handle [] r)). unfold mux_handle.
    destruct (new_topic_filter (fst r)); cbn [app]; [rewrite <- app_assoc|]; reflexivity.
Qed.

Lemma mux_serve_app m1 m2 t : mux_serve (m1 ++ m2) t = mux_serve m1 t ++ mux_serve m2 t.
Proof. unfold mux_serve. rewrite filter_app, map_app. reflexivity. Qed.

Theorem mux_dispatch regs topic : select_rel topic regs (mux_serve (mux_of regs) topic).
Proof.
  induction regs as [|r regs IH]; [constructor|].
  unfold mux_of. cbn [fold_left]. rewrite mux_of_app, mux_serve_app.
  unfold mux_handle at 1. destruct (new_topic_filter (fst r)) as [tf|] eqn:E.
  - cbn [app]. unfold mux_serve at 1. cbn [filter fst].
    destruct (filter_match tf topic) eqn:EM; cbn [map app snd].
    + apply Sel_take; [|exact IH]. split.
      * apply accept_iff_valid. eexists; exact E.
      * apply (filter_match_iff_spec _ _ _ E). exact EM.
    + apply Sel_skip; [|exact IH]. intros [_ H].
      apply (filter_match_iff_spec _ _ _ E) in H. congruence.
  - cbn [app]. apply Sel_skip; [|exact IH]. intros [H _].
    apply accept_iff_valid in H as [tf H]. congruence.
Qed.

(* the selection relation is functional, so "exactly those handlers, in that order" is determined *)
Theorem select_rel_functional topic regs h1 h2 :
  select_rel topic regs h1 -> select_rel topic regs h2 -> h1 = h2.
Proof.
  intros H1; revert h2; induction H1; intros h2 H2; inversion H2; subst; try reflexivity;
    try contradiction; [f_equal|]; auto.
Qed.

(* non-vacuity: concrete instances of every clause *)
Example ex_valid : valid_filter [97; SLASH; PLUS; SLASH; HASH].
Proof. apply accept_iff_valid. eexists; reflexivity. Qed.
Example ex_invalid_plus : ~ valid_filter [97; PLUS].
Proof. intros H. apply accept_iff_valid in H as [tf H]. discriminate. Qed.
Example ex_invalid_hash : ~ valid_filter [HASH; SLASH; 97].
Proof. intros H. apply accept_iff_valid in H as [tf H]. discriminate. Qed.
Example ex_match_parent : filter_matches_topic [97; SLASH; HASH] [97].
Proof. eapply filter_match_iff_spec; reflexivity. Qed.
Example ex_plus_empty_level : filter_matches_topic [97; SLASH; PLUS] [97; SLASH].
Proof. eapply filter_match_iff_spec; reflexivity. Qed.
Example ex_plus_not_two_levels : ~ filter_matches_topic [PLUS] [97; SLASH; 98].
Proof. intros H. eapply filter_match_iff_spec in H; [|reflexivity]. discriminate. Qed.
