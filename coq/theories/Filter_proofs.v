(* Filter_proofs.v — the model of filter.go / servemux.go meets the §4.7 spec, for all strings. *)
From MQ Require Import Base Filter.
Open Scope N_scope.

(* ---------- split is the unique level decomposition ---------- *)

Lemma split_nonempty s : split s <> [].
Proof.
  destruct s as [|c r]; cbn [split]; [discriminate|].
  destruct (N.eqb c SLASH); [discriminate|]. destruct (split r); discriminate.
Qed.

Lemma split_cons_noslash c r : c <> SLASH ->
  exists l ls, split r = l :: ls /\ split (c :: r) = (c :: l) :: ls.
Proof.
  intros Hc. cbn [split]. apply N.eqb_neq in Hc. rewrite Hc.
  destruct (split r) as [|l ls] eqn:E; [exfalso; eapply split_nonempty; exact E|].
  exists l, ls. split; reflexivity.
Qed.

Lemma join_cons2 l a r : join (l :: a :: r) = l ++ SLASH :: join (a :: r).
Proof. reflexivity. Qed.

Lemma split_join s : join (split s) = s.
Proof.
  induction s as [|c r IH]; [reflexivity|].
  cbn [split]. destruct (N.eqb c SLASH) eqn:E.
  - apply N.eqb_eq in E; subst c.
    destruct (split r) as [|a ls] eqn:Er; [exfalso; eapply split_nonempty; exact Er|].
    rewrite join_cons2, IH. reflexivity.
  - destruct (split r) as [|l ls] eqn:Er; [exfalso; eapply split_nonempty; exact Er|].
    destruct ls as [|a ls].
    + cbn [join] in *. congruence.
    + rewrite join_cons2 in *. cbn [app]. congruence.
Qed.

Lemma split_noslash s : Forall (fun l => ~ In SLASH l) (split s).
Proof.
  induction s as [|c r IH]; cbn [split].
  - constructor; [intros []|constructor].
  - destruct (N.eqb c SLASH) eqn:E.
    + constructor; [intros []|exact IH].
    + destruct (split r) as [|l ls]; [constructor; [|constructor]|].
      * intros [H|[]]. apply N.eqb_neq in E. congruence.
      * inversion IH as [|? ? Hl Hls]; subst. constructor; [|exact Hls].
        intros [H|H]; [apply N.eqb_neq in E; congruence | exact (Hl H)].
Qed.

Lemma split_single l : ~ In SLASH l -> split l = [l].
Proof.
  induction l as [|c l IH]; intros H; [reflexivity|].
  cbn [split]. destruct (N.eqb c SLASH) eqn:E.
  - apply N.eqb_eq in E. exfalso; apply H; left; congruence.
  - rewrite IH; [reflexivity|]. intros H'; apply H; right; exact H'.
Qed.

Lemma split_app l t : ~ In SLASH l -> split (l ++ SLASH :: t) = l :: split t.
Proof.
  induction l as [|c l IH]; intros H.
  - cbn [app split]. rewrite N.eqb_refl. reflexivity.
  - cbn [app split]. destruct (N.eqb c SLASH) eqn:E.
    + apply N.eqb_eq in E. exfalso; apply H; left; congruence.
    + rewrite IH; [reflexivity|]. intros H'; apply H; right; exact H'.
Qed.

Lemma split_of_join ls : ls <> [] -> Forall (fun l => ~ In SLASH l) ls -> split (join ls) = ls.
Proof.
  induction ls as [|l r IH]; intros Hne Hall; [congruence|].
  inversion Hall as [|? ? Hl Hr]; subst.
  destruct r as [|a r].
  - cbn [join]. apply split_single; exact Hl.
  - rewrite join_cons2, split_app by exact Hl. f_equal. apply IH; [discriminate|exact Hr].
Qed.

Theorem split_levels_of s : levels_of s (split s).
Proof. split; [apply split_nonempty|]. split; [apply split_join|apply split_noslash]. Qed.

Theorem levels_of_unique s ls : levels_of s ls -> ls = split s.
Proof. intros (Hne & Hj & Hall). subst s. symmetry. apply split_of_join; assumption. Qed.

(* ---------- validation ---------- *)

Lemma contains_In c s : contains c s = true <-> In c s.
Proof.
  unfold contains. rewrite existsb_exists. split.
  - intros (x & Hin & Heq). apply N.eqb_eq in Heq. subst; exact Hin.
  - intros H. exists c. split; [exact H|apply N.eqb_refl].
Qed.

Lemma whole_level c f : (if contains c f then Nat.eqb (length f) 1 else true) = true <-> (In c f -> f = [c]).
Proof.
  destruct (contains c f) eqn:E.
  - apply contains_In in E. rewrite Nat.eqb_eq. split.
    + intros Hlen _. destruct f as [|x [|y f]]; cbn in Hlen; try discriminate.
      destruct E as [E|[]]. congruence.
    + intros H. rewrite (H E). reflexivity.
  - split; [|reflexivity]. intros _ Hin. apply contains_In in Hin. congruence.
Qed.

Definition levels_spec (tf : list str) : Prop :=
  (forall i l, nth_error tf i = Some l -> In PLUS l -> l = [PLUS]) /\
  (forall i l, nth_error tf i = Some l -> In HASH l -> l = [HASH] /\ S i = length tf).

Lemma levels_ok_spec tf : levels_ok tf = true <-> levels_spec tf.
Proof.
  induction tf as [|f r IH].
  - cbn [levels_ok]. split; [|reflexivity]. intros _. split; intros [|i] l H; discriminate.
  - cbn [levels_ok]. rewrite !andb_true_iff, IH, whole_level. unfold levels_spec. split.
    + intros [[Hp Hh] [Rp Rh]]. split.
      * intros [|i] l Hn Hin; cbn [nth_error] in Hn; [injection Hn as <-; auto | eauto].
      * intros [|i] l Hn Hin; cbn [nth_error] in Hn.
        -- injection Hn as <-. apply contains_In in Hin. rewrite Hin in Hh.
           apply andb_true_iff in Hh as [Hl Hr]. apply Nat.eqb_eq in Hl.
           destruct r; [|discriminate]. split; [|reflexivity].
           apply contains_In in Hin. destruct f as [|x [|y f]]; cbn in Hl; try discriminate.
           destruct Hin as [Hin|[]]. congruence.
        -- destruct (Rh i l Hn Hin) as [E1 E2]. split; [exact E1|]. cbn [length]. congruence.
    + intros [Hp Hh]. split; [split|split].
      * intros Hin. apply (Hp O f eq_refl Hin).
      * destruct (contains HASH f) eqn:E; [|reflexivity]. apply contains_In in E.
        destruct (Hh O f eq_refl E) as [E1 E2]. subst f. cbn [length] in *.
        destruct r; [reflexivity|discriminate].
      * intros i l Hn Hin. apply (Hp (S i) l Hn Hin).
      * intros i l Hn Hin. destruct (Hh (S i) l Hn Hin) as [E1 E2]. split; [exact E1|].
        cbn [length] in E2. congruence.
Qed.

Theorem accept_iff_valid s : (exists tf, new_topic_filter s = Some tf) <-> valid_filter s.
Proof.
  unfold new_topic_filter, valid_filter. destruct s as [|c r].
  - split; [intros [tf H]; discriminate | intros [H _]; congruence].
  - set (s := c :: r). split.
    + intros [tf H]. split; [discriminate|]. intros ls Hls.
      apply levels_of_unique in Hls. subst ls.
      destruct (levels_ok (split s)) eqn:E; [|discriminate]. apply levels_ok_spec in E. exact E.
    + intros [_ H]. specialize (H (split s) (split_levels_of s)).
      apply levels_ok_spec in H. rewrite H. eexists; reflexivity.
Qed.

Lemma accept_split s tf : new_topic_filter s = Some tf -> tf = split s /\ levels_ok tf = true.
Proof.
  unfold new_topic_filter. destruct s as [|c r]; [discriminate|].
  destruct (levels_ok (split (c :: r))) eqn:E; [|discriminate]. intros H; injection H as <-. auto.
Qed.

(* ---------- matching ---------- *)

Lemma levels_ok_tail f r : levels_ok (f :: r) = true -> levels_ok r = true.
Proof. cbn [levels_ok]. rewrite !andb_true_iff. tauto. Qed.

Lemma levels_ok_hash_last r : levels_ok ([HASH] :: r) = true -> r = [].
Proof.
  cbn [levels_ok]. rewrite !andb_true_iff. intros [[_ H] _].
  change (contains HASH [HASH]) with true in H. cbn [length] in H.
  destruct r; [reflexivity|discriminate].
Qed.

Theorem match_iff_spec f ts : levels_ok f = true -> (tf_match f ts = true <-> matches f ts).
Proof.
  revert ts; induction f as [|t f IH]; intros ts Hok; cbn [tf_match].
  - destruct ts; cbn [is_nil]; split; intros H; try constructor; try discriminate; inversion H.
  - pose proof (levels_ok_tail _ _ Hok) as Hok'.
    destruct (str_eqb t [HASH]) eqn:EH.
    + apply str_eqb_eq in EH; subst t. apply levels_ok_hash_last in Hok. subst f.
      split; intros _; [constructor | reflexivity].
    + apply str_eqb_neq in EH.
      destruct ts as [|x ts].
      * split; [discriminate|]. intros H; inversion H; subst; congruence.
      * destruct (str_eqb t [PLUS]) eqn:EP; cbn [negb andb].
        -- apply str_eqb_eq in EP; subst t. rewrite (IH ts Hok'). split; intros H.
           ++ constructor; exact H.
           ++ inversion H; subst; try congruence; assumption.
        -- apply str_eqb_neq in EP.
           destruct (str_eqb t x) eqn:EX; cbn [negb].
           ++ apply str_eqb_eq in EX; subst x. rewrite (IH ts Hok'). split; intros H.
              ** apply M_lit; assumption.
              ** inversion H; subst; try congruence; assumption.
           ++ apply str_eqb_neq in EX. split; [discriminate|].
              intros H; inversion H; subst; congruence.
Qed.

Theorem filter_match_iff_spec s tf topic : new_topic_filter s = Some tf ->
  (filter_match tf topic = true <-> filter_matches_topic s topic).
Proof.
  intros Hacc. apply accept_split in Hacc as [-> Hok]. unfold filter_match, filter_matches_topic.
  rewrite (match_iff_spec _ _ Hok). split.
  - intros H fl tl Hf Ht. apply levels_of_unique in Hf, Ht. subst. exact H.
  - intros H. apply H; apply split_levels_of.
Qed.

(* ---------- ServeMux ---------- *)

Lemma mux_of_app regs m : fold_left mux_handle regs m = m ++ mux_of regs.
Proof.
  unfold mux_of. revert m; induction regs as [|r regs IH]; intros m; cbn [fold_left].
  - rewrite app_nil_r; reflexivity.
  - rewrite IH. rewrite (IH (mux_handle [] r)). unfold mux_handle.
    destruct (new_topic_filter (fst r)); cbn [app]; [rewrite <- app_assoc|]; reflexivity.
Qed.

Lemma mux_serve_app m1 m2 t : mux_serve (m1 ++ m2) t = mux_serve m1 t ++ mux_serve m2 t.
Proof. unfold mux_serve. rewrite filter_app, map_app. reflexivity. Qed.

Theorem mux_dispatch regs topic : select_rel topic regs (mux_serve (mux_of regs) topic).
Proof.
  induction regs as [|r regs IH]; [constructor|].
  unfold mux_of. cbn [fold_left]. rewrite mux_of_app, mux_serve_app.
  unfold mux_handle at 1. destruct (new_topic_filter (fst r)) as [tf|] eqn:E.
  - cbn [app]. unfold mux_serve at 1. cbn [filter fst].
    destruct (filter_match tf topic) eqn:EM; cbn [map app snd].
    + apply Sel_take; [|exact IH]. split.
      * apply accept_iff_valid. eexists; exact E.
      * apply (filter_match_iff_spec _ _ _ E). exact EM.
    + apply Sel_skip; [|exact IH]. intros [_ H].
      apply (filter_match_iff_spec _ _ _ E) in H. congruence.
  - cbn [app]. apply Sel_skip; [|exact IH]. intros [H _].
    apply accept_iff_valid in H as [tf H]. congruence.
Qed.

(* the selection relation is functional, so "exactly those handlers, in that order" is determined *)
Theorem select_rel_functional topic regs h1 h2 :
  select_rel topic regs h1 -> select_rel topic regs h2 -> h1 = h2.
Proof.
  intros H1; revert h2; induction H1; intros h2 H2; inversion H2; subst; try reflexivity;
    try contradiction; [f_equal|]; auto.
Qed.

(* non-vacuity: concrete instances of every clause *)
Example ex_valid : valid_filter [97; SLASH; PLUS; SLASH; HASH].
Proof. apply accept_iff_valid. eexists; reflexivity. Qed.
Example ex_invalid_plus : ~ valid_filter [97; PLUS].
Proof. intros H. apply accept_iff_valid in H as [tf H]. discriminate. Qed.
Example ex_invalid_hash : ~ valid_filter [HASH; SLASH; 97].
Proof. intros H. apply accept_iff_valid in H as [tf H]. discriminate. Qed.
Example ex_match_parent : filter_matches_topic [97; SLASH; HASH] [97].
Proof. eapply filter_match_iff_spec; reflexivity. Qed.
Example ex_plus_empty_level : filter_matches_topic [97; SLASH; PLUS] [97; SLASH].
Proof. eapply filter_match_iff_spec; reflexivity. Qed.
Example ex_plus_not_two_levels : ~ filter_matches_topic [PLUS] [97; SLASH; 98].
Proof. intros H. eapply filter_match_iff_spec in H; [|reflexivity]. discriminate. Qed.

(* ====================================================================================
   '$' is an ordinary character.
   Neither the spec ([valid_filter], [matches]) nor the model (= filter.go) has a case for '$'.
   Made explicit as an equivariance: validation and matching commute with every renaming of
   characters that fixes '/', '+', '#' — in particular with exchanging '$' and 'a'.  So a level
   "$x" is matched by '+', by '#', and by the literal "$x", exactly as "ax" would be, at EVERY
   level position.  This holds at the first level too: the theorems of this file are stated for
   ALL topic strings; for topics that START with '$' (outside the property's quantifier; MQTT
   4.7.2 forbids a leading wildcard to match them) they say that filter.go treats the '$' like any
   other character, e.g. "#" and "+/x" match "$SYS/x" ([dollar_first_hash], [dollar_first_plus]).
   ==================================================================================== *)

Record renaming (rho : N -> N) : Prop := {
  rn_inj : forall a b, rho a = rho b -> a = b;
  rn_slash : forall c, rho c = SLASH <-> c = SLASH;
  rn_plus : forall c, rho c = PLUS <-> c = PLUS;
  rn_hash : forall c, rho c = HASH <-> c = HASH }.

Lemma map_inj (rho : N -> N) : (forall a b, rho a = rho b -> a = b) ->
  forall a b : str, map rho a = map rho b -> a = b.
Proof.
  intros Hi a; induction a as [|x a IH]; intros [|y b] H; cbn [map] in H; try discriminate; [reflexivity|].
  injection H as H1 H2. f_equal; [apply Hi; exact H1 | apply IH; exact H2].
Qed.

Lemma map_single (rho : N -> N) c : (forall x, rho x = c <-> x = c) -> forall l : str, map rho l = [c] <-> l = [c].
Proof.
  intros Hc l. split.
  - destruct l as [|x [|y l]]; cbn [map]; intros H; try discriminate.
    injection H as H. apply (proj1 (Hc x)) in H. subst; reflexivity.
  - intros ->. cbn [map]. f_equal. apply (proj2 (Hc c)). reflexivity.
Qed.

Lemma str_eqb_rename (rho : N -> N) : (forall a b, rho a = rho b -> a = b) ->
  forall a b, str_eqb (map rho a) (map rho b) = str_eqb a b.
Proof.
  intros Hi a b. destruct (str_eqb a b) eqn:E.
  - apply str_eqb_eq in E; subst. apply str_eqb_refl.
  - apply str_eqb_neq. apply str_eqb_neq in E. intros H. apply E. eapply map_inj; eassumption.
Qed.

Lemma eqb_rename (rho : N -> N) c : (forall x, rho x = c <-> x = c) -> forall x, N.eqb (rho x) c = N.eqb x c.
Proof.
  intros Hc x. destruct (N.eqb x c) eqn:E.
  - apply N.eqb_eq in E. apply N.eqb_eq. apply (proj2 (Hc x)); exact E.
  - apply N.eqb_neq in E. apply N.eqb_neq. intros H. apply E. apply (proj1 (Hc x)); exact H.
Qed.

Lemma split_rename (rho : N -> N) : (forall c, rho c = SLASH <-> c = SLASH) ->
  forall s, split (map rho s) = rename_levels rho (split s).
Proof.
  intros Hs s; induction s as [|c r IH]; [reflexivity|].
  cbn [map split]. rewrite (eqb_rename rho SLASH Hs). destruct (N.eqb c SLASH).
  - rewrite IH. reflexivity.
  - rewrite IH. destruct (split r) as [|l ls]; reflexivity.
Qed.

Lemma contains_rename (rho : N -> N) c : (forall x, rho x = c <-> x = c) ->
  forall f, contains c (map rho f) = contains c f.
Proof.
  intros Hc f. unfold contains. induction f as [|x f IH]; [reflexivity|].
  cbn [map existsb]. rewrite IH. f_equal.
  rewrite (N.eqb_sym c (rho x)), (N.eqb_sym c x). apply eqb_rename; exact Hc.
Qed.

Lemma levels_ok_rename rho : renaming rho -> forall tf, levels_ok (rename_levels rho tf) = levels_ok tf.
Proof.
  intros R tf; induction tf as [|f r IH]; [reflexivity|].
  unfold rename_levels in *. cbn [map levels_ok].
  rewrite (contains_rename rho PLUS (rn_plus rho R)), (contains_rename rho HASH (rn_hash rho R)).
  rewrite map_length, IH. destruct r; reflexivity.
Qed.

Theorem new_topic_filter_rename rho : renaming rho -> forall s,
  new_topic_filter (map rho s) = option_map (rename_levels rho) (new_topic_filter s).
Proof.
  intros R s. destruct s as [|c r]; [reflexivity|].
  unfold new_topic_filter. change (map rho (c :: r)) with (rho c :: map rho r).
  change (rho c :: map rho r) with (map rho (c :: r)).
  rewrite (split_rename rho (rn_slash rho R)), (levels_ok_rename rho R).
  cbn [map]. destruct (levels_ok (split (c :: r))); reflexivity.
Qed.

Lemma str_eqb_single_rename (rho : N -> N) c : (forall x, rho x = c <-> x = c) ->
  forall t, str_eqb (map rho t) [c] = str_eqb t [c].
Proof.
  intros Hc t. destruct (str_eqb t [c]) eqn:E.
  - apply str_eqb_eq in E. apply str_eqb_eq. apply (proj2 (map_single rho c Hc t)). exact E.
  - apply str_eqb_neq in E. apply str_eqb_neq. intros H. apply E. apply (proj1 (map_single rho c Hc t)). exact H.
Qed.

Theorem tf_match_rename rho : renaming rho -> forall f ts,
  tf_match (rename_levels rho f) (rename_levels rho ts) = tf_match f ts.
Proof.
  intros R f; induction f as [|t f IH]; intros ts.
  - destruct ts; reflexivity.
  - unfold rename_levels in *. cbn [map tf_match].
    rewrite (str_eqb_single_rename rho HASH (rn_hash rho R)).
    destruct (str_eqb t [HASH]); [reflexivity|].
    destruct ts as [|x ts]; [reflexivity|]. cbn [map].
    rewrite (str_eqb_single_rename rho PLUS (rn_plus rho R)), (str_eqb_rename rho (rn_inj rho R)), IH.
    reflexivity.
Qed.

Theorem filter_match_rename rho : renaming rho -> forall tf topic,
  filter_match (rename_levels rho tf) (map rho topic) = filter_match tf topic.
Proof.
  intros R tf topic. unfold filter_match.
  rewrite (split_rename rho (rn_slash rho R)). apply tf_match_rename; exact R.
Qed.

(* the same for the declarative relation: no hypothesis on the filter *)
Lemma rho_fix (rho : N -> N) c : (forall x, rho x = c <-> x = c) -> rho c = c.
Proof. intros H. apply (proj2 (H c)). reflexivity. Qed.

Lemma matches_rename_fwd rho : renaming rho -> forall f ts,
  matches f ts -> matches (rename_levels rho f) (rename_levels rho ts).
Proof.
  intros R f ts H. unfold rename_levels.
  induction H as [ | ts | f x ts H IH | l f ts Hh Hp H IH ]; cbn [map].
  - constructor.
  - rewrite (rho_fix rho HASH (rn_hash rho R)). constructor.
  - rewrite (rho_fix rho PLUS (rn_plus rho R)). constructor. exact IH.
  - apply M_lit; [ | | exact IH].
    + intros E. apply Hh. apply (proj1 (map_single rho HASH (rn_hash rho R) l)). exact E.
    + intros E. apply Hp. apply (proj1 (map_single rho PLUS (rn_plus rho R) l)). exact E.
Qed.

Lemma matches_rename_back rho : renaming rho -> forall F T, matches F T ->
  forall f ts, F = rename_levels rho f -> T = rename_levels rho ts -> matches f ts.
Proof.
  intros R F T H. unfold rename_levels.
  induction H as [ | T | F x T H IH | l F T Hh Hp H IH ]; intros f ts EF ET.
  - destruct f; [|discriminate]. destruct ts; [|discriminate]. constructor.
  - destruct f as [|l [|l2 f]]; try discriminate. cbn [map] in EF. injection EF as EF.
    symmetry in EF. apply (proj1 (map_single rho HASH (rn_hash rho R) l)) in EF. subst l. constructor.
  - destruct f as [|l f]; [discriminate|]. destruct ts as [|y ts]; [discriminate|].
    cbn [map] in EF, ET. injection EF as E1 E2. injection ET as E3 E4.
    symmetry in E1. apply (proj1 (map_single rho PLUS (rn_plus rho R) l)) in E1. subst l.
    constructor. apply IH; assumption.
  - destruct f as [|l1 f]; [discriminate|]. destruct ts as [|y ts]; [discriminate|].
    cbn [map] in EF, ET. injection EF as E1 E2. injection ET as E3 E4.
    assert (l1 = y) by (apply (map_inj rho (rn_inj rho R)); congruence). subst y.
    apply M_lit.
    + intros E. apply Hh. subst l l1. cbn [map]. rewrite (rho_fix rho HASH (rn_hash rho R)). reflexivity.
    + intros E. apply Hp. subst l l1. cbn [map]. rewrite (rho_fix rho PLUS (rn_plus rho R)). reflexivity.
    + apply IH; assumption.
Qed.

Theorem matches_rename rho : renaming rho -> forall f ts,
  matches (rename_levels rho f) (rename_levels rho ts) <-> matches f ts.
Proof.
  intros R f ts. split.
  - intros H. eapply matches_rename_back; [exact R | exact H | reflexivity | reflexivity].
  - apply matches_rename_fwd; exact R.
Qed.

Lemma swap_renaming a b :
  a <> SLASH -> a <> PLUS -> a <> HASH -> b <> SLASH -> b <> PLUS -> b <> HASH ->
  renaming (swap_chars a b).
Proof.
  intros A1 A2 A3 B1 B2 B3.
  assert (Hfix : forall c, c <> a -> c <> b -> forall x, swap_chars a b x = c <-> x = c).
  { intros c Ca Cb x. unfold swap_chars.
    destruct (N.eqb x a) eqn:Ea; [apply N.eqb_eq in Ea; subst x; split; congruence|].
    destruct (N.eqb x b) eqn:Eb; [apply N.eqb_eq in Eb; subst x; split; congruence|]. tauto. }
  constructor.
  - intros x y. unfold swap_chars.
    destruct (N.eqb x a) eqn:Exa; destruct (N.eqb y a) eqn:Eya;
    destruct (N.eqb x b) eqn:Exb; destruct (N.eqb y b) eqn:Eyb;
    rewrite ?N.eqb_eq, ?N.eqb_neq in *; congruence.
  - apply Hfix; congruence.
  - apply Hfix; congruence.
  - apply Hfix; congruence.
Qed.

Definition dollar_a : N -> N := swap_chars DOLLAR 97.

Lemma dollar_a_renaming : renaming dollar_a.
Proof. apply swap_renaming; discriminate. Qed.

(* '$' and 'a' are interchangeable: acceptance and matching are the same after exchanging them
   everywhere in the filter and in the topic *)
Theorem dollar_ordinary : forall s topic,
  match new_topic_filter s, new_topic_filter (map dollar_a s) with
  | Some tf, Some tf' => filter_match tf' (map dollar_a topic) = filter_match tf topic
  | None, None => True
  | _, _ => False
  end.
Proof.
  intros s topic. rewrite (new_topic_filter_rename _ dollar_a_renaming).
  destruct (new_topic_filter s) as [tf|]; cbn [option_map]; [|exact I].
  apply filter_match_rename. exact dollar_a_renaming.
Qed.

(* a level matched by '+' may be anything, in particular start with '$' — at every position *)
Lemma plus_level_any f x ts : tf_match ([PLUS] :: f) (x :: ts) = tf_match f ts.
Proof. reflexivity. Qed.

Lemma matches_plus_dollar f x ts : matches f ts -> matches ([PLUS] :: f) ((DOLLAR :: x) :: ts).
Proof. apply M_plus. Qed.

(* a literal level is matched by itself whatever it contains, if it is not a wildcard *)
Lemma literal_level_self l f ts : l <> [HASH] -> tf_match (l :: f) (l :: ts) = tf_match f ts.
Proof.
  intros H. cbn [tf_match]. apply str_eqb_neq in H. rewrite H, str_eqb_refl.
  cbn [negb andb]. rewrite andb_false_r. reflexivity.
Qed.

(* topics STARTING with '$' (outside the property): the model, like filter.go, has no 4.7.2 rule *)
Lemma dollar_first_hash t : filter_match [[HASH]] (DOLLAR :: t) = true.
Proof. reflexivity. Qed.

Lemma dollar_first_plus f t : exists l ls, split (DOLLAR :: t) = (DOLLAR :: l) :: ls /\
  filter_match ([PLUS] :: f) (DOLLAR :: t) = tf_match f ls.
Proof.
  destruct (split_cons_noslash DOLLAR t) as (l & ls & E1 & E2); [discriminate|].
  exists l, ls. split; [exact E2|]. unfold filter_match. rewrite E2. reflexivity.
Qed.

Example ex_plus_dollar_inner : filter_matches_topic [97; SLASH; PLUS] [97; SLASH; DOLLAR; 120].
Proof. eapply filter_match_iff_spec; reflexivity. Qed.
Example ex_plus_dollar_middle :
  filter_matches_topic [100; SLASH; PLUS; SLASH; 115] [100; SLASH; DOLLAR; 97; SLASH; 115].
Proof. eapply filter_match_iff_spec; reflexivity. Qed.
Example ex_plus_dollar_after_empty : filter_matches_topic [PLUS; SLASH; PLUS] [SLASH; DOLLAR; 83].
Proof. eapply filter_match_iff_spec; reflexivity. Qed.
Example ex_literal_dollar : filter_matches_topic [97; SLASH; DOLLAR; 120] [97; SLASH; DOLLAR; 120].
Proof. eapply filter_match_iff_spec; reflexivity. Qed.
Example ex_dollar_filter_valid : valid_filter [DOLLAR; 83; SLASH; HASH].
Proof. apply accept_iff_valid. eexists; reflexivity. Qed.


(* ---------- ServeMux over arbitrary interleavings of Handle and Serve ---------- *)

Lemma mux_of_snoc regs r : mux_of (regs ++ [r]) = mux_handle (mux_of regs) r.
Proof. unfold mux_of. rewrite fold_left_app. reflexivity. Qed.

Lemma muxes_run_length st ops : length (muxes_run st ops) = length ops.
Proof.
  revert st; induction ops as [|[i f h|i t] ops IH]; intros st; cbn [muxes_run length];
    [reflexivity | rewrite IH; reflexivity | rewrite IH; reflexivity].
Qed.

Lemma is_some_valid f : is_some (new_topic_filter f) = true <-> valid_filter f.
Proof.
  rewrite <- accept_iff_valid. destruct (new_topic_filter f) as [tf|]; cbn [is_some]; split.
  - intros _. eexists; reflexivity.
  - reflexivity.
  - discriminate.
  - intros [tf H]; discriminate.
Qed.

(* the invariant: instance j holds exactly the (accepted) registrations R j made on it so far *)
Lemma muxes_run_spec_gen ops : forall (st : muxes) (R : nat -> list (str * nat)),
  (forall j, st j = mux_of (R j)) ->
  forall k, (k < length ops)%nat ->
  exists e, nth_error (muxes_run st ops) k = Some e /\
    match nth_error ops k with
    | None => False
    | Some (OpHandle _ f _) => exists b, e = EvHandle b /\ (b = true <-> valid_filter f)
    | Some (OpServe i t) =>
        exists hs, e = EvServe hs /\ select_rel t (R i ++ regs_on i (firstn k ops)) hs
    end.
Proof.
  induction ops as [|o ops IH]; intros st R Hst k Hk; [cbn [length] in Hk; lia|].
  destruct k as [|k].
  - destruct o as [i f h|i t]; cbn [muxes_run nth_error firstn regs_on].
    + eexists; split; [reflexivity|]. eexists; split; [reflexivity|]. apply is_some_valid.
    + eexists; split; [reflexivity|]. eexists; split; [reflexivity|].
      rewrite app_nil_r, Hst. apply mux_dispatch.
  - cbn [length] in Hk. assert (Hk' : (k < length ops)%nat) by lia.
    destruct o as [i f h|i t]; cbn [muxes_run nth_error firstn regs_on].
    + (* Handle on instance i: R i grows by (f,h) *)
      set (R' := fun j => if Nat.eqb j i then R j ++ [(f, h)] else R j).
      destruct (IH (muxes_upd st i (mux_handle (st i) (f, h))) R') with (k := k) as (e & He & Hspec);
        [ | exact Hk' | ].
      * intros j. unfold muxes_upd, R'. destruct (Nat.eqb j i) eqn:E; [|apply Hst].
        apply Nat.eqb_eq in E. subst j. rewrite mux_of_snoc, Hst. reflexivity.
      * exists e; split; [exact He|].
        destruct (nth_error ops k) as [[i2 f2 h2|i2 t2]|]; [exact Hspec | | exact Hspec].
        destruct Hspec as (hs & -> & Hsel). exists hs; split; [reflexivity|].
        unfold R' in Hsel. rewrite (Nat.eqb_sym i i2).
        destruct (Nat.eqb i2 i); [rewrite <- app_assoc in Hsel|]; exact Hsel.
    + destruct (IH st R Hst k Hk') as (e & He & Hspec). exists e; split; [exact He|]. exact Hspec.
Qed.

Theorem muxes_run_spec ops k : (k < length ops)%nat ->
  exists e, nth_error (muxes_run muxes_empty ops) k = Some e /\ op_spec ops k e.
Proof.
  intros Hk. destruct (muxes_run_spec_gen ops muxes_empty (fun _ => [])) with (k := k) as (e & He & H);
    [intros j; reflexivity | exact Hk | ].
  exists e; split; [exact He|]. unfold op_spec.
  destruct (nth_error ops k) as [[i f h|i t]|]; exact H.
Qed.

(* [op_spec] determines the event: "exactly those handlers, in that order" *)
Theorem op_spec_functional ops k e1 e2 : op_spec ops k e1 -> op_spec ops k e2 -> e1 = e2.
Proof.
  unfold op_spec. destruct (nth_error ops k) as [[i f h|i t]|]; [ | | intros []].
  - intros (b1 & -> & H1) (b2 & -> & H2). f_equal.
    destruct b1, b2; try reflexivity.
    + symmetry. apply H2. apply H1. reflexivity.
    + apply H1. apply H2. reflexivity.
  - intros (h1 & -> & H1) (h2 & -> & H2). f_equal. eapply select_rel_functional; eassumption.
Qed.

(* the scenario of a memoising Serve: Serve(T), Handle(F matching T), Serve(T) — the handler
   registered in between must be invoked by the second Serve, and only by it *)
Example ex_handle_after_serve :
  muxes_run muxes_empty [OpServe 0 [97]; OpHandle 0 [PLUS] 1; OpServe 0 [97]; OpServe 1 [97]]
  = [EvServe []; EvHandle true; EvServe [1%nat]; EvServe []].
Proof. reflexivity. Qed.

(* the two clauses separately, as the property words them *)
Corollary muxes_serve_spec ops k i t : nth_error ops k = Some (OpServe i t) ->
  exists hs, nth_error (muxes_run muxes_empty ops) k = Some (EvServe hs) /\
             select_rel t (regs_on i (firstn k ops)) hs.
Proof.
  intros Hn. assert (Hk : (k < length ops)%nat) by (apply nth_error_Some; congruence).
  destruct (muxes_run_spec ops k Hk) as (e & He & Hs). unfold op_spec in Hs. rewrite Hn in Hs.
  destruct Hs as (hs & -> & Hsel). exists hs; split; assumption.
Qed.

Corollary muxes_handle_spec ops k i f h : nth_error ops k = Some (OpHandle i f h) ->
  exists b, nth_error (muxes_run muxes_empty ops) k = Some (EvHandle b) /\ (b = true <-> valid_filter f).
Proof.
  intros Hn. assert (Hk : (k < length ops)%nat) by (apply nth_error_Some; congruence).
  destruct (muxes_run_spec ops k Hk) as (e & He & Hs). unfold op_spec in Hs. rewrite Hn in Hs.
  destruct Hs as (b & -> & Hb). exists b; split; assumption.
Qed.

(* the executable predicate used on observed histories decides [op_spec] *)
Theorem op_expected_spec ops k e : op_expected ops k = Some e <-> op_spec ops k e.
Proof.
  unfold op_expected, op_spec. destruct (nth_error ops k) as [[i f h|i t]|].
  - split.
    + intros H; injection H as <-. eexists; split; [reflexivity|apply is_some_valid].
    + intros (b & -> & Hb). do 2 f_equal.
      destruct b, (is_some (new_topic_filter f)) eqn:E; try reflexivity.
      * assert (H : valid_filter f) by (apply Hb; reflexivity). apply is_some_valid in H. congruence.
      * apply is_some_valid in E. apply Hb in E. discriminate.
  - split.
    + intros H; injection H as <-. eexists; split; [reflexivity|apply mux_dispatch].
    + intros (hs & -> & Hsel). do 2 f_equal. eapply select_rel_functional; [apply mux_dispatch|exact Hsel].
  - split; [discriminate|intros []].
Qed.

(* the level standing under a '+' has no influence on the result, at whatever depth the '+' is:
   replacing it (say "ax" by "$x") never changes whether the topic is matched *)
Theorem plus_level_irrelevant : forall pre post tpre x y tpost, length pre = length tpre ->
  tf_match (pre ++ [PLUS] :: post) (tpre ++ x :: tpost) = tf_match (pre ++ [PLUS] :: post) (tpre ++ y :: tpost).
Proof.
  induction pre as [|p pre IH]; intros post tpre x y tpost Hlen.
  - destruct tpre; [|discriminate]. reflexivity.
  - destruct tpre as [|t tpre]; [discriminate|]. cbn [length] in Hlen. injection Hlen as Hlen.
    cbn [app tf_match]. destruct (str_eqb p [HASH]); [reflexivity|].
    destruct (negb (str_eqb p [PLUS]) && negb (str_eqb p t)); [reflexivity|].
    apply IH; exact Hlen.
Qed.

(* ====================================================================================
   Round 4: re-entrant dispatch (a handler serves another message through the same or another
   ServeMux before it returns).  The model is functional and Serve does not change the state, so a
   nested call is just the sequence of its invocations inserted at that point of the outer loop;
   the outer loop then continues with the OUTER topic.
   ==================================================================================== *)

(* ---------- re-entrant dispatch ---------- *)

Section Nested.
Variable acts : nat -> hact.

(* the model satisfies the spec whenever the state holds the registrations R *)
Lemma nserve_sound st R : (forall j, st j = mux_of (R j)) ->
  forall fuel d i t, nspec acts R fuel d i t (serve_nested acts st fuel d i t).
Proof.
  intros Hst fuel; induction fuel as [|fuel IH]; intros d i t.
  - apply NS with (hs := mux_serve (st i) t); [rewrite Hst; apply mux_dispatch|].
    cbn [serve_nested]. induction (mux_serve (st i) t) as [|h hs IHl]; cbn [flat_map]; [constructor|].
    change ((d, h) :: [] ++ flat_map (fun h0 => [(d, h0)]) hs) with ((d, h) :: ([] ++ flat_map (fun h0 => [(d, h0)]) hs)).
    apply NL_cons; [|exact IHl]. apply NA_skip. intros fuel' j t' E; discriminate.
  - apply NS with (hs := mux_serve (st i) t); [rewrite Hst; apply mux_dispatch|].
    cbn [serve_nested]. induction (mux_serve (st i) t) as [|h hs IHl]; cbn [flat_map]; [constructor|].
    cbn [app]. apply NL_cons; [|exact IHl].
    destruct (acts h) as [[[trig j] t']|] eqn:Ea.
    + destruct (str_eqb trig t) eqn:Et.
      * apply str_eqb_eq in Et. subst trig. eapply NA_call; [exact Ea|apply IH].
      * apply str_eqb_neq in Et. apply NA_skip. intros fuel' j' t'' _ E. rewrite Ea in E.
        injection E as E1 E2 E3. contradiction.
    + apply NA_skip. intros fuel' j' t'' _ E. rewrite Ea in E. discriminate.
Qed.

Scheme nspec_mind := Minimality for nspec Sort Prop
  with nlist_mind := Minimality for nlist Sort Prop
  with nact_mind := Minimality for nact Sort Prop.
Combined Scheme nspec_mutind from nspec_mind, nlist_mind, nact_mind.

Lemma at_depth_app d a b : at_depth d (a ++ b) = at_depth d a ++ at_depth d b.
Proof. unfold at_depth. rewrite filter_app, map_app. reflexivity. Qed.

Lemma at_depth_deeper d tr : (forall e, In e tr -> (d < fst e)%nat) -> at_depth d tr = [].
Proof.
  unfold at_depth. induction tr as [|e tr IH]; intros H; [reflexivity|].
  cbn [filter]. assert (Hd : (d < fst e)%nat) by (apply H; left; reflexivity).
  destruct (Nat.eqb (fst e) d) eqn:E; [apply Nat.eqb_eq in E; lia|].
  apply IH. intros e' He'. apply H. right; exact He'.
Qed.

(* whatever the nested calls do, the invocations of the outer call itself are exactly the
   handlers selected for the OUTER topic, in registration order; everything else is deeper *)
Lemma nspec_outer_all R :
  (forall fuel d i t tr, nspec acts R fuel d i t tr ->
     (forall e, In e tr -> (d <= fst e)%nat) /\ select_rel t (R i) (at_depth d tr)) /\
  (forall fuel d t hs tr, nlist acts R fuel d t hs tr ->
     (forall e, In e tr -> (d <= fst e)%nat) /\ at_depth d tr = hs) /\
  (forall fuel d h t sub, nact acts R fuel d h t sub ->
     forall e, In e sub -> (d < fst e)%nat).
Proof.
  apply nspec_mutind.
  - intros fuel d i t hs tr Hsel _ [Hge Hproj]. split; [exact Hge|]. rewrite Hproj. exact Hsel.
  - intros fuel d t. split; [intros e []|reflexivity].
  - intros fuel d t h hs sub tr _ Hsub _ [Hge Hproj]. split.
    + intros e [<-|He]; [cbn [fst]; lia|]. apply in_app_or in He as [He|He].
      * apply Hsub in He. lia.
      * apply Hge; exact He.
    + change ((d, h) :: sub ++ tr) with ([(d, h)] ++ sub ++ tr).
      rewrite !at_depth_app, (at_depth_deeper d sub Hsub), Hproj.
      unfold at_depth. cbn [filter fst]. rewrite Nat.eqb_refl. reflexivity.
  - intros fuel d h t _ e [].
  - intros fuel' d h t j t' sub _ _ [Hge _] e He. apply Hge in He. lia.
Qed.

Theorem nspec_outer R fuel d i t tr : nspec acts R fuel d i t tr -> select_rel t (R i) (at_depth d tr).
Proof. intros H. apply (proj1 (nspec_outer_all R)) in H. apply H. Qed.

(* the spec determines the trace *)
Lemma nspec_functional_all R :
  (forall fuel d i t tr, nspec acts R fuel d i t tr -> forall tr2, nspec acts R fuel d i t tr2 -> tr = tr2) /\
  (forall fuel d t hs tr, nlist acts R fuel d t hs tr -> forall tr2, nlist acts R fuel d t hs tr2 -> tr = tr2) /\
  (forall fuel d h t sub, nact acts R fuel d h t sub -> forall sub2, nact acts R fuel d h t sub2 -> sub = sub2).
Proof.
  apply nspec_mutind.
  - intros fuel d i t hs tr Hsel _ IH tr2 H2. inversion H2 as [? ? ? ? hs2 ? Hsel2 Hl2]; subst.
    rewrite (select_rel_functional _ _ _ _ Hsel2 Hsel) in Hl2. apply IH; exact Hl2.
  - intros fuel d t tr2 H2. inversion H2; reflexivity.
  - intros fuel d t h hs sub tr _ IHa _ IHl tr2 H2.
    inversion H2 as [|? ? ? ? ? sub2 tr2' Ha2 Hl2]; subst.
    rewrite (IHa _ Ha2), (IHl _ Hl2). reflexivity.
  - intros fuel d h t Hno sub2 H2. inversion H2 as [|fuel' ? ? ? j t' ? Ea Hs]; subst; [reflexivity|].
    exfalso. eapply Hno; [reflexivity|exact Ea].
  - intros fuel' d h t j t' sub Ea _ IH sub2 H2.
    inversion H2 as [? ? ? ? Hno|? ? ? ? j2 t2 ? Ea2 Hs2]; subst.
    + exfalso. eapply Hno; [reflexivity|exact Ea].
    + rewrite Ea in Ea2. injection Ea2 as <- <-. apply IH; exact Hs2.
Qed.

Theorem nspec_functional R fuel d i t tr1 tr2 :
  nspec acts R fuel d i t tr1 -> nspec acts R fuel d i t tr2 -> tr1 = tr2.
Proof. intros H1 H2. exact (proj1 (nspec_functional_all R) _ _ _ _ _ H1 _ H2). Qed.

(* histories: the k-th operation of any interleaving of Handle and (re-entrant) Serve *)
Lemma nmuxes_run_spec_gen fuel ops : forall (st : muxes) (R : nat -> list (str * nat)),
  (forall j, st j = mux_of (R j)) ->
  forall k, (k < length ops)%nat ->
  exists e, nth_error (nmuxes_run acts fuel st ops) k = Some e /\
    match nth_error ops k with
    | None => False
    | Some (OpHandle _ f _) => exists b, e = NvHandle b /\ (b = true <-> valid_filter f)
    | Some (OpServe i t) =>
        exists tr, e = NvServe tr /\
          forall R', (forall j, R' j = R j ++ regs_on j (firstn k ops)) -> nspec acts R' fuel 0 i t tr
    end.
Proof.
  induction ops as [|o ops IH]; intros st R Hst k Hk; [cbn [length] in Hk; lia|].
  destruct k as [|k].
  - destruct o as [i f h|i t]; cbn [nmuxes_run nth_error firstn regs_on].
    + eexists; split; [reflexivity|]. eexists; split; [reflexivity|]. apply is_some_valid.
    + eexists; split; [reflexivity|]. eexists; split; [reflexivity|].
      intros R' HR'. apply nserve_sound. intros j. rewrite Hst, HR', app_nil_r. reflexivity.
  - cbn [length] in Hk. assert (Hk' : (k < length ops)%nat) by lia.
    destruct o as [i f h|i t]; cbn [nmuxes_run nth_error].
    + set (R1 := fun j => if Nat.eqb j i then R j ++ [(f, h)] else R j).
      destruct (IH (muxes_upd st i (mux_handle (st i) (f, h))) R1) with (k := k) as (e & He & Hspec);
        [ | exact Hk' | ].
      * intros j. unfold muxes_upd, R1. destruct (Nat.eqb j i) eqn:E; [|apply Hst].
        apply Nat.eqb_eq in E. subst j. rewrite mux_of_snoc, Hst. reflexivity.
      * exists e; split; [exact He|].
        destruct (nth_error ops k) as [[i2 f2 h2|i2 t2]|]; [exact Hspec | | exact Hspec].
        destruct Hspec as (tr & -> & Hsp). exists tr; split; [reflexivity|].
        intros R' HR'. apply Hsp. intros j. rewrite HR'. cbn [firstn regs_on]. unfold R1.
        rewrite (Nat.eqb_sym i j). destruct (Nat.eqb j i); [rewrite <- app_assoc|]; reflexivity.
    + destruct (IH st R Hst k Hk') as (e & He & Hspec). exists e; split; [exact He|].
      destruct (nth_error ops k) as [[i2 f2 h2|i2 t2]|]; [exact Hspec | | exact Hspec].
      destruct Hspec as (tr & -> & Hsp). exists tr; split; [reflexivity|].
      intros R' HR'. apply Hsp. intros j. rewrite HR'. reflexivity.
Qed.

Theorem nmuxes_run_spec fuel ops k : (k < length ops)%nat ->
  exists e, nth_error (nmuxes_run acts fuel muxes_empty ops) k = Some e /\ nop_spec acts fuel ops k e.
Proof.
  intros Hk. destruct (nmuxes_run_spec_gen fuel ops muxes_empty (fun _ => [])) with (k := k) as (e & He & H);
    [intros j; reflexivity | exact Hk | ].
  exists e; split; [exact He|]. unfold nop_spec.
  destruct (nth_error ops k) as [[i f h|i t]|]; [exact H | | exact H].
  destruct H as (tr & -> & Hsp). exists tr; split; [reflexivity|]. apply Hsp. intros j; reflexivity.
Qed.

(* the clause of the property, for a Serve anywhere in a history, handlers re-dispatching or not:
   the outer call's own invocations are exactly the handlers registered before it on that ServeMux
   that select the OUTER topic, in registration order *)
Corollary nmuxes_serve_outer fuel ops k i t : nth_error ops k = Some (OpServe i t) ->
  exists tr, nth_error (nmuxes_run acts fuel muxes_empty ops) k = Some (NvServe tr) /\
             nspec acts (fun j => regs_on j (firstn k ops)) fuel 0 i t tr /\
             select_rel t (regs_on i (firstn k ops)) (at_depth 0 tr).
Proof.
  intros Hn. assert (Hk : (k < length ops)%nat) by (apply nth_error_Some; congruence).
  destruct (nmuxes_run_spec fuel ops k Hk) as (e & He & Hs). unfold nop_spec in Hs. rewrite Hn in Hs.
  destruct Hs as (tr & -> & Hsp). exists tr. split; [exact He|]. split; [exact Hsp|].
  exact (nspec_outer _ _ _ _ _ _ Hsp).
Qed.

Theorem nop_spec_functional fuel ops k e1 e2 : nop_spec acts fuel ops k e1 -> nop_spec acts fuel ops k e2 -> e1 = e2.
Proof.
  unfold nop_spec. destruct (nth_error ops k) as [[i f h|i t]|]; [ | | intros []].
  - intros (b1 & -> & H1) (b2 & -> & H2). f_equal.
    destruct b1, b2; try reflexivity.
    + symmetry. apply H2. apply H1. reflexivity.
    + apply H1. apply H2. reflexivity.
  - intros (t1 & -> & H1) (t2 & -> & H2). f_equal. eapply nspec_functional; eassumption.
Qed.

(* the executable predicate used on observed histories decides [nop_spec] *)
Theorem nserve_expected_spec fuel ops k e : nserve_expected acts fuel ops k = Some e <-> nop_spec acts fuel ops k e.
Proof.
  assert (Hexp : forall e0, nserve_expected acts fuel ops k = Some e0 -> nop_spec acts fuel ops k e0).
  { unfold nserve_expected, nop_spec. intros e0. destruct (nth_error ops k) as [[i f h|i t]|]; [ | |discriminate].
    - intros H; injection H as <-. eexists; split; [reflexivity|apply is_some_valid].
    - intros H; injection H as <-. eexists; split; [reflexivity|].
      apply nserve_sound. intros j; reflexivity. }
  split; [apply Hexp|]. intros Hs.
  destruct (nserve_expected acts fuel ops k) as [e0|] eqn:E.
  - f_equal. eapply nop_spec_functional; [apply Hexp; reflexivity|exact Hs].
  - exfalso. unfold nserve_expected, nop_spec in *. destruct (nth_error ops k) as [[? ? ?|? ?]|]; try discriminate. exact Hs.
Qed.

(* without re-dispatching handlers the re-entrant model is the plain one *)
Lemma serve_nested_plain st fuel d i t : (forall h, acts h = None) ->
  serve_nested acts st fuel d i t = map (fun h => (d, h)) (mux_serve (st i) t).
Proof.
  intros Hn. destruct fuel; cbn [serve_nested]; induction (mux_serve (st i) t) as [|h hs IH];
    cbn [flat_map map]; try reflexivity; rewrite ?Hn; cbn [app]; f_equal; exact IH.
Qed.

End Nested.

(* the scenario of seeded change 7: handler 0 (on "c/+") re-dispatches "e/d" through the same mux
   while serving "c/r"; the handler on "c/#" registered after it must still be invoked for "c/r",
   the handler on "e/#" only inside the nested call *)
Example ex_reentrant :
  let acts := fun h => match h with O => Some ([99;47;114], O, [101;47;100]) | _ => None end in
  nmuxes_run acts 2 muxes_empty
    [OpHandle 0 [99;47;43] 0; OpHandle 0 [101;47;35] 1; OpHandle 0 [99;47;35] 2; OpServe 0 [99;47;114]]
  = [NvHandle true; NvHandle true; NvHandle true; NvServe [(0,0); (1,1); (0,2)]%nat].
Proof. reflexivity. Qed.

(* ====================================================================================
   Round 8: handlers that register (Handle) and dispatch (Serve) while they are being served.
   servemux.go ranges over the slice as it was when Serve started: a handler registered during a
   Serve is not invoked by that Serve, but by every Serve that starts afterwards (also a nested one).
   ==================================================================================== *)

Section Registering.
Variable progs : nat -> hprog.

Definition agree (st : muxes) (R : nat -> list (str * nat)) : Prop := forall j, st j = mux_of (R j).

Definition radd_fun (R : nat -> list (str * nat)) (j : nat) (r : str * nat) : nat -> list (str * nat) :=
  fun k => if Nat.eqb k j then R k ++ [r] else R k.

Lemma radd_fun_ok R j r : radd R j r (radd_fun R j r).
Proof. intros k. reflexivity. Qed.

Lemma agree_upd st R j r : agree st R -> agree (muxes_upd st j (mux_handle (st j) r)) (radd_fun R j r).
Proof.
  intros H k. unfold muxes_upd, radd_fun. destruct (Nat.eqb k j) eqn:E; [|apply H].
  apply Nat.eqb_eq in E. subst k. rewrite mux_of_snoc, H. reflexivity.
Qed.

(* what a correct callee guarantees *)
Definition call_ok (fuel d : nat) (call : muxes -> nat -> str -> list titem * muxes) : Prop :=
  forall st R j t, agree st R ->
    exists R', rspec progs fuel R d j t (fst (call st j t)) R' /\ agree (snd (call st j t)) R'.

Lemma run_steps_sound fuel d call : call_ok fuel (S d) call ->
  forall steps st R, agree st R ->
    exists R', rsteps progs fuel R d steps (fst (run_steps call d steps st)) R' /\
               agree (snd (run_steps call d steps st)) R'.
Proof.
  intros Hc steps; induction steps as [|[j f h|j t] r IH]; intros st R Ha; cbn [run_steps].
  - exists R. split; [constructor|exact Ha].
  - destruct (IH _ _ (agree_upd st R j (f, h) Ha)) as (R2 & Hs & Ha2).
    destruct (run_steps call d r (muxes_upd st j (mux_handle (st j) (f, h)))) as [tr st'].
    cbn [fst snd] in *. exists R2. split; [|exact Ha2].
    eapply RT_handle; [apply is_some_valid | apply radd_fun_ok | exact Hs].
  - destruct (Hc st R j t Ha) as (R1 & Hs1 & Ha1).
    destruct (call st j t) as [tr1 st1]. cbn [fst snd] in *.
    destruct (IH st1 R1 Ha1) as (R2 & Hs2 & Ha2).
    destruct (run_steps call d r st1) as [tr2 st2]. cbn [fst snd] in *.
    exists R2. split; [|exact Ha2]. eapply RT_serve; eassumption.
Qed.

Lemma run_handlers_sound fuel d t act :
  (forall h st R, agree st R ->
     exists R', ract progs fuel R d h t (fst (act h st)) R' /\ agree (snd (act h st)) R') ->
  forall hs st R, agree st R ->
    exists R', rlist progs fuel R d t hs (fst (run_handlers act d hs st)) R' /\
               agree (snd (run_handlers act d hs st)) R'.
Proof.
  intros Hact hs; induction hs as [|h hs IH]; intros st R Ha; cbn [run_handlers].
  - exists R. split; [constructor|exact Ha].
  - destruct (Hact h st R Ha) as (R1 & Hs1 & Ha1).
    destruct (act h st) as [tr1 st1]. cbn [fst snd] in *.
    destruct (IH st1 R1 Ha1) as (R2 & Hs2 & Ha2).
    destruct (run_handlers act d hs st1) as [tr2 st2]. cbn [fst snd] in *.
    exists R2. split; [|exact Ha2]. eapply RL_cons; eassumption.
Qed.

(* the model satisfies the spec, and keeps agreeing with the registration lists *)
Theorem rserve_sound fuel : forall d, call_ok fuel d (fun st j t => rserve progs fuel st d j t).
Proof.
  induction fuel as [|fuel IH]; intros d st R i t Ha.
  - cbn [rserve].
    destruct (run_handlers_sound 0 d t (fun h st' => ([], st'))) with (hs := mux_serve (st i) t) (st := st) (R := R)
      as (R' & Hl & Ha'); [ | exact Ha | ].
    + intros h st0 R0 Ha0. exists R0. cbn [fst snd]. split; [|exact Ha0].
      apply RA_skip. intros fuel' steps E; discriminate.
    + exists R'. split; [|exact Ha']. eapply RS; [|exact Hl]. rewrite Ha. apply mux_dispatch.
  - cbn [rserve].
    match goal with |- context [run_handlers ?a d _ st] => set (act := a) end.
    destruct (run_handlers_sound (S fuel) d t act) with (hs := mux_serve (st i) t) (st := st) (R := R)
      as (R' & Hl & Ha'); [ | exact Ha | ].
    + intros h st0 R0 Ha0. unfold act.
      destruct (progs h) as [[trig steps]|] eqn:Ep.
      * destruct (str_eqb trig t) eqn:Et.
        -- apply str_eqb_eq in Et. subst trig.
           destruct (run_steps_sound fuel d (fun st'' j t' => rserve progs fuel st'' (S d) j t') (IH (S d)) steps st0 R0 Ha0)
             as (R1 & Hs & Ha1).
           exists R1. split; [|exact Ha1]. eapply RA_run; [exact Ep|exact Hs].
        -- apply str_eqb_neq in Et. exists R0. cbn [fst snd]. split; [|exact Ha0].
           apply RA_skip. intros fuel' steps' _ E. rewrite Ep in E. injection E as E1 E2. contradiction.
      * exists R0. cbn [fst snd]. split; [|exact Ha0].
        apply RA_skip. intros fuel' steps' _ E. rewrite Ep in E. discriminate.
    + exists R'. split; [|exact Ha']. eapply RS; [|exact Hl]. rewrite Ha. apply mux_dispatch.
Qed.

Scheme rspec_mind := Minimality for rspec Sort Prop
  with rlist_mind := Minimality for rlist Sort Prop
  with ract_mind := Minimality for ract Sort Prop
  with rsteps_mind := Minimality for rsteps Sort Prop.
Combined Scheme rspec_mutind from rspec_mind, rlist_mind, ract_mind, rsteps_mind.

Definition item_depth (x : titem) : nat := match x with TInv d _ => d | TReg d _ => d end.

Lemma invs_at_app d a b : invs_at d (a ++ b) = invs_at d a ++ invs_at d b.
Proof. unfold invs_at. apply flat_map_app. Qed.

(* items that are deeper, or registrations at any depth, contribute no invocation at depth d *)
Definition no_inv_at (d : nat) (tr : list titem) : Prop :=
  forall x, In x tr -> match x with TInv d' _ => (d < d')%nat | TReg _ _ => True end.

Lemma invs_at_none d tr : no_inv_at d tr -> invs_at d tr = [].
Proof.
  unfold invs_at. induction tr as [|x tr IH]; intros H; [reflexivity|].
  cbn [flat_map]. rewrite IH by (intros y Hy; apply H; right; exact Hy).
  specialize (H x (or_introl eq_refl)). destruct x as [d' h|d' b]; [|reflexivity].
  destruct (Nat.eqb d' d) eqn:E; [apply Nat.eqb_eq in E; lia|reflexivity].
Qed.

Definition all_ge (d : nat) (tr : list titem) : Prop :=
  forall x, In x tr -> match x with TInv d' _ => (d <= d')%nat | TReg _ _ => True end.

(* The clause of the property for a Serve whose handlers register and dispatch: the call's own
   invocations are exactly the handlers selected for ITS topic among the registrations present
   WHEN IT STARTED (R, not R'), in registration order. *)
Lemma rspec_outer_all :
  (forall fuel R d i t tr R', rspec progs fuel R d i t tr R' ->
     all_ge d tr /\ select_rel t (R i) (invs_at d tr)) /\
  (forall fuel R d t hs tr R', rlist progs fuel R d t hs tr R' ->
     all_ge d tr /\ invs_at d tr = hs) /\
  (forall fuel R d h t sub R', ract progs fuel R d h t sub R' -> no_inv_at d sub) /\
  (forall fuel R d steps sub R', rsteps progs fuel R d steps sub R' -> no_inv_at d sub).
Proof.
  apply rspec_mutind.
  - intros fuel R d i t hs tr R' Hsel _ [Hge Hp]. split; [exact Hge|]. rewrite Hp. exact Hsel.
  - intros fuel R d t. split; [intros x []|reflexivity].
  - intros fuel R d t h hs sub tr R1 R2 _ Hsub _ [Hge Hp]. split.
    + intros x [<-|Hx]; [cbn; lia|]. apply in_app_or in Hx as [Hx|Hx].
      * apply Hsub in Hx. destruct x; [lia|exact I].
      * apply Hge; exact Hx.
    + change (TInv d h :: sub ++ tr) with ([TInv d h] ++ sub ++ tr).
      rewrite !invs_at_app, (invs_at_none d sub Hsub), Hp.
      unfold invs_at. cbn [flat_map]. rewrite Nat.eqb_refl. reflexivity.
  - intros fuel R d h t _ x [].
  - intros fuel' R d h t steps sub R' _ _ Hs. exact Hs.
  - intros fuel R d x [].
  - intros fuel R d j f h b r tr R1 R2 _ _ _ Hr x [<-|Hx]; [exact I|apply Hr; exact Hx].
  - intros fuel R d j t r tr1 tr2 R1 R2 _ [Hge _] _ Hr x Hx. apply in_app_or in Hx as [Hx|Hx].
    + apply Hge in Hx. destruct x; [lia|exact I].
    + apply Hr; exact Hx.
Qed.

Theorem rspec_outer fuel R d i t tr R' :
  rspec progs fuel R d i t tr R' -> select_rel t (R i) (invs_at d tr).
Proof. intros H. apply (proj1 rspec_outer_all) in H. apply H. Qed.

(* histories *)
Theorem rmuxes_run_hist fuel ops : forall st R, agree st R -> rhist progs fuel R ops (rmuxes_run progs fuel st ops).
Proof.
  induction ops as [|[i f h|i t] ops IH]; intros st R Ha; cbn [rmuxes_run].
  - constructor.
  - eapply RH_handle; [apply is_some_valid | apply radd_fun_ok | apply IH; apply agree_upd; exact Ha].
  - destruct (rserve_sound fuel 0 st R i t Ha) as (R1 & Hs & Ha1).
    destruct (rserve progs fuel st 0 i t) as [tr st1]. cbn [fst snd] in *.
    eapply RH_serve; [exact Hs | apply IH; exact Ha1].
Qed.

Corollary rmuxes_run_hist_empty fuel ops :
  rhist progs fuel (fun _ => []) ops (rmuxes_run progs fuel muxes_empty ops).
Proof. apply rmuxes_run_hist. intros j; reflexivity. Qed.

End Registering.

(* what the unchanged code does with a handler registered during a Serve: handler 0 (on "a"),
   given "a", registers handler 7 on "a" on its own mux and then serves "a" again.
   The outer Serve invokes only handler 0 (7 is not in the slice it ranges over); the nested Serve,
   started after the registration, invokes 0 and 7; a later Serve invokes both as well. *)
Example ex_register_during_serve :
  let progs := fun h => match h with O => Some ([97], [HsHandle 0 [97] 7; HsServe 0 [97]]) | _ => None end in
  rmuxes_run progs 1 muxes_empty [OpHandle 0 [97] 0; OpServe 0 [97]; OpServe 0 [98]; OpServe 0 [97]]
  = [RvHandle true;
     RvServe [TInv 0 0; TReg 0 true; TInv 1 0; TInv 1 7];
     RvServe [];
     RvServe [TInv 0 0; TReg 0 true; TInv 1 0; TInv 1 7; TInv 1 7; TInv 0 7]]%nat.
Proof. reflexivity. Qed.


Section Fn.
Variable progs : nat -> hprog.

Definition peq (A B : nat -> list (str * nat)) : Prop := forall k, A k = B k.

Lemma radd_peq R S j r R1 S1 : peq R S -> radd R j r R1 -> radd S j r S1 -> peq R1 S1.
Proof. intros H H1 H2 k. rewrite H1, H2, H. reflexivity. Qed.

Lemma rspec_functional_all :
  (forall fuel R d i t tr R', rspec progs fuel R d i t tr R' ->
     forall S tr2 S', peq R S -> rspec progs fuel S d i t tr2 S' -> tr = tr2 /\ peq R' S') /\
  (forall fuel R d t hs tr R', rlist progs fuel R d t hs tr R' ->
     forall S tr2 S', peq R S -> rlist progs fuel S d t hs tr2 S' -> tr = tr2 /\ peq R' S') /\
  (forall fuel R d h t sub R', ract progs fuel R d h t sub R' ->
     forall S sub2 S', peq R S -> ract progs fuel S d h t sub2 S' -> sub = sub2 /\ peq R' S') /\
  (forall fuel R d steps sub R', rsteps progs fuel R d steps sub R' ->
     forall S sub2 S', peq R S -> rsteps progs fuel S d steps sub2 S' -> sub = sub2 /\ peq R' S').
Proof.
  apply (rspec_mutind progs).
  - intros fuel R d i t hs tr R' Hsel _ IH S tr2 S' He H2.
    inversion H2 as [? ? ? ? ? hs2 ? ? Hsel2 Hl2]; subst.
    rewrite <- (He i) in Hsel2. rewrite (select_rel_functional _ _ _ _ Hsel2 Hsel) in Hl2.
    eapply IH; eassumption.
  - intros fuel R d t S tr2 S' He H2. inversion H2; subst. split; [reflexivity|exact He].
  - intros fuel R d t h hs sub tr R1 R2 _ IHa _ IHl S tr2 S' He H2.
    inversion H2 as [|? ? ? ? ? ? sub2 tr2' S1 ? Ha2 Hl2]; subst.
    destruct (IHa _ _ _ He Ha2) as [-> He1]. destruct (IHl _ _ _ He1 Hl2) as [-> He2].
    split; [reflexivity|exact He2].
  - intros fuel R d h t Hno S sub2 S' He H2.
    inversion H2 as [|fuel' ? ? ? ? steps ? ? Ep Hs]; subst; [split; [reflexivity|exact He]|].
    exfalso. eapply Hno; [reflexivity|exact Ep].
  - intros fuel' R d h t steps sub R' Ep _ IH S sub2 S' He H2.
    inversion H2 as [? ? ? ? ? Hno|? ? ? ? ? steps2 ? ? Ep2 Hs2]; subst.
    + exfalso. eapply Hno; [reflexivity|exact Ep].
    + rewrite Ep in Ep2. injection Ep2 as <-. eapply IH; eassumption.
  - intros fuel R d S sub2 S' He H2. inversion H2; subst. split; [reflexivity|exact He].
  - intros fuel R d j f h b r tr R1 R2 Hb Hadd _ IH S sub2 S' He H2.
    inversion H2 as [|? ? ? ? ? ? b2 ? tr2 S1 ? Hb2 Hadd2 Hs2|]; subst.
    destruct (IH _ _ _ (radd_peq _ _ _ _ _ _ He Hadd Hadd2) Hs2) as [-> He2].
    split; [|exact He2]. f_equal. f_equal.
    destruct b, b2; try reflexivity.
    + symmetry. apply Hb2. apply Hb. reflexivity.
    + apply Hb. apply Hb2. reflexivity.
  - intros fuel R d j t r tr1 tr2 R1 R2 _ IH1 _ IH2 S sub2 S' He H2.
    inversion H2 as [| |? ? ? ? ? ? tr1' tr2' S1 ? Hs1 Hs2]; subst.
    destruct (IH1 _ _ _ He Hs1) as [-> He1]. destruct (IH2 _ _ _ He1 Hs2) as [-> He2].
    split; [reflexivity|exact He2].
Qed.

(* the spec determines the trace of every Serve of a history *)
Theorem rhist_functional fuel ops : forall R S evs1 evs2, peq R S ->
  rhist progs fuel R ops evs1 -> rhist progs fuel S ops evs2 -> evs1 = evs2.
Proof.
  induction ops as [|o ops IH]; intros R S evs1 evs2 He H1 H2.
  - inversion H1; inversion H2; reflexivity.
  - inversion H1 as [|? i f h b R1 ? evs1' Hb Hadd Hh|? i t tr R1 ? evs1' Hs Hh]; subst.
    + inversion H2 as [|? ? ? ? b2 S1 ? evs2' Hb2 Hadd2 Hh2|]; subst.
      f_equal.
      * f_equal. destruct b, b2; try reflexivity.
        -- symmetry. apply Hb2. apply Hb. reflexivity.
        -- apply Hb. apply Hb2. reflexivity.
      * eapply IH; [|exact Hh|exact Hh2]. eapply radd_peq; eassumption.
    + inversion H2 as [| |? ? ? tr2 S1 ? evs2' Hs2 Hh2]; subst.
      destruct (proj1 rspec_functional_all _ _ _ _ _ _ _ Hs _ _ _ He Hs2) as [-> He1].
      f_equal. eapply IH; eassumption.
Qed.

(* so comparing an observed history with the model's output IS evaluating the spec *)
Theorem rhist_decided fuel ops evs :
  rhist progs fuel (fun _ => []) ops evs <-> evs = rmuxes_run progs fuel muxes_empty ops.
Proof.
  split.
  - intros H. eapply rhist_functional; [intros k; reflexivity | exact H | apply rmuxes_run_hist_empty].
  - intros ->. apply rmuxes_run_hist_empty.
Qed.
End Fn.
