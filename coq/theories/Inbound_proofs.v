(* Inbound_proofs.v — the serve loop's inbound flow refines the abstract receiver, for every
   finite packet sequence; consequences in the vocabulary of the property. *)
From MQ Require Import Base Codec Inbound.
Open Scope N_scope.

(* ---------- subBuffer is a finite map ---------- *)
Lemma sb_get_del_same sb id : sb_get (sb_del sb id) id = None.
Proof.
  induction sb as [|[k m] r IH]; [reflexivity|]. cbn [sb_del].
  destruct (k =? id) eqn:E; [exact IH|]. cbn [sb_get]. rewrite E. exact IH.
Qed.

Lemma sb_get_del_other sb id k : k <> id -> sb_get (sb_del sb id) k = sb_get sb k.
Proof.
  intros Hk. induction sb as [|[j m] r IH]; [reflexivity|]. cbn [sb_del].
  destruct (j =? id) eqn:E.
  - apply N.eqb_eq in E; subst j. cbn [sb_get]. assert (id =? k = false) as -> by (apply N.eqb_neq; congruence).
    exact IH.
  - cbn [sb_get]. destruct (j =? k); [reflexivity|exact IH].
Qed.

Definition sb_rel (sb : subbuf) (o : open_set) : Prop := forall id, sb_get sb id = o id.

Lemma sb_rel_set sb o id m : sb_rel sb o -> sb_rel (sb_set sb id m) (os_set o id (Some m)).
Proof.
  intros H k. unfold sb_set, os_set. cbn [sb_get]. rewrite (N.eqb_sym k id).
  destruct (id =? k) eqn:E; [reflexivity|]. apply N.eqb_neq in E.
  rewrite sb_get_del_other by congruence. apply H.
Qed.

Lemma sb_rel_del sb o id : sb_rel sb o -> sb_rel (sb_del sb id) (os_set o id None).
Proof.
  intros H k. unfold os_set. destruct (k =? id) eqn:E.
  - apply N.eqb_eq in E; subst k. apply sb_get_del_same.
  - apply N.eqb_neq in E. rewrite sb_get_del_other by exact E. apply H.
Qed.

Lemma step_refines h sb o p : sb_rel sb o ->
  snd (serve_in_step h sb p) = snd (spec_step h o p) /\
  sb_rel (fst (serve_in_step h sb p)) (fst (spec_step h o p)).
Proof.
  intros H. destruct p as [m|id]; cbn [serve_in_step spec_step].
  - destruct (m_qos m =? 0); [split; [reflexivity|exact H]|].
    destruct (m_qos m =? 1); [split; [reflexivity|exact H]|].
    split; [reflexivity|]. cbn [fst]. apply sb_rel_set; exact H.
  - rewrite (H id). destruct (o id) as [m|]; cbn [fst snd]; split; try reflexivity; try exact H.
    apply sb_rel_del; exact H.
Qed.

Theorem refines_gen h ps : forall sb o, sb_rel sb o -> serve_in h sb ps = spec_run h o ps.
Proof.
  induction ps as [|p r IH]; intros sb o H; [reflexivity|].
  cbn [serve_in spec_run]. destruct (step_refines h sb o p H) as [He Hr].
  destruct (serve_in_step h sb p) as [sb' ev]. destruct (spec_step h o p) as [o' ev'].
  cbn [fst snd] in *. subst ev'. f_equal. apply IH; exact Hr.
Qed.

Theorem refines_spec h ps : serve_in h [] ps = spec_run h os_empty ps.
Proof. apply refines_gen. intros id; reflexivity. Qed.

(* ---------- consequences, stated on the event trace ---------- *)

(* projections of a trace *)
Definition hands_q01 (es : list in_event) : list message :=
  flat_map (fun e => match e with Hand m => if m_qos m <=? 1 then [m] else [] | _ => [] end) es.

Definition q1_flow (es : list in_event) : list in_event :=
  filter (fun e => match e with Hand m => m_qos m =? 1 | WPubAck _ => true | _ => false end) es.

Definition q1_expected (ps : list in_pkt) : list in_event :=
  flat_map (fun p => match p with
                     | InPublish m => if m_qos m =? 1 then [Hand m; WPubAck (m_id m)] else []
                     | _ => [] end) ps.

(* inputs whose QoS field is 0, 1 or 2 (the parser produces nothing else) *)
Definition qos_ok (p : in_pkt) : Prop := match p with InPublish m => m_qos m <= 2 | _ => True end.

Lemma hands_q01_app a b : hands_q01 (a ++ b) = hands_q01 a ++ hands_q01 b.
Proof. unfold hands_q01. apply flat_map_app. Qed.

Lemma q1_flow_app a b : q1_flow (a ++ b) = q1_flow a ++ q1_flow b.
Proof. unfold q1_flow. apply filter_app. Qed.

(* what is stored for release is always a QoS 2 message *)
Definition os_q2 (o : open_set) : Prop := forall id m, o id = Some m -> m_qos m = 2.

Lemma os_q2_step h o p : qos_ok p -> os_q2 o -> os_q2 (fst (spec_step h o p)).
Proof.
  intros Hq H. destruct p as [m|id]; cbn [spec_step].
  - destruct (m_qos m =? 0) eqn:E0; [exact H|]. destruct (m_qos m =? 1) eqn:E1; [exact H|].
    cbn [fst]. intros k x. unfold os_set. destruct (k =? m_id m).
    + intros Hx; injection Hx as <-. cbn [qos_ok] in Hq. lia.
    + apply H.
  - destruct (o id) as [m|] eqn:E; cbn [fst]; [|exact H].
    intros k x. unfold os_set. destruct (k =? id); [discriminate|apply H].
Qed.

(* each QoS 0 and QoS 1 PUBLISH is handed over exactly once, in arrival order *)
Theorem q01_exactly_once_in_order ps : forall o, Forall qos_ok ps -> os_q2 o ->
  hands_q01 (spec_run true o ps) = q01_publishes ps.
Proof.
  induction ps as [|p r IH]; intros o Hq Ho; [reflexivity|].
  inversion Hq as [|? ? Hp Hr]; subst.
  cbn [spec_run]. pose proof (os_q2_step true o p Hp Ho) as Ho'.
  destruct (spec_step true o p) as [o' ev] eqn:E. cbn [fst] in Ho'.
  rewrite hands_q01_app, (IH o' Hr Ho'). unfold q01_publishes at 2. cbn [flat_map]. f_equal.
  destruct p as [m|id]; cbn [spec_step] in E.
  - destruct (m_qos m =? 0) eqn:E0.
    + injection E as <- <-. apply N.eqb_eq in E0. cbn. rewrite E0. reflexivity.
    + destruct (m_qos m =? 1) eqn:E1.
      * injection E as <- <-. apply N.eqb_eq in E1. cbn. rewrite E1. reflexivity.
      * injection E as <- <-. cbn [qos_ok] in Hp. cbn.
        assert (m_qos m <=? 1 = false) as -> by lia. reflexivity.
  - destruct (o id) as [m|] eqn:Eo; injection E as <- <-; [|reflexivity].
    cbn. rewrite (Ho id m Eo). reflexivity.
Qed.

(* each QoS 1 PUBLISH: hand-over, then exactly one PUBACK with its identifier; nothing else is
   ever acknowledged with PUBACK *)
Theorem puback_after_hand ps : forall o, Forall qos_ok ps -> os_q2 o ->
  q1_flow (spec_run true o ps) = q1_expected ps.
Proof.
  induction ps as [|p r IH]; intros o Hq Ho; [reflexivity|].
  inversion Hq as [|? ? Hp Hr]; subst.
  cbn [spec_run]. pose proof (os_q2_step true o p Hp Ho) as Ho'.
  destruct (spec_step true o p) as [o' ev] eqn:E. cbn [fst] in Ho'.
  rewrite q1_flow_app, (IH o' Hr Ho'). unfold q1_expected at 2. cbn [flat_map]. f_equal.
  destruct p as [m|id]; cbn [spec_step] in E.
  - destruct (m_qos m =? 0) eqn:E0.
    + injection E as <- <-. apply N.eqb_eq in E0. cbn. rewrite E0. reflexivity.
    + destruct (m_qos m =? 1) eqn:E1.
      * injection E as <- <-. cbn. rewrite E1. reflexivity.
      * injection E as <- <-. reflexivity.
  - destruct (o id) as [m|] eqn:Eo; injection E as <- <-; [|reflexivity].
    cbn. rewrite (Ho id m Eo). reflexivity.
Qed.

(* ---------- QoS 2: one hand-over per exchange ---------- *)

(* per identifier, an exchange is open from a QoS 2 PUBLISH until the next PUBREL with that id;
   [releases] counts the PUBRELs that close an open exchange *)
Fixpoint releases (id : N) (open : bool) (ps : list in_pkt) : nat :=
  match ps with
  | [] => 0
  | InPublish m :: r => if (m_qos m =? 2) && (m_id m =? id) then releases id true r else releases id open r
  | InPubRel k :: r => if k =? id then (if open then S (releases id false r) else releases id false r)
                       else releases id open r
  end.

Definition q2_hands (id : N) (es : list in_event) : nat :=
  length (filter (fun e => match e with Hand m => (m_qos m =? 2) && (m_id m =? id) | _ => false end) es).

Definition pubcomps (id : N) (es : list in_event) : nat :=
  length (filter (fun e => match e with WPubComp k => k =? id | _ => false end) es).

(* stored messages sit under their own identifier *)
Definition os_keyed (o : open_set) : Prop := forall id m, o id = Some m -> m_qos m = 2 /\ m_id m = id.

Lemma os_keyed_step h o p : qos_ok p -> os_keyed o -> os_keyed (fst (spec_step h o p)).
Proof.
  intros Hq H. destruct p as [m|id]; cbn [spec_step].
  - destruct (m_qos m =? 0) eqn:E0; [exact H|]. destruct (m_qos m =? 1) eqn:E1; [exact H|].
    cbn [fst]. intros k x. unfold os_set. destruct (k =? m_id m) eqn:Ek.
    + intros Hx; injection Hx as <-. apply N.eqb_eq in Ek. cbn [qos_ok] in Hq. split; [lia|congruence].
    + apply H.
  - destruct (o id) as [m|] eqn:E; cbn [fst]; [|exact H].
    intros k x. unfold os_set. destruct (k =? id); [discriminate|apply H].
Qed.

Definition is_open (o : open_set) (id : N) : bool := match o id with Some _ => true | None => false end.

Theorem q2_one_hand_per_exchange id ps : forall o, Forall qos_ok ps -> os_keyed o ->
  q2_hands id (spec_run true o ps) = releases id (is_open o id) ps /\
  pubcomps id (spec_run true o ps) = releases id (is_open o id) ps.
Proof.
  induction ps as [|p r IH]; intros o Hq Ho; [split; reflexivity|].
  inversion Hq as [|? ? Hp Hr]; subst.
  cbn [spec_run]. pose proof (os_keyed_step true o p Hp Ho) as Ho'.
  destruct (spec_step true o p) as [o' ev] eqn:E. cbn [fst] in Ho'.
  unfold q2_hands, pubcomps in *. rewrite !filter_app, !app_length.
  destruct (IH o' Hr Ho') as [IH1 IH2]. rewrite IH1, IH2. clear IH IH1 IH2.
  destruct p as [m|k]; cbn [spec_step] in E; cbn [releases].
  - destruct (m_qos m =? 0) eqn:E0.
    { injection E as <- <-. apply N.eqb_eq in E0. cbn. rewrite E0. cbn. split; reflexivity. }
    destruct (m_qos m =? 1) eqn:E1.
    { injection E as <- <-. apply N.eqb_eq in E1. cbn. rewrite E1. cbn. split; reflexivity. }
    injection E as <- <-. cbn [qos_ok] in Hp.
    assert (m_qos m =? 2 = true) as -> by lia. cbn [andb filter length plus].
    unfold is_open, os_set. rewrite (N.eqb_sym id (m_id m)).
    destruct (m_id m =? id); split; reflexivity.
  - destruct (o k) as [m|] eqn:Eo; injection E as <- <-.
    + destruct (Ho k m Eo) as [Hq2 Hid]. cbn [hand app filter].
      rewrite Hq2, Hid. change (2 =? 2) with true. cbn [andb].
      unfold is_open, os_set. rewrite (N.eqb_sym id k).
      destruct (k =? id) eqn:Ek.
      * apply N.eqb_eq in Ek. rewrite <- Ek, Eo. cbn. split; reflexivity.
      * cbn. split; reflexivity.
    + cbn [filter length plus]. unfold is_open.
      destruct (k =? id) eqn:Ek; [|split; reflexivity].
      apply N.eqb_eq in Ek. rewrite <- Ek, Eo. split; reflexivity.
Qed.

(* nothing is handed over for a QoS 2 message while no PUBREL has arrived *)
Theorem q2_no_hand_before_rel ps : forall o, Forall qos_ok ps -> os_q2 o ->
  (forall p, In p ps -> match p with InPubRel _ => False | _ => True end) ->
  forall m, In (Hand m) (spec_run true o ps) -> m_qos m <= 1.
Proof.
  induction ps as [|p r IH]; intros o Hq Ho Hnr m Hin; [destruct Hin|].
  inversion Hq as [|? ? Hp Hr]; subst.
  cbn [spec_run] in Hin. pose proof (os_q2_step true o p Hp Ho) as Ho'.
  destruct (spec_step true o p) as [o' ev] eqn:E. cbn [fst] in Ho'.
  apply in_app_or in Hin as [Hin|Hin].
  - destruct p as [x|id]; [|exfalso; apply (Hnr (InPubRel id)); left; reflexivity].
    cbn [spec_step] in E. destruct (m_qos x =? 0) eqn:E0.
    { injection E as <- <-. destruct Hin as [Hin|[]]. injection Hin as <-. lia. }
    destruct (m_qos x =? 1) eqn:E1.
    { injection E as <- <-. destruct Hin as [Hin|[Hin|[]]]; [|discriminate]. injection Hin as <-. lia. }
    injection E as <- <-. destruct Hin as [Hin|[]]. discriminate.
  - apply (IH o' Hr Ho'); [|exact Hin]. intros q Hq'. apply Hnr. right; exact Hq'.
Qed.

(* every PUBLISH with QoS 2 is answered by PUBREC, and only those are *)
Definition pubrecs (es : list in_event) : list N :=
  flat_map (fun e => match e with WPubRec id => [id] | _ => [] end) es.
Definition q2_ids (ps : list in_pkt) : list N :=
  flat_map (fun p => match p with InPublish m => if m_qos m =? 2 then [m_id m] else [] | _ => [] end) ps.

Theorem pubrec_per_q2_publish h ps : forall o, Forall qos_ok ps -> pubrecs (spec_run h o ps) = q2_ids ps.
Proof.
  induction ps as [|p r IH]; intros o Hq; [reflexivity|].
  inversion Hq as [|? ? Hp Hr]; subst. cbn [spec_run].
  destruct (spec_step h o p) as [o' ev] eqn:E.
  unfold pubrecs. rewrite flat_map_app. fold (pubrecs (spec_run h o' r)). rewrite (IH o' Hr).
  unfold q2_ids at 2. cbn [flat_map]. f_equal.
  destruct p as [m|id]; cbn [spec_step] in E.
  - destruct (m_qos m =? 0) eqn:E0.
    { injection E as <- <-. apply N.eqb_eq in E0. rewrite E0. destruct h; reflexivity. }
    destruct (m_qos m =? 1) eqn:E1.
    { injection E as <- <-. apply N.eqb_eq in E1. rewrite E1. destruct h; reflexivity. }
    injection E as <- <-. cbn [qos_ok] in Hp. assert (m_qos m =? 2 = true) as -> by lia. reflexivity.
  - destruct (o id); injection E as <- <-; destruct h; reflexivity.
Qed.

(* without a registered handler the acknowledgements are exactly the same *)
Theorem no_handler_still_acks ps : forall o,
  filter (fun e => negb (is_hand e)) (spec_run true o ps) = spec_run false o ps.
Proof.
  induction ps as [|p r IH]; intros o; [reflexivity|]. cbn [spec_run].
  assert (fst (spec_step true o p) = fst (spec_step false o p) /\
          filter (fun e => negb (is_hand e)) (snd (spec_step true o p)) = snd (spec_step false o p)) as [H1 H2].
  { destruct p as [m|id]; cbn [spec_step].
    - destruct (m_qos m =? 0); [split; reflexivity|]. destruct (m_qos m =? 1); split; reflexivity.
    - destruct (o id); split; reflexivity. }
  destruct (spec_step true o p) as [o1 e1]. destruct (spec_step false o p) as [o2 e2].
  cbn [fst snd] in *. subst o2 e2. rewrite filter_app, IH. reflexivity.
Qed.

(* ---------- non-vacuity ---------- *)
Definition mk (q id : N) (d : bool) (pl : N) : message :=
  {| m_topic := [116]; m_id := id; m_qos := q; m_retain := false; m_dup := d; m_payload := [pl] |}.

Example ex_q2_dup_and_repeated_release :
  spec_run true os_empty
    [InPublish (mk 2 7 false 1); InPublish (mk 2 7 true 2); InPubRel 7; InPubRel 7; InPublish (mk 1 7 false 3)]
  = [WPubRec 7; WPubRec 7; Hand (mk 2 7 true 2); WPubComp 7; Hand (mk 1 7 false 3); WPubAck 7].
Proof. reflexivity. Qed.

Example ex_releases : releases 7 false
    [InPublish (mk 2 7 false 1); InPublish (mk 2 7 true 2); InPubRel 7; InPubRel 7] = 1%nat.
Proof. reflexivity. Qed.
