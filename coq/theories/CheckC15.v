(* CheckC15.v — executable comparison functions for the generated C15 cases.
   V_* : the property predicate ([c15_prop_ok]: chosen identifiers non-zero, different from every
         outstanding request fewer than 65,535 choices old, caller-provided identifier kept) is
         false on what the implementation did.
   M_* : the model (run_seq / run_conc of Ids.v) does not reproduce what the implementation did. *)
From MQ Require Import Base Ids.
Open Scope N_scope.

Definition req_eqb (a b : req) : bool :=
  match a, b with
  | RPub q g, RPub q' g' => (q =? q') && (g =? g')
  | RSub, RSub => true
  | RUnsub, RUnsub => true
  | _, _ => false
  end.

Definition obs_eqb (a b : obs) : bool :=
  match a, b with
  | OIssue k r id, OIssue k' r' id' => Nat.eqb k k' && req_eqb r r' && (id =? id')
  | OAck j, OAck j' => j =? j'
  | _, _ => false
  end.

(* the predicate proved for every run of the model (props/C15.v: C15_nonzero,
   C15_window_distinct, C15_caller_id_kept) *)
Definition c15_prop_ok (l : list obs) : bool := nonzero_ok l && young_ok l && given_kept l.

(* ---------- family seq: one caller, requests and acknowledgements interleaved ---------- *)
(* (start counter, history, observed, counter value read back afterwards) *)
Definition c15_seq_case := (N * list hev * list obs * N)%type.

Definition c15_seq_model_ok (c : c15_seq_case) : bool :=
  let '(s, h, o, fin) := c in list_eqb obs_eqb (run_seq s h) o && (final_counter s h =? fin).
Definition c15_seq_prop_ok (c : c15_seq_case) : bool :=
  let '(s, h, o, fin) := c in c15_prop_ok o.

Definition c15_seq_violations (cs : list c15_seq_case) : list nat :=
  indices_where (fun c => negb (c15_seq_prop_ok c)) cs.
Definition c15_seq_mismatches (cs : list c15_seq_case) : list nat :=
  indices_where (fun c => negb (c15_seq_model_ok c)) cs.

(* ---------- family conc: several callers in parallel ---------- *)
(* (start counter, programs, schedule, observed in wire order). The real interleaving of the
   atomic increments is not observable; the harness proposes the schedule (callers ordered by the
   position of the identifiers they got): the model run under that schedule must give every caller
   exactly the identifiers it was seen to use. A wrong proposal can only produce a mismatch. *)
Definition c15_conc_case := (N * list (list req) * list label * list obs)%type.

Definition ids_of_caller (k : nat) (l : list obs) : list (req * N) :=
  flat_map (fun o => match o with
                     | OIssue k' r id => if Nat.eqb k k' then [(r, id)] else []
                     | OAck _ => []
                     end) l.
Definition per_caller (n : nat) (l : list obs) : list (list (req * N)) :=
  map (fun k => ids_of_caller k l) (seq 0 n).
Definition rid_eqb (a b : req * N) : bool := req_eqb (fst a) (fst b) && (snd a =? snd b).

Definition c15_conc_model_ok (c : c15_conc_case) : bool :=
  let '(s, progs, sched, wire) := c in
  list_eqb (list_eqb rid_eqb) (per_caller (length progs) (run_conc s progs sched))
                              (per_caller (length progs) wire)
  && list_eqb (list_eqb req_eqb) progs (map (map fst) (per_caller (length progs) wire)).
Definition c15_conc_prop_ok (c : c15_conc_case) : bool :=
  let '(s, progs, sched, wire) := c in c15_prop_ok wire.

Definition c15_conc_violations (cs : list c15_conc_case) : list nat :=
  indices_where (fun c => negb (c15_conc_prop_ok c)) cs.
Definition c15_conc_mismatches (cs : list c15_conc_case) : list nat :=
  indices_where (fun c => negb (c15_conc_model_ok c)) cs.

(* ---------- run-length coding of long identifier lists ---------- *)
(* (first, length): first, first+1, ..., first+length-1 *)
Fixpoint run_list (start : N) (len : nat) : list N :=
  match len with
  | O => []
  | S l => start :: run_list (start + 1) l
  end.
Definition expand_runs (rs : list (N * N)) : list N :=
  flat_map (fun r => run_list (fst r) (N.to_nat (snd r))) rs.

Fixpoint strictly_inc (l : list N) : bool :=
  match l with
  | x :: r => match r with
              | y :: _ => (x <? y) && strictly_inc r
              | [] => true
              end
  | [] => true
  end.

(* the model chooses identifiers in cyclic order; cut at the first descent and swap the halves:
   numerically sorted as long as fewer than 65,535 were chosen *)
Fixpoint split_descent (l : list N) : list N * list N :=
  match l with
  | x :: r => match r with
              | y :: _ => if x <? y then let '(a, b) := split_descent r in (x :: a, b) else ([x], r)
              | [] => ([x], [])
              end
  | [] => ([], [])
  end.
Definition sort_cyclic (l : list N) : list N := let '(a, b) := split_descent l in b ++ a.

(* ---------- family bulk: n requests issued at the same time by n goroutines ---------- *)
(* (start counter, n, all outstanding together?, observed identifiers sorted numerically, as runs,
   counter value read back afterwards) *)
Definition c15_bulk_case := (N * N * bool * list (N * N) * N)%type.

(* n library-numbered requests one after the other: the identifiers [auto_ids (run_seq s h)] and
   the counter afterwards [final_counter s h] for h = n publishes, computed in one pass over the
   same [new_id] (each step costs two 32-bit divisions in Coq) *)
Fixpoint ids_and_final (s : N) (n : nat) : list N * N :=
  match n with
  | O => ([], s)
  | S k => let '(c, id) := new_id s in let '(l, f) := ids_and_final c k in (id :: l, f)
  end.

Lemma ids_and_final_spec n : forall s,
  ids_and_final s n = (auto_ids (run_seq s (repeat (HReq (RPub 1 0)) n)),
                       final_counter s (repeat (HReq (RPub 1 0)) n)).
Proof.
  induction n as [|n IH]; intros s; [reflexivity|].
  cbn [repeat run_seq final_counter ids_and_final]. unfold issue1.
  change (is_auto (RPub 1 0)) with true. cbv iota.
  destruct (new_id s) as [c id]. cbn [auto_ids fst]. change (is_auto (RPub 1 0)) with true. cbv iota.
  rewrite IH. reflexivity.
Qed.

Definition c15_bulk_model_ok (c : c15_bulk_case) : bool :=
  let '(s, n, outst, rs, fin) := c in
  let '(ids, f) := ids_and_final s (N.to_nat n) in
  list_eqb N.eqb (sort_cyclic ids) (expand_runs rs) && (f =? fin).
Definition c15_bulk_prop_ok (c : c15_bulk_case) : bool :=
  let '(s, n, outst, rs, fin) := c in
  let ids := expand_runs rs in
  forallb (fun x => (0 <? x) && (x <? M16)) ids && (negb outst || strictly_inc ids).

Definition c15_bulk_violations (cs : list c15_bulk_case) : list nat :=
  indices_where (fun c => negb (c15_bulk_prop_ok c)) cs.
Definition c15_bulk_mismatches (cs : list c15_bulk_case) : list nat :=
  indices_where (fun c => negb (c15_bulk_model_ok c)) cs.

(* ---------- family cycle: request 0 never acknowledged, requests 1..n acknowledged at once ---------- *)
(* (start counter, n, observed identifiers in issue order, as runs) *)
Definition c15_cycle_case := (N * N * list (N * N))%type.

Fixpoint cycle_obs (ids : list N) (j : N) : list obs :=
  match ids with
  | [] => []
  | id :: r => OIssue 0 (RPub 1 0) id :: OAck j :: cycle_obs r (j + 1)
  end.
Definition cycle_observed (ids : list N) : list obs :=
  match ids with
  | [] => []
  | id0 :: r => OIssue 0 (RPub 1 0) id0 :: cycle_obs r 1
  end.

Definition c15_cycle_model_ok (c : c15_cycle_case) : bool :=
  let '(s, n, rs) := c in
  list_eqb obs_eqb (run_seq s (f13_history n)) (cycle_observed (expand_runs rs)).
(* [young_ok] tolerates exactly the collisions of finding F13 (a request outstanding while 65,535
   or more further identifiers are chosen); any earlier collision is a violation *)
Definition c15_cycle_prop_ok (c : c15_cycle_case) : bool :=
  let '(s, n, rs) := c in c15_prop_ok (cycle_observed (expand_runs rs)).

Definition c15_cycle_violations (cs : list c15_cycle_case) : list nat :=
  indices_where (fun c => negb (c15_cycle_prop_ok c)) cs.
Definition c15_cycle_mismatches (cs : list c15_cycle_case) : list nat :=
  indices_where (fun c => negb (c15_cycle_model_ok c)) cs.

(* ---------- family wrapc: the wrap-around under contention ---------- *)
(* Same case shape as bulk. Thousands of short trials: the expected identifiers come from the closed
   form, which props/C15.v proves to be what EVERY execution of the model chooses
   (C15_closed_form, C15_schedule_independent; issued s = issued (s mod 2^16), issued_low_half),
   so the set is compared without re-running the 32-bit model per trial. The counter read back
   must have the last identifier as its low half (new_id_spec). *)
Definition c15_wrapc_model_ok (c : c15_bulk_case) : bool :=
  let '(s, n, outst, rs, fin) := c in
  let lo := s mod M16 in
  list_eqb N.eqb (sort_cyclic (issued_list lo 0 (N.to_nat n))) (expand_runs rs)
  && (fin mod M16 =? issued lo (n - 1)).

Definition c15_wrapc_violations (cs : list c15_bulk_case) : list nat :=
  indices_where (fun c => negb (c15_bulk_prop_ok c)) cs.
Definition c15_wrapc_mismatches (cs : list c15_bulk_case) : list nat :=
  indices_where (fun c => negb (c15_wrapc_model_ok c)) cs.

(* ---------- family retry: identifiers through RetryClient ---------- *)
(* (operations, observed PUBLISH attempts (connection number, tag, identifier) in order) *)
Definition c15_retry_case := (list xop * list (N * N * N))%type.

Definition wire_view (w : wire) : list (N * N * N) :=
  map (fun x => (fst x, r_tag (snd x), r_id (snd x))) w.
Definition triple_eqb (a b : N * N * N) : bool :=
  (fst (fst a) =? fst (fst b)) && (snd (fst a) =? snd (fst b)) && (snd a =? snd b).

Fixpoint given_of_tag (ops : list xop) (tag : N) : option N :=
  match ops with
  | [] => None
  | XPub t _ g :: rest => if t =? tag then Some g else given_of_tag rest tag
  | XConn _ _ :: rest => given_of_tag rest tag
  end.

Definition c15_retry_model_ok (c : c15_retry_case) : bool :=
  let '(ops, o) := c in list_eqb triple_eqb (wire_view (run_retry ops)) o.
(* [sent_ok] on every observed attempt: non-zero, and the caller's identifier if one was given *)
Definition c15_retry_prop_ok (c : c15_retry_case) : bool :=
  let '(ops, o) := c in
  forallb (fun x => match given_of_tag ops (snd (fst x)) with
                    | Some g => sent_ok (mk_rmsg (snd (fst x)) 1 g (snd x))
                    | None => false
                    end) o.

Definition c15_retry_violations (cs : list c15_retry_case) : list nat :=
  indices_where (fun c => negb (c15_retry_prop_ok c)) cs.
Definition c15_retry_mismatches (cs : list c15_retry_case) : list nat :=
  indices_where (fun c => negb (c15_retry_model_ok c)) cs.

(* ---------- family handle: a retry handle run on another client ---------- *)
(* (counter of client A, the request interrupted on A, counter of client B, B's history before the
   handle runs, observed on B including the retransmission) *)
Definition c15_handle_case := (N * req * N * list hev * list obs)%type.

Definition c15_handle_model_ok (c : c15_handle_case) : bool :=
  let '(a, r, b, hB, o) := c in list_eqb obs_eqb (run_handle_on a r b hB) o.
Definition c15_handle_prop_ok (c : c15_handle_case) : bool :=
  let '(a, r, b, hB, o) := c in c15_prop_ok o.

Definition c15_handle_violations (cs : list c15_handle_case) : list nat :=
  indices_where (fun c => negb (c15_handle_prop_ok c)) cs.
Definition c15_handle_mismatches (cs : list c15_handle_case) : list nat :=
  indices_where (fun c => negb (c15_handle_model_ok c)) cs.
